(* C09/LayoutFlush.v — lemmas: when no text follows a block-bodied expression on its logical line (nc_program) and the
   atoms are clean, every line content of the specification starts with a non-space character: the leading spaces of a
   rendered line are exactly its indentation (level * width). *)
From Coq Require Import ZArith List Bool String Lia.
From Verif Require Import Fmt.Writer C09.Layout C09.LayoutSim C09.LayoutHyg.
Import ListNotations.
Open Scope Z_scope.

Definition flushl (l : line) : Prop := first_okb (snd l) = true.
Definition FAny (s : lst) : Prop :=
  Forall flushl (done s) /\ match cur s with None => True | Some (_, c) => first_okb c = true /\ c <> [] end.
Definition FMid (s : lst) : Prop := FAny s /\ cur s <> None.
Definition FStart (s : lst) : Prop := FAny s /\ cur s = None.

Lemma fmid_any : forall s, FMid s -> FAny s.
Proof. intros s [A _]. exact A. Qed.
Lemma fstart_any : forall s, FStart s -> FAny s.
Proof. intros s [A _]. exact A. Qed.

Lemma first_okb_app : forall a b, a <> [] -> first_okb (a ++ b) = first_okb a.
Proof. intros a b H. destruct a; [congruence|reflexivity]. Qed.

Lemma fmid_lw_mid : forall n t s, FMid s -> FMid (lw n t s).
Proof.
  intros n t s [[D C] N]. unfold lw. destruct t as [|c0 t]; [split; [split|]; assumption|].
  destruct (cur s) as [[m c]|]; [|congruence]. destruct C as [C1 C2].
  split; [split; [exact D|]|discriminate]. cbn [cur]. split; [rewrite first_okb_app; assumption|destruct c; discriminate].
Qed.

Lemma fmid_lw_any : forall n t s, first_okb t = true -> nonemptyb t = true -> FAny s -> FMid (lw n t s).
Proof.
  intros n t s Hf Hn [D C]. unfold lw. destruct t as [|c0 t]; [discriminate|].
  destruct (cur s) as [[m c]|].
  - destruct C as [C1 C2]. split; [split; [exact D|]|discriminate]. cbn [cur].
    split; [rewrite first_okb_app; assumption|destruct c; discriminate].
  - split; [split; [exact D|]|discriminate]. cbn [cur]. split; [exact Hf|discriminate].
Qed.

Lemma fstart_lnl : forall s, FAny s -> FStart (lnl s).
Proof.
  intros s [D C]. unfold lnl. split; [|reflexivity]. split; [|exact I]. cbn [done].
  apply Forall_app. split; [exact D|]. constructor; [|constructor]. unfold flushl.
  destruct (cur s) as [[m c]|]; cbn [snd]; [destruct C; assumption|reflexivity].
Qed.

Lemma fstart_lwln_mid : forall n t s, FMid s -> FStart (lwln n t s).
Proof. intros. unfold lwln, seq. apply fstart_lnl. apply fmid_any. apply fmid_lw_mid. assumption. Qed.

(* a whole line from line start (the text may be empty) *)
Lemma fstart_lwln_start : forall n t s, first_okb t = true -> FStart s -> FStart (lwln n t s).
Proof.
  intros n t s Hf S. unfold lwln, seq. apply fstart_lnl. destruct t as [|c0 t].
  - cbn [lw]. apply fstart_any. exact S.
  - apply fmid_any. apply fmid_lw_any; auto. apply fstart_any. exact S.
Qed.
Lemma fstart_lwln_any : forall n t s, first_okb t = true -> nonemptyb t = true -> FAny s -> FStart (lwln n t s).
Proof. intros. unfold lwln, seq. apply fstart_lnl. apply fmid_any. apply fmid_lw_any; assumption. Qed.

Lemma fany_binding : forall n b s, FAny s -> FAny (sp_binding n b s).
Proof. intros n b s A. destruct b; cbn [sp_binding nop]; try (apply fmid_any; apply fmid_lw_any; auto); exact A. Qed.
Lemma fstart_pass : forall n b s, FStart s -> FStart (sp_pass_if_empty n b s).
Proof. intros n b s S. destruct b; cbn [sp_pass_if_empty nop]; [apply fstart_lwln_start; auto|exact S]. Qed.

(* separated atoms: the first one may start the line *)
Lemma fmid_sep_atoms_mid : forall n sp xs first s, FMid s -> FMid (sep_from (lw n) first sp (lw n) xs s).
Proof.
  intros n sp. induction xs as [|x xs IH]; intros first s M; [exact M|]. cbn [sep_from]. unfold seq.
  apply IH. apply fmid_lw_mid. destruct first; cbn [negb when nop]; [exact M|apply fmid_lw_mid; exact M].
Qed.
Lemma fmid_sep_atoms : forall n sp xs s, forallb cleanb xs = true -> nonemptyb xs = true -> FAny s ->
  FMid (sep_from (lw n) true sp (lw n) xs s).
Proof.
  intros n sp xs s Hx Hn A. destruct xs as [|x xs]; [discriminate|]. cbn [forallb] in Hx. apply andb_prop in Hx. destruct Hx as [Hx _].
  cbn [sep_from negb when nop]. unfold seq, nop. apply fmid_sep_atoms_mid.
  apply fmid_lw_any; [apply clean_first|apply clean_nonempty|]; assumption.
Qed.

Ltac fside :=
  solve [ reflexivity | assumption | apply clean_first; assumption | apply clean_nonempty; assumption
        | match goal with |- _ (cop_text ?o) = true => destruct o; reflexivity end ].

(* the four facts about an expression *)
Definition PA (e : expr) : Prop := pureb e = true -> forall n s, FMid s -> FMid (sp_expr n e s).
Definition PB (e : expr) : Prop := pureb e = true -> forall n s, wf_expr true e = true -> FStart s -> FMid (sp_expr n e s).
Definition PC (e : expr) : Prop := nc_expr e = true -> forall top n s, wf_expr top e = true -> FMid s -> FAny (sp_expr n e s).
Definition PD (e : expr) : Prop := nc_expr e = true -> forall n s, wf_expr true e = true -> FStart s -> FAny (sp_expr n e s).
Definition PX (e : expr) : Prop := PA e /\ PB e /\ PC e /\ PD e.

Ltac fl1 :=
  match goal with
  | H : FStart ?s |- FStart ?s => exact H
  | H : FMid ?s |- FMid ?s => exact H
  | H : FAny ?s |- FAny ?s => exact H
  | H : FStart ?s |- FAny ?s => apply fstart_any; exact H
  | H : FMid ?s |- FAny ?s => apply fmid_any; exact H
  | |- FStart (lnl _) => apply fstart_lnl
  | |- FAny (lnl _) => apply fstart_any; apply fstart_lnl
  | |- FStart (lwln _ _ _) => first [apply fstart_lwln_any; [fside|fside|] | apply fstart_lwln_mid]
  | |- FAny (lwln _ _ _) => apply fstart_any
  | |- FMid (lw _ _ _) => first [apply fmid_lw_any; [fside|fside|] | apply fmid_lw_mid]
  | |- FAny (lw _ _ _) => apply fmid_any
  | |- FAny (nop _) => unfold nop
  | |- FMid (nop _) => unfold nop
  | |- FStart (nop _) => unfold nop
  | |- FAny (sp_binding _ _ _) => apply fany_binding
  | |- FStart (sp_pass_if_empty _ _ _) => apply fstart_pass
  | |- FAny (sp_pass_if_empty _ _ _) => apply fstart_any; apply fstart_pass
  | |- FMid (opt _ ?o _) => destruct o; cbn [opt optb nop] in *; bsplit
  | |- FAny (opt _ ?o _) => destruct o; cbn [opt optb nop] in *; bsplit
  | |- FMid (lsep_by _ _ _ _ _) => unfold lsep_by; apply fmid_sep_atoms; [assumption|assumption|]
  (* expressions *)
  | H : FStart ?s, HB : PB ?e |- FMid (sp_expr _ ?e ?s) => apply HB; [assumption|assumption|exact H]
  | HA : PA ?e |- FMid (sp_expr _ ?e _) => apply HA; [assumption|]
  | Hp : pureb ?e = true |- FAny (sp_expr _ ?e _) => apply fmid_any
  | HD : PD ?e |- FAny (sp_expr _ ?e (lwln _ _ _)) => apply HD; [assumption|assumption|]
  | HD : PD ?e |- FAny (sp_expr _ ?e (lnl _)) => apply HD; [assumption|assumption|]
  | H : FStart ?s, HD : PD ?e |- FAny (sp_expr _ ?e ?s) => apply HD; [assumption|assumption|exact H]
  | HC : PC ?e |- FAny (sp_expr _ ?e _) => eapply HC; [assumption|eassumption|]
  (* statements, blocks, arms: FStart -> FStart *)
  | H : ?nc ?x = true -> ?wf ?x = true -> forall n s, FStart s -> FStart (?f n ?x s) |- FStart (?f _ ?x _) => apply H; [assumption|assumption|]
  | H : ?nc ?x = true -> ?wf ?x = true -> forall n s, FStart s -> FStart (?f n ?x s) |- FAny (?f _ ?x _) => apply fstart_any; apply H; [assumption|assumption|]
  end.

Ltac px := repeat match goal with H : PX _ |- _ => destruct H as (? & ? & ? & ?) end.
Ltac flgo :=
  intros; px;
  cbn [sp_expr sp_arms sp_arm sp_block sp_stmt sp_elifs sp_oblock sp_exprs
       wf_expr wf_arms wf_arm wf_block wf_stmt wf_elifs wf_oblock wf_exprs
       nc_expr nc_arms nc_arm nc_block nc_stmt nc_elifs nc_oblock pure_exprs pureb] in *;
  fold sp_expr sp_arms sp_arm sp_block sp_stmt sp_elifs sp_oblock sp_exprs in *;
  fold wf_expr wf_arms wf_arm wf_block wf_stmt wf_elifs wf_oblock wf_exprs in *;
  fold nc_expr nc_arms nc_arm nc_block nc_stmt nc_elifs nc_oblock pure_exprs pureb in *;
  bsplit; unfold seq; repeat fl1.

Lemma is_xnil_eq : forall r, is_xnil r = true -> r = XNil.
Proof. intros r H. destruct r; try discriminate. reflexivity. Qed.

Lemma rest_fany : forall r (fb : bool), PC r -> nc_expr r = true ->
  match r with XNil => fb | _ => wf_expr false r end = true -> forall n s, FMid s -> FAny (sp_expr n r s).
Proof.
  intros r fb HC Hn Hw n s M. destruct r; [cbn [sp_expr nop]; apply fmid_any; exact M| | | |]; (eapply HC; [exact Hn|exact Hw|exact M]).
Qed.

Ltac xprep :=
  cbn [sp_expr wf_expr nc_expr pureb] in *;
  fold sp_expr sp_arms sp_block in *; fold wf_expr wf_arms wf_block in *; fold nc_expr nc_arms nc_block pureb in *;
  bsplit; unfold seq.

Ltac px4 := unfold PX; split; [|split; [|split]]; [unfold PA | unfold PB | unfold PC | unfold PD].

Theorem flush_skel :
  (forall e, PX e) /\
  (forall a, nc_arms a = true -> wf_arms a = true -> forall n s, FStart s -> FStart (sp_arms n a s)) /\
  (forall x, nc_arm x = true -> wf_arm x = true -> forall n s, FStart s -> FStart (sp_arm n x s)) /\
  (forall b, nc_block b = true -> wf_block b = true -> forall n s, FStart s -> FStart (sp_block n b s)) /\
  (forall t, nc_stmt t = true -> wf_stmt t = true -> forall n s, FStart s -> FStart (sp_stmt n t s)) /\
  (forall l, nc_elifs l = true -> wf_elifs l = true -> forall n s, FStart s -> FStart (sp_elifs n l s)) /\
  (forall o, nc_oblock o = true -> wf_oblock o = true -> forall n s, FStart s -> FStart (sp_oblock n o s)) /\
  (forall es, pure_exprs es = true -> wf_exprs es = true ->
     (forall n first s, FMid s -> FMid (sp_exprs n first es s)) /\
     (match es with ENil => false | _ => true end = true -> forall n s, FStart s -> FMid (sp_exprs n true es s))).
Proof.
  apply skel_mutind.
  all: try solve [flgo].
  - (* XNil *) px4; intros; try discriminate. assumption.
  - (* XText *) intros t r (RA & RB & RC & RD). px4.
    + intros Hp n s M. xprep. apply RA; [assumption|]. apply fmid_lw_mid. exact M.
    + intros Hp n s Hw S. xprep. apply RA; [assumption|]. apply fmid_lw_any; [assumption|assumption|]. apply fstart_any; exact S.
    + intros Hn top n s Hw M. xprep. eapply rest_fany; [exact RC|assumption|eassumption|]. apply fmid_lw_mid. exact M.
    + intros Hn n s Hw S. xprep. eapply rest_fany; [exact RC|assumption|eassumption|].
      apply fmid_lw_any; [assumption|assumption|]. apply fstart_any; exact S.
  - (* XMatch *) intros sc (SA & SB & SC & SD) a IHa r _. px4; try (intros; discriminate).
    + intros Hn top n s Hw M. xprep. match goal with H : is_xnil r = true |- _ => apply is_xnil_eq in H; subst r end.
      cbn [sp_expr nop]. unfold nop. repeat fl1.
    + intros Hn n s Hw S. xprep. match goal with H : is_xnil r = true |- _ => apply is_xnil_eq in H; subst r end.
      cbn [sp_expr nop]. unfold nop. repeat fl1.
  - (* XIf *) intros c (SA & SB & SC & SD) t IHt r _. px4; try (intros; discriminate).
    + intros Hn top n s Hw M. xprep. match goal with H : is_xnil r = true |- _ => apply is_xnil_eq in H; subst r end.
      cbn [sp_expr nop]. unfold nop. repeat fl1.
    + intros Hn n s Hw S. xprep. match goal with H : is_xnil r = true |- _ => apply is_xnil_eq in H; subst r end.
      cbn [sp_expr nop]. unfold nop. repeat fl1.
  - (* XIfElse *) intros c (SA & SB & SC & SD) t IHt e IHe r _. px4; try (intros; discriminate).
    + intros Hn top n s Hw M. xprep. match goal with H : is_xnil r = true |- _ => apply is_xnil_eq in H; subst r end.
      cbn [sp_expr nop]. unfold nop. repeat fl1.
    + intros Hn n s Hw S. xprep. match goal with H : is_xnil r = true |- _ => apply is_xnil_eq in H; subst r end.
      cbn [sp_expr nop]. unfold nop. repeat fl1.
  - (* STupleAssign *) intros targets IHt v (VA & VB & VC & VD) Hn Hw n s S.
    cbn [nc_stmt wf_stmt sp_stmt] in *. bsplit. destruct (IHt ltac:(assumption) ltac:(assumption)) as [_ I2].
    unfold seq. repeat fl1. apply I2; assumption.
  - (* ENil *) intros _ _. split; intros; [exact H|discriminate].
  - (* ECons *) intros e (EA & EB & EC & ED) r IHr Hp Hw. cbn [pure_exprs wf_exprs] in *. bsplit.
    destruct (IHr ltac:(assumption) ltac:(assumption)) as [I1 _]. split.
    + intros n first s M. cbn [sp_exprs]. unfold seq. apply I1. apply EA; [assumption|].
      destruct first; cbn [negb when nop]; [exact M|apply fmid_lw_mid; exact M].
    + intros _ n s S. cbn [sp_exprs negb when nop]. unfold seq, nop. apply I1. apply EB; assumption.
Qed.

(* ================================================================== declarations *)
Lemma px_all : forall e, PX e.
Proof. exact (proj1 flush_skel). Qed.
Lemma fl_block : forall b, nc_block b = true -> wf_block b = true -> forall n s, FStart s -> FStart (sp_block n b s).
Proof. exact (proj1 (proj2 (proj2 (proj2 flush_skel)))). Qed.
Lemma fl_pure_mid : forall e n s, pureb e = true -> FMid s -> FMid (sp_expr n e s).
Proof. intros e n s Hp M. destruct (px_all e) as (A & _). apply A; assumption. Qed.
Lemma fl_value_mid : forall e top n s, nc_expr e = true -> wf_expr top e = true -> FMid s -> FAny (sp_expr n e s).
Proof. intros e top n s Hn Hw M. destruct (px_all e) as (_ & _ & C & _). eapply C; eassumption. Qed.

Lemma fmid_sep : forall A (P : A -> bool) n (g : A -> lact) sp,
  (forall a s, P a = true -> FMid s -> FMid (g a s)) ->
  forall xs first s, forallb P xs = true -> FMid s -> FMid (sep_from (lw n) first sp g xs s).
Proof.
  intros A P n g sp Hg. induction xs as [|x xs IH]; intros first s Hx M; [exact M|].
  cbn [forallb] in Hx. apply andb_prop in Hx. destruct Hx as [Hx1 Hx2]. cbn [sep_from]. unfold seq.
  apply IH; auto. apply Hg; auto. destruct first; cbn [negb when nop]; [exact M|apply fmid_lw_mid; exact M].
Qed.
Lemma fmid_each : forall A (P : A -> bool) (g : A -> lact),
  (forall a s, P a = true -> FMid s -> FMid (g a s)) -> forall xs s, forallb P xs = true -> FMid s -> FMid (each g xs s).
Proof.
  intros A P g Hg. induction xs as [|x xs IH]; intros s Hx M; [exact M|].
  cbn [forallb] in Hx. apply andb_prop in Hx. destruct Hx as [Hx1 Hx2]. cbn [each]. unfold seq. apply IH; auto.
Qed.
Lemma fstart_each : forall A (P : A -> bool) (g : A -> lact),
  (forall a s, P a = true -> FStart s -> FStart (g a s)) -> forall xs s, forallb P xs = true -> FStart s -> FStart (each g xs s).
Proof.
  intros A P g Hg. induction xs as [|x xs IH]; intros s Hx M; [exact M|].
  cbn [forallb] in Hx. apply andb_prop in Hx. destruct Hx as [Hx1 Hx2]. cbn [each]. unfold seq. apply IH; auto.
Qed.
Lemma forallb_and : forall A (P Q : A -> bool) xs, forallb P xs = true -> forallb Q xs = true -> forallb (fun a => P a && Q a) xs = true.
Proof.
  induction xs as [|x xs IH]; intros H1 H2; [reflexivity|]. cbn [forallb] in *. apply andb_prop in H1, H2.
  destruct H1, H2. rewrite IH by assumption. rewrite H, H1. reflexivity.
Qed.
Lemma forallb_true : forall A xs, forallb (fun _ : A => true) xs = true.
Proof. induction xs; [reflexivity|exact IHxs]. Qed.

Lemma fmid_atoms_list : forall n (o sp c : text) xs s, FMid s ->
  FMid (match xs with [] => nop | _ => lw n o >> lsep_by n sp (lw n) xs >> lw n c end s).
Proof.
  intros n o sp c xs s M. destruct xs as [|x xs]; [exact M|]. unfold seq, lsep_by. apply fmid_lw_mid.
  apply fmid_sep_atoms_mid. apply fmid_lw_mid. exact M.
Qed.
Lemma fany_vis : forall n b s, FAny s -> FAny (sp_vis n b s).
Proof. intros n b s A. destruct b; cbn [sp_vis when nop]; [apply fmid_any; apply fmid_lw_any; auto|exact A]. Qed.
Lemma fmid_type_params : forall n l s, FMid s -> FMid (sp_type_params n l s).
Proof. intros. unfold sp_type_params. apply fmid_atoms_list. assumption. Qed.
Lemma fmid_traits : forall n l s, FMid s -> FMid (sp_traits n l s).
Proof.
  intros n l s M. unfold sp_traits. destruct l as [|x xs]; [exact M|]. unfold seq, lsep_by. apply fmid_sep_atoms_mid. apply fmid_lw_mid. exact M.
Qed.
Lemma fmid_darg : forall n a s, nc_darg a = true -> FMid s -> FMid (sp_darg n a s).
Proof.
  intros n a s H M. destruct a; cbn [nc_darg sp_darg] in *; unfold seq.
  - apply fl_pure_mid; assumption.
  - repeat first [exact M | apply fmid_lw_mid].
  - apply fl_pure_mid; [assumption|]. repeat first [exact M | apply fmid_lw_mid].
Qed.
Lemma fstart_decorator : forall n d s, nc_decorator d = true -> wf_decorator d = true -> FStart s -> FStart (sp_decorator n d s).
Proof.
  intros n d s Hn Hw S. unfold nc_decorator in Hn. unfold wf_decorator in Hw. bsplit. unfold sp_decorator, seq. apply fstart_lnl. apply fmid_any.
  assert (M : FMid (lw n (dec_name d) (lw n (T "@") s))).
  { apply fmid_lw_mid. apply fmid_lw_any; [reflexivity|reflexivity|]. apply fstart_any; exact S. }
  destruct (dec_args d) as [|a l]; [exact M|]. unfold seq, lsep_by. apply fmid_lw_mid.
  apply fmid_sep with (P := nc_darg); [intros; apply fmid_darg; assumption|assumption|]. apply fmid_lw_mid. exact M.
Qed.
Lemma fmid_param : forall n p s, nc_param p = true -> FMid s -> FMid (sp_param n p s).
Proof.
  intros n p s Hn M. unfold nc_param in Hn. unfold sp_param, seq.
  assert (M1 : FMid (lw n (p_ty p) (lw n (T ": ") (lw n (p_name p) (when (p_mut p) (lw n (T "mut ")) s))))).
  { repeat apply fmid_lw_mid. destruct (p_mut p); cbn [when nop]; [apply fmid_lw_mid|]; exact M. }
  destruct (p_default p); cbn [opt optb nop] in *; [|exact M1]. unfold seq. apply fl_pure_mid; [assumption|]. apply fmid_lw_mid. exact M1.
Qed.
Lemma fmid_params : forall n ps s, forallb nc_param ps = true -> FMid s -> FMid (sp_params n ps s).
Proof. intros. unfold sp_params, lsep_by. apply fmid_sep with (P := nc_param); auto. intros; apply fmid_param; assumption. Qed.
Lemma fstart_field : forall n f s, nc_field f = true -> wf_field f = true -> FStart s -> FStart (sp_field n f s).
Proof.
  intros n f s Hn Hw S. unfold nc_field in Hn. unfold wf_field in Hw. bsplit. unfold sp_field, seq. apply fstart_lnl.
  assert (M1 : FMid (lw n (f_ty f) (lw n (T ": ") (lw n (f_name f) (sp_vis n (f_pub f) s))))).
  { do 2 apply fmid_lw_mid. apply fmid_lw_any; [apply clean_first; assumption|apply clean_nonempty; assumption|]. apply fany_vis. apply fstart_any; exact S. }
  destruct (f_default f); cbn [opt optb nop] in *; [|apply fmid_any; exact M1]. unfold seq.
  eapply fl_value_mid; [assumption|eassumption|]. apply fmid_lw_mid. exact M1.
Qed.
Lemma fstart_body : forall n b s, nc_block b = true -> wf_block b = true -> FStart s -> FStart (sp_body n b s).
Proof. intros n b s Hn Hw S. destruct b; [cbn [sp_body]; apply fstart_lwln_start; auto|]. unfold sp_body. apply fl_block; assumption. Qed.
Lemma fstart_decorators : forall n ds s, forallb nc_decorator ds = true -> forallb wf_decorator ds = true -> FStart s ->
  FStart (each (sp_decorator n) ds s).
Proof.
  intros n ds s Hn Hw S. apply fstart_each with (P := fun d => nc_decorator d && wf_decorator d).
  - intros a s0 Hq S0. apply andb_prop in Hq. destruct Hq. apply fstart_decorator; assumption.
  - apply forallb_and; assumption.
  - exact S.
Qed.
Lemma fstart_method : forall n m s, nc_method m = true -> wf_method m = true -> FStart s -> FStart (sp_method n m s).
Proof.
  intros n m s Hn Hw S. unfold nc_method in Hn. unfold wf_method in Hw. bsplit. unfold sp_method, seq.
  assert (M : FMid (lw n (m_ret m) (lw n (T ") -> ") (sp_params n (m_params m)
     (when ((match m_recv m with RNone => false | _ => true end) && negb (is_nil (m_params m))) (lw n (T ", "))
       ((match m_recv m with RNone => nop | RImm => lw n (T "self") | RMut => lw n (T "mut self") end)
         (lw n (T "(") (lw n (m_name m) (lw n (T "def ") (when (m_async m) (lw n (T "async ")) (each (sp_decorator n) (m_decs m) s))))))))))).
  { repeat apply fmid_lw_mid. apply fmid_params; [assumption|].
    match goal with |- FMid (when ?b _ _) => destruct b; cbn [when nop] end; [apply fmid_lw_mid|];
    (destruct (m_recv m); unfold nop; [|apply fmid_lw_mid|apply fmid_lw_mid]; do 2 apply fmid_lw_mid;
     (apply fmid_lw_any; [reflexivity|reflexivity|]); (destruct (m_async m); cbn [when nop]; [apply fmid_any; apply fmid_lw_any; [reflexivity|reflexivity|]|]);
     apply fstart_any; apply fstart_decorators; assumption). }
  destruct (m_body m) as [b|]; cbn [optb] in *.
  - apply fstart_body; [assumption|assumption|]. apply fstart_lwln_mid. exact M.
  - apply fstart_lwln_mid. exact M.
Qed.
Lemma fstart_methods : forall n ms blank s, forallb nc_method ms = true -> forallb wf_method ms = true -> FStart s ->
  FStart (sp_methods n blank ms s).
Proof.
  induction ms as [|m ms IH]; intros blank s Hn Hw S; [exact S|]. cbn [forallb] in *. bsplit.
  cbn [sp_methods]. unfold seq. apply IH; [assumption|assumption|]. apply fstart_method; [assumption|assumption|].
  destruct blank; cbn [when nop]; [apply fstart_lnl; apply fstart_any|]; exact S.
Qed.

Lemma fmid_repeat : forall n t k s, FMid s -> FMid (repeat_act k (lw n t) s).
Proof. induction k as [|k IH]; intros s M; [exact M|]. cbn [repeat_act]. unfold seq. apply IH. apply fmid_lw_mid. exact M. Qed.
Lemma fmid_ipath : forall n p s, FMid s -> FMid (sp_ipath n p s).
Proof.
  intros n p s M. unfold sp_ipath, seq, lsep_by. apply fmid_sep_atoms_mid. destruct (ip_abs p).
  - unfold seq. destruct (negb (is_nil (ip_segs p))); cbn [when nop]; repeat first [exact M | apply fmid_lw_mid].
  - apply fmid_repeat. exact M.
Qed.
Lemma fmid_iitem : forall n i s, FMid s -> FMid (sp_iitem n i s).
Proof. intros n i s M. unfold sp_iitem, seq. destruct (ii_alias i); cbn [opt nop]; unfold seq; repeat first [exact M | apply fmid_lw_mid]. Qed.
Lemma fmid_alias : forall n a s, FMid s -> FMid (sp_alias n a s).
Proof. intros n a s M. unfold sp_alias. destruct a; cbn [opt nop]; unfold seq; repeat first [exact M | apply fmid_lw_mid]. Qed.
Lemma fmid_items : forall n items s, FMid s -> FMid (lsep_by n (T ", ") (sp_iitem n) items s).
Proof.
  intros. unfold lsep_by. apply fmid_sep with (P := fun _ => true); [intros; apply fmid_iitem; assumption|apply forallb_true|assumption].
Qed.
Lemma fstart_import : forall n k a s, FStart s -> FStart (sp_import n k a s).
Proof.
  intros n k a s S. assert (A := fstart_any s S).
  destruct k; unfold sp_import, seq; apply fstart_lnl; apply fmid_any.
  - apply fmid_alias. apply fmid_ipath. apply fmid_lw_any; auto.
  - apply fmid_items. apply fmid_lw_mid. apply fmid_ipath. apply fmid_lw_any; auto.
  - apply fmid_alias. do 2 apply fmid_lw_mid. apply fmid_lw_any; auto.
  - apply fmid_alias. apply fmid_each with (P := fun _ => true); [|apply forallb_true|].
    + intros x s0 _ M. unfold seq. repeat first [exact M | apply fmid_lw_mid].
    + apply fmid_lw_mid. apply fmid_lw_any; auto.
  - apply fmid_items. apply fmid_lw_mid. apply fmid_each with (P := fun _ => true); [|apply forallb_true|].
    + intros x s0 _ M. unfold seq. repeat first [exact M | apply fmid_lw_mid].
    + apply fmid_lw_mid. apply fmid_lw_any; auto.
Qed.
Lemma fstart_variant : forall n v s, wf_variant v = true -> FStart s -> FStart (sp_variant n v s).
Proof.
  intros n v s H S. unfold wf_variant in H. bsplit. unfold sp_variant, seq. apply fstart_lnl. apply fmid_any.
  apply fmid_atoms_list. apply fmid_lw_any; [apply clean_first; assumption|apply clean_nonempty; assumption|]. apply fstart_any; exact S.
Qed.

(* ---- docstrings *)
Lemma first_okb_prefix : forall a b, first_okb (a ++ b) = true -> first_okb a = true.
Proof. intros a b H. destruct a; [reflexivity|exact H]. Qed.

Lemma str_lines_flush : forall t cr, first_okb (rev cr ++ t) = true -> doc_flushb t = true ->
  Forall (fun l => first_okb l = true) (str_lines_from cr t).
Proof.
  induction t as [|c r IH]; intros cr Hf Hd.
  - cbn [str_lines_from]. destruct cr as [|d x]; [constructor|]. constructor; [|constructor]. rewrite app_nil_r in Hf. exact Hf.
  - cbn [str_lines_from]. cbn [doc_flushb] in Hd. apply andb_prop in Hd. destruct Hd as [Hd1 Hd2]. destruct (c =? 10) eqn:E.
    + constructor.
      * apply first_okb_prefix in Hf. destruct cr as [|d x]; [reflexivity|]. destruct (d =? 13); [|exact Hf].
        cbn [rev] in Hf. apply first_okb_prefix in Hf. exact Hf.
      * apply IH; [exact Hd1|exact Hd2].
    + apply IH; [|exact Hd2]. cbn [rev]. rewrite <- app_assoc. exact Hf.
Qed.

Lemma fstart_docstring : forall n t s, first_okb t = true -> doc_flushb t = true -> FStart s -> FStart (sp_docstring n t s).
Proof.
  intros n t s Hf Hd S. assert (A := fstart_any s S). unfold sp_docstring. destruct t as [|c t]; [apply fstart_lwln_start; auto|].
  destruct (existsb (Z.eqb 10) (c :: t)); unfold seq.
  - apply fstart_lwln_start; [reflexivity|].
    assert (L : Forall (fun l => first_okb l = true) (str_lines (c :: t))) by (apply str_lines_flush; assumption).
    assert (G : forall ls s0, Forall (fun l => first_okb l = true) ls -> FStart s0 -> FStart (each (lwln n) ls s0)).
    { induction ls as [|l ls IH]; intros s0 F S1; [exact S1|]. inversion F; subst. cbn [each]. unfold seq. apply IH; [assumption|].
      apply fstart_lwln_start; assumption. }
    apply G; [exact L|]. apply fstart_lwln_start; [reflexivity|exact S].
  - apply fstart_lwln_mid. assert (M0 : FMid (lw n (T """""""") s)) by (apply fmid_lw_any; auto).
    destruct (strip_suffix_quote (c :: t)); unfold seq; repeat first [exact M0 | apply fmid_lw_mid].
Qed.

Lemma fstart_decl : forall d s, nc_decl d = true -> wf_decl d = true -> FStart s -> FStart (sp_decl d s).
Proof.
  intros d s Hn Hw S. assert (A := fstart_any s S). destruct d; cbn [nc_decl wf_decl sp_decl] in *; bsplit; unfold seq.
  - apply fstart_import. exact S.
  - (* const *) apply fstart_lnl. eapply fl_value_mid; [assumption|eassumption|]. apply fmid_lw_mid.
    assert (M : FMid (lw 0 name (lw 0 (T "const ") (sp_vis 0 pub s)))).
    { apply fmid_lw_mid. apply fmid_lw_any; [reflexivity|reflexivity|]. apply fany_vis. exact A. }
    destruct ty; cbn [opt nop]; unfold seq; repeat first [exact M | apply fmid_lw_mid].
  - (* model *)
    assert (H0' : FStart (lwln 0 (T ":") (sp_traits 0 traits (sp_type_params 0 tps (lw 0 name (lw 0 (T "model ") (sp_vis 0 pub (each (sp_decorator 0) decs s)))))))).
    { apply fstart_lwln_mid. apply fmid_traits. apply fmid_type_params. apply fmid_lw_mid. apply fmid_lw_any; [reflexivity|reflexivity|].
      apply fany_vis. apply fstart_any. apply fstart_decorators; assumption. }
    assert (H1' : FStart (sp_methods 1 (negb (is_nil fields)) methods (each (sp_field 1) fields
        (lwln 0 (T ":") (sp_traits 0 traits (sp_type_params 0 tps (lw 0 name (lw 0 (T "model ") (sp_vis 0 pub (each (sp_decorator 0) decs s)))))))))).
    { apply fstart_methods; [assumption|assumption|]. apply fstart_each with (P := fun f => nc_field f && wf_field f).
      - intros f s0 Hq S0. apply andb_prop in Hq. destruct Hq. apply fstart_field; assumption.
      - apply forallb_and; assumption.
      - exact H0'. }
    match goal with |- FStart (when ?b _ _) => destruct b; cbn [when nop] end; [apply fstart_lwln_start; [reflexivity|]|]; exact H1'.
  - (* class *)
    assert (H0' : FStart (lwln 0 (T ":") (sp_traits 0 traits (opt (fun b => lw 0 (T " extends ") >> lw 0 b) extends
         (sp_type_params 0 tps (lw 0 name (lw 0 (T "class ") (sp_vis 0 pub (each (sp_decorator 0) decs s))))))))).
    { apply fstart_lwln_mid. apply fmid_traits.
      assert (M : FMid (sp_type_params 0 tps (lw 0 name (lw 0 (T "class ") (sp_vis 0 pub (each (sp_decorator 0) decs s)))))).
      { apply fmid_type_params. apply fmid_lw_mid. apply fmid_lw_any; [reflexivity|reflexivity|].
        apply fany_vis. apply fstart_any. apply fstart_decorators; assumption. }
      destruct extends; cbn [opt nop]; unfold seq; repeat first [exact M | apply fmid_lw_mid]. }
    match goal with |- FStart (when ?b _ _) => destruct b; cbn [when nop] end; [apply fstart_lwln_start; [reflexivity|]|];
    (apply fstart_methods; [assumption|assumption|]; apply fstart_each with (P := fun f => nc_field f && wf_field f);
     [intros f s0 Hq S0; apply andb_prop in Hq; destruct Hq; apply fstart_field; assumption|apply forallb_and; assumption|exact H0']).
  - (* trait *)
    assert (H0' : FStart (lwln 0 (T ":") (sp_type_params 0 tps (lw 0 name (lw 0 (T "trait ") (sp_vis 0 pub (each (sp_decorator 0) decs s))))))).
    { apply fstart_lwln_mid. apply fmid_type_params. apply fmid_lw_mid. apply fmid_lw_any; [reflexivity|reflexivity|].
      apply fany_vis. apply fstart_any. apply fstart_decorators; assumption. }
    match goal with |- FStart (when ?b _ _) => destruct b; cbn [when nop] end; [apply fstart_lwln_start; [reflexivity|]|];
    (apply fstart_methods; [assumption|assumption|exact H0']).
  - (* newtype *)
    assert (M : FMid (lw 0 underlying (lw 0 (T " = newtype ") (lw 0 name (lw 0 (T "type ") (sp_vis 0 pub s)))))).
    { do 3 apply fmid_lw_mid. apply fmid_lw_any; [reflexivity|reflexivity|]. apply fany_vis. exact A. }
    destruct (negb (is_nil methods)); cbn [when nop]; unfold seq.
    + apply fstart_each with (P := fun m => nc_method m && wf_method m).
      * intros m s0 Hq S0. apply andb_prop in Hq. destruct Hq. unfold seq. apply fstart_method; [assumption|assumption|].
        apply fstart_lnl. apply fstart_any. exact S0.
      * apply forallb_and; assumption.
      * apply fstart_lnl. apply fmid_any. apply fmid_lw_mid. exact M.
    + apply fstart_lnl. apply fmid_any. exact M.
  - (* enum *)
    assert (H0' : FStart (lwln 0 (T ":") (sp_type_params 0 tps (lw 0 name (lw 0 (T "enum ") (sp_vis 0 pub s)))))).
    { apply fstart_lwln_mid. apply fmid_type_params. apply fmid_lw_mid. apply fmid_lw_any; [reflexivity|reflexivity|]. apply fany_vis. exact A. }
    match goal with |- FStart (when ?b _ _) => destruct b; cbn [when nop] end; [apply fstart_lwln_start; [reflexivity|]|];
    (apply fstart_each with (P := wf_variant); [intros; apply fstart_variant; assumption|assumption|exact H0']).
  - (* function *)
    apply fstart_body; [assumption|assumption|]. apply fstart_lwln_mid. repeat apply fmid_lw_mid. apply fmid_params; [assumption|].
    apply fmid_lw_mid. apply fmid_type_params. apply fmid_lw_mid. apply fmid_lw_any; [reflexivity|reflexivity|].
    destruct async; cbn [when nop]; [apply fmid_any; apply fmid_lw_any; [reflexivity|reflexivity|]|];
    (apply fany_vis; apply fstart_any; apply fstart_decorators; assumption).
  - apply fstart_docstring; assumption.
Qed.

Lemma fstart_decls : forall ds first prev s, forallb nc_decl ds = true -> forallb wf_decl ds = true -> FStart s ->
  FStart (sp_decls first prev ds s).
Proof.
  induction ds as [|d ds IH]; intros first prev s Hn Hw S; [exact S|]. cbn [forallb] in *. bsplit.
  cbn [sp_decls]. unfold seq. apply IH; [assumption|assumption|]. apply fstart_decl; [assumption|assumption|].
  destruct first; cbn [negb when nop]; [exact S|]. destruct prev; unfold seq; repeat (apply fstart_lnl; apply fstart_any); exact S.
Qed.

Theorem lines_flush : forall p, wf_program p = true -> nc_program p = true -> Forall flushl (lines p).
Proof.
  intros p Hw Hn. unfold lines.
  assert (S0 : FStart l_new) by (split; [split; [constructor|exact I]|reflexivity]).
  apply (fstart_decls p true false l_new Hn Hw S0).
Qed.
