(* C19/Props.v — the property theorems for C19, and nothing else.
   Model: C19/Model.v (hand model of src/lsp/diagnostics.rs offset_to_position / position_to_offset /
   span_to_range and crates/incan_syntax/src/diagnostics.rs get_line_info + format_error's caret
   arithmetic), tied to the real code by the correspondence run of checks/c19.py.
   Documents are arbitrary lists of scalar values (ASCII, multi-byte, astral, LF, CRLF, lone CR,
   empty lines, empty document); offsets and positions are arbitrary unless a hypothesis says so. *)
From Verif Require Import Base.I64 Base.Text C19.Model C19.Proofs C19.ProofsLine C19.ProofsMachine.
Open Scope Z_scope.

(* hypotheses are satisfiable by non-trivial values: "aé\n😀" has boundaries 0 1 3 4 8, 2 is inside é *)
Example C19_nonvacuous :
  let d := [97; 233; 10; 128512] in
  boundary d 3 /\ boundary d 8 /\ o2p d 3 = (0, 2) /\ o2p d 2 = (0, 2) /\ o2p d 8 = (1, 1) /\
  p2o d (1, 1) = Some 8 /\ p2o d (0, 9) = Some 3 /\ p2o d (1, 2) = None /\
  Z.of_nat (length d) < 2 ^ 32 /\ text_blen d < 2 ^ 64 - 1 /\
  Known_C19_astral_before d 3 = false /\
  Known_C19_astral_before d 8 = true /\
  span_to_range_m Trap d 9 2 = Val ((1, 1), (1, 1)) /\
  caret_m Trap d 1 3 = Val (1, 2, [97; 233], 1, 2).
Proof.
  cbv zeta. split; [exists [97; 233], [10; 128512]; split; reflexivity|].
  split; [exists [97; 233; 10; 128512], []; split; reflexivity|].
  repeat split; try reflexivity; vm_compute; reflexivity.
Qed.

(* T1  round trip: a character-boundary offset survives offset -> position -> offset *)
Theorem C19_roundtrip : forall d o, boundary d o -> p2o d (o2p d o) = Some o.
Proof. exact p2o_roundtrip. Qed.
Print Assumptions C19_roundtrip.

(* T2  positions are strictly monotone in boundary offsets ... *)
Theorem C19_monotone : forall d o1 o2,
  boundary d o1 -> boundary d o2 -> o1 < o2 -> pos_lt (o2p d o1) (o2p d o2).
Proof. exact o2p_mono_strict. Qed.
Print Assumptions C19_monotone.

(* ... and weakly monotone in ALL offsets (mid-scalar, past the end, negative) *)
Theorem C19_monotone_all_offsets : forall d o1 o2, o1 <= o2 -> pos_le (o2p d o1) (o2p d o2).
Proof. exact o2p_mono_weak. Qed.
Print Assumptions C19_monotone_all_offsets.

(* T3  line = number of newlines, character = number of scalars after the last newline, counted in
       the scalars that start before the offset ([cover]); for a boundary offset the cover is THE
       prefix of that many bytes; offsets past the end behave like the end *)
Theorem C19_agrees_with_counting : forall d o,
  o2p d o = (count_nl (cover d o), since_nl (cover d o)) /\
  (exists s, d = cover d o ++ s) /\
  (forall p s, d = p ++ s -> text_blen p = o -> cover d o = p) /\
  o2p d o = o2p d (Z.min o (text_blen d)).
Proof. exact agrees_with_counting. Qed.
Print Assumptions C19_agrees_with_counting.

(* T4  position_to_offset only answers character boundaries, and the answer's own position is the
       asked one or (asked character beyond the end of a line that ends in '\n') that line's end *)
Theorem C19_p2o_sound : forall d p o, p2o d p = Some o ->
  boundary d o /\
  (o2p d o = p \/ (fst (o2p d o) = fst p /\ exists q r, d = q ++ 10 :: r /\ text_blen q = o)).
Proof. exact p2o_sound_full. Qed.
Print Assumptions C19_p2o_sound.

(* T5  every position inside the document (existing line, character within the line) is answered
       with the offset whose position it is *)
Theorem C19_p2o_complete : forall d p, valid_pos d p ->
  exists o, p2o d p = Some o /\ boundary d o /\ o2p d o = p.
Proof. exact p2o_complete. Qed.
Print Assumptions C19_p2o_complete.

(* T6  "is the position of some boundary" = "line exists and character is within it" *)
Theorem C19_inside_iff_valid : forall d p, inside d p <-> valid_pos d p.
Proof. exact inside_iff_valid. Qed.
Print Assumptions C19_inside_iff_valid.

(* T7  the range of ANY span (empty, reversed, past the end, mid-scalar, start = usize::MAX; [b] is
       unconstrained) is defined in both build modes, start <= end, both ends inside the document *)
Theorem C19_range_wf : forall m d a b,
  Z.of_nat (length d) < 2 ^ 32 -> 0 <= a < 2 ^ 64 ->
  exists s e, span_to_range_m m d a b = Val (s, e) /\
    pos_le s e /\ valid_pos d s /\ valid_pos d e /\
    s = o2p d a /\ (a < b -> e = o2p d b) /\ (b <= a -> e = o2p d (Z.min (a + 1) (2 ^ 64 - 1))).
Proof. exact range_wf. Qed.
Print Assumptions C19_range_wf.

(* regression witness for the repaired finding span-start-usize-max (`start + 1` overflowed: debug
   builds panicked, release builds could return end < start): the formerly failing class is now
   well-formed in both modes, and the old witness gives the empty range at the end of the text *)
Theorem C19_range_wf_usize_max_regression :
  Known_C19_span_start_max (2 ^ 64 - 1) = true /\
  (forall m d b, Z.of_nat (length d) < 2 ^ 32 ->
     exists s e, span_to_range_m m d (2 ^ 64 - 1) b = Val (s, e) /\ pos_le s e /\
       s = o2p d (text_blen d) /\ valid_pos d e) /\
  span_to_range_m Trap [97] (2 ^ 64 - 1) 0 = Val ((0, 1), (0, 1)) /\
  span_to_range_m Wrap [97] (2 ^ 64 - 1) 0 = Val ((0, 1), (0, 1)).
Proof.
  split; [reflexivity|]. split; [exact range_usize_max|]. split; vm_compute; reflexivity.
Qed.
Print Assumptions C19_range_wf_usize_max_regression.

(* T8  the u32 line/character counters cannot overflow on a document of fewer than 2^32 scalars:
       the machine versions then compute the pure functions in both build modes *)
Theorem C19_counters_fit : forall m d o p, Z.of_nat (length d) < 2 ^ 32 ->
  o2p_m m d o = Val (o2p d o) /\ p2o_m m d p = Val (p2o d p).
Proof. exact counters_fit. Qed.
Print Assumptions C19_counters_fit.

(* T9  terminal line/column vs editor line/character: get_line_info never panics (no slice off a
       boundary, no usize underflow); line = editor line + 1; the text is that line of the
       document; the column is 1-based in BYTES: for a boundary offset it is the UTF-8 length of
       the first [character] scalars of the line, plus 1 *)
Theorem C19_line_info_consistent : forall m d o, 0 <= o -> text_blen d < 2 ^ 64 - 1 ->
  exists ln cn t, line_info_m m d o = Val (ln, cn, t) /\
    ln = fst (o2p d o) + 1 /\
    nth_error (lines d) (Z.to_nat (fst (o2p d o))) = Some t /\
    1 <= cn <= text_blen t + 1 /\
    (boundary d o ->
       firstn (Z.to_nat (snd (o2p d o))) t = last_line (cover d o) /\
       cn = text_blen (firstn (Z.to_nat (snd (o2p d o))) t) + 1).
Proof. exact line_info_consistent. Qed.
Print Assumptions C19_line_info_consistent.

(* T10 (shared with C11 render_total) rendering is defined for EVERY span: get_line_info,
       format_error's caret arithmetic ([col_num - 1] never underflows, at least one caret, the
       caret line never extends more than one cell past the source line; inside the document the
       underline is the span clipped to its first line) and span_to_range; [e] is unconstrained *)
Theorem C19_render_total : forall m d s e,
  0 <= s < 2 ^ 64 -> text_blen d < 2 ^ 64 - 1 -> Z.of_nat (length d) < 2 ^ 32 ->
  (exists ln cn t sp ul, caret_m m d s e = Val (ln, cn, t, sp, ul) /\
     line_info_m m d s = Val (ln, cn, t) /\
     1 <= cn <= text_blen t + 1 /\ sp = cn - 1 /\ 1 <= ul /\ sp + ul <= text_blen t + 1 /\
     (e <= s -> ul = 1) /\
     (s <= text_blen d -> s < e -> ul = Z.max 1 (Z.min e (s - sp + text_blen t) - s))) /\
  (exists r, span_to_range_m m d s e = Val r).
Proof. exact render_total_all. Qed.
Print Assumptions C19_render_total.

(* T11 LSP meaning of [character] (UTF-16 code units, the default encoding; the server negotiates
       nothing else): the scalar count the code produces IS the UTF-16 column exactly when no
       astral scalar precedes the offset on its line; otherwise the line agrees and the column is
       too small *)
Theorem C19_utf16_column : forall d o,
  (Known_C19_astral_before d o = false -> o2p d o = o2p16 d o) /\
  (Known_C19_astral_before d o = true ->
     fst (o2p d o) = fst (o2p16 d o) /\ snd (o2p d o) < snd (o2p16 d o)).
Proof. exact utf16_column. Qed.
Print Assumptions C19_utf16_column.

Theorem C19_utf16_column_refuted :
  exists d o, boundary d o /\ Known_C19_astral_before d o = true /\
    o2p d o = (0, 1) /\ o2p16 d o = (0, 2).
Proof.
  exists [128512; 97], 4. split; [exists [128512], [97]; split; reflexivity|].
  repeat split; vm_compute; reflexivity.
Qed.
Print Assumptions C19_utf16_column_refuted.

(* T12 terminal column vs "counting characters": the `file:line:col` column and the caret padding are
       counted in BYTES; for a boundary offset they equal the 1-based CHARACTER column exactly when
       no multi-byte scalar precedes the offset on its line; otherwise the column is too large *)
Theorem C19_terminal_column : forall m d o, 0 <= o -> text_blen d < 2 ^ 64 - 1 -> boundary d o ->
  exists ln cn t, line_info_m m d o = Val (ln, cn, t) /\
    (Known_C19_multibyte_before d o = false -> cn = snd (o2p d o) + 1) /\
    (Known_C19_multibyte_before d o = true -> snd (o2p d o) + 1 < cn).
Proof. exact terminal_column. Qed.
Print Assumptions C19_terminal_column.

Theorem C19_terminal_column_refuted :
  exists d o, boundary d o /\ Known_C19_multibyte_before d o = true /\
    o2p d o = (0, 1) /\ line_info_m Trap d o = Val (1, 3, [233; 120]).
Proof.
  exists [233; 120], 2. split; [exists [233], [120]; split; reflexivity|].
  repeat split; vm_compute; reflexivity.
Qed.
Print Assumptions C19_terminal_column_refuted.
