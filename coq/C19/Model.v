(* C19/Model.v — executable model of the position arithmetic (definitions only).

   Hand model (tie: correspondence run, checks/c19.py) of
     src/lsp/diagnostics.rs            offset_to_position, position_to_offset, span_to_range
     crates/incan_syntax/src/diagnostics.rs   get_line_info and the caret arithmetic of format_error
   A document is [text] = list of Unicode scalar values (what [char_indices] yields); byte offsets
   are [Z].  LSP [Position.character] is counted by the real code in SCALARS ([col += 1] per [char]),
   not in UTF-16 units: the model does exactly that, and [o2p16] below is what the LSP default
   encoding (UTF-16, the server negotiates nothing else) asks for.

   Two layers:
     * pure loops ([o2p], [p2o], [line_info]) over unbounded [Z];
     * machine versions ([*_m], parameterised by the overflow [mode]) with every u32/usize
       operation of the Rust text explicit ([u32add], [uadd], [usub], checked slicing);
       the correspondence run evaluates the machine versions, the theorems relate the two. *)
From Verif Require Import Base.I64 Base.Text.
Open Scope Z_scope.

Definition pos := (Z * Z)%type.          (* (line, character), both 0-based *)

Definition pos_lt (p q : pos) : Prop := fst p < fst q \/ (fst p = fst q /\ snd p < snd q).
Definition pos_le (p q : pos) : Prop := p = q \/ pos_lt p q.
Definition pos_ltb (p q : pos) : bool := (fst p <? fst q) || ((fst p =? fst q) && (snd p <? snd q)).

(* ------------------------------------------------------------------ pure loops *)

(* for (i, c) in source.char_indices() { if i >= offset { break }  if c == '\n' {..} else {..} } *)
Fixpoint o2p_loop (d : text) (i offset line col : Z) : pos :=
  match d with
  | [] => (line, col)
  | c :: r =>
      if offset <=? i then (line, col)
      else if is_nl c then o2p_loop r (i + blen c) offset (line + 1) 0
      else o2p_loop r (i + blen c) offset line (col + 1)
  end.

Definition o2p (d : text) (offset : Z) : pos :=
  o2p_loop d 0 (Z.min offset (text_blen d)) 0 0.

(* position_to_offset; [offset] is the Rust variable of that name (= i + c.len_utf8() of the last
   scalar consumed), kept separate from [i] as in the source *)
Fixpoint p2o_loop (d : text) (i line col offset pl pc : Z) : option Z :=
  match d with
  | [] => if (line =? pl) && (col =? pc) then Some offset else None
  | c :: r =>
      if (line =? pl) && (col =? pc) then Some i
      else if is_nl c then
        if line =? pl then Some i
        else p2o_loop r (i + blen c) (line + 1) 0 (i + blen c) pl pc
      else p2o_loop r (i + blen c) line (col + 1) (i + blen c) pl pc
  end.

Definition p2o (d : text) (p : pos) : option Z := p2o_loop d 0 0 0 0 (fst p) (snd p).

(* get_line_info's loop: (line_num, line_start) *)
Fixpoint gli_loop (d : text) (i offset line_num line_start : Z) : Z * Z :=
  match d with
  | [] => (line_num, line_start)
  | c :: r =>
      if offset <=? i then (line_num, line_start)
      else if is_nl c then gli_loop r (i + blen c) offset (line_num + 1) (i + 1)
      else gli_loop r (i + blen c) offset line_num line_start
  end.

(* &s[n..] : None = "byte index is not a char boundary / out of range" panic *)
Fixpoint drop_bytes (d : text) (n : Z) : option text :=
  match d with
  | [] => if n =? 0 then Some [] else None
  | c :: r => if n =? 0 then Some d else if n <? blen c then None else drop_bytes r (n - blen c)
  end.

(* &s[..n] *)
Fixpoint take_bytes (d : text) (n : Z) : option text :=
  match d with
  | [] => if n =? 0 then Some [] else None
  | c :: r => if n =? 0 then Some [] else if n <? blen c then None
              else match take_bytes r (n - blen c) with Some t => Some (c :: t) | None => None end
  end.

Definition slice_bytes (d : text) (lo hi : Z) : option text :=
  if hi <? lo then None
  else match drop_bytes d lo with Some r => take_bytes r (hi - lo) | None => None end.

(* s.find('\n') : byte index of the first newline *)
Fixpoint find_nl (d : text) (i : Z) : option Z :=
  match d with [] => None | c :: r => if is_nl c then Some i else find_nl r (i + blen c) end.

(* the scalars before the first newline *)
Fixpoint take_line (d : text) : text :=
  match d with [] => [] | c :: r => if is_nl c then [] else c :: take_line r end.

(* pure get_line_info: (line_num, col_num, line_text) *)
Definition line_info (d : text) (offset : Z) : Z * Z * text :=
  let off := Z.min offset (text_blen d) in
  let '(ln, ls) := gli_loop d 0 off 1 0 in
  (ln, off - ls + 1, match drop_bytes d ls with Some r => take_line r | None => [] end).

(* ------------------------------------------------------------------ machine versions *)

Definition U32_MOD : Z := 2 ^ 32.
Definition u32add (m : mode) (a b : Z) : res Z :=
  if a + b <? U32_MOD then Val (a + b)
  else match m with Wrap => Val ((a + b) mod U32_MOD) | Trap => Trp Overflow end.

Fixpoint o2p_loop_m (m : mode) (d : text) (i offset line col : Z) : res pos :=
  match d with
  | [] => Val (line, col)
  | c :: r =>
      if offset <=? i then Val (line, col)
      else if is_nl c then (l' <- u32add m line 1 ;; o2p_loop_m m r (i + blen c) offset l' 0)
      else (c' <- u32add m col 1 ;; o2p_loop_m m r (i + blen c) offset line c')
  end.

Definition o2p_m (m : mode) (d : text) (offset : Z) : res pos :=
  o2p_loop_m m d 0 (Z.min offset (text_blen d)) 0 0.

Fixpoint p2o_loop_m (m : mode) (d : text) (i line col offset pl pc : Z) : res (option Z) :=
  match d with
  | [] => Val (if (line =? pl) && (col =? pc) then Some offset else None)
  | c :: r =>
      if (line =? pl) && (col =? pc) then Val (Some i)
      else if is_nl c then
        if line =? pl then Val (Some i)
        else (l' <- u32add m line 1 ;; p2o_loop_m m r (i + blen c) l' 0 (i + blen c) pl pc)
      else (c' <- u32add m col 1 ;; p2o_loop_m m r (i + blen c) line c' (i + blen c) pl pc)
  end.

Definition p2o_m (m : mode) (d : text) (p : pos) : res (option Z) :=
  p2o_loop_m m d 0 0 0 0 (fst p) (snd p).

(* usize::saturating_add *)
Definition usat_add (a b : Z) : Z := Z.min (a + b) (USIZE_MOD - 1).

(* span_to_range: offset_to_position(source, start), then offset_to_position(source,
   end.max(start.saturating_add(1))) *)
Definition span_to_range_m (m : mode) (d : text) (a b : Z) : res (pos * pos) :=
  s <- o2p_m m d a ;;
  e <- o2p_m m d (Z.max b (usat_add a 1)) ;;
  Val (s, e).

Fixpoint gli_loop_m (m : mode) (d : text) (i offset line_num line_start : Z) : res (Z * Z) :=
  match d with
  | [] => Val (line_num, line_start)
  | c :: r =>
      if offset <=? i then Val (line_num, line_start)
      else if is_nl c then
        (ln <- uadd m line_num 1 ;; ls <- uadd m i 1 ;; gli_loop_m m r (i + blen c) offset ln ls)
      else gli_loop_m m r (i + blen c) offset line_num line_start
  end.

Definition line_info_m (m : mode) (d : text) (offset : Z) : res (Z * Z * text) :=
  let offset := Z.min offset (text_blen d) in
  st <- gli_loop_m m d 0 offset 1 0 ;;
  let '(line_num, line_start) := st in
  match drop_bytes d line_start with               (* source[line_start..] *)
  | None => Trp AssertFail
  | Some rest =>
      line_end <- match find_nl rest 0 with
                  | Some i => uadd m line_start i
                  | None => Val (text_blen d)
                  end ;;
      match slice_bytes d line_start line_end with  (* &source[line_start..line_end] *)
      | None => Trp AssertFail
      | Some line_text =>
          c0 <- usub m offset line_start ;;
          col_num <- uadd m c0 1 ;;
          Val (line_num, col_num, line_text)
      end
  end.

(* usize::saturating_sub *)
Definition ssub (a b : Z) : Z := Z.max 0 (a - b).

(* what format_error computes around get_line_info:
   (line_num, col_num, line_text, number of spaces before the caret, number of carets) *)
Definition underline_len (start end_ col_num tl : Z) : Z :=
  if (start <? end_) && (0 <? col_num) then
    let start_offset := ssub start (ssub col_num 1) in
    let end_in_line := ssub end_ start_offset in
    Z.max (ssub (Z.min end_in_line tl) (ssub col_num 1)) 1
  else 1.

Definition caret_m (m : mode) (d : text) (start end_ : Z) : res (Z * Z * text * Z * Z) :=
  li <- line_info_m m d start ;;
  let '(line_num, col_num, line_text) := li in
  let ul := underline_len start end_ col_num (text_blen line_text) in
  spaces <- usub m col_num 1 ;;                     (* " ".repeat(col_num - 1) *)
  Val (line_num, col_num, line_text, spaces, ul).

(* ------------------------------------------------------------------ independent specification *)

(* [o] is a character boundary of [d]: some prefix of [d] is exactly [o] bytes long *)
Definition boundary (d : text) (o : Z) : Prop := exists p s, d = p ++ s /\ text_blen p = o.

(* the scalars that START before byte [o] (for a boundary: the prefix of [o] bytes) *)
Fixpoint cover (d : text) (o : Z) : text :=
  match d with
  | [] => []
  | c :: r => if o <=? 0 then [] else c :: cover r (o - blen c)
  end.

Definition not_nl (c : ch) : bool := negb (is_nl c).
Fixpoint takewhile {A} (f : A -> bool) (l : list A) : list A :=
  match l with [] => [] | x :: r => if f x then x :: takewhile f r else [] end.

(* number of newlines in a text; the part of a text after its last newline *)
Definition count_nl (p : text) : Z := Z.of_nat (length (filter is_nl p)).
Definition last_line (p : text) : text := rev (takewhile not_nl (rev p)).
Definition since_nl (p : text) : Z := Z.of_nat (length (last_line p)).

(* line/character by counting, in scalars (what the code documents) ... *)
Definition pos_of (p : text) : pos := (count_nl p, since_nl p).
(* ... and in UTF-16 code units (the LSP default position encoding) *)
Fixpoint text_u16len (p : text) : Z := match p with [] => 0 | c :: r => u16len c + text_u16len r end.
Definition pos16_of (p : text) : pos := (count_nl p, text_u16len (last_line p)).
Definition o2p16 (d : text) (o : Z) : pos := pos16_of (cover d o).

(* the lines of a document (split at '\n'; a trailing newline opens a last empty line) *)
Fixpoint lines (d : text) : list text :=
  match d with
  | [] => [[]]
  | c :: r => if is_nl c then [] :: lines r
              else match lines r with l :: ls => (c :: l) :: ls | [] => [[c]] end
  end.

(* a position is inside the document: its line exists and the character is within that line *)
Definition valid_pos (d : text) (p : pos) : Prop :=
  0 <= fst p /\ 0 <= snd p /\
  exists l, nth_error (lines d) (Z.to_nat (fst p)) = Some l /\ snd p <= Z.of_nat (length l).
(* ... equivalently, it is the position of some character boundary *)
Definition inside (d : text) (p : pos) : Prop := exists o, boundary d o /\ o2p d o = p.

(* ------------------------------------------------------------------ known-finding classes *)

Definition astral (c : ch) : bool := 65536 <=? c.
(* the line prefix before offset [o] contains a scalar outside the BMP: scalar count <> UTF-16 count *)
Definition Known_C19_astral_before (d : text) (o : Z) : bool := existsb astral (last_line (cover d o)).
(* the line prefix before offset [o] contains a scalar of more than one UTF-8 byte: the terminal
   column (1-based, in BYTES) is larger than the 1-based character column *)
Definition multibyte (c : ch) : bool := 1 <? blen c.
Definition Known_C19_multibyte_before (d : text) (o : Z) : bool := existsb multibyte (last_line (cover d o)).
(* REPAIRED class (kept for the regression theorem): [start + 1] overflowed usize when the code
   used a plain addition; span_to_range now uses saturating_add *)
Definition Known_C19_span_start_max (a : Z) : bool := a =? USIZE_MOD - 1.

(* ------------------------------------------------------------------ rendering for the correspondence run *)

Definition TRAPZ : Z := -9.

Definition r_pos (r : res pos) : list Z :=
  match r with Val (l, c) => [l; c] | Trp _ => [TRAPZ; TRAPZ] end.
Definition r_opt (r : res (option Z)) : list Z :=
  match r with Val (Some o) => [o] | Val None => [-1] | Trp _ => [TRAPZ] end.
Definition r_rng (r : res (pos * pos)) : list Z :=
  match r with Val ((sl, sc), (el, ec)) => [sl; sc; el; ec] | Trp _ => [TRAPZ; TRAPZ; TRAPZ; TRAPZ] end.
Definition r_li (r : res (Z * Z * text)) : list Z :=
  match r with Val (ln, cn, t) => ln :: cn :: Z.of_nat (length t) :: t | Trp _ => [TRAPZ; TRAPZ; 0] end.
Definition r_car (r : res (Z * Z * text * Z * Z)) : list Z :=
  match r with Val (_, _, _, sp, ul) => [sp; ul] | Trp _ => [TRAPZ; TRAPZ] end.
Definition r_carfull (r : res (Z * Z * text * Z * Z)) : list Z :=
  match r with
  | Val (ln, cn, t, sp, ul) => ln :: cn :: sp :: ul :: t
  | Trp _ => [TRAPZ]
  end.

Fixpoint zrange (n : nat) (from : Z) : list Z :=
  match n with O => [] | S k => from :: zrange k (from + 1) end.

(* the full table of one document: every offset 0..len+1, every position of the grid 0..K x 0..K,
   every span (a, b) with a, b in 0..len+1 *)
Definition table (m : mode) (d : text) (K : Z) : list Z :=
  let offs := zrange (Z.to_nat (text_blen d + 2)) 0 in
  let grid := zrange (Z.to_nat (K + 1)) 0 in
  flat_map (fun o => r_pos (o2p_m m d o)) offs
  ++ flat_map (fun l => flat_map (fun c => r_opt (p2o_m m d (l, c))) grid) grid
  ++ flat_map (fun o => r_li (line_info_m m d o)) offs
  ++ flat_map (fun a => flat_map (fun b => r_car (caret_m m d a b) ++ r_rng (span_to_range_m m d a b)) offs) offs.

Definition HASH_P : Z := 2305843009213693951.
Definition hash (xs : list Z) : Z :=
  fold_left (fun h x => (h * 1000003 + x + 11) mod HASH_P) xs 7.

Inductive case :=
| CO2p (d : text) (o : Z)
| CP2o (d : text) (l c : Z)
| CRng (d : text) (a b : Z)
| CCar (d : text) (s e : Z)
| CTab (d : text) (K : Z)
| CHash (d : text) (K : Z).

Definition run_case (m : mode) (c : case) : list Z :=
  match c with
  | CO2p d o => r_pos (o2p_m m d o)
  | CP2o d l c => r_opt (p2o_m m d (l, c))
  | CRng d a b => r_rng (span_to_range_m m d a b)
  | CCar d s e => r_carfull (caret_m m d s e)
  | CTab d K => table m d K
  | CHash d K => [hash (table m d K)]
  end.
