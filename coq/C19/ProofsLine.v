(* C19/ProofsLine.v — lines of a document, validity of positions, get_line_info (pure), UTF-16. *)
From Verif Require Import Base.I64 Base.Text C19.Model C19.Proofs.
From Coq Require Import ZifyBool.
Open Scope Z_scope.
Arguments Z.add : simpl never.
Arguments Z.sub : simpl never.
Arguments Z.mul : simpl never.
Arguments Z.min : simpl never.
Arguments Z.max : simpl never.
Arguments Z.of_nat : simpl never.
Arguments Z.to_nat : simpl never.
Arguments Z.pow : simpl never.

(* ------------------------------------------------------------------ last_line from the front *)

Lemma takewhile_snoc_true {A} (f : A -> bool) l x : f x = true ->
  takewhile f (l ++ [x]) = if forallb f l then l ++ [x] else takewhile f l.
Proof.
  intros H. induction l as [|y l IH]; cbn [takewhile app forallb]; [now rewrite H|].
  destruct (f y); cbn [andb]; [|reflexivity]. rewrite IH. now destruct (forallb f l).
Qed.

Lemma takewhile_id {A} (f : A -> bool) l : forallb f l = true -> takewhile f l = l.
Proof.
  induction l as [|y l IH]; cbn [takewhile forallb]; [reflexivity|].
  destruct (f y); cbn [andb]; [intros H; now rewrite IH | discriminate].
Qed.

Lemma forallb_rev {A} (f : A -> bool) l : forallb f (rev l) = forallb f l.
Proof.
  induction l as [|y l IH]; [reflexivity|]. cbn [rev forallb].
  rewrite forallb_app, IH. cbn [forallb]. destruct (forallb f l), (f y); reflexivity.
Qed.

Lemma forallb_not_nl_count p : forallb not_nl p = (count_nl p =? 0).
Proof.
  induction p as [|c p IH]; [reflexivity|]. cbn [forallb]. rewrite count_nl_cons, IH.
  pose proof (count_nl_nonneg p). unfold not_nl. destruct (is_nl c); cbn [negb andb]; lia.
Qed.

Lemma last_line_no_nl p : count_nl p = 0 -> last_line p = p.
Proof.
  intros H. unfold last_line. rewrite takewhile_id, rev_involutive; [reflexivity|].
  rewrite forallb_rev, forallb_not_nl_count. lia.
Qed.

Lemma last_line_cons_nonl c p : is_nl c = false ->
  last_line (c :: p) = if count_nl p =? 0 then c :: last_line p else last_line p.
Proof.
  intros H. unfold last_line. cbn [rev].
  rewrite takewhile_snoc_true by (unfold not_nl; now rewrite H).
  rewrite forallb_rev, forallb_not_nl_count.
  destruct (count_nl p =? 0) eqn:E; [|reflexivity].
  rewrite rev_unit. f_equal. rewrite takewhile_id; [reflexivity|].
  rewrite forallb_rev, forallb_not_nl_count. exact E.
Qed.

Lemma last_line_forall p : forallb not_nl (last_line p) = true.
Proof. unfold last_line. rewrite forallb_rev. apply takewhile_all. Qed.

(* a text is its complete lines (empty, or ending in a newline) followed by its last line *)
Lemma last_line_split q : exists h, q = h ++ last_line q /\ (h = [] \/ exists h', h = h' ++ [10]).
Proof.
  induction q as [|c q IH] using rev_ind.
  - exists []. split; [reflexivity | now left].
  - rewrite last_line_snoc. destruct (is_nl c) eqn:E.
    + exists (q ++ [c]). split; [now rewrite app_nil_r|]. right. exists q. now rewrite (is_nl_eq c E).
    + destruct IH as (h & Hq & Hh). exists h. split; [|exact Hh].
      rewrite app_assoc. now rewrite <- Hq.
Qed.

(* ------------------------------------------------------------------ lines *)

Lemma lines_hd s : exists tl, lines s = take_line s :: tl.
Proof.
  induction s as [|c r [tl IH]]; cbn [lines take_line]; [eexists; reflexivity|].
  destruct (is_nl c); [eexists; reflexivity|]. rewrite IH. eexists; reflexivity.
Qed.

Lemma count_nl_nil : count_nl [] = 0.
Proof. reflexivity. Qed.

Lemma lines_nth p : forall s,
  nth_error (lines (p ++ s)) (Z.to_nat (count_nl p)) = Some (last_line p ++ take_line s).
Proof.
  induction p as [|c p IH]; intros s.
  - cbn [app]. destruct (lines_hd s) as [tl ->]. reflexivity.
  - cbn [app lines]. rewrite count_nl_cons. pose proof (count_nl_nonneg p) as Hn.
    destruct (is_nl c) eqn:E.
    + replace (Z.to_nat (1 + count_nl p)) with (S (Z.to_nat (count_nl p))) by lia.
      cbn [nth_error]. rewrite IH. now rewrite last_line_cons_nl.
    + rewrite Z.add_0_l. specialize (IH s). rewrite last_line_cons_nonl by exact E.
      destruct (lines (p ++ s)) as [|l ls] eqn:EL.
      { destruct (Z.to_nat (count_nl p)); discriminate. }
      destruct (count_nl p =? 0) eqn:E0.
      * replace (Z.to_nat (count_nl p)) with O in * by lia. cbn [nth_error] in *.
        injection IH as ->. reflexivity.
      * destruct (Z.to_nat (count_nl p)) as [|k] eqn:Ek; [lia|]. cbn [nth_error] in *. exact IH.
Qed.

Lemma inside_valid d p : inside d p -> valid_pos d p.
Proof.
  intros (o & (q & s & -> & <-) & <-). rewrite o2p_boundary, walk_counting.
  unfold valid_pos, pos_of, since_nl. cbn [fst snd].
  split; [apply count_nl_nonneg|]. split; [lia|].
  exists (last_line q ++ take_line s). split; [apply lines_nth|]. rewrite app_length. lia.
Qed.

Lemma pos_of_cons_nl c q : is_nl c = true -> pos_of (c :: q) = (1 + fst (pos_of q), snd (pos_of q)).
Proof.
  intros E. unfold pos_of, since_nl. cbn [fst snd]. rewrite count_nl_cons, E, last_line_cons_nl by exact E.
  reflexivity.
Qed.

Lemma pos_of_cons_nonl c q : is_nl c = false ->
  pos_of (c :: q) = if fst (pos_of q) =? 0 then (0, 1 + snd (pos_of q)) else pos_of q.
Proof.
  intros E. unfold pos_of, since_nl. cbn [fst snd]. rewrite count_nl_cons, E, Z.add_0_l, last_line_cons_nonl by exact E.
  destruct (count_nl q =? 0) eqn:E0; [|reflexivity]. cbn [length]. f_equal; lia.
Qed.

Lemma pos_of_nil : pos_of [] = (0, 0).
Proof. reflexivity. Qed.

Lemma valid_prefix d : forall l c ln, 0 <= l -> 0 <= c ->
  nth_error (lines d) (Z.to_nat l) = Some ln -> c <= Z.of_nat (length ln) ->
  exists q s, d = q ++ s /\ pos_of q = (l, c).
Proof.
  induction d as [|a r IH]; intros l c ln Hl Hc Hn Hlen.
  - cbn [lines] in Hn. destruct (Z.to_nat l) as [|k] eqn:Ek.
    + cbn [nth_error] in Hn. injection Hn as <-. cbn [length] in Hlen.
      exists [], []. split; [reflexivity|]. rewrite pos_of_nil. f_equal; lia.
    + cbn [nth_error] in Hn. destruct k; discriminate.
  - cbn [lines] in Hn. destruct (is_nl a) eqn:E.
    + destruct (Z.to_nat l) as [|k] eqn:Ek.
      * cbn [nth_error] in Hn. injection Hn as <-. cbn [length] in Hlen.
        exists [], (a :: r). split; [reflexivity|]. rewrite pos_of_nil. f_equal; lia.
      * cbn [nth_error] in Hn.
        destruct (IH (l - 1) c ln ltac:(lia) Hc) as (q & s & -> & Hq);
          [replace (Z.to_nat (l - 1)) with k by lia; exact Hn | exact Hlen |].
        exists (a :: q), s. split; [reflexivity|]. rewrite pos_of_cons_nl, Hq by exact E.
        cbn [fst snd]. f_equal. lia.
    + destruct (lines_hd r) as [tl Hr]. rewrite Hr in Hn.
      destruct (Z.to_nat l) as [|k] eqn:Ek.
      * cbn [nth_error] in Hn. injection Hn as <-. cbn [length] in Hlen.
        destruct (c =? 0) eqn:Ec.
        { exists [], (a :: r). split; [reflexivity|]. rewrite pos_of_nil. f_equal; lia. }
        destruct (IH 0 (c - 1) (take_line r) ltac:(lia) ltac:(lia)) as (q & s & -> & Hq);
          [rewrite Hr; reflexivity | lia |].
        exists (a :: q), s. split; [reflexivity|]. rewrite pos_of_cons_nonl, Hq by exact E.
        cbn [fst snd]. rewrite Z.eqb_refl. f_equal; lia.
      * cbn [nth_error] in Hn.
        destruct (IH l c ln Hl Hc) as (q & s & -> & Hq);
          [rewrite Hr, Ek; exact Hn | exact Hlen |].
        exists (a :: q), s. split; [reflexivity|]. rewrite pos_of_cons_nonl, Hq by exact E.
        cbn [fst]. replace (l =? 0) with false by lia. reflexivity.
Qed.

Lemma valid_inside d p : valid_pos d p -> inside d p.
Proof.
  destruct p as [l c]. intros (Hl & Hc & ln & Hn & Hlen). cbn [fst snd] in *.
  destruct (valid_prefix d l c ln Hl Hc Hn Hlen) as (q & s & -> & Hq).
  exists (text_blen q). split; [exists q, s; split; reflexivity|].
  now rewrite o2p_boundary, walk_counting.
Qed.

(* ------------------------------------------------------------------ get_line_info, pure *)

Fixpoint gwalk (q : text) (i ln ls : Z) : Z * Z :=
  match q with
  | [] => (ln, ls)
  | c :: r => if is_nl c then gwalk r (i + blen c) (ln + 1) (i + 1) else gwalk r (i + blen c) ln ls
  end.

Lemma gli_loop_gwalk d : forall i off ln ls, gli_loop d i off ln ls = gwalk (cover d (off - i)) i ln ls.
Proof.
  induction d as [|a r IH]; intros i off ln ls; [reflexivity|].
  cbn [gli_loop cover].
  replace (off - i <=? 0) with (off <=? i) by lia.
  destruct (off <=? i); [reflexivity|]. cbn [gwalk].
  destruct (is_nl a); rewrite IH; do 2 f_equal; lia.
Qed.

Lemma gwalk_snoc q : forall c i ln ls,
  gwalk (q ++ [c]) i ln ls =
  if is_nl c then (fst (gwalk q i ln ls) + 1, i + text_blen q + 1) else gwalk q i ln ls.
Proof.
  induction q as [|a q IH]; intros c i ln ls.
  - cbn [app gwalk text_blen fst]. destruct (is_nl c); [f_equal; lia | reflexivity].
  - cbn [app gwalk text_blen]. destruct (is_nl a); rewrite IH; destruct (is_nl c); try reflexivity; f_equal; lia.
Qed.

Lemma gwalk_spec q : gwalk q 0 1 0 = (1 + count_nl q, text_blen q - text_blen (last_line q)).
Proof.
  induction q as [|c q IH] using rev_ind; [reflexivity|].
  rewrite gwalk_snoc, IH, count_nl_snoc, last_line_snoc, text_blen_app. cbn [fst text_blen].
  destruct (is_nl c) eqn:E.
  - rewrite (is_nl_eq c E). cbn [text_blen]. f_equal; try lia. unfold blen. cbn. lia.
  - rewrite text_blen_app. cbn [text_blen]. f_equal; lia.
Qed.

Lemma drop_bytes_app p : forall s, drop_bytes (p ++ s) (text_blen p) = Some s.
Proof.
  induction p as [|c p IH]; intros s.
  - cbn [app text_blen]. destruct s; reflexivity.
  - cbn [app text_blen drop_bytes]. pose proof (blen_range c). pose proof (text_blen_nonneg p).
    replace (blen c + text_blen p =? 0) with false by lia.
    replace (blen c + text_blen p <? blen c) with false by lia.
    replace (blen c + text_blen p - blen c) with (text_blen p) by lia. apply IH.
Qed.

Lemma take_bytes_app p : forall s, take_bytes (p ++ s) (text_blen p) = Some p.
Proof.
  induction p as [|c p IH]; intros s.
  - cbn [app text_blen]. destruct s; reflexivity.
  - cbn [app text_blen take_bytes]. pose proof (blen_range c). pose proof (text_blen_nonneg p).
    replace (blen c + text_blen p =? 0) with false by lia.
    replace (blen c + text_blen p <? blen c) with false by lia.
    replace (blen c + text_blen p - blen c) with (text_blen p) by lia. now rewrite IH.
Qed.

Lemma take_line_app l s : forallb not_nl l = true -> take_line (l ++ s) = l ++ take_line s.
Proof.
  induction l as [|c l IH]; cbn [forallb app take_line]; [reflexivity|].
  unfold not_nl at 1. destruct (is_nl c); cbn [negb andb]; [discriminate|]. intros H. now rewrite IH.
Qed.

Lemma take_line_split r : exists t, r = take_line r ++ t /\ (existsb is_nl r = false -> t = []).
Proof.
  induction r as [|c r (t & Ht & Hn)]; [exists []; split; reflexivity|].
  cbn [take_line existsb]. destruct (is_nl c); cbn [orb].
  - exists (c :: r). split; [reflexivity | discriminate].
  - exists t. split; [cbn [app]; now rewrite <- Ht | exact Hn].
Qed.

Lemma find_nl_spec r : forall i,
  find_nl r i = if existsb is_nl r then Some (i + text_blen (take_line r)) else None.
Proof.
  induction r as [|c r IH]; intros i; [reflexivity|].
  cbn [find_nl existsb take_line]. destruct (is_nl c); cbn [orb text_blen].
  - f_equal. lia.
  - rewrite IH. destruct (existsb is_nl r); [f_equal; lia | reflexivity].
Qed.

(* the decomposition behind get_line_info *)
Record li_parts (d : text) (o : Z) (h s : text) : Prop := {
  lp_cover : cover d o = h ++ last_line (cover d o);
  lp_doc : d = h ++ (last_line (cover d o) ++ s);
  lp_head : h = [] \/ exists h', h = h' ++ [10];
}.

Lemma li_parts_exist d o : exists h s, li_parts d o h s.
Proof.
  destruct (last_line_split (cover d o)) as (h & Hq & Hh).
  destruct (cover_split d o) as [s Hs].
  exists h, s. split; [exact Hq | | exact Hh].
  rewrite app_assoc, <- Hq. exact Hs.
Qed.

Lemma line_info_parts d o h s : li_parts d o h s ->
  line_info d o = (1 + count_nl (cover d o), Z.min o (text_blen d) - text_blen h + 1,
                   last_line (cover d o) ++ take_line s).
Proof.
  intros [Hq Hd Hh]. unfold line_info.
  rewrite gli_loop_gwalk, Z.sub_0_r, cover_min, gwalk_spec.
  assert (E : text_blen (cover d o) - text_blen (last_line (cover d o)) = text_blen h).
  { rewrite Hq at 1. rewrite text_blen_app. lia. }
  rewrite E. cbv beta iota.
  assert (Hdrop : drop_bytes d (text_blen h) = Some (last_line (cover d o) ++ s))
    by (rewrite Hd at 1; apply drop_bytes_app).
  rewrite Hdrop, take_line_app by apply last_line_forall.
  reflexivity.
Qed.

(* line_start <= clamped offset <= end of the cover *)
Lemma li_parts_bounds d o h s : li_parts d o h s -> 0 <= o ->
  text_blen h <= Z.min o (text_blen d) <= text_blen h + text_blen (last_line (cover d o)).
Proof.
  intros [Hq Hd Hh] Ho. pose proof (text_blen_nonneg d) as Hd0.
  assert (Hq' : cover d (Z.min o (text_blen d)) = h ++ last_line (cover d o)) by (now rewrite cover_min).
  split.
  - destruct Hh as [->|(h' & ->)]; [cbn [text_blen]; lia|].
    rewrite <- app_assoc in Hq'. cbn [app] in Hq'. apply cover_starts in Hq'.
    rewrite text_blen_app. cbn [text_blen]. unfold blen. cbn. lia.
  - destruct (cover_reaches d (Z.min o (text_blen d)) ltac:(lia)) as [H|H].
    + rewrite Hq', text_blen_app in H. lia.
    + pose proof (text_blen_nonneg h). pose proof (text_blen_nonneg (last_line (cover d o))). lia.
Qed.

Lemma li_parts_boundary d o h s : li_parts d o h s -> boundary d o ->
  Z.min o (text_blen d) = text_blen h + text_blen (last_line (cover d o)).
Proof.
  intros [Hq Hd Hh] B. pose proof (boundary_range d o B).
  destruct (boundary_cover d o B) as (s' & _ & L).
  rewrite Hq, text_blen_app in L. lia.
Qed.

(* ------------------------------------------------------------------ UTF-16 *)

Lemma text_u16len_count l :
  text_u16len l = Z.of_nat (length l) + Z.of_nat (length (filter astral l)).
Proof.
  induction l as [|c l IH]; [reflexivity|]. cbn [text_u16len length filter]. rewrite IH.
  unfold u16len, astral. destruct (c <? 65536) eqn:E.
  - replace (65536 <=? c) with false by lia. lia.
  - replace (65536 <=? c) with true by lia. cbn [length]. lia.
Qed.

Lemma existsb_filter_len {A} (f : A -> bool) l : existsb f l = negb (Nat.eqb (length (filter f l)) 0).
Proof.
  induction l as [|c l IH]; [reflexivity|]. cbn [existsb filter].
  destruct (f c); cbn [orb length]; [reflexivity | exact IH].
Qed.

Lemma o2p16_agree d o : Known_C19_astral_before d o = false -> o2p d o = o2p16 d o.
Proof.
  unfold Known_C19_astral_before, o2p16, pos16_of. rewrite o2p_counting. unfold pos_of, since_nl.
  intros H. rewrite text_u16len_count. rewrite existsb_filter_len in H.
  destruct (length (filter astral (last_line (cover d o)))); [f_equal; lia | discriminate].
Qed.

Lemma o2p16_differ d o : Known_C19_astral_before d o = true ->
  fst (o2p d o) = fst (o2p16 d o) /\ snd (o2p d o) < snd (o2p16 d o).
Proof.
  unfold Known_C19_astral_before, o2p16, pos16_of. rewrite o2p_counting. unfold pos_of, since_nl.
  intros H. cbn [fst snd]. rewrite text_u16len_count. rewrite existsb_filter_len in H.
  destruct (length (filter astral (last_line (cover d o)))); [discriminate | split; lia].
Qed.
