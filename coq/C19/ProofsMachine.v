(* C19/ProofsMachine.v — the machine versions (u32/usize arithmetic, checked slicing) never trap on
   documents of realistic size and then compute the pure functions; span_to_range; the caret. *)
From Verif Require Import Base.I64 Base.Text C19.Model C19.Proofs C19.ProofsLine.
From Coq Require Import ZifyBool.
Open Scope Z_scope.
Arguments Z.add : simpl never.
Arguments Z.sub : simpl never.
Arguments Z.mul : simpl never.
Arguments Z.min : simpl never.
Arguments Z.max : simpl never.
Arguments Z.of_nat : simpl never.
Arguments Z.to_nat : simpl never.
Arguments Z.pow : simpl never.

Definition nlen (d : text) : Z := Z.of_nat (length d).

Lemma nlen_cons a r : nlen (a :: r) = 1 + nlen r.
Proof. unfold nlen. cbn [length]. lia. Qed.
Lemma nlen_nonneg d : 0 <= nlen d.
Proof. unfold nlen. lia. Qed.

Lemma u32add_ok m a : 0 <= a -> a + 1 < U32_MOD -> u32add m a 1 = Val (a + 1).
Proof. intros H0 H1. unfold u32add. replace (a + 1 <? U32_MOD) with true by lia. reflexivity. Qed.

Lemma uadd_ok m a b : 0 <= a + b < USIZE_MOD -> uadd m a b = Val (a + b).
Proof. intros H. unfold uadd, uovf. replace ((0 <=? a + b) && (a + b <? USIZE_MOD)) with true by lia. reflexivity. Qed.

Lemma usub_ok m a b : 0 <= a - b < USIZE_MOD -> usub m a b = Val (a - b).
Proof. intros H. unfold usub, uovf. replace ((0 <=? a - b) && (a - b <? USIZE_MOD)) with true by lia. reflexivity. Qed.

Lemma o2p_loop_m_ok m d : forall i off l c,
  0 <= l -> 0 <= c -> l + nlen d < U32_MOD -> c + nlen d < U32_MOD ->
  o2p_loop_m m d i off l c = Val (o2p_loop d i off l c).
Proof.
  induction d as [|a r IH]; intros i off l c Hl Hc Bl Bc; [reflexivity|].
  cbn [o2p_loop_m o2p_loop]. rewrite nlen_cons in *. pose proof (nlen_nonneg r).
  destruct (off <=? i); [reflexivity|].
  destruct (is_nl a); rewrite u32add_ok by lia; cbn [bind]; apply IH; lia.
Qed.

Lemma o2p_m_ok m d o : nlen d < U32_MOD -> o2p_m m d o = Val (o2p d o).
Proof. intros H. unfold o2p_m, o2p. apply o2p_loop_m_ok; lia. Qed.

Lemma p2o_loop_m_ok m d : forall i l c off pl pc,
  0 <= l -> 0 <= c -> l + nlen d < U32_MOD -> c + nlen d < U32_MOD ->
  p2o_loop_m m d i l c off pl pc = Val (p2o_loop d i l c off pl pc).
Proof.
  induction d as [|a r IH]; intros i l c off pl pc Hl Hc Bl Bc; [reflexivity|].
  cbn [p2o_loop_m p2o_loop]. rewrite nlen_cons in *. pose proof (nlen_nonneg r).
  destruct ((l =? pl) && (c =? pc)); [reflexivity|].
  destruct (is_nl a).
  - destruct (l =? pl); [reflexivity|]. rewrite u32add_ok by lia. cbn [bind]. apply IH; lia.
  - rewrite u32add_ok by lia. cbn [bind]. apply IH; lia.
Qed.

Lemma p2o_m_ok m d p : nlen d < U32_MOD -> p2o_m m d p = Val (p2o d p).
Proof. intros H. unfold p2o_m, p2o. apply p2o_loop_m_ok; lia. Qed.

Lemma span_to_range_m_ok m d a b : nlen d < U32_MOD ->
  span_to_range_m m d a b = Val (o2p d a, o2p d (Z.max b (usat_add a 1))).
Proof.
  intros H. unfold span_to_range_m.
  rewrite o2p_m_ok by exact H. cbn [bind].
  rewrite o2p_m_ok by exact H. reflexivity.
Qed.

(* ------------------------------------------------------------------ get_line_info, machine *)

Lemma gli_loop_m_ok m d : forall i off ln ls,
  0 <= i -> 0 <= ln -> i + text_blen d < USIZE_MOD -> ln + nlen d < USIZE_MOD ->
  gli_loop_m m d i off ln ls = Val (gli_loop d i off ln ls).
Proof.
  induction d as [|a r IH]; intros i off ln ls Hi Hn Bi Bn; [reflexivity|].
  cbn [gli_loop_m gli_loop]. rewrite nlen_cons in *. cbn [text_blen] in Bi.
  pose proof (nlen_nonneg r). pose proof (blen_range a). pose proof (text_blen_nonneg r).
  destruct (off <=? i); [reflexivity|].
  destruct (is_nl a).
  - rewrite !uadd_ok by lia. cbn [bind]. apply IH; lia.
  - apply IH; lia.
Qed.

Lemma nlen_le_blen d : nlen d <= text_blen d.
Proof. unfold nlen. pose proof (text_blen_length d). lia. Qed.

Lemma line_info_m_ok m d o : 0 <= o -> text_blen d < USIZE_MOD - 1 ->
  line_info_m m d o = Val (line_info d o).
Proof.
  intros Ho Hd. destruct (li_parts_exist d o) as (h & s & P).
  pose proof (li_parts_bounds d o h s P Ho) as B.
  rewrite (line_info_parts d o h s P).
  destruct P as [Hq Hdoc Hh].
  pose proof (nlen_le_blen d). pose proof (text_blen_nonneg d). pose proof (text_blen_nonneg h).
  unfold line_info_m.
  rewrite gli_loop_m_ok by lia. cbn [bind].
  rewrite gli_loop_gwalk, Z.sub_0_r, cover_min, gwalk_spec.
  assert (E : text_blen (cover d o) - text_blen (last_line (cover d o)) = text_blen h).
  { rewrite Hq at 1. rewrite text_blen_app. lia. }
  rewrite E.
  set (ll := last_line (cover d o)) in *.
  assert (Hdrop : drop_bytes d (text_blen h) = Some (ll ++ s))
    by (rewrite Hdoc at 1; apply drop_bytes_app).
  rewrite Hdrop.
  assert (Htl : take_line (ll ++ s) = ll ++ take_line s)
    by (apply take_line_app, last_line_forall).
  rewrite find_nl_spec, Htl, Z.add_0_l.
  destruct (take_line_split (ll ++ s)) as (t & Ht & Hnone). rewrite Htl in Ht.
  assert (Hlen : text_blen d = text_blen h + text_blen (ll ++ take_line s) + text_blen t).
  { rewrite Hdoc at 1. rewrite text_blen_app, Ht, text_blen_app. lia. }
  pose proof (text_blen_nonneg t). pose proof (text_blen_nonneg (ll ++ take_line s)).
  assert (Hslice : forall le, le = text_blen h + text_blen (ll ++ take_line s) ->
            slice_bytes d (text_blen h) le = Some (ll ++ take_line s)).
  { intros le ->. unfold slice_bytes.
    replace (text_blen h + text_blen (ll ++ take_line s) <? text_blen h) with false by lia.
    rewrite Hdrop, Ht.
    replace (text_blen h + text_blen (ll ++ take_line s) - text_blen h) with (text_blen (ll ++ take_line s)) by lia.
    apply take_bytes_app. }
  destruct (existsb is_nl (ll ++ s)) eqn:Ex.
  - rewrite uadd_ok by lia. cbn [bind]. rewrite Hslice by reflexivity.
    rewrite usub_ok by lia. cbn [bind]. rewrite uadd_ok by lia. reflexivity.
  - cbn [bind]. rewrite (Hnone eq_refl) in Hlen. cbn [text_blen] in Hlen.
    rewrite Hslice by lia.
    rewrite usub_ok by lia. cbn [bind]. rewrite uadd_ok by lia. reflexivity.
Qed.

(* ------------------------------------------------------------------ facts about the pure line_info *)

Lemma line_info_facts d o : 0 <= o ->
  let '(ln, cn, t) := line_info d o in
  ln = fst (o2p d o) + 1 /\
  nth_error (lines d) (Z.to_nat (fst (o2p d o))) = Some t /\
  1 <= cn <= text_blen t + 1 /\
  cn - 1 <= Z.min o (text_blen d) /\
  (boundary d o ->
     firstn (Z.to_nat (snd (o2p d o))) t = last_line (cover d o) /\
     cn = text_blen (firstn (Z.to_nat (snd (o2p d o))) t) + 1).
Proof.
  intros Ho. destruct (li_parts_exist d o) as (h & s & P).
  pose proof (li_parts_bounds d o h s P Ho) as B.
  rewrite (line_info_parts d o h s P).
  rewrite o2p_counting. unfold pos_of, since_nl. cbn [fst snd].
  pose proof (text_blen_nonneg h). pose proof (text_blen_nonneg (take_line s)).
  split; [lia|]. split.
  { destruct P as [Hq Hdoc Hh]. rewrite Hdoc at 1. rewrite app_assoc, <- Hq. apply lines_nth. }
  split; [rewrite text_blen_app; lia|]. split; [lia|].
  intros Bd. pose proof (li_parts_boundary d o h s P Bd) as E.
  rewrite Nat2Z.id.
  assert (F : firstn (length (last_line (cover d o))) (last_line (cover d o) ++ take_line s) = last_line (cover d o)).
  { rewrite firstn_app, Nat.sub_diag, firstn_all. cbn [firstn]. apply app_nil_r. }
  rewrite F. split; [reflexivity | lia].
Qed.

(* ------------------------------------------------------------------ the caret arithmetic *)

Lemma underline_len_bounds s e cn tl : 1 <= cn <= tl + 1 ->
  1 <= underline_len s e cn tl /\ (cn - 1) + underline_len s e cn tl <= tl + 1.
Proof.
  intros H. unfold underline_len, ssub.
  destruct ((s <? e) && (0 <? cn)); lia.
Qed.

(* inside the document the underline is the span clipped to its first line, at least one caret *)
Lemma underline_len_clip s e cn tl : 1 <= cn -> cn - 1 <= s -> s < e ->
  underline_len s e cn tl = Z.max 1 (Z.min e (s - (cn - 1) + tl) - s).
Proof.
  intros H1 H2 H3. unfold underline_len, ssub.
  replace ((s <? e) && (0 <? cn)) with true by lia. lia.
Qed.

Lemma underline_len_empty s e cn tl : e <= s -> underline_len s e cn tl = 1.
Proof. intros H. unfold underline_len. replace (s <? e) with false by lia. reflexivity. Qed.

Lemma caret_m_ok m d s e : 0 <= s -> text_blen d < USIZE_MOD - 1 ->
  let '(ln, cn, t) := line_info d s in
  caret_m m d s e = Val (ln, cn, t, cn - 1, underline_len s e cn (text_blen t)).
Proof.
  intros Hs Hd. pose proof (line_info_facts d s Hs) as F.
  unfold caret_m. rewrite line_info_m_ok by assumption. cbn [bind].
  destruct (line_info d s) as [[ln cn] t]. destruct F as (_ & _ & Hc & Hm & _).
  pose proof (text_blen_nonneg d).
  rewrite usub_ok by lia. reflexivity.
Qed.

(* ------------------------------------------------------------------ the statements of Props.v *)

Lemma agrees_with_counting d o :
  o2p d o = (count_nl (cover d o), since_nl (cover d o)) /\
  (exists s, d = cover d o ++ s) /\
  (forall p s, d = p ++ s -> text_blen p = o -> cover d o = p) /\
  o2p d o = o2p d (Z.min o (text_blen d)).
Proof.
  split; [apply o2p_counting|]. split; [apply cover_split|]. split.
  - intros p s -> <-. apply cover_boundary.
  - symmetry. apply o2p_clamp.
Qed.

Lemma p2o_sound_full d p o : p2o d p = Some o ->
  boundary d o /\
  (o2p d o = p \/ (fst (o2p d o) = fst p /\ exists q r, d = q ++ 10 :: r /\ text_blen q = o)).
Proof. intros H. split; [eapply p2o_sound; eauto | now apply p2o_answer]. Qed.

Lemma p2o_complete d p : valid_pos d p -> exists o, p2o d p = Some o /\ boundary d o /\ o2p d o = p.
Proof. intros H. apply p2o_inside, valid_inside, H. Qed.

Lemma inside_iff_valid d p : inside d p <-> valid_pos d p.
Proof. split; [apply inside_valid | apply valid_inside]. Qed.

Lemma range_wf m d a b :
  Z.of_nat (length d) < 2 ^ 32 -> 0 <= a < 2 ^ 64 ->
  exists s e, span_to_range_m m d a b = Val (s, e) /\
    pos_le s e /\ valid_pos d s /\ valid_pos d e /\
    s = o2p d a /\ (a < b -> e = o2p d b) /\ (b <= a -> e = o2p d (Z.min (a + 1) (2 ^ 64 - 1))).
Proof.
  intros Hd Ha.
  exists (o2p d a), (o2p d (Z.max b (usat_add a 1))).
  split; [apply span_to_range_m_ok; exact Hd|].
  unfold usat_add, USIZE_MOD.
  split; [apply o2p_mono_weak; lia|].
  split; [apply inside_valid, o2p_inside|]. split; [apply inside_valid, o2p_inside|].
  split; [reflexivity|]. split; intros H; f_equal; lia.
Qed.

(* regression: the formerly failing class start = usize::MAX *)
Lemma range_usize_max m d b : Z.of_nat (length d) < 2 ^ 32 ->
  exists s e, span_to_range_m m d (2 ^ 64 - 1) b = Val (s, e) /\ pos_le s e /\
    s = o2p d (text_blen d) /\ valid_pos d e.
Proof.
  intros Hd. destruct (range_wf m d (2 ^ 64 - 1) b Hd ltac:(lia)) as (s & e & H1 & H2 & _ & H4 & H5 & _).
  exists s, e. split; [exact H1|]. split; [exact H2|]. split; [|exact H4].
  rewrite H5, <- (o2p_clamp d (2 ^ 64 - 1)), <- (o2p_clamp d (text_blen d)). f_equal.
  pose proof (text_blen_length d). lia.
Qed.

Lemma counters_fit m d o p : Z.of_nat (length d) < 2 ^ 32 ->
  o2p_m m d o = Val (o2p d o) /\ p2o_m m d p = Val (p2o d p).
Proof. intros H. split; [now apply o2p_m_ok | now apply p2o_m_ok]. Qed.

Lemma line_info_consistent m d o : 0 <= o -> text_blen d < 2 ^ 64 - 1 ->
  exists ln cn t, line_info_m m d o = Val (ln, cn, t) /\
    ln = fst (o2p d o) + 1 /\
    nth_error (lines d) (Z.to_nat (fst (o2p d o))) = Some t /\
    1 <= cn <= text_blen t + 1 /\
    (boundary d o ->
       firstn (Z.to_nat (snd (o2p d o))) t = last_line (cover d o) /\
       cn = text_blen (firstn (Z.to_nat (snd (o2p d o))) t) + 1).
Proof.
  intros Ho Hd. pose proof (line_info_facts d o Ho) as F.
  rewrite line_info_m_ok by (try exact Ho; unfold USIZE_MOD; lia).
  destruct (line_info d o) as [[ln cn] t]. exists ln, cn, t.
  destruct F as (F1 & F2 & F3 & _ & F5). repeat split; try assumption; try lia; apply F5; assumption.
Qed.

Lemma render_total_all m d s e :
  0 <= s < 2 ^ 64 -> text_blen d < 2 ^ 64 - 1 -> Z.of_nat (length d) < 2 ^ 32 ->
  (exists ln cn t sp ul, caret_m m d s e = Val (ln, cn, t, sp, ul) /\
     line_info_m m d s = Val (ln, cn, t) /\
     1 <= cn <= text_blen t + 1 /\ sp = cn - 1 /\ 1 <= ul /\ sp + ul <= text_blen t + 1 /\
     (e <= s -> ul = 1) /\
     (s <= text_blen d -> s < e -> ul = Z.max 1 (Z.min e (s - sp + text_blen t) - s))) /\
  (exists r, span_to_range_m m d s e = Val r).
Proof.
  intros Hs Hd Hn. split.
  - pose proof (caret_m_ok m d s e ltac:(lia) ltac:(unfold USIZE_MOD; lia)) as C.
    pose proof (line_info_facts d s ltac:(lia)) as F.
    pose proof (line_info_m_ok m d s ltac:(lia) ltac:(unfold USIZE_MOD; lia)) as L.
    destruct (line_info d s) as [[ln cn] t].
    destruct F as (_ & _ & F3 & F4 & _).
    pose proof (underline_len_bounds s e cn (text_blen t) F3) as [U1 U2].
    exists ln, cn, t, (cn - 1), (underline_len s e cn (text_blen t)).
    split; [exact C|]. split; [exact L|]. split; [exact F3|]. split; [reflexivity|].
    split; [exact U1|]. split; [exact U2|]. split.
    + apply underline_len_empty.
    + intros H1 H2. rewrite underline_len_clip by lia. reflexivity.
  - eexists. apply span_to_range_m_ok; exact Hn.
Qed.

(* the statement with the hypothesis it had before the repair of span_to_range (used by C11/Render.v) *)
Lemma render_total m d s e :
  0 <= s < 2 ^ 64 - 1 -> text_blen d < 2 ^ 64 - 1 -> Z.of_nat (length d) < 2 ^ 32 ->
  (exists ln cn t sp ul, caret_m m d s e = Val (ln, cn, t, sp, ul) /\
     line_info_m m d s = Val (ln, cn, t) /\
     1 <= cn <= text_blen t + 1 /\ sp = cn - 1 /\ 1 <= ul /\ sp + ul <= text_blen t + 1 /\
     (e <= s -> ul = 1) /\
     (s <= text_blen d -> s < e -> ul = Z.max 1 (Z.min e (s - sp + text_blen t) - s))) /\
  (exists r, span_to_range_m m d s e = Val r).
Proof. intros Hs. apply render_total_all. lia. Qed.

Lemma utf16_column d o :
  (Known_C19_astral_before d o = false -> o2p d o = o2p16 d o) /\
  (Known_C19_astral_before d o = true ->
     fst (o2p d o) = fst (o2p16 d o) /\ snd (o2p d o) < snd (o2p16 d o)).
Proof. split; [apply o2p16_agree | apply o2p16_differ]. Qed.

(* ------------------------------------------------------------------ terminal column vs character column *)

Lemma text_blen_ascii l : existsb multibyte l = false -> text_blen l = Z.of_nat (length l).
Proof.
  induction l as [|c l IH]; [reflexivity|]. cbn [existsb text_blen length]. unfold multibyte at 1.
  pose proof (blen_range c) as Hb. destruct (1 <? blen c) eqn:E; cbn [orb]; [discriminate|].
  intros Hx. rewrite IH by exact Hx. lia.
Qed.

Lemma text_blen_multibyte l : existsb multibyte l = true -> Z.of_nat (length l) < text_blen l.
Proof.
  induction l as [|c l IH]; [discriminate|]. cbn [existsb text_blen length]. unfold multibyte at 1.
  pose proof (blen_range c) as Hb. pose proof (text_blen_length l) as Hl.
  destruct (1 <? blen c) eqn:E; cbn [orb]; [lia|]. intros Hx. specialize (IH Hx). lia.
Qed.

Lemma terminal_column m d o : 0 <= o -> text_blen d < 2 ^ 64 - 1 -> boundary d o ->
  exists ln cn t, line_info_m m d o = Val (ln, cn, t) /\
    (Known_C19_multibyte_before d o = false -> cn = snd (o2p d o) + 1) /\
    (Known_C19_multibyte_before d o = true -> snd (o2p d o) + 1 < cn).
Proof.
  intros Ho Hd B. destruct (line_info_consistent m d o Ho Hd) as (ln & cn & t & L & _ & _ & _ & F).
  destruct (F B) as [F1 F2]. exists ln, cn, t. split; [exact L|].
  rewrite F2, F1. rewrite o2p_counting. unfold pos_of, since_nl, Known_C19_multibyte_before. cbn [snd].
  split; intros K; [rewrite text_blen_ascii by exact K; reflexivity | apply text_blen_multibyte in K; lia].
Qed.
