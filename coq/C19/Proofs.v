(* C19/Proofs.v — lemmas about the pure position loops (o2p, p2o) and the counting specification. *)
From Verif Require Import Base.I64 Base.Text C19.Model.
From Coq Require Import ZifyBool.
Open Scope Z_scope.
Arguments Z.add : simpl never.
Arguments Z.sub : simpl never.
Arguments Z.mul : simpl never.
Arguments Z.min : simpl never.
Arguments Z.max : simpl never.
Arguments Z.of_nat : simpl never.
Arguments Z.pow : simpl never.

(* ------------------------------------------------------------------ positions *)

Lemma pos_lt_trans p q r : pos_lt p q -> pos_lt q r -> pos_lt p r.
Proof. unfold pos_lt. lia. Qed.

Lemma pos_le_lt_trans p q r : pos_le p q -> pos_lt q r -> pos_lt p r.
Proof. intros [->|H] H2; [exact H2 | eapply pos_lt_trans; eauto]. Qed.

Lemma pos_le_trans p q r : pos_le p q -> pos_le q r -> pos_le p r.
Proof.
  intros [->|H] H2; [exact H2|]. destruct H2 as [<-|H2]; [right; exact H|].
  right. eapply pos_lt_trans; eauto.
Qed.

Lemma pos_lt_irrefl p : ~ pos_lt p p.
Proof. unfold pos_lt. lia. Qed.

Lemma pos_lt_neq p q : pos_lt p q -> (fst p =? fst q) && (snd p =? snd q) = false.
Proof. unfold pos_lt. lia. Qed.

Lemma pos_le_fst p q : pos_le p q -> fst p <= fst q.
Proof. intros [->|H]; [lia | unfold pos_lt in H; lia]. Qed.

Lemma pos_ltb_spec p q : pos_ltb p q = true <-> pos_lt p q.
Proof. unfold pos_ltb, pos_lt. lia. Qed.

(* ------------------------------------------------------------------ one step of the scan *)

Definition step (p : pos) (c : ch) : pos :=
  if is_nl c then (fst p + 1, 0) else (fst p, snd p + 1).
Definition walk (q : text) (p : pos) : pos := fold_left step q p.

Lemma walk_cons c q p : walk (c :: q) p = walk q (step p c).
Proof. reflexivity. Qed.

Lemma walk_app p q x : walk (p ++ q) x = walk q (walk p x).
Proof. unfold walk. apply fold_left_app. Qed.

Lemma step_lt x c : pos_lt x (step x c).
Proof. unfold step, pos_lt. destruct (is_nl c); cbn [fst snd]; lia. Qed.

Lemma walk_le q : forall x, pos_le x (walk q x).
Proof.
  induction q as [|c q IH]; intros x; [left; reflexivity|].
  rewrite walk_cons. eapply pos_le_trans; [right; apply step_lt | apply IH].
Qed.

Lemma walk_lt q x : q <> [] -> pos_lt x (walk q x).
Proof.
  destruct q as [|c q]; [congruence|]. intros _. rewrite walk_cons.
  destruct (walk_le q (step x c)) as [<-|H]; [apply step_lt|].
  eapply pos_lt_trans; [apply step_lt | exact H].
Qed.

(* ------------------------------------------------------------------ cover *)

Lemma cover_min d : forall o, cover d (Z.min o (text_blen d)) = cover d o.
Proof.
  induction d as [|c r IH]; intros o; [reflexivity|].
  cbn [cover text_blen].
  pose proof (blen_range c). pose proof (text_blen_nonneg r).
  destruct (o <=? 0) eqn:E.
  - replace (Z.min o (blen c + text_blen r) <=? 0) with true by lia. reflexivity.
  - replace (Z.min o (blen c + text_blen r) <=? 0) with false by lia.
    replace (Z.min o (blen c + text_blen r) - blen c) with (Z.min (o - blen c) (text_blen r)) by lia.
    now rewrite IH.
Qed.

Lemma cover_split d : forall o, exists s, d = cover d o ++ s.
Proof.
  induction d as [|c r IH]; intros o; [exists []; reflexivity|].
  cbn [cover]. destruct (o <=? 0); [exists (c :: r); reflexivity|].
  destruct (IH (o - blen c)) as [s Hs]. exists s. cbn [app]. now rewrite <- Hs.
Qed.

Lemma cover_boundary p : forall s, cover (p ++ s) (text_blen p) = p.
Proof.
  induction p as [|c p IH]; intros s.
  - cbn [app text_blen]. destruct s; reflexivity.
  - cbn [app text_blen cover].
    pose proof (blen_range c). pose proof (text_blen_nonneg p).
    replace (blen c + text_blen p <=? 0) with false by lia.
    replace (blen c + text_blen p - blen c) with (text_blen p) by lia.
    now rewrite IH.
Qed.

Lemma cover_idem d o : cover d (text_blen (cover d o)) = cover d o.
Proof.
  destruct (cover_split d o) as [s Hs].
  rewrite Hs at 1. apply cover_boundary.
Qed.

Lemma cover_mono d : forall o1 o2, o1 <= o2 -> exists q, cover d o2 = cover d o1 ++ q.
Proof.
  induction d as [|c r IH]; intros o1 o2 H; [exists []; reflexivity|].
  cbn [cover]. destruct (o1 <=? 0) eqn:E1.
  - eexists; reflexivity.
  - replace (o2 <=? 0) with false by lia.
    destruct (IH (o1 - blen c) (o2 - blen c) ltac:(lia)) as [q Hq].
    exists q. cbn [app]. now rewrite Hq.
Qed.

(* every scalar of the cover starts before the offset *)
Lemma cover_starts q1 : forall d o c q2, cover d o = q1 ++ c :: q2 -> text_blen q1 < o.
Proof.
  induction q1 as [|c1 q1 IH]; intros d o c q2 H.
  - destruct d as [|c0 r]; [discriminate|]. cbn [cover] in H.
    destruct (o <=? 0) eqn:E; [discriminate|]. cbn [text_blen]. lia.
  - destruct d as [|c0 r]; [discriminate|]. cbn [cover] in H.
    destruct (o <=? 0) eqn:E; [discriminate|]. cbn [app] in H.
    injection H as -> H. apply IH in H. cbn [text_blen]. lia.
Qed.

(* the cover reaches the (clamped) offset *)
Lemma cover_reaches d : forall o, o <= text_blen d -> o <= text_blen (cover d o) \/ o <= 0.
Proof.
  induction d as [|c r IH]; intros o H; cbn [cover text_blen] in *; [right; lia|].
  destruct (o <=? 0) eqn:E; [right; lia|]. left. cbn [text_blen].
  destruct (IH (o - blen c) ltac:(lia)); [lia|].
  pose proof (text_blen_nonneg (cover r (o - blen c))). lia.
Qed.

Lemma boundary_cover d o : boundary d o -> exists s, d = cover d o ++ s /\ text_blen (cover d o) = o.
Proof.
  intros (p & s & E & L). exists s.
  assert (C : cover d o = p) by (rewrite E, <- L; apply cover_boundary).
  rewrite C. split; assumption.
Qed.

Lemma boundary_range d o : boundary d o -> 0 <= o <= text_blen d.
Proof.
  intros (p & s & E & L). subst. rewrite text_blen_app.
  pose proof (text_blen_nonneg p). pose proof (text_blen_nonneg s). lia.
Qed.

Lemma cover_is_boundary d o : boundary d (text_blen (cover d o)).
Proof. destruct (cover_split d o) as [s Hs]. exists (cover d o), s. split; [exact Hs | reflexivity]. Qed.

(* ------------------------------------------------------------------ o2p as a walk over the cover *)

Lemma o2p_loop_walk d : forall i off l c, o2p_loop d i off l c = walk (cover d (off - i)) (l, c).
Proof.
  induction d as [|a r IH]; intros i off l c; [reflexivity|].
  cbn [o2p_loop cover].
  replace (off - i <=? 0) with (off <=? i) by lia.
  destruct (off <=? i); [reflexivity|].
  rewrite walk_cons. unfold step. cbn [fst snd].
  destruct (is_nl a); rewrite IH; do 2 f_equal; lia.
Qed.

Lemma o2p_walk d o : o2p d o = walk (cover d o) (0, 0).
Proof. unfold o2p. rewrite o2p_loop_walk, Z.sub_0_r. now rewrite cover_min. Qed.

Lemma o2p_boundary p s : o2p (p ++ s) (text_blen p) = walk p (0, 0).
Proof. now rewrite o2p_walk, cover_boundary. Qed.

Lemma o2p_clamp d o : o2p d (Z.min o (text_blen d)) = o2p d o.
Proof. now rewrite !o2p_walk, cover_min. Qed.

Lemma o2p_mono_weak d o1 o2 : o1 <= o2 -> pos_le (o2p d o1) (o2p d o2).
Proof.
  intros H. rewrite !o2p_walk. destruct (cover_mono d o1 o2 H) as [q ->].
  rewrite walk_app. apply walk_le.
Qed.

Lemma o2p_mono_strict d o1 o2 :
  boundary d o1 -> boundary d o2 -> o1 < o2 -> pos_lt (o2p d o1) (o2p d o2).
Proof.
  intros B1 B2 H. rewrite !o2p_walk.
  destruct (boundary_cover d o1 B1) as (s1 & E1 & L1).
  destruct (boundary_cover d o2 B2) as (s2 & E2 & L2).
  destruct (cover_mono d o1 o2 ltac:(lia)) as [q Hq].
  rewrite Hq, walk_app. apply walk_lt. intros ->.
  rewrite app_nil_r in Hq. rewrite Hq in L2. lia.
Qed.

Lemma o2p_inside d o : inside d (o2p d o).
Proof.
  exists (text_blen (cover d o)). split; [apply cover_is_boundary|].
  now rewrite !o2p_walk, cover_idem.
Qed.

(* ------------------------------------------------------------------ the walk counts newlines and characters *)

Lemma takewhile_snoc_false {A} (f : A -> bool) l x : f x = false -> takewhile f (l ++ [x]) = takewhile f l.
Proof.
  intros H. induction l as [|y l IH]; cbn [takewhile app]; [now rewrite H|].
  destruct (f y); [now rewrite IH | reflexivity].
Qed.

Lemma takewhile_all {A} (f : A -> bool) l : forallb f (takewhile f l) = true.
Proof.
  induction l as [|y l IH]; cbn [takewhile]; [reflexivity|].
  destruct (f y) eqn:E; [cbn [forallb]; now rewrite E, IH | reflexivity].
Qed.

Lemma takewhile_split {A} (f : A -> bool) l : exists r, l = takewhile f l ++ r.
Proof.
  induction l as [|y l [r IH]]; [exists []; reflexivity|]. cbn [takewhile].
  destruct (f y); [exists r; cbn [app]; now rewrite <- IH | exists (y :: l); reflexivity].
Qed.

Lemma is_nl_eq c : is_nl c = true -> c = 10.
Proof. unfold is_nl. lia. Qed.

Lemma last_line_snoc p c :
  last_line (p ++ [c]) = if is_nl c then [] else last_line p ++ [c].
Proof.
  unfold last_line. rewrite rev_unit. cbn [takewhile]. unfold not_nl at 1.
  destruct (is_nl c); reflexivity.
Qed.

Lemma last_line_cons_nl c p : is_nl c = true -> last_line (c :: p) = last_line p.
Proof.
  intros H. unfold last_line. cbn [rev]. rewrite takewhile_snoc_false; [reflexivity|].
  unfold not_nl. now rewrite H.
Qed.

Lemma count_nl_snoc p c : count_nl (p ++ [c]) = count_nl p + (if is_nl c then 1 else 0).
Proof.
  unfold count_nl. rewrite filter_app, app_length. cbn [filter].
  destruct (is_nl c); cbn [length]; lia.
Qed.

Lemma count_nl_cons c p : count_nl (c :: p) = (if is_nl c then 1 else 0) + count_nl p.
Proof. unfold count_nl. cbn [filter]. destruct (is_nl c); cbn [length]; lia. Qed.

Lemma count_nl_nonneg p : 0 <= count_nl p.
Proof. unfold count_nl. lia. Qed.

Lemma pos_of_snoc p c : pos_of (p ++ [c]) = step (pos_of p) c.
Proof.
  unfold pos_of, step, since_nl. cbn [fst snd]. rewrite count_nl_snoc, last_line_snoc.
  destruct (is_nl c); [cbn [length]; f_equal; lia|].
  rewrite app_length. cbn [length]. f_equal; lia.
Qed.

Lemma walk_counting p : walk p (0, 0) = pos_of p.
Proof.
  induction p as [|c p IH] using rev_ind; [reflexivity|].
  now rewrite walk_app, IH, pos_of_snoc.
Qed.

Lemma o2p_counting d o : o2p d o = pos_of (cover d o).
Proof. now rewrite o2p_walk, walk_counting. Qed.

(* ------------------------------------------------------------------ p2o *)

Lemma p2o_loop_reach p : forall s i x,
  p2o_loop (p ++ s) i (fst x) (snd x) i (fst (walk p x)) (snd (walk p x)) = Some (i + text_blen p).
Proof.
  induction p as [|c p IH]; intros s i x.
  - cbn [app walk fold_left text_blen]. rewrite Z.add_0_r.
    destruct s as [|c0 r]; cbn [p2o_loop]; rewrite !Z.eqb_refl; reflexivity.
  - cbn [app p2o_loop text_blen].
    rewrite (pos_lt_neq x (walk (c :: p) x)) by (apply walk_lt; congruence).
    rewrite walk_cons.
    pose proof (pos_le_fst _ _ (walk_le p (step x c))) as Hf.
    unfold step in *. destruct (is_nl c) eqn:En; cbn [fst snd] in Hf.
    + replace (fst x =? fst (walk p (fst x + 1, 0))) with false by lia.
      pose proof (IH s (i + blen c) (fst x + 1, 0)) as H'. cbn [fst snd] in H'.
      rewrite H'. f_equal. lia.
    + pose proof (IH s (i + blen c) (fst x, snd x + 1)) as H'. cbn [fst snd] in H'.
      rewrite H'. f_equal. lia.
Qed.

Lemma p2o_roundtrip d o : boundary d o -> p2o d (o2p d o) = Some o.
Proof.
  intros (p & s & -> & <-). rewrite o2p_boundary. unfold p2o.
  exact (p2o_loop_reach p s 0 (0, 0)).
Qed.

Lemma p2o_loop_sound d : forall i l c pl pc o,
  p2o_loop d i l c i pl pc = Some o -> exists p s, d = p ++ s /\ o = i + text_blen p.
Proof.
  induction d as [|a r IH]; intros i l c pl pc o H; cbn [p2o_loop] in H.
  - destruct ((l =? pl) && (c =? pc)); [|discriminate]. injection H as <-.
    exists [], []. cbn [text_blen app]. split; [reflexivity | lia].
  - destruct ((l =? pl) && (c =? pc)).
    { injection H as <-. exists [], (a :: r). cbn [text_blen app]. split; [reflexivity | lia]. }
    destruct (is_nl a).
    + destruct (l =? pl).
      { injection H as <-. exists [], (a :: r). cbn [text_blen app]. split; [reflexivity | lia]. }
      apply IH in H. destruct H as (p & s & -> & ->). exists (a :: p), s. cbn [text_blen app]. split; [reflexivity | lia].
    + apply IH in H. destruct H as (p & s & -> & ->). exists (a :: p), s. cbn [text_blen app]. split; [reflexivity | lia].
Qed.

Lemma p2o_sound d p o : p2o d p = Some o -> boundary d o.
Proof.
  unfold p2o. intros H. apply p2o_loop_sound in H. destruct H as (q & s & E & ->).
  exists q, s. split; [exact E | lia].
Qed.

(* what an answer of p2o means: the position of the answer is the asked position, or the asked
   position lies beyond the end of its line and the answer is that line's end (clamping) *)
Lemma p2o_loop_answer d : forall i x pl pc o,
  p2o_loop d i (fst x) (snd x) i pl pc = Some o ->
  exists p s, d = p ++ s /\ o = i + text_blen p /\
    (walk p x = (pl, pc) \/ (fst (walk p x) = pl /\ exists r, s = 10 :: r)).
Proof.
  induction d as [|a r IH]; intros i x pl pc o H; cbn [p2o_loop] in H.
  - destruct ((fst x =? pl) && (snd x =? pc)) eqn:E; [|discriminate]. injection H as <-.
    exists [], []. cbn [text_blen app walk fold_left]. repeat split; try lia.
    left. destruct x; cbn [fst snd] in *. f_equal; lia.
  - destruct ((fst x =? pl) && (snd x =? pc)) eqn:E.
    { injection H as <-. exists [], (a :: r). cbn [text_blen app walk fold_left]. repeat split; try lia.
      left. destruct x; cbn [fst snd] in *. f_equal; lia. }
    destruct (is_nl a) eqn:En.
    + destruct (fst x =? pl) eqn:El.
      { injection H as <-. exists [], (a :: r). cbn [text_blen app walk fold_left]. repeat split; try lia.
        right. split; [lia|]. exists r. now rewrite (is_nl_eq a En). }
      specialize (IH (i + blen a) (fst x + 1, 0) pl pc o H).
      destruct IH as (p & s & -> & -> & D). exists (a :: p), s. cbn [text_blen app]. repeat split; try lia.
      rewrite walk_cons. unfold step. now rewrite En.
    + specialize (IH (i + blen a) (fst x, snd x + 1) pl pc o H).
      destruct IH as (p & s & -> & -> & D). exists (a :: p), s. cbn [text_blen app]. repeat split; try lia.
      rewrite walk_cons. unfold step. now rewrite En.
Qed.

Lemma p2o_answer d p o : p2o d p = Some o ->
  o2p d o = p \/ (fst (o2p d o) = fst p /\ exists q r, d = q ++ 10 :: r /\ text_blen q = o).
Proof.
  unfold p2o. intros H. apply (p2o_loop_answer d 0 (0, 0)) in H.
  destruct H as (q & s & -> & -> & D). cbn [Z.add]. rewrite Z.add_0_l, o2p_boundary.
  destruct D as [D | (D & r & ->)]; [left; rewrite D; now destruct p|].
  right. split; [exact D|]. exists q, r. split; reflexivity.
Qed.

(* a position inside the document is mapped to its own offset *)
Lemma p2o_inside d p : inside d p -> exists o, p2o d p = Some o /\ boundary d o /\ o2p d o = p.
Proof.
  intros (o & B & E). exists o. rewrite <- E at 1. split; [now apply p2o_roundtrip | now split].
Qed.
