(* C15/Proofs.v — lemmas about the scanner traversal, the manifest writer and the CLI glue. *)
From Coq Require Import ZArith List Bool Lia String Ascii Permutation.
From Verif Require Import C15.Model.
Import ListNotations.
Open Scope Z_scope.

(* ------------------------------------------------------------------ strings *)
Lemma str_eqb_refl : forall a, str_eqb a a = true.
Proof. induction a as [|x a IH]; cbn; [reflexivity|]. now rewrite Z.eqb_refl, IH. Qed.

Lemma str_eqb_eq : forall a b, str_eqb a b = true -> a = b.
Proof.
  induction a as [|x a IH]; destruct b as [|y b]; cbn; intros H; try discriminate; [reflexivity|].
  apply andb_true_iff in H as [H1 H2]. apply Z.eqb_eq in H1. subst. f_equal. now apply IH.
Qed.

Lemma mem_In : forall x l, mem x l = true -> In x l.
Proof.
  induction l as [|y l IH]; cbn; intros H; [discriminate|].
  apply orb_true_iff in H as [H|H]; [left; symmetry; now apply str_eqb_eq | right; now apply IH].
Qed.

Lemma In_mem : forall x l, In x l -> mem x l = true.
Proof.
  induction l as [|y l IH]; cbn; intros H; [contradiction|].
  destruct H as [->|H]; [now rewrite str_eqb_refl | rewrite IH by assumption; apply orb_true_r].
Qed.

(* ------------------------------------------------------------------ the traversal *)
Scheme node_ind2 := Induction for node Sort Prop
  with kids_ind2 := Induction for kids Sort Prop.
Combined Scheme node_kids_ind from node_ind2, kids_ind2.

Lemma detect_mono_both : forall (t1 t2 : edges) trig,
  (forall k sl, t1 k sl = true -> t2 k sl = true) ->
  (forall n, detect t1 trig n = true -> detect t2 trig n = true) /\
  (forall ks k, detect_kids t1 trig k ks = true -> detect_kids t2 trig k ks = true).
Proof.
  intros t1 t2 trig H. apply node_kids_ind.
  - intros k t l ks IH. cbn. rewrite !orb_true_iff. intros [A|A]; [now left | right; now apply IH].
  - intros k. cbn. discriminate.
  - intros sl c IHc r IHr k. cbn. rewrite !orb_true_iff, !andb_true_iff.
    intros [[A B]|A]; [left; split; [now apply H | now apply IHc] | right; now apply IHr].
Qed.

Lemma detect_mono : forall (t1 t2 : edges) trig n,
  (forall k sl, t1 k sl = true -> t2 k sl = true) ->
  detect t1 trig n = true -> detect t2 trig n = true.
Proof. intros t1 t2 trig n H. now apply (proj1 (detect_mono_both t1 t2 trig H)). Qed.

Lemma detect_sound : forall tbl trig n, detect tbl trig n = true -> uses trig n = true.
Proof. intros tbl trig n. unfold uses. apply detect_mono. reflexivity. Qed.

Lemma detect_complete_full : forall (tbl : edges) trig n,
  (forall k sl, tbl k sl = true) -> uses trig n = true -> detect tbl trig n = true.
Proof. intros tbl trig n H. unfold uses. apply detect_mono. intros; apply H. Qed.

(* [known] covers the table: every edge the scanner does not follow is listed *)
Definition covers (tbl : edges) (known : list (Z * Z)) : Prop :=
  forall k sl, tbl k sl = false -> pair_in k sl known = true.

Lemma covers_full_except : forall tbl known, covers tbl known ->
  forall k sl, full_except known k sl = true -> tbl k sl = true.
Proof.
  intros tbl known C k sl H. unfold full_except in H. apply negb_true_iff in H.
  destruct (tbl k sl) eqn:E; [reflexivity|]. rewrite (C k sl E) in H. discriminate.
Qed.

Lemma detect_outside_known : forall tbl known trig n, covers tbl known ->
  uses trig n = true -> ~ Known_C15_scanner_arms known trig n -> detect tbl trig n = true.
Proof.
  intros tbl known trig n C U NK.
  destruct (detect (full_except known) trig n) eqn:E.
  - eapply detect_mono; [|exact E]. now apply covers_full_except.
  - exfalso. apply NK. now split.
Qed.

Lemma missing_edge_witness : forall (tbl : edges) (trig : trig_fn) k sl tk tt,
  tbl k sl = false -> trig k 0 = false -> trig tk tt = true ->
  uses trig (Node k 0 [] (KCons sl (Node tk tt [] KNil) KNil)) = true /\
  detect tbl trig (Node k 0 [] (KCons sl (Node tk tt [] KNil) KNil)) = false.
Proof. intros tbl trig k sl tk tt H0 H1 H2. unfold uses, full. cbn. rewrite H0, H1, H2. cbn. auto. Qed.

(* a present edge on the way down does not hide anything *)
Lemma detect_through : forall (tbl : edges) trig k t l sl c,
  tbl k sl = true -> detect tbl trig (Node k t l (KCons sl c KNil)) = trig k t || detect tbl trig c.
Proof. intros. cbn. rewrite H. now rewrite andb_true_l, orb_false_r. Qed.

Lemma known_b_spec : forall known trig n,
  known_scanner_arms_b known trig n = true <-> Known_C15_scanner_arms known trig n.
Proof.
  intros. unfold known_scanner_arms_b, Known_C15_scanner_arms. rewrite andb_true_iff, negb_true_iff. tauto.
Qed.

(* ------------------------------------------------------------------ the manifest *)
Lemma in_dep_names_fixed : forall g c, In c (added g) -> In c (dep_names g).
Proof. intros g c H. unfold dep_names, deps. rewrite map_app. apply in_or_app. now left. Qed.

Lemma crate_declared : forall g c v, In (c, v) (g_crates g) -> In c (dep_names g).
Proof.
  intros g c v H. destruct (mem c (added g)) eqn:E.
  - apply in_dep_names_fixed. now apply mem_In.
  - unfold dep_names, deps. rewrite map_app. apply in_or_app. right. unfold rust_deps.
    rewrite map_map. apply in_map_iff. exists (c, v). split; [reflexivity|].
    apply filter_In. split; [assumption|]. cbn [fst]. now rewrite E.
Qed.

Lemma stdlib_declared : forall g, In (s "incan_stdlib") (dep_names g) /\ In (s "incan_derive") (dep_names g).
Proof.
  intros g. split; apply in_dep_names_fixed; unfold added, fixed_deps; cbn [map fst stdlib_dep derive_dep].
  - now left.
  - right. now left.
Qed.

Lemma serde_declared : forall g, g_serde g = true ->
  In (s "serde") (dep_names g) /\ In (s "serde_json") (dep_names g).
Proof.
  intros g H. split; apply in_dep_names_fixed; unfold added, fixed_deps; rewrite H;
    cbn [map fst app serde_deps]; right; right; [now left | right; now left].
Qed.

Lemma tokio_declared : forall g, g_tokio g = true \/ g_axum g = true -> In (s "tokio") (dep_names g).
Proof.
  intros g H. apply in_dep_names_fixed. unfold added, fixed_deps.
  destruct (g_axum g) eqn:A; destruct (g_tokio g) eqn:T; destruct (g_serde g);
    cbn [map fst app serde_deps axum_dep tokio_dep tokio_net_dep]; try (destruct H; discriminate); auto 10 using in_eq, in_cons.
Qed.

Lemma axum_declared : forall g, g_axum g = true -> In (s "axum") (dep_names g).
Proof.
  intros g H. apply in_dep_names_fixed. unfold added, fixed_deps. rewrite H.
  destruct (g_serde g); cbn [map fst app serde_deps axum_dep tokio_net_dep]; auto 10 using in_eq, in_cons.
Qed.

(* which names the fixed part can contain, and why *)
Lemma added_only : forall g c, In c (added g) ->
  c = s "incan_stdlib" \/ c = s "incan_derive" \/
  ((c = s "serde" \/ c = s "serde_json") /\ g_serde g = true) \/
  (c = s "tokio" /\ (g_tokio g = true \/ g_axum g = true)) \/
  (c = s "axum" /\ g_axum g = true).
Proof.
  intros g c H. unfold added, fixed_deps in H.
  destruct (g_serde g) eqn:S; destruct (g_axum g) eqn:A; destruct (g_tokio g) eqn:T;
    cbn [map fst app serde_deps axum_dep tokio_dep tokio_net_dep stdlib_dep derive_dep] in H;
    repeat (destruct H as [H|H]; [subst c; auto 12 |]); try contradiction.
Qed.

Lemma rust_dep_only : forall g c, In c (map fst (rust_deps g)) -> exists v, In (c, v) (g_crates g).
Proof.
  intros g c H. unfold rust_deps in H. rewrite map_map in H. apply in_map_iff in H as [[c' v] [E H]].
  cbn in E. subst c'. apply filter_In in H as [H _]. now exists v.
Qed.

(* pinned *)
Lemma fixed_pinned : forall g, forallb dep_pinned (fixed_deps g) = true.
Proof.
  intros g. unfold fixed_deps, stdlib_dep, derive_dep, dep_pinned.
  destruct (g_serde g); destruct (g_axum g); destruct (g_tokio g); vm_compute; reflexivity.
Qed.

Lemma lookup_pinned : forall t c sp, table_ok t = true -> lookup t c = Some sp -> spec_pinned sp = true.
Proof.
  induction t as [|[k v] t IH]; cbn; intros c sp H L; [discriminate|].
  apply andb_true_iff in H as [H1 H2]. destruct (str_eqb c k); [injection L as <-; exact H1 | eapply IH; eauto].
Qed.

Lemma deps_pinned : forall g,
  (forall c sp, In (c, Some sp) (g_crates g) -> spec_pinned sp = true) ->
  ~ Known_C15_wildcard g -> forallb dep_pinned (deps g) = true.
Proof.
  intros g HS NK. unfold deps. rewrite forallb_app, fixed_pinned. cbn.
  apply forallb_forall. intros d Hd. unfold rust_deps in Hd. apply in_map_iff in Hd as [[c v] [E H]].
  apply filter_In in H as [H M]. cbn [fst] in M. apply negb_true_iff in M. subst d. unfold dep_pinned, crate_dep. cbn.
  destruct v as [sp|]; [now apply (HS c sp) | exfalso; apply NK; now exists c].
Qed.

Lemma wildcard_b_spec : forall g, known_wildcard_b g = true <-> Known_C15_wildcard g.
Proof.
  intros g. unfold known_wildcard_b, Known_C15_wildcard. rewrite existsb_exists. split.
  - intros [[c v] [H E]]. cbn [snd fst] in E. destruct v; [discriminate|]. apply negb_true_iff in E. now exists c.
  - intros [c [H E]]. exists (c, None). split; [assumption|]. cbn [snd fst]. now rewrite E.
Qed.

(* ------------------------------------------------------------------ TOML lines *)
Lemma strip_app : forall p x, strip p (p ++ x) = Some x.
Proof. induction p as [|a p IH]; cbn; intros x; [reflexivity|]. now rewrite Z.eqb_refl. Qed.

Lemma name_char_basic : forall c, name_char c = true -> basic_char c = true.
Proof. intros c. unfold name_char, alpha, digit, basic_char. lia. Qed.

Lemma name_char_key : forall c, name_char c = true -> key_char c = true.
Proof. intros c H. exact H. Qed.

Lemma basic_not_quote : forall c, basic_char c = true -> (c =? 34) = false.
Proof. intros c. unfold basic_char. lia. Qed.

Lemma str_body_app : forall x y, forallb basic_char x = true -> str_body (x ++ y) = str_body y.
Proof.
  induction x as [|c x IH]; cbn; intros y H; [reflexivity|].
  apply andb_true_iff in H as [H1 H2]. rewrite (basic_not_quote c H1), H1. now apply IH.
Qed.

Lemma legal_name_basic : forall n, legal_name n = true -> forallb basic_char n = true.
Proof.
  intros [|c r]; cbn; [discriminate|]. intros H. apply andb_true_iff in H as [H1 H2].
  apply andb_true_iff. split.
  - apply name_char_basic. unfold name_char. now rewrite H1.
  - apply forallb_forall. intros x Hx. apply name_char_basic. exact (proj1 (forallb_forall _ _) H2 x Hx).
Qed.

(* `name = "<n>"` is a valid line whenever n consists of basic characters *)
Lemma name_line_ok : forall n, forallb basic_char n = true -> line_ok (s "name = """ ++ n ++ s """") = true.
Proof.
  intros n H.
  change (s "name = """ ++ n ++ s """") with (110 :: 97 :: 109 :: 101 :: 32 :: 61 :: 32 :: 34 :: (n ++ [34])).
  unfold line_ok. change (110 =? 35) with false. change (110 =? 91) with false. cbv iota.
  unfold key_eq, take_key. change (key_char 110) with true. cbv iota.
  change (key_rest (97 :: 109 :: 101 :: 32 :: 61 :: 32 :: 34 :: (n ++ [34]))) with (32 :: 61 :: 32 :: 34 :: (n ++ [34])).
  change (strip [32; 61; 32] (32 :: 61 :: 32 :: 34 :: (n ++ [34]))) with (Some (34 :: (n ++ [34]))).
  cbv iota. unfold value_ok. change (strip [123; 32] (34 :: (n ++ [34]))) with (@None str). cbv iota.
  unfold scalar, bstring. change (strip [34] (34 :: (n ++ [34]))) with (Some (n ++ [34])). cbv iota.
  rewrite (str_body_app n [34] H). reflexivity.
Qed.

Lemma version_line_ok : forall v, forallb basic_char v = true -> line_ok (s "version = """ ++ v ++ s """") = true.
Proof.
  intros v H.
  change (s "version = """ ++ v ++ s """") with (118 :: 101 :: 114 :: 115 :: 105 :: 111 :: 110 :: 32 :: 61 :: 32 :: 34 :: (v ++ [34])).
  unfold line_ok. change (118 =? 35) with false. change (118 =? 91) with false. cbv iota.
  unfold key_eq, take_key. change (key_char 118) with true. cbv iota.
  change (key_rest (101 :: 114 :: 115 :: 105 :: 111 :: 110 :: 32 :: 61 :: 32 :: 34 :: (v ++ [34]))) with (32 :: 61 :: 32 :: 34 :: (v ++ [34])).
  change (strip [32; 61; 32] (32 :: 61 :: 32 :: 34 :: (v ++ [34]))) with (Some (34 :: (v ++ [34]))).
  cbv iota. unfold value_ok. change (strip [123; 32] (34 :: (v ++ [34]))) with (@None str). cbv iota.
  unfold scalar, bstring. change (strip [34] (34 :: (v ++ [34]))) with (Some (v ++ [34])). cbv iota.
  rewrite (str_body_app v [34] H). reflexivity.
Qed.
