(* C15/Proofs.v — lemmas about the scanner traversal, the manifest writer and the CLI glue. *)
From Coq Require Import ZArith List Bool Lia String Ascii Permutation Sorted.
From Verif Require Import C15.Model.
Import ListNotations.
Open Scope Z_scope.

(* ------------------------------------------------------------------ strings *)
Lemma str_eqb_refl : forall a, str_eqb a a = true.
Proof. induction a as [|x a IH]; cbn; [reflexivity|]. now rewrite Z.eqb_refl, IH. Qed.

Lemma str_eqb_eq : forall a b, str_eqb a b = true -> a = b.
Proof.
  induction a as [|x a IH]; destruct b as [|y b]; cbn; intros H; try discriminate; [reflexivity|].
  apply andb_true_iff in H as [H1 H2]. apply Z.eqb_eq in H1. subst. f_equal. now apply IH.
Qed.

Lemma mem_In : forall x l, mem x l = true -> In x l.
Proof.
  induction l as [|y l IH]; cbn; intros H; [discriminate|].
  apply orb_true_iff in H as [H|H]; [left; symmetry; now apply str_eqb_eq | right; now apply IH].
Qed.

Lemma In_mem : forall x l, In x l -> mem x l = true.
Proof.
  induction l as [|y l IH]; cbn; intros H; [contradiction|].
  destruct H as [->|H]; [now rewrite str_eqb_refl | rewrite IH by assumption; apply orb_true_r].
Qed.

Lemma dedup_In_inv : forall l y, In y (dedup l) -> In y l.
Proof.
  induction l as [|x l IH]; cbn; intros y H; [contradiction|].
  destruct H as [H|H]; [now left|]. apply filter_In in H as [H _]. right. now apply IH.
Qed.

Lemma dedup_In : forall l y, In y l -> In y (dedup l).
Proof.
  induction l as [|x l IH]; cbn; intros y H; [contradiction|].
  destruct (str_eqb x y) eqn:E; [left; now apply str_eqb_eq|].
  destruct H as [H|H]; [left; exact H|]. right. apply filter_In. split; [now apply IH | now rewrite E].
Qed.

(* ------------------------------------------------------------------ the order on strings, sort by key *)
Ltac zcmp := repeat match goal with
  | |- context [?a <? ?b] => destruct (Z.ltb_spec a b)
  | H : context [?a <? ?b] |- _ => destruct (Z.ltb_spec a b)
  end.

Lemma str_leb_total : forall a b, str_leb a b = true \/ str_leb b a = true.
Proof.
  induction a as [|x a IH]; destruct b as [|y b]; cbn; auto.
  zcmp; auto; try lia.
Qed.

Lemma str_leb_antisym : forall a b, str_leb a b = true -> str_leb b a = true -> a = b.
Proof.
  induction a as [|x a IH]; destruct b as [|y b]; cbn; intros H1 H2; try discriminate; [reflexivity|].
  zcmp; try discriminate; try lia. assert (x = y) by lia. subst. f_equal. now apply IH.
Qed.

Lemma str_leb_trans : forall a b c, str_leb a b = true -> str_leb b c = true -> str_leb a c = true.
Proof.
  induction a as [|x a IH]; destruct b as [|y b]; destruct c as [|z c]; cbn; intros H1 H2; try discriminate; auto.
  zcmp; try discriminate; try lia; auto. eapply IH; eauto.
Qed.

Lemma str_leb_refl : forall a, str_leb a a = true.
Proof. intros a. destruct (str_leb_total a a); assumption. Qed.

Section KeyedSort.
Context {V : Type}.
Definition kle (a b : str * V) : Prop := str_leb (fst a) (fst b) = true.

Lemma kinsert_perm : forall (x : str * V) l, Permutation (kinsert x l) (x :: l).
Proof.
  induction l as [|y l IH]; cbn; [apply Permutation_refl|].
  destruct (str_leb (fst x) (fst y)); [apply Permutation_refl|].
  eapply perm_trans; [apply perm_skip; exact IH | apply perm_swap].
Qed.

Lemma ksort_perm : forall (l : list (str * V)), Permutation (ksort l) l.
Proof.
  induction l as [|x l IH]; cbn; [apply perm_nil|].
  eapply perm_trans; [apply kinsert_perm | now apply perm_skip].
Qed.

Lemma kinsert_sorted : forall (x : str * V) l, StronglySorted kle l -> StronglySorted kle (kinsert x l).
Proof.
  induction l as [|y l IH]; cbn; intros H; [repeat constructor|].
  inversion H as [|? ? HS HF]; subst.
  destruct (str_leb (fst x) (fst y)) eqn:E.
  - constructor; [exact H|]. constructor; [exact E|].
    eapply Forall_impl; [|exact HF]. intros z Hz. unfold kle in *. eapply str_leb_trans; eauto.
  - constructor; [now apply IH|].
    assert (Hyx : kle y x) by (unfold kle; destruct (str_leb_total (fst x) (fst y)) as [T|T]; [rewrite T in E; discriminate | exact T]).
    eapply Permutation_Forall; [apply Permutation_sym; apply kinsert_perm|]. constructor; assumption.
Qed.

Lemma ksort_sorted : forall (l : list (str * V)), StronglySorted kle (ksort l).
Proof. induction l as [|x l IH]; cbn; [constructor | now apply kinsert_sorted]. Qed.

Lemma nodup_key_inj : forall (l : list (str * V)) a b,
  NoDup (map fst l) -> In a l -> In b l -> fst a = fst b -> a = b.
Proof.
  induction l as [|x l IH]; cbn; intros a b ND Ia Ib E; [contradiction|].
  inversion ND as [|? ? N ND']; subst.
  destruct Ia as [Ia|Ia]; destruct Ib as [Ib|Ib]; subst.
  - reflexivity.
  - exfalso. apply N. rewrite E. now apply in_map.
  - exfalso. apply N. rewrite <- E. now apply in_map.
  - now apply IH.
Qed.

Lemma ksorted_unique : forall (l1 l2 : list (str * V)),
  NoDup (map fst l1) -> StronglySorted kle l1 -> StronglySorted kle l2 -> Permutation l1 l2 -> l1 = l2.
Proof.
  induction l1 as [|a l1 IH]; intros l2 ND S1 S2 P.
  - symmetry. now apply Permutation_nil.
  - destruct l2 as [|b l2]; [apply Permutation_sym, Permutation_nil in P; discriminate|].
    inversion S1 as [|? ? S1' F1]; inversion S2 as [|? ? S2' F2]; subst.
    assert (E : a = b).
    { assert (Ia : In a (b :: l2)) by (eapply Permutation_in; [exact P | now left]).
      assert (Ib : In b (a :: l1)) by (eapply Permutation_in; [apply Permutation_sym; exact P | now left]).
      destruct Ia as [Ia|Ia]; [now symmetry|]. destruct Ib as [Ib|Ib]; [assumption|].
      apply (nodup_key_inj (a :: l1)); [exact ND | now left | now right |].
      apply str_leb_antisym.
      - exact (proj1 (Forall_forall _ _) F1 b Ib).
      - exact (proj1 (Forall_forall _ _) F2 a Ia). }
    subst b. f_equal. apply IH; try assumption.
    + now inversion ND.
    + now apply Permutation_cons_inv in P.
Qed.

(* the result of sorting the entries of a HashMap (distinct keys) does not depend on the iteration order *)
Lemma ksort_order_free : forall (l1 l2 : list (str * V)),
  NoDup (map fst l1) -> Permutation l1 l2 -> ksort l1 = ksort l2.
Proof.
  intros l1 l2 ND P. apply ksorted_unique; try apply ksort_sorted.
  - eapply Permutation_NoDup; [apply Permutation_map, Permutation_sym, ksort_perm | exact ND].
  - eapply perm_trans; [apply ksort_perm|]. eapply perm_trans; [exact P|]. apply Permutation_sym, ksort_perm.
Qed.
End KeyedSort.

Lemma in_ksort : forall (V : Type) (l : list (str * V)) x, In x (ksort l) <-> In x l.
Proof.
  intros V l x. split; intros H.
  - eapply Permutation_in; [apply ksort_perm | exact H].
  - eapply Permutation_in; [apply Permutation_sym, ksort_perm | exact H].
Qed.

(* ------------------------------------------------------------------ the traversal *)
Scheme node_ind2 := Induction for node Sort Prop
  with kids_ind2 := Induction for kids Sort Prop.
Combined Scheme node_kids_ind from node_ind2, kids_ind2.

Lemma detect_mono_both : forall (t1 t2 : edges) trig,
  (forall k sl, t1 k sl = true -> t2 k sl = true) ->
  (forall n, detect t1 trig n = true -> detect t2 trig n = true) /\
  (forall ks k, detect_kids t1 trig k ks = true -> detect_kids t2 trig k ks = true).
Proof.
  intros t1 t2 trig H. apply node_kids_ind.
  - intros k t l ks IH. cbn. rewrite !orb_true_iff. intros [A|A]; [now left | right; now apply IH].
  - intros k. cbn. discriminate.
  - intros sl c IHc r IHr k. cbn. rewrite !orb_true_iff, !andb_true_iff.
    intros [[A B]|A]; [left; split; [now apply H | now apply IHc] | right; now apply IHr].
Qed.

Lemma detect_mono : forall (t1 t2 : edges) trig n,
  (forall k sl, t1 k sl = true -> t2 k sl = true) ->
  detect t1 trig n = true -> detect t2 trig n = true.
Proof. intros t1 t2 trig n H. now apply (proj1 (detect_mono_both t1 t2 trig H)). Qed.

Lemma detect_sound : forall tbl trig n, detect tbl trig n = true -> uses trig n = true.
Proof. intros tbl trig n. unfold uses. apply detect_mono. reflexivity. Qed.

Lemma detect_complete_full : forall (tbl : edges) trig n,
  (forall k sl, tbl k sl = true) -> uses trig n = true -> detect tbl trig n = true.
Proof. intros tbl trig n H. unfold uses. apply detect_mono. intros; apply H. Qed.

(* [known] covers the table: every edge the scanner does not follow is listed *)
Definition covers (tbl : edges) (known : list (Z * Z)) : Prop :=
  forall k sl, tbl k sl = false -> pair_in k sl known = true.

Lemma covers_full_except : forall tbl known, covers tbl known ->
  forall k sl, full_except known k sl = true -> tbl k sl = true.
Proof.
  intros tbl known C k sl H. unfold full_except in H. apply negb_true_iff in H.
  destruct (tbl k sl) eqn:E; [reflexivity|]. rewrite (C k sl E) in H. discriminate.
Qed.

Lemma detect_outside_known : forall tbl known trig n, covers tbl known ->
  uses trig n = true -> ~ Known_C15_scanner_arms known trig n -> detect tbl trig n = true.
Proof.
  intros tbl known trig n C U NK.
  destruct (detect (full_except known) trig n) eqn:E.
  - eapply detect_mono; [|exact E]. now apply covers_full_except.
  - exfalso. apply NK. now split.
Qed.

Lemma missing_edge_witness : forall (tbl : edges) (trig : trig_fn) k sl tk tt,
  tbl k sl = false -> trig k 0 = false -> trig tk tt = true ->
  uses trig (Node k 0 [] (KCons sl (Node tk tt [] KNil) KNil)) = true /\
  detect tbl trig (Node k 0 [] (KCons sl (Node tk tt [] KNil) KNil)) = false.
Proof. intros tbl trig k sl tk tt H0 H1 H2. unfold uses, full. cbn. rewrite H0, H1, H2. cbn. auto. Qed.

(* a present edge on the way down does not hide anything *)
Lemma detect_through : forall (tbl : edges) trig k t l sl c,
  tbl k sl = true -> detect tbl trig (Node k t l (KCons sl c KNil)) = trig k t || detect tbl trig c.
Proof. intros. cbn. rewrite H. now rewrite andb_true_l, orb_false_r. Qed.

Lemma known_b_spec : forall known trig n,
  known_scanner_arms_b known trig n = true <-> Known_C15_scanner_arms known trig n.
Proof.
  intros. unfold known_scanner_arms_b, Known_C15_scanner_arms. rewrite andb_true_iff, negb_true_iff. tauto.
Qed.

(* ------------------------------------------------------------------ the manifest *)
Lemma in_dep_names_fixed : forall g c, In c (added g) -> In c (dep_names g).
Proof. intros g c H. unfold dep_names, deps. rewrite map_app. apply in_or_app. now left. Qed.

Lemma crate_declared : forall g c v, In (c, v) (g_crates g) -> In c (dep_names g).
Proof.
  intros g c v H. destruct (mem c (added g)) eqn:E.
  - apply in_dep_names_fixed. now apply mem_In.
  - unfold dep_names, deps. rewrite map_app. apply in_or_app. right. unfold rust_deps.
    rewrite map_map. apply in_map_iff. exists (c, v). split; [reflexivity|].
    apply filter_In. split; [now apply (proj2 (in_ksort _ _ _))|]. cbn [fst]. now rewrite E.
Qed.

Lemma stdlib_declared : forall g, In (s "incan_stdlib") (dep_names g) /\ In (s "incan_derive") (dep_names g).
Proof.
  intros g. split; apply in_dep_names_fixed; unfold added, fixed_deps; cbn [map fst stdlib_dep derive_dep].
  - now left.
  - right. now left.
Qed.

Lemma serde_declared : forall g, g_serde g = true ->
  In (s "serde") (dep_names g) /\ In (s "serde_json") (dep_names g).
Proof.
  intros g H. split; apply in_dep_names_fixed; unfold added, fixed_deps; rewrite H;
    cbn [map fst app serde_deps]; right; right; [now left | right; now left].
Qed.

Lemma tokio_declared : forall g, g_tokio g = true \/ g_axum g = true -> In (s "tokio") (dep_names g).
Proof.
  intros g H. apply in_dep_names_fixed. unfold added, fixed_deps.
  destruct (g_axum g) eqn:A; destruct (g_tokio g) eqn:T; destruct (g_serde g);
    cbn [map fst app serde_deps axum_dep tokio_dep tokio_net_dep]; try (destruct H; discriminate); auto 10 using in_eq, in_cons.
Qed.

Lemma axum_declared : forall g, g_axum g = true -> In (s "axum") (dep_names g).
Proof.
  intros g H. apply in_dep_names_fixed. unfold added, fixed_deps. rewrite H.
  destruct (g_serde g); cbn [map fst app serde_deps axum_dep tokio_net_dep]; auto 10 using in_eq, in_cons.
Qed.

(* which names the fixed part can contain, and why *)
Lemma added_only : forall g c, In c (added g) ->
  c = s "incan_stdlib" \/ c = s "incan_derive" \/
  ((c = s "serde" \/ c = s "serde_json") /\ g_serde g = true) \/
  (c = s "tokio" /\ (g_tokio g = true \/ g_axum g = true)) \/
  (c = s "axum" /\ g_axum g = true).
Proof.
  intros g c H. unfold added, fixed_deps in H.
  destruct (g_serde g) eqn:S; destruct (g_axum g) eqn:A; destruct (g_tokio g) eqn:T;
    cbn [map fst app serde_deps axum_dep tokio_dep tokio_net_dep stdlib_dep derive_dep] in H;
    repeat (destruct H as [H|H]; [subst c; auto 12 |]); try contradiction.
Qed.

Lemma rust_dep_only : forall g c, In c (map fst (rust_deps g)) -> exists v, In (c, v) (g_crates g).
Proof.
  intros g c H. unfold rust_deps in H. rewrite map_map in H. apply in_map_iff in H as [[c' v] [E H]].
  cbn in E. subst c'. apply filter_In in H as [H _]. apply (proj1 (in_ksort _ _ _)) in H. now exists v.
Qed.

(* pinned *)
Lemma fixed_pinned : forall g, forallb dep_pinned (fixed_deps g) = true.
Proof.
  intros g. unfold fixed_deps, stdlib_dep, derive_dep, dep_pinned.
  destruct (g_serde g); destruct (g_axum g); destruct (g_tokio g); vm_compute; reflexivity.
Qed.

Lemma lookup_pinned : forall t c sp, table_ok t = true -> lookup t c = Some sp -> spec_pinned sp = true.
Proof.
  induction t as [|[k v] t IH]; cbn; intros c sp H L; [discriminate|].
  apply andb_true_iff in H as [H1 H2]. destruct (str_eqb c k); [injection L as <-; exact H1 | eapply IH; eauto].
Qed.

Lemma deps_pinned : forall g,
  (forall c sp, In (c, Some sp) (g_crates g) -> spec_pinned sp = true) ->
  ~ Known_C15_wildcard g -> forallb dep_pinned (deps g) = true.
Proof.
  intros g HS NK. unfold deps. rewrite forallb_app, fixed_pinned. cbn.
  apply forallb_forall. intros d Hd. unfold rust_deps in Hd. apply in_map_iff in Hd as [[c v] [E H]].
  apply filter_In in H as [H M]. apply (proj1 (in_ksort _ _ _)) in H. cbn [fst] in M. apply negb_true_iff in M. subst d. unfold dep_pinned, crate_dep. cbn.
  destruct v as [sp|]; [now apply (HS c sp) | exfalso; apply NK; now exists c].
Qed.

Lemma wildcard_b_spec : forall g, known_wildcard_b g = true <-> Known_C15_wildcard g.
Proof.
  intros g. unfold known_wildcard_b, Known_C15_wildcard. rewrite existsb_exists. split.
  - intros [[c v] [H E]]. cbn [snd fst] in E. destruct v; [discriminate|]. apply negb_true_iff in E. now exists c.
  - intros [c [H E]]. exists (c, None). split; [assumption|]. cbn [snd fst]. now rewrite E.
Qed.

(* ------------------------------------------------------------------ TOML lines *)
Lemma strip_app : forall p x, strip p (p ++ x) = Some x.
Proof. induction p as [|a p IH]; cbn; intros x; [reflexivity|]. now rewrite Z.eqb_refl. Qed.

Lemma name_char_basic : forall c, name_char c = true -> basic_char c = true.
Proof. intros c. unfold name_char, alpha, digit, basic_char. lia. Qed.

Lemma name_char_key : forall c, name_char c = true -> key_char c = true.
Proof. intros c H. exact H. Qed.

Lemma basic_not_quote : forall c, basic_char c = true -> (c =? 34) = false.
Proof. intros c. unfold basic_char. lia. Qed.

Lemma str_body_app : forall x y, forallb basic_char x = true -> str_body (x ++ y) = str_body y.
Proof.
  induction x as [|c x IH]; cbn; intros y H; [reflexivity|].
  apply andb_true_iff in H as [H1 H2]. rewrite (basic_not_quote c H1), H1. now apply IH.
Qed.

Lemma legal_name_basic : forall n, legal_name n = true -> forallb basic_char n = true.
Proof.
  intros [|c r]; cbn; [discriminate|]. intros H. apply andb_true_iff in H as [H1 H2].
  apply andb_true_iff. split.
  - apply name_char_basic. unfold name_char. now rewrite H1.
  - apply forallb_forall. intros x Hx. apply name_char_basic. exact (proj1 (forallb_forall _ _) H2 x Hx).
Qed.

(* `name = "<n>"` is a valid line whenever n consists of basic characters *)
Lemma name_line_ok : forall n, forallb basic_char n = true -> line_ok (s "name = """ ++ n ++ s """") = true.
Proof.
  intros n H.
  change (s "name = """ ++ n ++ s """") with (110 :: 97 :: 109 :: 101 :: 32 :: 61 :: 32 :: 34 :: (n ++ [34])).
  unfold line_ok. change (110 =? 35) with false. change (110 =? 91) with false. cbv iota.
  unfold key_eq, take_key. change (key_char 110) with true. cbv iota.
  change (key_rest (97 :: 109 :: 101 :: 32 :: 61 :: 32 :: 34 :: (n ++ [34]))) with (32 :: 61 :: 32 :: 34 :: (n ++ [34])).
  change (strip [32; 61; 32] (32 :: 61 :: 32 :: 34 :: (n ++ [34]))) with (Some (34 :: (n ++ [34]))).
  cbv iota. unfold value_ok. change (strip [123; 32] (34 :: (n ++ [34]))) with (@None str). cbv iota.
  unfold scalar, bstring. change (strip [34] (34 :: (n ++ [34]))) with (Some (n ++ [34])). cbv iota.
  rewrite (str_body_app n [34] H). reflexivity.
Qed.

Lemma version_line_ok : forall v, forallb basic_char v = true -> line_ok (s "version = """ ++ v ++ s """") = true.
Proof.
  intros v H.
  change (s "version = """ ++ v ++ s """") with (118 :: 101 :: 114 :: 115 :: 105 :: 111 :: 110 :: 32 :: 61 :: 32 :: 34 :: (v ++ [34])).
  unfold line_ok. change (118 =? 35) with false. change (118 =? 91) with false. cbv iota.
  unfold key_eq, take_key. change (key_char 118) with true. cbv iota.
  change (key_rest (101 :: 114 :: 115 :: 105 :: 111 :: 110 :: 32 :: 61 :: 32 :: 34 :: (v ++ [34]))) with (32 :: 61 :: 32 :: 34 :: (v ++ [34])).
  change (strip [32; 61; 32] (32 :: 61 :: 32 :: 34 :: (v ++ [34]))) with (Some (34 :: (v ++ [34]))).
  cbv iota. unfold value_ok. change (strip [123; 32] (34 :: (v ++ [34]))) with (@None str). cbv iota.
  unfold scalar, bstring. change (strip [34] (34 :: (v ++ [34]))) with (Some (v ++ [34])). cbv iota.
  rewrite (str_body_app v [34] H). reflexivity.
Qed.
