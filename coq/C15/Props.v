(* C15/Props.v — property theorems for C15 (the generated Cargo project declares exactly what the
   code needs, pinned) and nothing else.  All statements quantify over ALL edge tables / version
   tables; the correspondence run instantiates them with the tables re-derived from /repo. *)
From Coq Require Import ZArith List Bool Lia String Ascii Permutation.
From Verif Require Import C15.Model C15.Proofs.
Import ListNotations.
Open Scope Z_scope.

(* ---- hypotheses are satisfiable, the model computes *)
Example C15_nonvacuous :
  let T := mkTables full full full [(s "rand", s """0.8""")] in
  let main := Node 1 0 [] (KCons 10 (Node 90 0 (s "rand") KNil)
                           (KCons 11 (Node 2 0 [] (KCons 20 (Node 30 1 [] KNil) KNil)) KNil)) in
  let g := cli_gen T (s "hello") (s "/repo") (s "0.1.0") main [] in
  uses trig_serde main = true /\ g_serde g = true /\ g_tokio g = false /\
  cli_build T (s "hello") (s "/repo") (s "0.1.0") main [] = Some g /\
  dep_names g = [s "incan_stdlib"; s "incan_derive"; s "serde"; s "serde_json"; s "rand"] /\
  forallb dep_pinned (deps g) = true /\ manifest_ok g = true /\ legal_name (s "hello") = true /\
  table_ok (t_versions T) = true /\ covers (t_serde T) [].
Proof. cbv zeta. repeat split; try (vm_compute; reflexivity). intros k sl H; discriminate H. Qed.

(* ---- the scanners *)
(* P1 a scanner never reports a feature the program does not use *)
Theorem C15_scanner_sound : forall tbl trig n, detect tbl trig n = true -> uses trig n = true.
Proof. exact detect_sound. Qed.
Print Assumptions C15_scanner_sound.

(* P2 a scanner that follows every edge finds every use (induction over the tree) *)
Theorem C15_scanner_complete_full : forall (tbl : edges) trig n,
  (forall k sl, tbl k sl = true) -> uses trig n = true -> detect tbl trig n = true.
Proof. exact detect_complete_full. Qed.
Print Assumptions C15_scanner_complete_full.

(* P3 every edge the scanner does not follow yields a program whose use goes unnoticed: the
      witness is the constructor with a trigger in that slot (refuted completeness, per edge) *)
Theorem C15_scanner_complete_refuted : forall (tbl : edges) (trig : trig_fn) k sl tk tt,
  tbl k sl = false -> trig k 0 = false -> trig tk tt = true ->
  exists n, uses trig n = true /\ detect tbl trig n = false.
Proof.
  intros tbl trig k sl tk tt H0 H1 H2.
  exists (Node k 0 [] (KCons sl (Node tk tt [] KNil) KNil)). exact (missing_edge_witness tbl trig k sl tk tt H0 H1 H2).
Qed.
Print Assumptions C15_scanner_complete_refuted.

(* P4 completeness on the complement of the known class: if every edge the scanner skips is in the
      listed set, every use that is not hidden behind listed edges only is found *)
Theorem C15_scanner_complete : forall tbl known trig n, covers tbl known ->
  uses trig n = true -> ~ Known_C15_scanner_arms known trig n -> detect tbl trig n = true.
Proof. exact detect_outside_known. Qed.
Print Assumptions C15_scanner_complete.

(* ---- declares what is needed *)
(* P5 on the level of the writer: every flag and every registered crate becomes a dependency *)
Theorem C15_writer_declares : forall g,
  In (s "incan_stdlib") (dep_names g) /\ In (s "incan_derive") (dep_names g) /\
  (g_serde g = true -> In (s "serde") (dep_names g) /\ In (s "serde_json") (dep_names g)) /\
  (g_tokio g = true \/ g_axum g = true -> In (s "tokio") (dep_names g)) /\
  (g_axum g = true -> In (s "axum") (dep_names g)) /\
  (forall c v, In (c, v) (g_crates g) -> In c (dep_names g)).
Proof.
  intros g. split; [exact (proj1 (stdlib_declared g))|]. split; [exact (proj2 (stdlib_declared g))|].
  split; [exact (serde_declared g)|]. split; [exact (tokio_declared g)|]. split; [exact (axum_declared g)|].
  exact (crate_declared g).
Qed.
Print Assumptions C15_writer_declares.

(* P6 end to end through prepare_project (main module and imported modules are scanned): whatever
      the generated Rust of ANY module needs is declared.  Stated for every edge table; the class
      hypothesis is void for a scanner that follows every edge (known lists empty: P6') *)
Theorem C15_declares_needed : forall T kS kA kW name root ver main dps,
  covers (t_serde T) kS -> covers (t_async T) kA -> covers (t_web T) kW ->
  (forall m, In m (main :: dps) -> ~ Known_C15_scanner_arms kS trig_serde m) ->
  (forall m, In m (main :: dps) -> ~ Known_C15_scanner_arms kA trig_async m) ->
  (forall m, In m (main :: dps) -> ~ Known_C15_scanner_arms kW trig_web m) ->
  let g := cli_gen T name root ver main dps in
  (needs_serde main dps = true -> In (s "serde") (dep_names g) /\ In (s "serde_json") (dep_names g)) /\
  (needs_tokio main dps = true -> In (s "tokio") (dep_names g)) /\
  (needs_web main dps = true -> In (s "axum") (dep_names g) /\ In (s "tokio") (dep_names g)) /\
  (forall c, needs_crate c main dps = true -> In c (dep_names g)).
Proof.
  intros T kS kA kW name root ver main dps CS CA CW NS NA NW g.
  assert (F : forall tbl known trig, covers tbl known ->
              (forall m, In m (main :: dps) -> ~ Known_C15_scanner_arms known trig m) ->
              any_uses trig (main :: dps) = true -> existsb (detect tbl trig) (main :: dps) = true).
  { intros tbl known trig C NK U. unfold any_uses in U. apply existsb_exists in U as [m [Im Um]].
    apply existsb_exists. exists m. split; [exact Im|].
    exact (detect_outside_known tbl known trig m C Um (NK m Im)). }
  assert (W : needs_web main dps = true -> g_axum g = true).
  { intros H. unfold g, cli_gen, flag_web. cbn [g_axum]. now apply (F _ kW). }
  split; [|split; [|split]].
  - intros H. apply serde_declared. unfold g, cli_gen, flag_serde. cbn [g_serde].
    unfold needs_serde in H. apply orb_true_iff in H as [H|H].
    + rewrite (F _ kS trig_serde CS NS H). reflexivity.
    + specialize (W H). unfold g, cli_gen in W. cbn [g_axum] in W. rewrite W. apply orb_true_r.
  - intros H. apply tokio_declared. unfold needs_tokio in H. apply orb_true_iff in H as [H|H].
    + left. unfold g, cli_gen, flag_tokio. cbn [g_tokio]. rewrite (F _ kA trig_async CA NA H). reflexivity.
    + right. now apply W.
  - intros H. split; [apply axum_declared | apply tokio_declared; right]; now apply W.
  - intros c H. unfold needs_crate in H. apply existsb_exists in H as [m [Im Hm]].
    apply (crate_declared g c (lookup (t_versions T) c)). unfold g, cli_gen. cbn [g_crates].
    apply in_map_iff. exists c. split; [reflexivity|]. unfold all_crates. apply dedup_In.
    apply in_flat_map. exists m. split; [exact Im | now apply mem_In].
Qed.
Print Assumptions C15_declares_needed.

(* P6' for a scanner that follows every edge nothing has to be excluded *)
Theorem C15_declares_needed_full : forall T name root ver main dps,
  covers (t_serde T) [] -> covers (t_async T) [] -> covers (t_web T) [] ->
  let g := cli_gen T name root ver main dps in
  (needs_serde main dps = true -> In (s "serde") (dep_names g) /\ In (s "serde_json") (dep_names g)) /\
  (needs_tokio main dps = true -> In (s "tokio") (dep_names g)) /\
  (needs_web main dps = true -> In (s "axum") (dep_names g) /\ In (s "tokio") (dep_names g)) /\
  (forall c, needs_crate c main dps = true -> In c (dep_names g)).
Proof.
  intros T name root ver main dps CS CA CW.
  apply (C15_declares_needed T [] [] [] name root ver main dps CS CA CW);
    intros m _ [U D]; unfold uses in U; rewrite (detect_mono full (full_except []) _ m) in D; try discriminate; auto.
Qed.
Print Assumptions C15_declares_needed_full.

(* P6'' the flags are a plain OR over ALL modules: a module that triggers a feature switches the flag on
       wherever it stands in the module list and whatever the modules before it did (no early exit, no
       dependence on scanning order) *)
Theorem C15_flags_over_all_modules : forall T ms1 m ms2,
  (detect (t_serde T) trig_serde m = true -> flag_serde T (ms1 ++ m :: ms2) = true) /\
  (detect (t_async T) trig_async m = true -> flag_tokio T (ms1 ++ m :: ms2) = true) /\
  (detect (t_web T) trig_web m = true ->
     flag_web T (ms1 ++ m :: ms2) = true /\ flag_serde T (ms1 ++ m :: ms2) = true /\ flag_tokio T (ms1 ++ m :: ms2) = true).
Proof.
  intros T ms1 m ms2.
  assert (E : forall f : node -> bool, f m = true -> existsb f (ms1 ++ m :: ms2) = true).
  { intros f H. rewrite existsb_app. cbn [existsb]. rewrite H. now rewrite orb_true_r. }
  unfold flag_serde, flag_tokio, flag_web. split; [|split].
  - intros H. now rewrite (E _ H).
  - intros H. now rewrite (E _ H).
  - intros H. rewrite (E _ H). repeat split; try reflexivity; apply orb_true_r.
Qed.
Print Assumptions C15_flags_over_all_modules.

Theorem C15_flags_order_free : forall T ms1 ms2, Permutation ms1 ms2 ->
  flag_serde T ms1 = flag_serde T ms2 /\ flag_tokio T ms1 = flag_tokio T ms2 /\ flag_web T ms1 = flag_web T ms2.
Proof.
  intros T ms1 ms2 P.
  assert (E : forall f : node -> bool, existsb f ms1 = existsb f ms2).
  { intros f. destruct (existsb f ms1) eqn:A; destruct (existsb f ms2) eqn:B; try reflexivity.
    - apply existsb_exists in A as [x [I H]]. assert (existsb f ms2 = true) by (apply existsb_exists; exists x; split; [eapply Permutation_in; eauto | exact H]). congruence.
    - apply existsb_exists in B as [x [I H]]. assert (existsb f ms1 = true) by (apply existsb_exists; exists x; split; [eapply Permutation_in; [apply Permutation_sym|]; eauto | exact H]). congruence. }
  unfold flag_serde, flag_tokio, flag_web. now rewrite !E.
Qed.
Print Assumptions C15_flags_order_free.

(* P7 declares only what is needed: every dependency is a runtime crate, follows from a feature some
      module of the program really uses, or is a `rust::` import of some module *)
Theorem C15_declares_only_needed : forall T name root ver main dps c,
  In c (dep_names (cli_gen T name root ver main dps)) ->
  c = s "incan_stdlib" \/ c = s "incan_derive" \/
  ((c = s "serde" \/ c = s "serde_json") /\ needs_serde main dps = true) \/
  (c = s "tokio" /\ needs_tokio main dps = true) \/
  (c = s "axum" /\ needs_web main dps = true) \/
  needs_crate c main dps = true.
Proof.
  intros T name root ver main dps c H. set (g := cli_gen T name root ver main dps) in *.
  assert (D : forall tbl trig, existsb (detect tbl trig) (main :: dps) = true -> any_uses trig (main :: dps) = true).
  { intros tbl trig E. apply existsb_exists in E as [m [Im Em]]. apply existsb_exists. exists m.
    split; [exact Im | exact (detect_sound _ _ _ Em)]. }
  assert (W : g_axum g = true -> needs_web main dps = true).
  { unfold g, cli_gen, flag_web, needs_web. cbn [g_axum]. apply D. }
  assert (S : g_serde g = true -> needs_serde main dps = true).
  { unfold g, cli_gen, flag_serde, needs_serde. cbn [g_serde]. intros E.
    apply orb_true_iff in E as [E|E]; apply orb_true_iff; [left; exact (D _ _ E) | right; apply W; exact E]. }
  assert (K : g_tokio g = true -> needs_tokio main dps = true).
  { unfold g, cli_gen, flag_tokio, needs_tokio. cbn [g_tokio]. intros E.
    apply orb_true_iff in E as [E|E]; apply orb_true_iff; [left; exact (D _ _ E) | right; apply W; exact E]. }
  unfold dep_names, deps in H. rewrite map_app in H. apply in_app_or in H as [H|H].
  - apply added_only in H as [H|[H|[[H E]|[[H E]|[H E]]]]]; auto 10.
    right; right; right; left. split; [exact H|]. destruct E as [E|E]; [now apply K|].
    unfold needs_tokio. rewrite (W E). apply orb_true_r.
  - apply rust_dep_only in H as [v H]. unfold g, cli_gen in H. cbn [g_crates] in H.
    apply in_map_iff in H as [x [E Hx]]. injection E as -> _.
    right; right; right; right; right. unfold all_crates in Hx. apply dedup_In_inv in Hx.
    apply in_flat_map in Hx as [m [Im Hm]]. unfold needs_crate. apply existsb_exists. exists m.
    split; [exact Im | now apply In_mem].
Qed.
Print Assumptions C15_declares_only_needed.

(* ---- pinned *)
(* P8 whenever `incan build` writes a project, every dependency has a version or a path (for ANY
      table whose entries are pinned — checked on the regenerated table in every run) *)
Theorem C15_every_dep_pinned : forall T name root ver main dps g,
  table_ok (t_versions T) = true ->
  cli_build T name root ver main dps = Some g ->
  forall d, In d (deps g) -> dep_pinned d = true.
Proof.
  intros T name root ver main dps g TO B. unfold cli_build in B.
  destruct (legal_name name && forallb (fun c => is_some (lookup (t_versions T) c)) (all_crates (main :: dps))) eqn:E;
    [|discriminate]. injection B as <-.
  apply forallb_forall. apply deps_pinned.
  - intros c sp H. unfold cli_gen in H. cbn [g_crates] in H. apply in_map_iff in H as [x [Ex _]].
    injection Ex as -> Ex. exact (lookup_pinned _ _ _ TO Ex).
  - intros [c [H _]]. unfold cli_gen in H. cbn [g_crates] in H. apply in_map_iff in H as [x [Ex Hx]].
    injection Ex as -> Ex. apply andb_true_iff in E as [_ E].
    pose proof (proj1 (forallb_forall _ _) E c Hx) as S. cbv beta in S. rewrite Ex in S. discriminate.
Qed.
Print Assumptions C15_every_dep_pinned.

(* P9 a crate without a known-good version, or an illegal file stem, is refused: no project *)
Theorem C15_unknown_crate_refused : forall T name root ver main dps c,
  In c (all_crates (main :: dps)) -> lookup (t_versions T) c = None ->
  cli_build T name root ver main dps = None.
Proof.
  intros T name root ver main dps c I L. unfold cli_build.
  destruct (forallb (fun c0 => is_some (lookup (t_versions T) c0)) (all_crates (main :: dps))) eqn:E.
  - pose proof (proj1 (forallb_forall _ _) E c I) as S. cbv beta in S. rewrite L in S. discriminate.
  - now rewrite andb_false_r.
Qed.
Print Assumptions C15_unknown_crate_refused.

Theorem C15_illegal_name_refused : forall T name root ver main dps,
  Known_C15_project_name name -> cli_build T name root ver main dps = None.
Proof. intros T name root ver main dps H. unfold cli_build. unfold Known_C15_project_name in H. now rewrite H. Qed.
Print Assumptions C15_illegal_name_refused.

(* regression witnesses of the repaired defects (closed computations on the old failing inputs) *)
Example C15_regression_witnesses :
  let T := mkTables full full full [(s "rand", s """0.8""")] in
  (* `import rust::foobarbaz` was written as foobarbaz = "*" *)
  cli_build T (s "a") (s "/repo") (s "0.1.0") (Node 1 0 [] (KCons 10 (Node 90 0 (s "foobarbaz") KNil) KNil)) [] = None /\
  (* json_stringify only in an imported module: serde was not declared *)
  In (s "serde_json") (dep_names (cli_gen T (s "a") (s "/repo") (s "0.1.0") (Node 1 0 [] KNil) [Node 1 0 [] (KCons 11 (Node 30 1 [] KNil) KNil)])) /\
  In (s "rand") (dep_names (cli_gen T (s "a") (s "/repo") (s "0.1.0") (Node 1 0 [] KNil) [Node 1 0 [] (KCons 10 (Node 90 0 (s "rand") KNil) KNil)])) /\
  (* `my prog.incn` produced a manifest cargo rejects *)
  cli_build T (s "my prog") (s "/repo") (s "0.1.0") (Node 1 0 [] KNil) [] = None.
Proof. cbv zeta. repeat split; vm_compute; auto 10. Qed.

(* ---- valid TOML *)
(* P10 PARTIAL (manifest_valid_toml): the two lines that carry the project name are valid TOML for
       every legal name (and the version line for every version made of basic characters).
       MISSING for the full statement `legal_name (g_name g) -> manifest_ok g = true`: the dependency
       lines with a variable root path / variable crate set; these are checked by evaluation on every
       run instead (table_wf on the regenerated table, manifest_ok on every generated project, real
       cargo on the project-name cases). *)
Theorem C15_manifest_valid_toml_partial : forall n v, legal_name n = true -> forallb basic_char v = true ->
  line_ok (s "name = """ ++ n ++ s """") = true /\ line_ok (s "version = """ ++ v ++ s """") = true.
Proof.
  intros n v Hn Hv. split; [apply name_line_ok; now apply legal_name_basic | now apply version_line_ok].
Qed.
Print Assumptions C15_manifest_valid_toml_partial.

(* P11 refuted without the restriction: a file stem with a quote gives an invalid manifest *)
Theorem C15_manifest_valid_refuted : exists g, Known_C15_project_name (g_name g) /\ manifest_ok g = false.
Proof.
  exists (mkGen (s "a""b") true false false false [] (s "/repo") (s "0.1.0")).
  split; vm_compute; reflexivity.
Qed.
Print Assumptions C15_manifest_valid_refuted.
