(* C15/Model.v — model of the manifest writer (src/backend/project.rs generate_cargo_toml,
   add_rust_crate), of the CLI glue that feeds it (src/cli/commands.rs prepare_project) and of the
   feature scanners (src/backend/ir/scanners.rs) as a traversal over a uniform syntax tree that is
   parameterised by the table of (constructor, child-slot) edges the real scanner follows.
   The edge tables and the version table are RE-DERIVED FROM THE REAL CODE ON EVERY RUN (harness:
   probing of the real detect_* functions / syn extraction of the match in add_rust_crate) and
   passed to these definitions by the correspondence run.  Definitions only. *)
From Coq Require Import ZArith List Bool Lia String Ascii.
Import ListNotations.
Open Scope Z_scope.

(* ------------------------------------------------------------------ text = list of code points *)
Definition str := list Z.
Definition s (x : string) : str := map (fun a => Z.of_N (N_of_ascii a)) (list_ascii_of_string x).

Fixpoint str_eqb (a b : str) : bool :=
  match a, b with
  | [], [] => true
  | x :: a', y :: b' => (x =? y) && str_eqb a' b'
  | _, _ => false
  end.

Fixpoint mem (x : str) (l : list str) : bool :=
  match l with [] => false | y :: r => str_eqb x y || mem x r end.

Fixpoint join (sep : str) (l : list str) : str :=
  match l with
  | [] => []
  | [x] => x
  | x :: r => x ++ sep ++ join sep r
  end.

Definition quote (x : str) : str := 34 :: x ++ [34].

Fixpoint is_prefix (p x : str) : bool :=
  match p, x with
  | [], _ => true
  | a :: p', b :: x' => (a =? b) && is_prefix p' x'
  | _ :: _, [] => false
  end.

(* lexicographic order on strings (Rust's `String: Ord`) and a stable insertion sort by key *)
Fixpoint str_leb (a b : str) : bool :=
  match a, b with
  | [], _ => true
  | _ :: _, [] => false
  | x :: a', y :: b' => if x <? y then true else if y <? x then false else str_leb a' b'
  end.

Fixpoint kinsert {V : Type} (x : str * V) (l : list (str * V)) : list (str * V) :=
  match l with
  | [] => [x]
  | y :: r => if str_leb (fst x) (fst y) then x :: l else y :: kinsert x r
  end.

Fixpoint ksort {V : Type} (l : list (str * V)) : list (str * V) :=
  match l with [] => [] | x :: r => kinsert x (ksort r) end.

(* ------------------------------------------------------------------ version table *)
(* add_rust_crate: crate name -> Some spec-text | None.  The table itself is extracted from the
   source on every run; [lookup] is the `match crate_name { ... _ => None }`. *)
Definition table := list (str * str).

Fixpoint lookup (t : table) (c : str) : option str :=
  match t with
  | [] => None
  | (k, v) :: r => if str_eqb c k then Some v else lookup r c
  end.

Definition digit (c : Z) : bool := (48 <=? c) && (c <=? 57).

(* a dependency spec is pinned: `"<digit>..."`, or an inline table that starts with an explicit
   `version = "<digit>` or with a `path = "` *)
Definition spec_pinned (sp : str) : bool :=
  match sp with
  | 34 :: c :: _ => digit c
  | _ =>
    is_prefix (s "{ path = """) sp ||
    (is_prefix (s "{ version = """) sp &&
     match skipn 13 sp with c :: _ => digit c | [] => false end)
  end.

Definition table_ok (t : table) : bool := forallb (fun e => spec_pinned (snd e)) t.

(* ------------------------------------------------------------------ the manifest writer *)
Record gen := mkGen {
  g_name : str;                          (* ProjectGenerator.name *)
  g_bin : bool;
  g_serde : bool; g_tokio : bool; g_axum : bool;
  g_crates : list (str * option str);    (* rust_crate_deps in (arbitrary) HashMap iteration order *)
  g_root : str;                          (* env!("CARGO_MANIFEST_DIR") *)
  g_version : str                        (* INCAN_VERSION *)
}.

Definition dep := (str * str)%type.      (* crate name, spec text *)

Definition stdlib_dep (g : gen) : dep :=
  let feats := (if g_axum g then [s "web"] else []) ++ (if g_serde g then [s "json"] else []) in
  (s "incan_stdlib",
   match feats with
   | [] => s "{ path = """ ++ g_root g ++ s "/crates/incan_stdlib"" }"
   | _ => s "{ path = """ ++ g_root g ++ s "/crates/incan_stdlib"", features = [" ++
          join (s ", ") (map quote feats) ++ s "] }"
   end).

Definition derive_dep (g : gen) : dep :=
  (s "incan_derive", s "{ path = """ ++ g_root g ++ s "/crates/incan_derive"" }").

Definition serde_deps : list dep :=
  [(s "serde", s "{ version = ""1.0"", features = [""derive""] }"); (s "serde_json", s """1.0""")].

Definition tokio_dep : dep :=
  (s "tokio", s "{ version = ""1"", features = [""rt-multi-thread"", ""macros"", ""time"", ""sync""] }").
Definition tokio_net_dep : dep :=
  (s "tokio", s "{ version = ""1"", features = [""rt-multi-thread"", ""macros"", ""time"", ""sync"", ""net""] }").
Definition axum_dep : dep := (s "axum", s """0.8""").

Definition fixed_deps (g : gen) : list dep :=
  stdlib_dep g :: derive_dep g ::
  (if g_serde g then serde_deps else []) ++
  (if g_axum g then [axum_dep; tokio_net_dep] else if g_tokio g then [tokio_dep] else []).

Definition added (g : gen) : list str := map fst (fixed_deps g).

Definition crate_dep (c : str * option str) : dep :=
  (fst c, match snd c with Some sp => sp | None => s """*""" end).

(* the entries of the rust_crate_deps HashMap are SORTED BY CRATE NAME before they are written *)
Definition rust_deps (g : gen) : list dep :=
  map crate_dep (filter (fun c => negb (mem (fst c) (added g))) (ksort (g_crates g))).

Definition deps (g : gen) : list dep := fixed_deps g ++ rust_deps g.

Definition dep_line (d : dep) : str := fst d ++ s " = " ++ snd d.

Definition manifest_lines (g : gen) : list str :=
  [ s "[package]";
    s "name = """ ++ g_name g ++ s """";
    s "version = """ ++ g_version g ++ s """";
    s "edition = ""2021""";
    [];
    s "# Generated by the Incan compiler";
    [];
    s "# Opt out of parent workspace (if any)";
    s "[workspace]";
    [];
    s "[dependencies]" ] ++
  map dep_line (deps g) ++
  [ [];
    (if g_bin g then s "[[bin]]" else s "[lib]");
    s "name = """ ++ g_name g ++ s """";
    (if g_bin g then s "path = ""src/main.rs""" else s "path = ""src/lib.rs""") ].

Definition generate_cargo_toml (g : gen) : str :=
  List.concat (map (fun l => l ++ [10]) (manifest_lines g)).

Definition dep_names (g : gen) : list str := map fst (deps g).

Definition dep_pinned (d : dep) : bool := spec_pinned (snd d).

(* ------------------------------------------------------------------ the syntax tree the scanners walk *)
(* One uniform tree for declarations, statements and expressions: constructor id, a tag whose bits say
   whether the node ITSELF is a trigger (bit 0 serde: `json_stringify(..)` call / @derive(Serialize|
   Deserialize); bit 1 async: await / async def / sleep-like call; bit 2 web: `std.web` import /
   @route), a label (crate name of a `rust::` import, empty otherwise) and children tagged with the
   slot (field) they sit in.  The harness produces this tree from the REAL parser's AST. *)
Inductive node := Node (kind tag : Z) (lbl : str) (ks : kids)
with kids := KNil | KCons (slot : Z) (c : node) (r : kids).

Definition trig_fn := Z -> Z -> bool.   (* kind -> tag -> is this node a trigger *)
Definition edges := Z -> Z -> bool.     (* kind -> slot -> does the scanner follow this edge *)

Fixpoint detect (tbl : edges) (trig : trig_fn) (n : node) : bool :=
  match n with
  | Node k t _ ks => trig k t || detect_kids tbl trig k ks
  end
with detect_kids (tbl : edges) (trig : trig_fn) (k : Z) (ks : kids) : bool :=
  match ks with
  | KNil => false
  | KCons sl c r => (tbl k sl && detect tbl trig c) || detect_kids tbl trig k r
  end.

Definition full : edges := fun _ _ => true.
(* a trigger occurs ANYWHERE in the tree: what the emitted Rust refers to *)
Definition uses (trig : trig_fn) (n : node) : bool := detect full trig n.

Definition pair_in (k sl : Z) (l : list (Z * Z)) : bool :=
  existsb (fun e => (fst e =? k) && (snd e =? sl)) l.
Definition edges_of (l : list (Z * Z)) : edges := fun k sl => pair_in k sl l.
Definition full_except (missing : list (Z * Z)) : edges := fun k sl => negb (pair_in k sl missing).

Definition bit (i : Z) (t : Z) : bool := Z.testbit t i.
Definition trig_serde : trig_fn := fun _ t => bit 0 t.
Definition trig_async : trig_fn := fun _ t => bit 1 t.
Definition trig_web : trig_fn := fun _ t => bit 2 t.

(* `rust::` imports: nodes of kind K_RUST_IMPORT directly under the program node; label = crate.
   collect_rust_crates (cli/commands.rs): first occurrences, in order, "std" excluded. *)
Definition K_RUST_IMPORT : Z := 90.

Fixpoint top_labels (ks : kids) : list str :=
  match ks with
  | KNil => []
  | KCons _ (Node k _ l _) r => if k =? K_RUST_IMPORT then l :: top_labels r else top_labels r
  end.

Fixpoint dedup (l : list str) : list str :=
  match l with
  | [] => []
  | x :: r => x :: filter (fun y => negb (str_eqb x y)) (dedup r)
  end.

Definition rust_crates (n : node) : list str :=
  match n with
  | Node _ _ _ ks => dedup (filter (fun c => negb (str_eqb c (s "std"))) (top_labels ks))
  end.

(* ------------------------------------------------------------------ prepare_project (the CLI glue) *)
(* The main module AND every imported module are scanned for features and for `rust::` crates. *)
Record tables := mkTables { t_serde : edges; t_async : edges; t_web : edges; t_versions : table }.

Definition flag_web (T : tables) (mods : list node) : bool := existsb (detect (t_web T) trig_web) mods.
Definition flag_serde (T : tables) (mods : list node) : bool :=
  existsb (detect (t_serde T) trig_serde) mods || flag_web T mods.
Definition flag_tokio (T : tables) (mods : list node) : bool :=
  existsb (detect (t_async T) trig_async) mods || flag_web T mods.

Definition all_crates (mods : list node) : list str := dedup (flat_map rust_crates mods).

Definition cli_gen (T : tables) (name root ver : str) (main : node) (dps : list node) : gen :=
  let mods := main :: dps in
  mkGen name true (flag_serde T mods) (flag_tokio T mods) (flag_web T mods)
        (map (fun c => (c, lookup (t_versions T) c)) (all_crates mods)) root ver.

Definition is_some {A : Type} (o : option A) : bool := match o with Some _ => true | None => false end.

(* project names: what cargo accepts (ASCII part of its rule): [A-Za-z_][A-Za-z0-9_-]* *)
Definition alpha (c : Z) : bool := ((65 <=? c) && (c <=? 90)) || ((97 <=? c) && (c <=? 122)) || (c =? 95).
Definition name_char (c : Z) : bool := alpha c || digit c || (c =? 45).
Definition legal_name (n : str) : bool :=
  match n with [] => false | c :: r => alpha c && forallb name_char r end.

(* `incan build`: refused (None) when the file stem is not a legal package name or when a `rust::`
   crate has no known-good version; otherwise the project is written *)
Definition cli_build (T : tables) (name root ver : str) (main : node) (dps : list node) : option gen :=
  if legal_name name && forallb (fun c => is_some (lookup (t_versions T) c)) (all_crates (main :: dps))
  then Some (cli_gen T name root ver main dps) else None.

(* what the generated Rust of a program (main module + dependency modules) needs *)
Definition any_uses (trig : trig_fn) (mods : list node) : bool := existsb (uses trig) mods.

Definition needs_web (main : node) (deps_ : list node) := any_uses trig_web (main :: deps_).
Definition needs_serde (main : node) (deps_ : list node) :=
  any_uses trig_serde (main :: deps_) || needs_web main deps_.
Definition needs_tokio (main : node) (deps_ : list node) :=
  any_uses trig_async (main :: deps_) || needs_web main deps_.
Definition needs_crate (c : str) (main : node) (deps_ : list node) : bool :=
  existsb (fun m => mem c (rust_crates m)) (main :: deps_).

(* ------------------------------------------------------------------ classes *)
(* scanner-arms: every occurrence of the trigger in a module sits behind one of the edges the
   scanner does not follow (EMPTY for the current scanners: the probes find no unscanned edge) *)
Definition Known_C15_scanner_arms (known_missing : list (Z * Z)) (trig : trig_fn) (m : node) : Prop :=
  uses trig m = true /\ detect (full_except known_missing) trig m = false.
Definition known_scanner_arms_b (known_missing : list (Z * Z)) (trig : trig_fn) (m : node) : bool :=
  uses trig m && negb (detect (full_except known_missing) trig m).

(* writer level only (cli_build never hands such an entry to the writer): an entry without a
   version that is not one of the built-ins already added *)
Definition Known_C15_wildcard (g : gen) : Prop :=
  exists c, In (c, None) (g_crates g) /\ mem c (added g) = false.
Definition known_wildcard_b (g : gen) : bool :=
  existsb (fun c => match snd c with None => negb (mem (fst c) (added g)) | Some _ => false end) (g_crates g).

Definition Known_C15_project_name (n : str) : Prop := legal_name n = false.

(* ------------------------------------------------------------------ a TOML line recogniser *)
(* The manifest is a sequence of lines; each must be blank, a comment, a table header, an
   array-of-tables header or `key = value` with value a basic string, an inline table or an array
   of basic strings.  (Subset of TOML sufficient for everything the writer can produce.)
   All character tests are boolean comparisons (no literal patterns) so that proofs can rewrite. *)
Definition basic_char (c : Z) : bool := (32 <=? c) && negb (c =? 34) && negb (c =? 92) && negb (c =? 127).

(* remove the literal prefix [p] *)
Fixpoint strip (p x : str) : option str :=
  match p with
  | [] => Some x
  | a :: p' => match x with b :: x' => if a =? b then strip p' x' else None | [] => None end
  end.

(* body of a basic string after the opening quote: returns the rest after the closing quote *)
Fixpoint str_body (x : str) : option str :=
  match x with
  | [] => None
  | c :: r => if c =? 34 then Some r else if basic_char c then str_body r else None
  end.

Definition bstring (x : str) : option str :=
  match strip [34] x with Some r => str_body r | None => None end.

(* `"a", "b"]` after `[` *)
Fixpoint arr_body (fuel : nat) (x : str) : option str :=
  match fuel with
  | O => None
  | S f =>
    match strip [93] x with
    | Some r => Some r
    | None =>
      match bstring x with
      | Some r =>
        match strip [44; 32] r with
        | Some r' => arr_body f r'
        | None => strip [93] r
        end
      | None => None
      end
    end
  end.

Definition key_char (c : Z) : bool := alpha c || digit c || (c =? 45).
Fixpoint key_rest (x : str) : str := match x with c :: r => if key_char c then key_rest r else x | [] => [] end.
Definition take_key (x : str) : option str :=
  match x with c :: r => if key_char c then Some (key_rest r) else None | [] => None end.

Definition scalar (x : str) : option str :=
  match bstring x with
  | Some r => Some r
  | None => match strip [91] x with Some r => arr_body (S (List.length r)) r | None => None end
  end.

Definition key_eq (x : str) : option str :=
  match take_key x with Some r => strip [32; 61; 32] r | None => None end.

(* `k = v, k = v }` after `{ ` *)
Fixpoint inline_body (fuel : nat) (x : str) : option str :=
  match fuel with
  | O => None
  | S f =>
    match key_eq x with
    | Some r =>
      match scalar r with
      | Some r1 =>
        match strip [44; 32] r1 with
        | Some r' => inline_body f r'
        | None => strip [32; 125] r1
        end
      | None => None
      end
    | None => None
    end
  end.

Definition is_nil (x : option str) : bool := match x with Some [] => true | _ => false end.

Definition value_ok (x : str) : bool :=
  match strip [123; 32] x with
  | Some r => is_nil (inline_body (S (List.length r)) r)
  | None => is_nil (scalar x)
  end.

Definition line_ok (l : str) : bool :=
  match l with
  | [] => true
  | c :: r =>
    if c =? 35 then true
    else if c =? 91 then
      match strip [91] r with
      | Some r' => is_nil (match take_key r' with Some k => strip [93; 93] k | None => None end)
      | None => is_nil (match take_key r with Some k => strip [93] k | None => None end)
      end
    else match key_eq l with Some v => value_ok v | None => false end
  end.

Definition manifest_ok (g : gen) : bool := forallb line_ok (manifest_lines g).

(* every entry of the version table writes a valid line *)
Definition table_wf (t : table) : bool := forallb (fun e => line_ok (dep_line (fst e, snd e))) t.

(* ------------------------------------------------------------------ render for the correspondence run *)
Definition b2z (b : bool) : Z := if b then 1 else 0.

(* (manifest text ([] when refused), [serde; tokio; axum] flags, [built?; all deps pinned?; all lines valid TOML?; legal name?]) *)
Definition render_cli (T : tables) (name root ver : str) (main : node) (dps : list node)
  : str * list Z * list Z :=
  match cli_build T name root ver main dps with
  | Some g =>
    (generate_cargo_toml g,
     [b2z (g_serde g); b2z (g_tokio g); b2z (g_axum g)],
     [1; b2z (forallb dep_pinned (deps g)); b2z (manifest_ok g); b2z (legal_name name)])
  | None => ([], [0; 0; 0], [0; 0; 0; b2z (legal_name name)])
  end.

(* the writer alone, for any generator state: (text, [], [all deps pinned?; all lines valid TOML?; writer-level wildcard?]) *)
Definition render_gen (g : gen) : str * list Z * list Z :=
  (generate_cargo_toml g, [], [b2z (forallb dep_pinned (deps g)); b2z (manifest_ok g); b2z (known_wildcard_b g)]).

(* scanner verdicts and "uses" for one module:
   [detect serde; detect async; detect web; uses serde; uses async; uses web; known-class serde; known-class async] *)
Definition render_scan (T : tables) (known_serde known_async : list (Z * Z)) (n : node) : list Z :=
  [ b2z (detect (t_serde T) trig_serde n); b2z (detect (t_async T) trig_async n); b2z (detect (t_web T) trig_web n);
    b2z (uses trig_serde n); b2z (uses trig_async n); b2z (uses trig_web n);
    b2z (known_scanner_arms_b known_serde trig_serde n); b2z (known_scanner_arms_b known_async trig_async n) ].
