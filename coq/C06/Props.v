(* C06/Props.v — the property theorems for C06 (compile-time evaluation of const initializers
   agrees with run-time evaluation), and nothing else.  Model: C06/Model.v (hand model of
   const_eval.rs / emit/consts.rs / incan_core::strings, tied by the correspondence run). *)
From Coq Require Import ZArith List Bool Lia.
From Verif Require Import Base.I64 C06.Model C06.ProofsEval C06.ProofsStr C06.ProofsAgree C06.ProofsFold C06.ProofsProgram.
Import ListNotations.
Open Scope Z_scope.

(* ---- small concrete programs used by the examples and the refutation witnesses *)
Definition s_abc : str := [97; 98; 99].
Definition s_abcdef : str := [97; 98; 99; 100; 101; 102].
Definition e_int (n : Z) : expr := ELit (LInt n).
Definition e_bin (op : binop) (l r : expr) : expr := ENode (NBin op) (ECons l (ECons r ENil)).
Definition e_index (b i : expr) : expr := ENode NIndex (ECons b (ECons i ENil)).
Definition pw0 : Z -> Z -> Z := fun _ _ => 0.
Definition rho0 : name -> option value := fun _ => None.

(* const C0: str = "abc"; const C1: str = C0 + "def"; const C2: str = C1[-1]; const C3: int = C4; const C4: int = 7 *)
Definition prog_ok : list decl :=
  [ mkdecl 0 (Some TStr) (ELit (LStr s_abc));
    mkdecl 1 (Some TStr) (e_bin BAdd (EIdent 0) (ELit (LStr [100; 101; 102])));
    mkdecl 2 (Some TStr) (e_index (EIdent 1) (ENode (NUn UNeg) (ECons (e_int 1) ENil)));
    mkdecl 3 (Some TInt) (EIdent 4);
    mkdecl 4 (Some TInt) (e_int 7) ].

Example C06_nonvacuous :
  exists s, check_all prog_ok = Some s /\ errs s = [] /\
    lookup (cache s) 2 = Some (mkres TFStr true (Some (VStr [102]))) /\
    lookup (cache s) 3 = Some (mkres TInt false (Some (VInt 7))) /\
    vfrag prog_ok (lookup (cache s)) (e_index (EIdent 1) (e_int 9)) = true /\
    cexpr prog_ok (lookup (cache s)) (e_index (EIdent 1) (e_int 9)) = PErr EIndexOOR.
Proof.
  eexists. split; [vm_compute; reflexivity|]. split; [reflexivity|]. split; [reflexivity|]. split; [reflexivity|].
  split; vm_compute; reflexivity.
Qed.

(* P1  termination: the stated fuel (number of decls + 1 per top-level call) always suffices — the
       evaluator never loops, whatever the dependency graph (cycles included) *)
Theorem C06_fuel_suffices : forall ds, check_all ds <> None.
Proof. intros ds. destruct (check_all_ok ds) as (s & E & _). congruence. Qed.
Print Assumptions C06_fuel_suffices.

(* P2  every dependency cycle is reported: a program whose const graph has a cycle (of any shape,
       through any expression form) is never accepted *)
Theorem C06_cycles_reported : forall ds s, check_all ds = Some s -> has_cycle ds -> errs s <> [].
Proof. intros ds s E C H. exact (no_errors_no_cycle ds s E H C). Qed.
Print Assumptions C06_cycles_reported.

(* P2' on the complement of Known_C06_cycle_masked (some OTHER diagnostic was reported: an earlier
       failing operand aborts the evaluation before the back edge is reached) the reported error
       IS a cycle error; the class is inhabited *)
Definition Known_C06_cycle_masked (s : cstate) : Prop := exists e, In e (errs s) /\ is_cycle_err e = false.
Theorem C06_cycle_named_on_complement : forall ds s, check_all ds = Some s -> has_cycle ds ->
  ~ Known_C06_cycle_masked s -> exists e, In e (errs s) /\ is_cycle_err e = true.
Proof.
  intros ds s E C NK. pose proof (C06_cycles_reported ds s E C) as NE.
  destruct (errs s) as [|e t] eqn:Q; [congruence|]. exists e. split; [now left|].
  destruct (is_cycle_err e) eqn:I; [reflexivity|]. exfalso. apply NK. exists e. rewrite Q. split; [now left|exact I].
Qed.
Print Assumptions C06_cycle_named_on_complement.

(* const C0: int = zz1 + C1; const C1: int = zz2 + C0 *)
Definition prog_masked : list decl :=
  [ mkdecl 0 (Some TInt) (e_bin BAdd (EIdent (-1)) (EIdent 1));
    mkdecl 1 (Some TInt) (e_bin BAdd (EIdent (-2)) (EIdent 0)) ].
Theorem C06_cycle_named_refuted : exists ds s, check_all ds = Some s /\ has_cycle ds /\
  Known_C06_cycle_masked s /\ existsb is_cycle_err (errs s) = false.
Proof.
  exists prog_masked. eexists. split; [vm_compute; reflexivity|]. split; [|split; [|reflexivity]].
  - exists 0, [1; 0]. split; [discriminate|]. split; [|reflexivity].
    split; [|split; [|exact I]].
    + eexists. split; [reflexivity|]. split; [cbn; tauto|reflexivity].
    + eexists. split; [reflexivity|]. split; [cbn; tauto|reflexivity].
  - exists (ENonConst (-1)). split; [now left|reflexivity].
Qed.
Print Assumptions C06_cycle_named_refuted.

(* P3  link: whatever the stateful evaluator caches/publishes is the pure evaluator's result over
       the final cache (so the theorems below, stated on [cexpr], speak about check_program) *)
Theorem C06_published_is_pure : forall ds s, check_all ds = Some s ->
  forall n r, lookup (cache s) n = Some r ->
    exists d, find_decl ds n = Some d /\ cexpr ds (lookup (cache s)) (dinit d) = POk r.
Proof. exact cached_is_pure. Qed.
Print Assumptions C06_published_is_pure.

(* P4  value: every value the compiler computes for a const is the value its initializer denotes
       at run time, and inhabits the published type (rho: any run-time environment in which each
       const holds the value of its own initializer).  Unconditional since the repair of
       slice-bound-unvalued. *)
Theorem C06_const_value_agrees : forall ds pw rho s,
  check_all ds = Some s -> rt_consistent pw ds rho ->
  forall n r v, lookup (cache s) n = Some r -> rval r = Some v ->
    rho n = Some v /\ has_type v (rty r) = true.
Proof.
  intros ds pw rho s E RC n r v L V.
  destruct (cache_agrees ds pw rho RC s E) as [EA CW].
  split; [exact (EA n r v L V)|exact (CW n r L v V)].
Qed.
Print Assumptions C06_const_value_agrees.

(* P4' the same for any expression over any environment that agrees with run time *)
Theorem C06_const_value_agrees_expr : forall ds c pw rho e r v,
  env_agree c rho -> cexpr ds c e = POk r -> rval r = Some v -> rt_eval pw rho e = RVal v.
Proof. intros ds c pw rho e r v EA C V. exact (proj1 (value_agrees ds c pw rho EA) e r v C V). Qed.
Print Assumptions C06_const_value_agrees_expr.

(* regression witnesses for the repaired finding slice-bound-unvalued:
   const C0: str = "abcdef"[1 + 1 : ]          publishes NO value (was "abcdef"; run time "cdef")
   const C0: str = "abcdef"[4 : 1 : 0 - 1][0]  is accepted (was: spurious IndexError; run time "e") *)
Definition e_slice_unvalued : expr :=
  ENode (NSlice true false false) (ECons (ELit (LStr s_abcdef)) (ECons (e_bin BAdd (e_int 1) (e_int 1)) ENil)).
Definition e_slice_unvalued2 : expr :=
  e_index (ENode (NSlice true true true)
             (ECons (ELit (LStr s_abcdef)) (ECons (e_int 4) (ECons (e_int 1) (ECons (e_bin BSub (e_int 0) (e_int 1)) ENil)))))
          (e_int 0).
Theorem C06_slice_bound_unvalued_fixed :
  (exists s, check_all [mkdecl 0 (Some TStr) e_slice_unvalued] = Some s /\ errs s = [] /\
             lookup (cache s) 0 = Some (mkres TFStr true None) /\
             rt_eval pw0 rho0 e_slice_unvalued = RVal (VStr [99; 100; 101; 102])) /\
  (exists s, check_all [mkdecl 0 (Some TStr) e_slice_unvalued2] = Some s /\ errs s = [] /\
             lookup (cache s) 0 = Some (mkres TFStr true None) /\
             rt_eval pw0 rho0 e_slice_unvalued2 = RVal (VStr [101])).
Proof. split; eexists; (split; [vm_compute; reflexivity|]); repeat split; vm_compute; reflexivity. Qed.
Print Assumptions C06_slice_bound_unvalued_fixed.

(* P5  errors: on the valued strict fragment [vfrag] the compile-time diagnostic is exactly the
       run-time exception: "string index out of range" <-> IndexError, "slice step cannot be
       zero" <-> ValueError, and a successful evaluation means run time produces that value *)
Theorem C06_const_error_agrees : forall ds c pw rho e,
  env_agree c rho -> vfrag ds c e = true ->
  match cexpr ds c e with
  | POk r => exists v, rval r = Some v /\ rt_eval pw rho e = RVal v
  | PErr EIndexOOR => rt_eval pw rho e = RRaise IndexError
  | PErr EStepZero => rt_eval pw rho e = RRaise ValueError
  | _ => True
  end.
Proof. intros ds c pw rho e EA V. exact (proj1 (error_agrees ds c pw rho EA) e V). Qed.
Print Assumptions C06_const_error_agrees.

Theorem C06_const_error_iff : forall ds c pw rho e,
  env_agree c rho -> vfrag ds c e = true ->
  (forall r, cexpr ds c e = POk r \/ cexpr ds c e = PErr EIndexOOR \/ cexpr ds c e = PErr EStepZero ->
     (cexpr ds c e = PErr EIndexOOR <-> rt_eval pw rho e = RRaise IndexError) /\
     (cexpr ds c e = PErr EStepZero <-> rt_eval pw rho e = RRaise ValueError)).
Proof.
  intros ds c pw rho e EA V r H. pose proof (C06_const_error_agrees ds c pw rho e EA V) as A.
  destruct H as [H|[H|H]]; rewrite H in A |- *.
  - destruct A as (v & _ & ->). split; split; discriminate.
  - rewrite A. split; split; try discriminate; reflexivity.
  - rewrite A. split; split; try discriminate; reflexivity.
Qed.
Print Assumptions C06_const_error_iff.

(* const C0: str = "abc"[1 + 4]   — accepted; run time raises IndexError *)
Theorem C06_error_operand_unvalued_refuted : exists ds s e,
  check_all ds = Some s /\ find_decl ds 0 = Some (mkdecl 0 (Some TStr) e) /\ errs s = [] /\
  vfrag ds (lookup (cache s)) e = false /\ rt_eval pw0 rho0 e = RRaise IndexError.
Proof.
  set (e := e_index (ELit (LStr s_abc)) (e_bin BAdd (e_int 1) (e_int 4))).
  exists [mkdecl 0 (Some TStr) e]. eexists. exists e.
  split; [vm_compute; reflexivity|]. repeat split; vm_compute; reflexivity.
Qed.
Print Assumptions C06_error_operand_unvalued_refuted.

(* const C0: bool = false and "a" in "abc"[5]   — compile time: IndexError; run time: false *)
Theorem C06_eager_and_or_refuted : exists ds s e,
  check_all ds = Some s /\ find_decl ds 0 = Some (mkdecl 0 (Some TBool) e) /\ errs s = [EIndexOOR] /\
  vfrag ds (lookup (cache s)) e = false /\ rt_eval pw0 rho0 e = RVal (VBool false).
Proof.
  set (e := e_bin BAnd (ELit (LBool false)) (e_bin BIn (ELit (LStr [97])) (e_index (ELit (LStr s_abc)) (e_int 5)))).
  exists [mkdecl 0 (Some TBool) e]. eexists. exists e.
  split; [vm_compute; reflexivity|]. repeat split; vm_compute; reflexivity.
Qed.
Print Assumptions C06_eager_and_or_refuted.

(* P6  type (partial): every VALUE the evaluator computes inhabits the type it reports, for every
       const of every program (so with P4 the run-time value has the published type).
       Missing: results for which only a type is computed (numeric arithmetic, comparisons,
       tuples, frozen collections) are not proved against the run-time value's type *)
Theorem C06_const_type_agrees_partial : forall ds s, check_all ds = Some s ->
  forall n r v, lookup (cache s) n = Some r -> rval r = Some v -> has_type v (rty r) = true.
Proof.
  intros ds s E n r v L V.
  destruct (check_all_ok ds) as (s' & E' & G & _). rewrite E in E'. injection E' as <-.
  assert (forall rest pre, cache s = pre ++ rest -> forall m rm, lookup rest m = Some rm -> res_wt rm) as K.
  { induction rest as [|[m0 r0] rest IH]; intros pre H m rm Lm; [discriminate|].
    assert (cache s = (pre ++ [(m0, r0)]) ++ rest) as H2 by (rewrite H, <- app_assoc; reflexivity).
    cbn in Lm. destruct (m0 =? m); [|exact (IH _ H2 _ _ Lm)]. injection Lm as <-.
    destruct (g_topo _ _ G pre m0 r0 rest H) as (d & F & C).
    exact (proj1 (results_well_typed ds (lookup rest) (IH _ H2)) _ _ C). }
  exact (K (cache s) [] eq_refl n r L v V).
Qed.
Print Assumptions C06_const_type_agrees_partial.

(* regression witness for the repaired finding hetero-collection:
   const C0 = [1, "a"]   is rejected with a type mismatch at the second element (was: FrozenList[int]) *)
Theorem C06_hetero_collection_fixed : exists s,
  check_all [mkdecl 0 None (ENode NList (ECons (e_int 1) (ECons (ELit (LStr [97])) ENil)))] = Some s /\
  errs s = [EElemMismatch] /\ cache s = [] /\ pubs s = [].
Proof. eexists. split; [vm_compute; reflexivity|]. repeat split; reflexivity. Qed.
Print Assumptions C06_hetero_collection_fixed.

(* P7  the compile-time string kernels are Python's indexing and slicing, for all strings and all
       index / bound / step values (over Z: C05 owns the i64 overflow of huge steps) *)
Theorem C06_string_kernels_python : forall s i a b k,
  cindex s i = py_index s i /\
  cslice s a b k = match py_slice s a b k with
                   | None => SliceStepZero | Some (Some r) => SliceOk r | Some None => SliceOutOfFuel end /\
  py_slice s a b k <> Some None.
Proof. intros. split; [apply cindex_py|]. split; [apply cslice_py|apply py_slice_total]. Qed.
Print Assumptions C06_string_kernels_python.

(* P8  concat!: the two literals the emitter bakes into `concat!(a, b)` concatenate to the run-time
       value of `l + r`; resolving the static-str consts never runs out of fuel *)
Theorem C06_concat_fold_agrees : forall sds pw rho lits l r a b,
  (forall n e v, lookup sds n = Some e -> rt_eval pw rho e = RVal v -> rho n = Some v) ->
  const_string_literals sds = Some lits -> emit_add lits l r = Some (a, b) ->
  rt_eval pw rho (ENode (NBin BAdd) (ECons l (ECons r ENil))) = RVal (VStr (a ++ b)).
Proof. intros sds pw rho lits l r a b RC. apply emit_add_sound. exact RC. Qed.
Print Assumptions C06_concat_fold_agrees.

Theorem C06_concat_fold_fuel : forall sds, const_string_literals sds <> None.
Proof. exact fold_fuel_suffices. Qed.
Print Assumptions C06_concat_fold_fuel.
