From Verif Require Import Base.I64 C06.Model.
