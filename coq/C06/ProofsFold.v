(* C06/ProofsFold.v — static-str folding of emit/consts.rs (`concat!`): the literal the emitter
   bakes in is the run-time value of the initializer; the DFS never runs out of fuel. *)
From Coq Require Import ZArith List Bool Lia.
From Verif Require Import Base.I64 C06.Model C06.ProofsEval.
Import ListNotations.
Open Scope Z_scope.

Lemma sresolve_S sds f vis ch n :
  sresolve sds (S f) vis ch n =
  match lookup ch n with
  | Some v => Some (ch, Some v)
  | None =>
      if existsb (Z.eqb n) vis then Some (ch, None) else
      match lookup sds n with
      | None => Some (ch, None)
      | Some e =>
          match sfold (sresolve sds f) (n :: vis) ch e with
          | None => None
          | Some (ch1, Some v) => Some ((n, v) :: ch1, Some v)
          | Some (ch1, None) => Some (ch1, None)
          end
      end
  end.
Proof. reflexivity. Qed.

Section Fold.
  Variable sds : sdecls.
  Variable pw : Z -> Z -> Z.
  Variable rho : name -> option value.
  (* every static-str const holds the run-time value of its initializer *)
  Hypothesis RC : forall n e v, lookup sds n = Some e -> rt_eval pw rho e = RVal v -> rho n = Some v.

  Definition cache_sound (ch : scache) : Prop := forall n s, lookup ch n = Some s -> rho n = Some (VStr s).

  Definition srec_sound (rec : list name -> scache -> name -> srun) : Prop :=
    forall vis ch n ch' out, cache_sound ch -> rec vis ch n = Some (ch', out) ->
      cache_sound ch' /\ (forall s, out = Some s -> rho n = Some (VStr s)).

  Definition sfold_sound_at (rec : list name -> scache -> name -> srun) (e : expr) : Prop :=
    forall vis ch ch' out, cache_sound ch -> sfold rec vis ch e = Some (ch', out) ->
      cache_sound ch' /\ (forall s, out = Some s -> rt_eval pw rho e = RVal (VStr s)).

  Lemma sfold_sound rec : srec_sound rec ->
    (forall e, sfold_sound_at rec e) /\ (forall es, Forall (sfold_sound_at rec) (exprs_list es)).
  Proof.
    intros R. apply expr_mutind.
    - intros l vis ch ch' out CS H. destruct l; cbn in H; injection H as <- <-; split; auto; try discriminate.
      intros s0 [= <-]. reflexivity.
    - intros n vis ch ch' out CS H. cbn in H. destruct (R _ _ _ _ _ CS H) as [CS' V]. split; [exact CS'|].
      intros s -> . cbn. now rewrite (V s eq_refl).
    - intros t es IH vis ch ch' out CS H.
      assert (forall x : str -> Prop, Some (ch, @None str) = Some (ch', out) -> cache_sound ch' /\ (forall s, out = Some s -> x s)) as TRIV.
      { intros x [= <- <-]. split; [exact CS|discriminate]. }
      destruct t as [op|op| | | | | |lo hi st| |]; try (apply (TRIV (fun s => rt_eval pw rho _ = RVal (VStr s))); exact H).
      destruct op; try (apply (TRIV (fun s => rt_eval pw rho _ = RVal (VStr s))); exact H).
      destruct es as [|l [|r [|? ?]]]; try (apply (TRIV (fun s => rt_eval pw rho _ = RVal (VStr s))); exact H).
      cbn [exprs_list] in IH. pose proof (Forall_inv IH) as PL. pose proof (Forall_inv (Forall_inv_tail IH)) as PR.
      change (sfold rec vis ch (ENode (NBin BAdd) (ECons l (ECons r ENil)))) with
        (match sfold rec vis ch l with
         | None => None
         | Some (ch1, None) => Some (ch1, None)
         | Some (ch1, Some a) =>
             match sfold rec vis ch1 r with
             | None => None
             | Some (ch2, None) => Some (ch2, None)
             | Some (ch2, Some b) => Some (ch2, Some (a ++ b))
             end
         end) in H.
      destruct (sfold rec vis ch l) as [[ch1 [a|]]|] eqn:EL; try discriminate.
      + destruct (PL _ _ _ _ CS EL) as [CS1 VL].
        destruct (sfold rec vis ch1 r) as [[ch2 [b|]]|] eqn:ER; try discriminate.
        * destruct (PR _ _ _ _ CS1 ER) as [CS2 VR]. injection H as <- <-. split; [exact CS2|].
          intros s [= <-]. change (rt_eval pw rho (ENode (NBin BAdd) (ECons l (ECons r ENil))))
            with (rt_node pw (NBin BAdd) (ECons l (ECons r ENil)) [rt_eval pw rho l; rt_eval pw rho r]).
          rewrite (VL a eq_refl), (VR b eq_refl). reflexivity.
        * destruct (PR _ _ _ _ CS1 ER) as [CS2 _]. injection H as <- <-. split; [exact CS2|discriminate].
      + destruct (PL _ _ _ _ CS EL) as [CS1 _]. injection H as <- <-. split; [exact CS1|discriminate].
    - constructor.
    - intros e IHe rest IHr. cbn. constructor; assumption.
  Qed.

  Lemma sresolve_sound : forall fuel, srec_sound (sresolve sds fuel).
  Proof.
    induction fuel as [|f IH]; intros vis ch n ch' out CS H; cbn [sresolve] in H; [discriminate|].
    destruct (lookup ch n) as [v|] eqn:L.
    { injection H as <- <-. split; [exact CS|]. intros s [= <-]. exact (CS _ _ L). }
    destruct (existsb (Z.eqb n) vis). { injection H as <- <-. split; [exact CS|discriminate]. }
    destruct (lookup sds n) as [e|] eqn:D; [|injection H as <- <-; split; [exact CS|discriminate]].
    destruct (sfold (sresolve sds f) (n :: vis) ch e) as [[ch1 [v|]]|] eqn:E; try discriminate.
    - destruct (proj1 (sfold_sound _ IH) e _ _ _ _ CS E) as [CS1 V]. injection H as <- <-.
      pose proof (RC _ _ _ D (V v eq_refl)) as RN.
      split.
      + intros m s. cbn. destruct (n =? m) eqn:Q; [|apply CS1].
        apply Z.eqb_eq in Q. subst. intros [= <-]. exact RN.
      + intros s [= <-]. exact RN.
    - destruct (proj1 (sfold_sound _ IH) e _ _ _ _ CS E) as [CS1 _]. injection H as <- <-.
      split; [exact CS1|discriminate].
  Qed.

  Lemma sresolve_all_sound todo : forall ch lits, cache_sound ch -> sresolve_all sds todo ch = Some lits -> cache_sound lits.
  Proof.
    induction todo as [|[n e] t IH]; intros ch lits CS H; cbn [sresolve_all] in H; [injection H as <-; exact CS|].
    destruct (sresolve sds (S (length sds)) [] ch n) as [[ch1 o]|] eqn:E; [|discriminate].
    destruct (sresolve_sound _ _ _ _ _ _ CS E) as [CS1 _]. eapply IH; eassumption.
  Qed.

  (* what `concat!(a, b)` denotes is what `l + r` evaluates to at run time *)
  Theorem emit_add_sound lits l r a b :
    const_string_literals sds = Some lits -> emit_add lits l r = Some (a, b) ->
    rt_eval pw rho (ENode (NBin BAdd) (ECons l (ECons r ENil))) = RVal (VStr (a ++ b)).
  Proof.
    intros CL EA.
    assert (cache_sound lits) as CS.
    { eapply sresolve_all_sound; [|exact CL]. intros n s H. discriminate. }
    unfold emit_add in EA.
    destruct (to_lit lits l) as [a'|] eqn:TL; [|discriminate].
    destruct (to_lit lits r) as [b'|] eqn:TR; [|discriminate]. injection EA as <- <-.
    assert (forall e s, to_lit lits e = Some s -> rt_eval pw rho e = RVal (VStr s)) as TS.
    { intros e s H. destruct e as [[]|n|]; try discriminate; cbn in H.
      - injection H as <-. reflexivity.
      - cbn. now rewrite (CS _ _ H). }
    change (rt_eval pw rho (ENode (NBin BAdd) (ECons l (ECons r ENil))))
      with (rt_node pw (NBin BAdd) (ECons l (ECons r ENil)) [rt_eval pw rho l; rt_eval pw rho r]).
    rewrite (TS _ _ TL), (TS _ _ TR). reflexivity.
  Qed.

  (* ---- fuel: the visiting set grows along every nested call *)
  Definition srec_total (k : nat) (rec : list name -> scache -> name -> srun) : Prop :=
    forall vis ch n, NoDup vis -> incl vis (keys sds) -> (length sds - length vis <= k)%nat -> rec vis ch n <> None.

  Lemma sfold_total k rec : srec_total k rec ->
    (forall e vis ch, NoDup vis -> incl vis (keys sds) -> (length sds - length vis <= k)%nat -> sfold rec vis ch e <> None) /\
    (forall es, Forall (fun e => forall vis ch, NoDup vis -> incl vis (keys sds) -> (length sds - length vis <= k)%nat ->
                          sfold rec vis ch e <> None) (exprs_list es)).
  Proof.
    intros R. apply expr_mutind.
    - intros l vis ch _ _ _. destruct l; discriminate.
    - intros n vis ch ND IN K. cbn. now apply R.
    - intros t es IH vis ch ND IN K.
      destruct t as [op|op| | | | | |lo hi st| |]; try discriminate.
      destruct op; try discriminate.
      destruct es as [|l [|r [|? ?]]]; try discriminate.
      cbn [exprs_list] in IH. pose proof (Forall_inv IH) as PL. pose proof (Forall_inv (Forall_inv_tail IH)) as PR.
      change (sfold rec vis ch (ENode (NBin BAdd) (ECons l (ECons r ENil)))) with
        (match sfold rec vis ch l with
         | None => None
         | Some (ch1, None) => Some (ch1, None)
         | Some (ch1, Some a) =>
             match sfold rec vis ch1 r with
             | None => None
             | Some (ch2, None) => Some (ch2, None)
             | Some (ch2, Some b) => Some (ch2, Some (a ++ b))
             end
         end).
      specialize (PL vis ch ND IN K).
      destruct (sfold rec vis ch l) as [[ch1 [a|]]|]; try congruence; try discriminate.
      specialize (PR vis ch1 ND IN K).
      destruct (sfold rec vis ch1 r) as [[ch2 [b|]]|]; try congruence; discriminate.
    - constructor.
    - intros e IHe rest IHr. cbn. constructor; assumption.
  Qed.

  Lemma keys_length {A} (l : list (name * A)) : length (keys l) = length l.
  Proof. unfold keys. apply map_length. Qed.

  Lemma sresolve_total : forall k, srec_total k (sresolve sds (S k)).
  Proof.
    induction k as [|k IH]; intros vis ch n ND IN K; rewrite sresolve_S.
    - destruct (lookup ch n); [discriminate|].
      destruct (existsb (Z.eqb n) vis) eqn:X; [discriminate|].
      destruct (lookup sds n) as [e|] eqn:D; [|discriminate].
      exfalso.
      assert (~ In n vis) as NI.
      { intros I. assert (existsb (Z.eqb n) vis = true) as Y; [|congruence].
        apply existsb_exists. exists n. split; [exact I|apply Z.eqb_refl]. }
      assert (NoDup (n :: vis)) as ND2 by (constructor; assumption).
      assert (incl (n :: vis) (keys sds)) as IN2.
      { intros x [<-|I]; [eapply lookup_some_in; eassumption|now apply IN]. }
      pose proof (NoDup_incl_length ND2 IN2) as LE. rewrite keys_length in LE. cbn in LE. lia.
    - destruct (lookup ch n); [discriminate|].
      destruct (existsb (Z.eqb n) vis) eqn:X; [discriminate|].
      destruct (lookup sds n) as [e|] eqn:D; [|discriminate].
      assert (~ In n vis) as NI.
      { intros I. assert (existsb (Z.eqb n) vis = true) as Y; [|congruence].
        apply existsb_exists. exists n. split; [exact I|apply Z.eqb_refl]. }
      assert (NoDup (n :: vis)) as ND2 by (constructor; assumption).
      assert (incl (n :: vis) (keys sds)) as IN2.
      { intros x [<-|I]; [eapply lookup_some_in; eassumption|now apply IN]. }
      pose proof (NoDup_incl_length ND2 IN2) as LE. rewrite keys_length in LE. cbn in LE.
      assert (length sds - length (n :: vis) <= k)%nat as K2 by (cbn; lia).
      pose proof (proj1 (sfold_total k _ IH) e (n :: vis) ch ND2 IN2 K2) as T.
      destruct (sfold (sresolve sds (S k)) (n :: vis) ch e) as [[ch1 [v|]]|]; [discriminate|discriminate|congruence].
  Qed.

  Theorem fold_fuel_suffices : const_string_literals sds <> None.
  Proof.
    unfold const_string_literals. generalize (@nil (name * str)).
    assert (forall todo ch, sresolve_all sds todo ch <> None) as G; [|intros ch; apply G].
    induction todo as [|[n e] t IH]; intros ch; cbn [sresolve_all]; [discriminate|].
    pose proof (sresolve_total (length sds) [] ch n (NoDup_nil _) (incl_nil_l _) ltac:(cbn; lia)) as T.
    destruct (sresolve sds (S (length sds)) [] ch n) as [[ch1 o]|]; [apply IH|congruence].
  Qed.
End Fold.
