(* C06/Model.v — compile-time evaluation of `const` initializers vs run-time evaluation.
   Definitions only.

   Hand model (tied by the correspondence run of checks/c06.py) of
     src/frontend/typechecker/const_eval.rs   eval_const_by_name / eval_const_expr /
                                              check_and_resolve_const      -> by_name / ceval / check_all
     crates/incan_core/src/strings.rs         str_char_at / str_slice / str_contains -> cindex / cslice / contains
     src/backend/ir/emit/consts.rs            eval_static_str_expr / resolve_static_str_const /
                                              try_emit_static_str_add      -> sfold / sresolve / emit_add
   plus
     cexpr     the same expression evaluator as a pure function of an environment of results
               (no state); Proofs.v shows every successful stateful evaluation equals it
     rt_eval   the independent run-time semantics (big-step; Python's indexing/slicing written
               from CPython's PySlice_AdjustIndices and slice-length formula, Python's floor
               division/modulo on Z, IEEE operations of Base/F64.v for floats)

   Shape of the expression type: every non-leaf form is [ENode tag children]; the evaluator
   evaluates the children left to right, runs [precheck] after each child (this is where the
   real code interleaves a type test between two sub-evaluations: Slice), aborts on the first
   failure (Rust's `?`), and then applies the pure [combine].  Forms the real evaluator rejects
   without looking inside (Paren, Call, MethodCall, If, FString, ...) are [ENode NOther ENil].

   Not modelled (never produced by the generator; named in the evidence): `None` literals and the
   `expected` type that is threaded only for them and for EMPTY annotated collections; duplicate
   const names; `Named("FrozenStr")` spellings of the frozen string type. *)
From Coq Require Import ZArith List Bool Lia.
From Verif Require Import Base.I64 Base.F64 Gen.CoreNum.
Import ListNotations.
Open Scope Z_scope.

Definition name := Z.
Definition str := list Z.               (* Unicode scalar values, as Rust's .chars() *)

(* ------------------------------------------------------------------ types *)
Inductive ty :=
| TInt | TFloat | TBool | TStr | TFStr | TBytes | TFBytes | TUnknown
| TTuple (ts : list ty) | TFList (t : ty) | TFSet (t : ty) | TFDict (k v : ty).

Fixpoint ty_eqb (a b : ty) : bool :=
  match a, b with
  | TInt, TInt | TFloat, TFloat | TBool, TBool | TStr, TStr | TFStr, TFStr
  | TBytes, TBytes | TFBytes, TFBytes | TUnknown, TUnknown => true
  | TTuple xs, TTuple ys =>
      (fix go (xs ys : list ty) : bool :=
         match xs, ys with
         | [], [] => true
         | x :: xs', y :: ys' => ty_eqb x y && go xs' ys'
         | _, _ => false
         end) xs ys
  | TFList x, TFList y => ty_eqb x y
  | TFSet x, TFSet y => ty_eqb x y
  | TFDict k1 v1, TFDict k2 v2 => ty_eqb k1 k2 && ty_eqb v1 v2
  | _, _ => false
  end.

(* TypeChecker::types_compatible restricted to the types above *)
Fixpoint compat (a e : ty) : bool :=
  ty_eqb a e ||
  match a, e with
  | TUnknown, _ | _, TUnknown => true
  | TFStr, TStr => true
  | TFBytes, TBytes => true
  | TFList x, TFList y => compat x y
  | TFSet x, TFSet y => compat x y
  | TFDict k1 v1, TFDict k2 v2 => compat k1 k2 && compat v1 v2
  | TTuple xs, TTuple ys =>
      (fix go (xs ys : list ty) : bool :=
         match xs, ys with
         | [], [] => true
         | x :: xs', y :: ys' => compat x y && go xs' ys'
         | _, _ => false
         end) xs ys
  | _, _ => false
  end.

(* helpers::freeze_const_type on an already resolved annotation (one level, as the code) *)
Definition freeze (t : ty) : ty :=
  match t with TStr => TFStr | TBytes => TFBytes | _ => t end.

Definition is_str_like (t : ty) : bool := match t with TStr | TFStr => true | _ => false end.
Definition is_intlike (t : ty) : bool := match t with TInt | TUnknown => true | _ => false end.
Definition num_ty (t : ty) : option NumericTy :=
  match t with TInt => Some NumericTy_Int | TFloat => Some NumericTy_Float | _ => None end.
Definition ty_of_num (n : NumericTy) : ty :=
  match n with NumericTy_Int => TInt | NumericTy_Float => TFloat end.

(* ------------------------------------------------------------------ values *)
Inductive value :=
| VInt (z : Z) | VFloat (bits : Z) | VBool (b : bool) | VStr (s : str) | VBytes (b : list Z)
| VTuple (vs : list value) | VList (vs : list value) | VSet (vs : list value) | VDict (kvs : list value).

Definition fneg (bits : Z) : Z := if bits <? 2 ^ 63 then bits + 2 ^ 63 else bits - 2 ^ 63.
Definition ineg (n : Z) : Z := wrap64 (- n).    (* Rust `-n` on i64 as compiled (--release) *)

(* ------------------------------------------------------------------ expressions *)
Inductive unop := UNeg | UNot.
Inductive binop :=
| BAdd | BSub | BMul | BDiv | BFloorDiv | BMod | BPow
| BEq | BNotEq | BLt | BGt | BLtEq | BGtEq | BAnd | BOr | BIn | BNotIn | BIs.
Inductive tag :=
| NUn (op : unop) | NBin (op : binop) | NTuple | NList | NSet | NDict
| NIndex | NSlice (lo hi st : bool) | NOther | NSelf.
Inductive lit := LInt (z : Z) | LFloat (bits : Z) | LBool (b : bool) | LStr (s : str) | LBytes (b : list Z).

Inductive expr :=
| ELit (l : lit)
| EIdent (n : name)
| ENode (t : tag) (es : exprs)
with exprs :=
| ENil
| ECons (e : expr) (es : exprs).

Fixpoint exprs_list (es : exprs) : list expr :=
  match es with ENil => [] | ECons e r => e :: exprs_list r end.

(* numeric_adapters::extract_int_literal (Paren cannot occur inside an accepted const) *)
Definition int_literal_of (e : expr) : option Z :=
  match e with
  | ELit (LInt n) => Some n
  | ENode (NUn UNeg) (ECons (ELit (LInt n)) ENil) => Some (ineg n)
  | _ => None
  end.

(* ------------------------------------------------------------------ results, errors *)
Record cresult := mkres { rty : ty; rfrozen : bool; rval : option value }.

Inductive cerr :=
| ECycle (path : list name)      (* "Const dependency cycle detected: a -> b -> a" *)
| ENonConst (n : name)           (* "Non-const name 'x' is not allowed in a const initializer" *)
| EUnknownSym (n : name)
| EUnaryNeg | EUnaryNot
| EBinUnsupported                (* "Binary operator '+' is not supported for types ..." *)
| ECannotCompare | ELogical | EOpNotAllowed
| EIndexBase | EIndexNotInt | ESliceBase | ESliceBound (which : Z)
| EIndexOOR                      (* "IndexError: string index out of range" *)
| EStepZero                      (* "ValueError: slice step cannot be zero" *)
| ENotAllowed | ESelf
| EEmptyColl (k : Z)             (* non-aborting: "Cannot infer type for empty const list/set/dict" *)
| EElemMismatch                  (* "Type mismatch": a list/set/dict element differs from the first one's type *)
| EMismatch (n : name)           (* annotation incompatible (check_and_resolve_const) *)
| ECannotInfer (n : name)
| EMalformed.                    (* arity the parser cannot produce *)

Inductive comb :=
| CAbort (e : cerr)
| COk (warn : option cerr) (r : cresult).

(* ------------------------------------------------------------------ string kernels (const side) *)
Definition slen (s : str) : Z := Z.of_nat (length s).

(* incan_core::strings::str_char_at (normalize_index inlined) *)
Definition cindex (s : str) (idx : Z) : option Z :=
  let len := slen s in
  if len =? 0 then None else
  let i := if idx <? 0 then idx + len else idx in
  if (i <? 0) || (i >=? len) then None else nth_error s (Z.to_nat i).

Definition clampz (x lo hi : Z) : Z := Z.max lo (Z.min x hi).

Inductive slice_out := SliceOk (s : str) | SliceStepZero | SliceOutOfFuel.

Fixpoint loop_up (fuel : nat) (s : str) (i e k : Z) : option str :=
  match fuel with
  | O => None
  | S f =>
      if i <? e then
        match loop_up f s (i + k) e k with
        | None => None
        | Some r => Some (match nth_error s (Z.to_nat i) with Some c => c :: r | None => r end)
        end
      else Some []
  end.
Fixpoint loop_down (fuel : nat) (s : str) (i e k : Z) : option str :=
  match fuel with
  | O => None
  | S f =>
      if i >? e then
        match loop_down f s (i + k) e k with
        | None => None
        | Some r => Some (match nth_error s (Z.to_nat i) with Some c => c :: r | None => r end)
        end
      else Some []
  end.

(* bounds exactly as str_slice computes them, over Z.  The real loop does `i.checked_add(step)` and
   stops when the index leaves i64 — which is what happens over Z, where the next index is then
   beyond the end bound.  (Before that repair |step| > MAX - len wrapped / panicked: C05's
   slice-step-overflow.) *)
Definition cslice_bounds (len : Z) (start end_ : option Z) (step : Z) : Z * Z :=
  let default_start := if step >? 0 then 0 else len - 1 in
  let default_end := if step >? 0 then len else -1 in
  let s0 := match start with Some v => v | None => default_start end in
  let e0 := match end_ with Some v => v | None => default_end end in
  let s1 := if s0 <? 0 then s0 + len else s0 in
  let e1 := if (match end_ with Some _ => true | None => false end) && (e0 <? 0) then e0 + len else e0 in
  if step >? 0 then (clampz s1 0 len, clampz e1 0 len)
  else (clampz s1 (-1) (len - 1), clampz e1 (-1) (len - 1)).

Definition cslice (s : str) (start end_ step : option Z) : slice_out :=
  let k := match step with Some v => v | None => 1 end in
  if k =? 0 then SliceStepZero else
  let len := slen s in
  let '(i, e) := cslice_bounds len start end_ k in
  match (if k >? 0 then loop_up else loop_down) (S (length s)) s i e k with
  | Some r => SliceOk r
  | None => SliceOutOfFuel
  end.

(* str::contains on scalar sequences *)
Fixpoint prefix_of (p s : str) : bool :=
  match p, s with
  | [], _ => true
  | a :: p', b :: s' => (a =? b) && prefix_of p' s'
  | _ :: _, [] => false
  end.
Fixpoint contains (hay needle : str) : bool :=
  prefix_of needle hay || match hay with [] => false | _ :: t => contains t needle end.

(* ------------------------------------------------------------------ combine: one arm per form *)
Definition is_cmp (op : binop) : bool :=
  match op with BEq | BNotEq | BLt | BGt | BLtEq | BGtEq => true | _ => false end.
Definition num_op (op : binop) : option NumericOp :=
  match op with
  | BAdd => Some NumericOp_Add | BSub => Some NumericOp_Sub | BMul => Some NumericOp_Mul
  | BDiv => Some NumericOp_Div | BFloorDiv => Some NumericOp_FloorDiv | BMod => Some NumericOp_Mod
  | BPow => Some NumericOp_Pow | _ => None
  end.
Definition vstr (r : cresult) : option str := match rval r with Some (VStr s) => Some s | _ => None end.
Definition vint (r : cresult) : option Z := match rval r with Some (VInt z) => Some z | _ => None end.
Definition vbool (r : cresult) : option bool := match rval r with Some (VBool b) => Some b | _ => None end.

Definition pow_kind (rhs : expr) (rt : ty) : PowExponentKind :=
  core_PowExponentKind_from_literal_info (match rt with TFloat => true | _ => false end) (int_literal_of rhs).

Definition comb_unary (op : unop) (r : cresult) : comb :=
  match op with
  | UNeg =>
      match rty r with
      | TInt | TFloat =>
          COk None (mkres (rty r) (rfrozen r)
                      (match rval r with
                       | Some (VInt n) => Some (VInt (ineg n))
                       | Some (VFloat f) => Some (VFloat (fneg f))
                       | _ => None end))
      | _ => CAbort EUnaryNeg
      end
  | UNot =>
      match rty r with
      | TBool => COk None (mkres TBool (rfrozen r)
                             (match rval r with Some (VBool b) => Some (VBool (negb b)) | _ => None end))
      | _ => CAbort EUnaryNot
      end
  end.

Definition comb_binary (op : binop) (rhs : expr) (l r : cresult) : comb :=
  let strs := is_str_like (rty l) && is_str_like (rty r) in
  if (match op with BAdd => true | _ => false end) && strs then
    COk None (mkres TFStr true
                (match vstr l, vstr r with Some a, Some b => Some (VStr (a ++ b)) | _, _ => None end))
  else if is_cmp op && strs then COk None (mkres TBool false None)
  else if (match op with BIn | BNotIn => true | _ => false end) && strs then
    COk None (mkres TBool false
                (match vstr l, vstr r with
                 | Some needle, Some hay =>
                     let c := contains hay needle in
                     Some (VBool (match op with BNotIn => negb c | _ => c end))
                 | _, _ => None end))
  else
  match op with
  | BAdd | BSub | BMul | BDiv | BFloorDiv | BMod | BPow =>
      match num_ty (rty l), num_ty (rty r), num_op op with
      | Some a, Some b, Some o =>
          let pk := match op with BPow => Some (pow_kind rhs (rty r)) | _ => None end in
          COk None (mkres (ty_of_num (core_result_numeric_type o a b pk)) false None)
      | _, _, _ => CAbort EBinUnsupported
      end
  | BEq | BNotEq | BLt | BGt | BLtEq | BGtEq =>
      match num_ty (rty l), num_ty (rty r) with
      | Some _, Some _ => COk None (mkres TBool false None)
      | _, _ => if compat (rty l) (rty r) then COk None (mkres TBool false None) else CAbort ECannotCompare
      end
  | BAnd | BOr =>
      match rty l, rty r with
      | TBool, TBool =>
          COk None (mkres TBool false
                      (match vbool l, vbool r with
                       | Some a, Some b => Some (VBool (match op with BAnd => a && b | _ => a || b end))
                       | _, _ => None end))
      | _, _ => CAbort ELogical
      end
  | BIn | BNotIn | BIs => CAbort EOpNotAllowed
  end.

Definition comb_index (b i : cresult) : comb :=
  if negb (is_str_like (rty b)) then CAbort EIndexBase
  else if negb (is_intlike (rty i)) then CAbort EIndexNotInt
  else match vstr b, vint i with
       | Some s, Some k =>
           match cindex s k with
           | Some ch => COk None (mkres TFStr true (Some (VStr [ch])))
           | None => CAbort EIndexOOR
           end
       | _, _ => COk None (mkres TFStr true None)
       end.

(* the bound VALUES the code passes to str_slice: `ty.value.as_ref().and_then(const_int)`; the
   slice VALUE is computed only when every PRESENT bound has a known int value (bounds_known) *)
Definition int_valued (r : cresult) : bool := match rval r with Some (VInt _) => true | _ => false end.
Definition take_bound (present : bool) (rs : list cresult) : option (option Z * list cresult) :=
  if present then match rs with r :: rest => Some (vint r, rest) | [] => None end
  else Some (None, rs).

Definition comb_slice (lo hi st : bool) (rs : list cresult) : comb :=
  match rs with
  | [] => CAbort EMalformed
  | b :: rest =>
      match take_bound lo rest with
      | None => CAbort EMalformed
      | Some (sv, rest1) =>
      match take_bound hi rest1 with
      | None => CAbort EMalformed
      | Some (ev, rest2) =>
      match take_bound st rest2 with
      | Some (kv, []) =>
          match (if forallb int_valued rest then vstr b else None) with
          | Some s =>
              match cslice s sv ev kv with
              | SliceOk out => COk None (mkres TFStr true (Some (VStr out)))
              | SliceStepZero => CAbort EStepZero
              | SliceOutOfFuel => CAbort EMalformed
              end
          | None => COk None (mkres TFStr true None)
          end
      | _ => CAbort EMalformed
      end end end
  end.

Fixpoint evens {A} (l : list A) : list A :=
  match l with [] => [] | a :: t => a :: match t with [] => [] | _ :: t' => evens t' end end.

Definition combine (t : tag) (es : exprs) (rs : list cresult) : comb :=
  match t with
  | NUn op => match rs with [r] => comb_unary op r | _ => CAbort EMalformed end
  | NBin op =>
      match rs, exprs_list es with
      | [l; r], [_; rhs] => comb_binary op rhs l r
      | _, _ => CAbort EMalformed
      end
  | NTuple => COk None (mkres (TTuple (map rty rs)) (existsb rfrozen rs) None)
  | NList =>
      match rs with
      | [] => COk (Some (EEmptyColl 0)) (mkres (TFList TUnknown) true None)
      | r :: _ => COk None (mkres (TFList (rty r)) true None)
      end
  | NSet =>
      match rs with
      | [] => COk (Some (EEmptyColl 1)) (mkres (TFSet TUnknown) true None)
      | r :: _ => COk None (mkres (TFSet (rty r)) true None)
      end
  | NDict =>
      match rs with
      | [] => COk (Some (EEmptyColl 2)) (mkres (TFDict TUnknown TUnknown) true None)
      | k :: v :: _ => if Nat.even (length rs) then COk None (mkres (TFDict (rty k) (rty v)) true None)
                       else CAbort EMalformed
      | _ => CAbort EMalformed
      end
  | NIndex => match rs with [b; i] => comb_index b i | _ => CAbort EMalformed end
  | NSlice lo hi st => comb_slice lo hi st rs
  | NOther => CAbort ENotAllowed
  | NSelf => CAbort ESelf
  end.

(* which of start/end/step the i-th child (i >= 1) of a slice is *)
Definition slice_which (lo hi : bool) (i : nat) : Z :=
  match i, lo, hi with
  | 1%nat, true, _ => 0
  | 1%nat, false, true => 1
  | 1%nat, false, false => 2
  | 2%nat, true, true => 1
  | 2%nat, _, _ => 2
  | _, _, _ => 2
  end.

(* the test the code runs right after evaluating child i (prev = the results of children 0..i-1),
   before evaluating child i+1 *)
Definition elem_check (first r : cresult) : option cerr :=
  if compat (rty r) (rty first) then None else Some EElemMismatch.
Definition precheck (t : tag) (i : nat) (prev : list cresult) (r : cresult) : option cerr :=
  match t with
  | NSlice lo hi _ =>
      match i with
      | O => if is_str_like (rty r) then None else Some ESliceBase
      | _ => if is_intlike (rty r) then None else Some (ESliceBound (slice_which lo hi i))
      end
  | NList | NSet => match prev with first :: _ => elem_check first r | [] => None end
  | NDict =>
      match prev with
      | k :: v :: _ => elem_check (if Nat.even i then k else v) r
      | _ => None
      end
  | _ => None
  end.

Definition lit_result (l : lit) : cresult :=
  match l with
  | LInt n => mkres TInt false (Some (VInt n))
  | LFloat f => mkres TFloat false (Some (VFloat f))
  | LBool b => mkres TBool false (Some (VBool b))
  | LStr s => mkres TFStr true (Some (VStr s))
  | LBytes b => mkres TFBytes true (Some (VBytes b))
  end.

(* ------------------------------------------------------------------ declarations, state *)
Record decl := mkdecl { dname : name; dann : option ty; dinit : expr }.

Inductive cst := NotStarted | InProgress | Done.

Record cstate := mkst {
  stm : name -> cst;                       (* const_eval_state (absent = NotStarted) *)
  cache : list (name * cresult);           (* const_eval_cache, newest first *)
  errs : list cerr;                        (* self.errors, oldest first *)
  pubs : list (name * cresult)             (* type_info.const_kinds/const_values + recorded type *)
}.

Definition st0 : cstate := mkst (fun _ => NotStarted) [] [] [].
Definition push_err (e : cerr) (s : cstate) : cstate := mkst (stm s) (cache s) (errs s ++ [e]) (pubs s).
Definition push_warn (w : option cerr) (s : cstate) : cstate :=
  match w with Some e => push_err e s | None => s end.
Definition set_stm (n : name) (v : cst) (s : cstate) : cstate :=
  mkst (fun m => if m =? n then v else stm s m) (cache s) (errs s) (pubs s).
Definition add_cache (n : name) (r : cresult) (s : cstate) : cstate :=
  mkst (stm s) ((n, r) :: cache s) (errs s) (pubs s).
Definition add_pub (n : name) (r : cresult) (s : cstate) : cstate :=
  mkst (stm s) (cache s) (errs s) (pubs s ++ [(n, r)]).

Fixpoint lookup {A} (l : list (name * A)) (n : name) : option A :=
  match l with [] => None | (m, a) :: t => if m =? n then Some a else lookup t n end.

Definition names (ds : list decl) : list name := map dname ds.
Fixpoint find_decl (ds : list decl) (n : name) : option decl :=
  match ds with [] => None | d :: t => if dname d =? n then Some d else find_decl t n end.
Definition is_decl (ds : list decl) (n : name) : bool :=
  match find_decl ds n with Some _ => true | None => false end.

(* ------------------------------------------------------------------ the stateful evaluator *)
(* outer option: None = out of fuel.  inner option: None = the evaluation failed (an error has
   been pushed, or a dependency is Done without a cached result). *)
Definition crun := option (cstate * option cresult).

Section Eval.
  Context (ds : list decl).
  Context (rec : list name -> cstate -> name -> crun).   (* eval_const_by_name *)

  Fixpoint ceval (stack : list name) (s : cstate) (e : expr) : crun :=
    match e with
    | ELit l => Some (s, Some (lit_result l))
    | EIdent n =>
        if is_decl ds n then rec stack s n
        else Some (push_err (ENonConst n) s, None)
    | ENode t es =>
        match ceval_list stack s t O [] es with
        | None => None
        | Some (s1, None) => Some (s1, None)
        | Some (s1, Some rs) =>
            match combine t es rs with
            | CAbort err => Some (push_err err s1, None)
            | COk w r => Some (push_warn w s1, Some r)
            end
        end
    end
  with ceval_list (stack : list name) (s : cstate) (t : tag) (i : nat) (prev : list cresult) (es : exprs)
       : option (cstate * option (list cresult)) :=
    match es with
    | ENil => Some (s, Some [])
    | ECons e rest =>
        match ceval stack s e with
        | None => None
        | Some (s1, None) => Some (s1, None)
        | Some (s1, Some r) =>
            match precheck t i prev r with
            | Some err => Some (push_err err s1, None)
            | None =>
                match ceval_list stack s1 t (S i) (prev ++ [r]) rest with
                | None => None
                | Some (s2, None) => Some (s2, None)
                | Some (s2, Some rs) => Some (s2, Some (r :: rs))
                end
            end
        end
    end.
End Eval.

Fixpoint by_name (ds : list decl) (fuel : nat) (stack : list name) (s : cstate) (n : name) : crun :=
  match fuel with
  | O => None
  | S f =>
      match lookup (cache s) n with
      | Some r => Some (s, Some r)
      | None =>
          match stm s n with
          | Done => Some (s, None)
          | InProgress => Some (push_err (ECycle (stack ++ [n])) s, None)
          | NotStarted =>
              match find_decl ds n with
              | None => Some (push_err (EUnknownSym n) s, None)
              | Some d =>
                  let s1 := set_stm n InProgress s in
                  match ceval ds (by_name ds f) (stack ++ [n]) s1 (dinit d) with
                  | None => None
                  | Some (s2, ro) =>
                      let s3 := set_stm n Done s2 in
                      Some (match ro with Some r => add_cache n r s3 | None => s3 end, ro)
                  end
              end
          end
      end
  end.

Definition fuel_for (ds : list decl) : nat := S (length ds).

(* check_and_resolve_const *)
Definition check_decl (ds : list decl) (s : cstate) (d : decl) : option cstate :=
  match by_name ds (fuel_for ds) [] s (dname d) with
  | None => None
  | Some (s1, None) => Some s1
  | Some (s1, Some r) =>
      let s2 := add_pub (dname d) r s1 in
      Some (match dann d with
            | Some a => if compat (rty r) (freeze a) then s2 else push_err (EMismatch (dname d)) s2
            | None => match rty r with TUnknown => push_err (ECannotInfer (dname d)) s2 | _ => s2 end
            end)
  end.

Fixpoint check_from (ds : list decl) (s : cstate) (todo : list decl) : option cstate :=
  match todo with
  | [] => Some s
  | d :: t => match check_decl ds s d with None => None | Some s1 => check_from ds s1 t end
  end.

(* check_program, const pass *)
Definition check_all (ds : list decl) : option cstate := check_from ds st0 ds.

(* ------------------------------------------------------------------ the pure evaluator *)
Definition cenv := name -> option cresult.

Inductive pres := PErr (e : cerr) | PDep (n : name) | POk (r : cresult).

Section Pure.
  Context (ds : list decl) (c : cenv).
  Fixpoint cexpr (e : expr) : pres :=
    match e with
    | ELit l => POk (lit_result l)
    | EIdent n =>
        if is_decl ds n then match c n with Some r => POk r | None => PDep n end
        else PErr (ENonConst n)
    | ENode t es =>
        match cexpr_list t O [] es with
        | inl p => p
        | inr rs => match combine t es rs with CAbort err => PErr err | COk _ r => POk r end
        end
    end
  with cexpr_list (t : tag) (i : nat) (prev : list cresult) (es : exprs) : pres + list cresult :=
    match es with
    | ENil => inr []
    | ECons e rest =>
        match cexpr e with
        | POk r =>
            match precheck t i prev r with
            | Some err => inl (PErr err)
            | None => match cexpr_list t (S i) (prev ++ [r]) rest with inl p => inl p | inr rs => inr (r :: rs) end
            end
        | p => inl p
        end
    end.
End Pure.

(* ------------------------------------------------------------------ dependency graph *)
Fixpoint idents (e : expr) : list name :=
  match e with
  | ELit _ => []
  | EIdent n => [n]
  | ENode _ es => idents_list es
  end
with idents_list (es : exprs) : list name :=
  match es with ENil => [] | ECons e r => idents e ++ idents_list r end.

Definition dep (ds : list decl) (a b : name) : Prop :=
  exists d, find_decl ds a = Some d /\ In b (idents (dinit d)) /\ is_decl ds b = true.

(* a dependency chain a0 -> a1 -> ... *)
Fixpoint chain (ds : list decl) (a : name) (p : list name) : Prop :=
  match p with [] => True | b :: t => dep ds a b /\ chain ds b t end.
Definition last_of (a : name) (p : list name) : name := last p a.
Definition has_cycle (ds : list decl) : Prop :=
  exists a p, p <> [] /\ chain ds a p /\ last_of a p = a.

Definition is_cycle_err (e : cerr) : bool := match e with ECycle _ => true | _ => false end.

(* ------------------------------------------------------------------ run-time semantics (spec) *)
Inductive exn := IndexError | ValueError | ZeroDivisionError.
Inductive rres := RVal (v : value) | RRaise (x : exn) | RStuck.

(* Python: s[i] *)
Definition py_index (s : str) (i : Z) : option Z :=
  let len := slen s in
  if (- len <=? i) && (i <? len) then nth_error s (Z.to_nat (i mod len)) else None.

(* CPython PySlice_AdjustIndices on one index *)
Definition py_adjust (len step : Z) (v : Z) : Z :=
  if v <? 0 then
    let v' := v + len in
    if v' <? 0 then (if step <? 0 then -1 else 0) else v'
  else if v >=? len then (if step <? 0 then len - 1 else len)
  else v.
Definition py_slice_len (start stop step : Z) : Z :=
  if step <? 0 then (if stop <? start then (start - stop - 1) / (- step) + 1 else 0)
  else (if start <? stop then (stop - start - 1) / step + 1 else 0).
Fixpoint zrange (i k : Z) (n : nat) : list Z :=
  match n with O => [] | S n' => i :: zrange (i + k) k n' end.
Fixpoint pick (s : str) (idx : list Z) : option str :=
  match idx with
  | [] => Some []
  | i :: t => match nth_error s (Z.to_nat i), pick s t with
              | Some c, Some r => if 0 <=? i then Some (c :: r) else None
              | _, _ => None end
  end.
(* s[start:stop:step]; None = ValueError (step zero); inner None cannot happen (Proofs) *)
Definition py_slice (s : str) (start stop step : option Z) : option (option str) :=
  let k := match step with Some v => v | None => 1 end in
  if k =? 0 then None else
  let len := slen s in
  let a := match start with Some v => py_adjust len k v | None => if k <? 0 then len - 1 else 0 end in
  let b := match stop with Some v => py_adjust len k v | None => if k <? 0 then -1 else len end in
  Some (pick s (zrange a k (Z.to_nat (py_slice_len a b k)))).

Fixpoint lex_lt (a b : str) : bool :=
  match a, b with
  | _, [] => false
  | [], _ :: _ => true
  | x :: a', y :: b' => (x <? y) || ((x =? y) && lex_lt a' b')
  end.
Fixpoint str_eqb (a b : str) : bool :=
  match a, b with
  | [], [] => true
  | x :: a', y :: b' => (x =? y) && str_eqb a' b'
  | _, _ => false
  end.

Definition fb (x : Z) : f64 := f64_of_bits x.
Definition tb (x : f64) : Z := f64_to_bits x.
Definition is_fzero (x : Z) : bool := f64_eqb (fb x) f64_zero.

Section Runtime.
  Context (pw : Z -> Z -> Z).      (* f64::powf on bit patterns: outside the model, a named parameter *)
  Context (rho : name -> option value).   (* run-time values of the consts *)

  Definition rt_cmp_int (op : binop) (a b : Z) : bool :=
    match op with
    | BEq => a =? b | BNotEq => negb (a =? b) | BLt => a <? b | BGt => b <? a
    | BLtEq => a <=? b | BGtEq => b <=? a | _ => false end.
  Definition rt_cmp_float (op : binop) (a b : Z) : bool :=
    match op with
    | BEq => f64_eqb (fb a) (fb b) | BNotEq => negb (f64_eqb (fb a) (fb b))
    | BLt => f64_ltb (fb a) (fb b) | BGt => f64_ltb (fb b) (fb a)
    | BLtEq => f64_leb (fb a) (fb b) | BGtEq => f64_leb (fb b) (fb a) | _ => false end.
  Definition rt_cmp_str (op : binop) (a b : str) : bool :=
    match op with
    | BEq => str_eqb a b | BNotEq => negb (str_eqb a b) | BLt => lex_lt a b | BGt => lex_lt b a
    | BLtEq => negb (lex_lt b a) | BGtEq => negb (lex_lt a b) | _ => false end.
  Definition rt_cmp_bool (op : binop) (a b : bool) : bool :=
    rt_cmp_int op (if a then 1 else 0) (if b then 1 else 0).

  Definition to_f (v : value) : option Z :=
    match v with VInt z => Some (tb (f64_of_i64 z)) | VFloat b => Some b | _ => None end.

  Definition rt_arith_float (op : binop) (a b : Z) : rres :=
    match op with
    | BAdd => RVal (VFloat (tb (f64_add (fb a) (fb b))))
    | BSub => RVal (VFloat (tb (f64_sub (fb a) (fb b))))
    | BMul => RVal (VFloat (tb (f64_mul (fb a) (fb b))))
    | BDiv => if is_fzero b then RRaise ZeroDivisionError else RVal (VFloat (tb (f64_div (fb a) (fb b))))
    | BFloorDiv => if is_fzero b then RRaise ZeroDivisionError
                   else RVal (VFloat (tb (f64_floor (f64_div (fb a) (fb b)))))
    | BMod => if is_fzero b then RRaise ZeroDivisionError
              else match core_py_mod_f64_impl Wrap (fb a) (fb b) with
                   | Val r => RVal (VFloat (tb r)) | Trp _ => RStuck end
    | BPow => RVal (VFloat (pw a b))
    | _ => RStuck
    end.

  Definition rt_arith (op : binop) (rhs : expr) (l r : value) : rres :=
    match l, r with
    | VInt a, VInt b =>
        match op with
        | BAdd => RVal (VInt (wrap64 (a + b)))
        | BSub => RVal (VInt (wrap64 (a - b)))
        | BMul => RVal (VInt (wrap64 (a * b)))
        | BFloorDiv => if b =? 0 then RRaise ZeroDivisionError else RVal (VInt (wrap64 (a / b)))
        | BMod => if b =? 0 then RRaise ZeroDivisionError else RVal (VInt (a mod b))
        | BDiv => if b =? 0 then RRaise ZeroDivisionError
                  else RVal (VFloat (tb (f64_div (f64_of_i64 a) (f64_of_i64 b))))
        | BPow =>
            match pow_kind rhs TInt with
            | PowExponentKind_NonNegativeIntLiteral => RVal (VInt (wrap64 (a ^ b)))
            | _ => RVal (VFloat (pw (tb (f64_of_i64 a)) (tb (f64_of_i64 b))))
            end
        | _ => RStuck
        end
    | _, _ =>
        match to_f l, to_f r with
        | Some a, Some b => rt_arith_float op a b
        | _, _ => RStuck
        end
    end.

  Definition rt_compare (op : binop) (l r : value) : rres :=
    match l, r with
    | VInt a, VInt b => RVal (VBool (rt_cmp_int op a b))
    | VStr a, VStr b => RVal (VBool (rt_cmp_str op a b))
    | VBool a, VBool b => RVal (VBool (rt_cmp_bool op a b))
    | _, _ => match to_f l, to_f r with
              | Some a, Some b => RVal (VBool (rt_cmp_float op a b))
              | _, _ => RStuck end
    end.

  Definition rt_binary (op : binop) (rhs : expr) (l r : value) : rres :=
    match op with
    | BAdd => match l, r with VStr a, VStr b => RVal (VStr (a ++ b)) | _, _ => rt_arith op rhs l r end
    | BSub | BMul | BDiv | BFloorDiv | BMod | BPow => rt_arith op rhs l r
    | BEq | BNotEq | BLt | BGt | BLtEq | BGtEq => rt_compare op l r
    | BIn => match l, r with VStr n, VStr h => RVal (VBool (contains h n)) | _, _ => RStuck end
    | BNotIn => match l, r with VStr n, VStr h => RVal (VBool (negb (contains h n))) | _, _ => RStuck end
    | BAnd | BOr | BIs => RStuck       (* and/or are lazy: handled in rt_node *)
    end.

  Definition rt_unary (op : unop) (v : value) : rres :=
    match op, v with
    | UNeg, VInt n => RVal (VInt (ineg n))
    | UNeg, VFloat f => RVal (VFloat (fneg f))
    | UNot, VBool b => RVal (VBool (negb b))
    | _, _ => RStuck
    end.

  (* strict left-to-right: the first child that does not produce a value decides *)
  Fixpoint all_vals (outs : list rres) : rres + list value :=
    match outs with
    | [] => inr []
    | RVal v :: t => match all_vals t with inl x => inl x | inr vs => inr (v :: vs) end
    | o :: _ => inl o
    end.

  Definition rt_take (present : bool) (vs : list value) : option (option Z * list value) :=
    if present then match vs with VInt z :: rest => Some (Some z, rest) | _ => None end
    else Some (None, vs).

  Definition rt_slice (lo hi st : bool) (vs : list value) : rres :=
    match vs with
    | VStr s :: rest =>
        match rt_take lo rest with
        | None => RStuck
        | Some (a, rest1) =>
        match rt_take hi rest1 with
        | None => RStuck
        | Some (b, rest2) =>
        match rt_take st rest2 with
        | Some (k, []) =>
            match py_slice s a b k with
            | None => RRaise ValueError
            | Some (Some out) => RVal (VStr out)
            | Some None => RStuck
            end
        | _ => RStuck
        end end end
    | _ => RStuck
    end.

  Definition rt_node (t : tag) (es : exprs) (outs : list rres) : rres :=
    match t, outs with
    | NBin BAnd, [l; r] =>
        match l with
        | RVal (VBool false) => RVal (VBool false)
        | RVal (VBool true) => match r with RVal (VBool b) => RVal (VBool b) | RVal _ => RStuck | o => o end
        | RVal _ => RStuck
        | o => o
        end
    | NBin BOr, [l; r] =>
        match l with
        | RVal (VBool true) => RVal (VBool true)
        | RVal (VBool false) => match r with RVal (VBool b) => RVal (VBool b) | RVal _ => RStuck | o => o end
        | RVal _ => RStuck
        | o => o
        end
    | _, _ =>
        match all_vals outs with
        | inl o => o
        | inr vs =>
            match t, vs, exprs_list es with
            | NUn op, [v], _ => rt_unary op v
            | NBin op, [l; r], [_; rhs] => rt_binary op rhs l r
            | NTuple, _, _ => RVal (VTuple vs)
            | NList, _, _ => RVal (VList vs)
            | NSet, _, _ => RVal (VSet vs)
            | NDict, _, _ => if Nat.even (length vs) then RVal (VDict vs) else RStuck
            | NIndex, [VStr s; VInt i], _ =>
                match py_index s i with Some c => RVal (VStr [c]) | None => RRaise IndexError end
            | NSlice lo hi st, _, _ => rt_slice lo hi st vs
            | _, _, _ => RStuck
            end
        end
    end.

  Definition rt_lit (l : lit) : value :=
    match l with
    | LInt n => VInt n | LFloat f => VFloat f | LBool b => VBool b | LStr s => VStr s | LBytes b => VBytes b
    end.

  Fixpoint rt_eval (e : expr) : rres :=
    match e with
    | ELit l => RVal (rt_lit l)
    | EIdent n => match rho n with Some v => RVal v | None => RStuck end
    | ENode t es => rt_node t es (rt_eval_list es)
    end
  with rt_eval_list (es : exprs) : list rres :=
    match es with ENil => [] | ECons e r => rt_eval e :: rt_eval_list r end.
End Runtime.

(* rho is "the" run-time environment of a program: each const holds the value of its initializer *)
Definition rt_consistent (pw : Z -> Z -> Z) (ds : list decl) (rho : name -> option value) : Prop :=
  forall d, In d ds -> find_decl ds (dname d) = Some d ->
    match rt_eval pw rho (dinit d) with RVal v => rho (dname d) = Some v | _ => rho (dname d) = None end.

(* value typing (run-time strings inhabit both str and FrozenStr) *)
Fixpoint has_type (v : value) (t : ty) : bool :=
  match v, t with
  | VInt _, TInt | VFloat _, TFloat | VBool _, TBool => true
  | VStr _, TStr | VStr _, TFStr | VBytes _, TBytes | VBytes _, TFBytes => true
  | VTuple vs, TTuple ts =>
      (fix go (vs : list value) (ts : list ty) : bool :=
         match vs, ts with
         | [], [] => true
         | v :: vs', t :: ts' => has_type v t && go vs' ts'
         | _, _ => false end) vs ts
  | VList vs, TFList t => (fix go (vs : list value) : bool :=
                             match vs with [] => true | v :: vs' => has_type v t && go vs' end) vs
  | VSet vs, TFSet t => (fix go (vs : list value) : bool :=
                           match vs with [] => true | v :: vs' => has_type v t && go vs' end) vs
  | VDict kvs, TFDict k w =>
      (fix go (kvs : list value) : bool :=
         match kvs with
         | [] => true
         | a :: b :: r => has_type a k && has_type b w && go r
         | _ => false end) kvs
  | _, _ => false
  end.

(* ------------------------------------------------------------------ known-finding classes *)

(* "if it evaluates at all, its value is known" *)
Definition ok_valued (p : pres) : bool :=
  match p with POk r => match rval r with Some _ => true | None => false end | _ => true end.
Definition tag_strict (t : tag) : bool :=
  match t with
  | NUn _ | NIndex | NSlice _ _ _ => true
  | NBin (BAdd | BIn | BNotIn) => true
  | _ => false
  end.

Section Classes.
  Context (ds : list decl) (c : cenv).
  (* the fragment on which compile-time diagnostics and run-time exceptions coincide exactly:
     strict string operators only (no `and`/`or`: lazy at run time, eager at compile time; no
     numeric arithmetic / comparison: only a type is computed), and every sub-expression that
     evaluates has a known value.  Its complement is Known_C06_error_operand_unvalued /
     Known_C06_eager_and_or. *)
  Fixpoint vfrag (e : expr) : bool :=
    match e with
    | ELit _ => true
    | EIdent _ => ok_valued (cexpr ds c e)
    | ENode t es => tag_strict t && vfrag_list es && ok_valued (cexpr ds c e)
    end
  with vfrag_list (es : exprs) : bool :=
    match es with ENil => true | ECons e r => vfrag e && vfrag_list r end.
End Classes.

(* ------------------------------------------------------------------ static-str folding (emit/consts.rs) *)
(* sds: the consts whose IR type is StaticStr (annotation `str`), with their initializers *)
Definition sdecls := list (name * expr).
Definition scache := list (name * str).
Definition srun := option (scache * option str).    (* outer None = out of fuel *)

Section SFold.
  Context (rec : list name -> scache -> name -> srun).     (* resolve_static_str_const *)
  Fixpoint sfold (visiting : list name) (ch : scache) (e : expr) : srun :=
    match e with
    | ELit (LStr s) => Some (ch, Some s)
    | EIdent n => rec visiting ch n
    | ENode (NBin BAdd) (ECons l (ECons r ENil)) =>
        match sfold visiting ch l with
        | None => None
        | Some (ch1, None) => Some (ch1, None)
        | Some (ch1, Some a) =>
            match sfold visiting ch1 r with
            | None => None
            | Some (ch2, None) => Some (ch2, None)
            | Some (ch2, Some b) => Some (ch2, Some (a ++ b))
            end
        end
    | _ => Some (ch, None)
    end.
End SFold.

Fixpoint sresolve (sds : sdecls) (fuel : nat) (visiting : list name) (ch : scache) (n : name) : srun :=
  match fuel with
  | O => None
  | S f =>
      match lookup ch n with
      | Some v => Some (ch, Some v)
      | None =>
          if existsb (Z.eqb n) visiting then Some (ch, None) else
          match lookup sds n with
          | None => Some (ch, None)
          | Some e =>
              match sfold (sresolve sds f) (n :: visiting) ch e with
              | None => None
              | Some (ch1, Some v) => Some ((n, v) :: ch1, Some v)
              | Some (ch1, None) => Some (ch1, None)
              end
          end
      end
  end.

Fixpoint sresolve_all (sds : sdecls) (todo : list (name * expr)) (ch : scache) : option scache :=
  match todo with
  | [] => Some ch
  | (n, _) :: t =>
      match sresolve sds (S (length sds)) [] ch n with
      | None => None
      | Some (ch1, _) => sresolve_all sds t ch1
      end
  end.
Definition const_string_literals (sds : sdecls) : option scache := sresolve_all sds sds [].

(* try_emit_static_str_add: Some (a, b) = `concat!(a, b)` *)
Definition to_lit (lits : scache) (e : expr) : option str :=
  match e with
  | ELit (LStr s) => Some s
  | EIdent n => lookup lits n
  | _ => None
  end.
Definition emit_add (lits : scache) (l r : expr) : option (str * str) :=
  match to_lit lits l, to_lit lits r with Some a, Some b => Some (a, b) | _, _ => None end.

(* ------------------------------------------------------------------ rendering for the correspondence run *)
Fixpoint enc_ty (t : ty) : list Z :=
  match t with
  | TInt => [1] | TFloat => [2] | TBool => [3] | TStr => [4] | TFStr => [5] | TBytes => [6] | TFBytes => [7]
  | TUnknown => [8]
  | TTuple ts => 9 :: Z.of_nat (length ts) :: flat_map enc_ty ts
  | TFList t => 10 :: enc_ty t
  | TFSet t => 11 :: enc_ty t
  | TFDict k v => 12 :: enc_ty k ++ enc_ty v
  end.
Definition enc_val (v : option value) : list Z :=
  match v with
  | None => [0]
  | Some (VInt z) => [1; z]
  | Some (VFloat b) => [2; b]
  | Some (VBool b) => [3; if b then 1 else 0]
  | Some (VStr s) => 4 :: Z.of_nat (length s) :: s
  | Some (VBytes s) => 5 :: Z.of_nat (length s) :: s
  | Some _ => [99]
  end.
Definition enc_res (r : cresult) : list Z :=
  enc_ty (rty r) ++ [if rfrozen r then 1 else 0] ++ enc_val (rval r).
Definition enc_err (e : cerr) : list Z :=
  match e with
  | ECycle p => 1 :: p
  | ENonConst n => [2; n]
  | EUnknownSym n => [3; n]
  | EUnaryNeg => [4] | EUnaryNot => [5] | EBinUnsupported => [6] | ECannotCompare => [7]
  | ELogical => [8] | EOpNotAllowed => [9] | EIndexBase => [10] | EIndexNotInt => [11]
  | ESliceBase => [12] | ESliceBound w => [13; w] | EIndexOOR => [14] | EStepZero => [15]
  | ENotAllowed => [16] | ESelf => [17] | EEmptyColl k => [18; k] | EMismatch n => [19; n]
  | ECannotInfer n => [20; n] | EMalformed => [21] | EElemMismatch => [19]
  end.
(* one row per published const: name :: encoding; then one row per error; separated by [-1] *)
Definition render_state (s : cstate) : list (list Z) :=
  map (fun nr => fst nr :: enc_res (snd nr)) (pubs s) ++ [[-1]] ++ map enc_err (errs s).
Definition render_check (ds : list decl) : list (list Z) :=
  match check_all ds with Some s => render_state s | None => [[-2]] end.

(* the pure evaluator over the final cache must tell the same story for every decl (behavioural
   check of the error half of the link; the success half is proved) *)
Definition enc_pres (p : pres) : list Z :=
  match p with POk r => 0 :: enc_res r | PErr e => 1 :: enc_err e | PDep n => [2; n] end.
Definition render_pure (ds : list decl) : list (list Z) :=
  match check_all ds with
  | Some s => map (fun d => dname d :: enc_pres (cexpr ds (lookup (cache s)) (dinit d))) ds
  | None => [[-2]]
  end.

Definition enc_rres (r : rres) : list Z :=
  match r with
  | RVal v => 0 :: enc_val (Some v)
  | RRaise IndexError => [1; 1] | RRaise ValueError => [1; 2] | RRaise ZeroDivisionError => [1; 3]
  | RStuck => [2]
  end.

Definition render_fold (sds : sdecls) : list (list Z) :=
  match const_string_literals sds with
  | None => [[-2]]
  | Some lits =>
      map (fun ne =>
             fst ne ::
             match snd ne with
             | ENode (NBin BAdd) (ECons l (ECons r ENil)) =>
                 match emit_add lits l r with
                 | Some (a, b) => 1 :: Z.of_nat (length a) :: a ++ Z.of_nat (length b) :: b
                 | None => [0]
                 end
             | ELit (LStr s) => 2 :: Z.of_nat (length s) :: s
             | _ => [3]
             end) sds
  end.
