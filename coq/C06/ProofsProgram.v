(* C06/ProofsProgram.v — program-level statements: what check_program publishes for the consts of
   a whole program against the run-time values of those consts. *)
From Coq Require Import ZArith List Bool Lia.
From Verif Require Import Base.I64 C06.Model C06.ProofsEval C06.ProofsStr C06.ProofsAgree.
Import ListNotations.
Open Scope Z_scope.

Section Program.
  Variable ds : list decl.

  Definition sub_env (c c' : cenv) : Prop := forall n r, c n = Some r -> c' n = Some r.

  Variable pw : Z -> Z -> Z.
  Variable rho : name -> option value.
  Hypothesis RC : rt_consistent pw ds rho.

  Lemma lookup_suffix_sub (pre rest : list (name * cresult)) :
    NoDup (keys (pre ++ rest)) -> sub_env (lookup rest) (lookup (pre ++ rest)).
  Proof.
    intros ND n r L. rewrite lookup_app_old; [exact L|].
    apply lookup_some_in in L. rewrite keys_app in ND.
    revert ND L. generalize (keys pre) (keys rest). intros l1 l2 ND L I.
    induction l1 as [|x t IH]; [exact I|]. cbn in ND. inversion ND; subst.
    destruct I as [->|I]; [apply H1; apply in_or_app; now right|now apply IH].
  Qed.

  (* along the (topologically sorted) cache: values agree with run time and are well typed *)
  Lemma cache_agrees s : check_all ds = Some s ->
    env_agree (lookup (cache s)) rho /\ (forall n r, lookup (cache s) n = Some r -> res_wt r).
  Proof.
    intros E.
    destruct (check_all_ok ds) as (s' & E' & G & _). rewrite E in E'. injection E' as <-.
    assert (forall rest pre, cache s = pre ++ rest ->
              env_agree (lookup rest) rho /\ (forall n r, lookup rest n = Some r -> res_wt r)) as K.
    { induction rest as [|[n r] rest IH]; intros pre H.
      - split; intros ? ? ?; discriminate.
      - assert (cache s = (pre ++ [(n, r)]) ++ rest) as H2 by (rewrite H, <- app_assoc; reflexivity).
        destruct (IH _ H2) as [EA CW].
        destruct (g_topo _ _ G pre n r rest H) as (d & F & C).
        destruct (find_decl_some _ _ _ F) as [DN DI].
        split.
        + intros m rm v L V. cbn in L. destruct (n =? m) eqn:Q; [|eapply EA; eassumption].
          apply Z.eqb_eq in Q. subst m. injection L as <-.
          pose proof (proj1 (value_agrees ds (lookup rest) pw rho EA) _ _ _ C V) as RT.
          pose proof (RC d DI) as RCd. rewrite DN in RCd. specialize (RCd F). rewrite RT in RCd. exact RCd.
        + intros m rm L. cbn in L. destruct (n =? m) eqn:Q; [|eapply CW; eassumption].
          injection L as <-. exact (proj1 (results_well_typed ds (lookup rest) CW) _ _ C). }
    apply (K (cache s) []). reflexivity.
  Qed.
End Program.
