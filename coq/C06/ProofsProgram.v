(* C06/ProofsProgram.v — program-level statements: what check_program publishes for the consts of
   a whole program against the run-time values of those consts. *)
From Coq Require Import ZArith List Bool Lia.
From Verif Require Import Base.I64 C06.Model C06.ProofsEval C06.ProofsStr C06.ProofsAgree.
Import ListNotations.
Open Scope Z_scope.

Section Program.
  Variable ds : list decl.

  Definition sub_env (c c' : cenv) : Prop := forall n r, c n = Some r -> c' n = Some r.

  (* on an expression that evaluates, the class predicates do not depend on how much more the
     environment knows *)
  Lemma classes_mono c c' : sub_env c c' ->
    (forall e r, cexpr ds c e = POk r ->
       unvalued_bound ds c e = unvalued_bound ds c' e) /\
    (forall es t i rs, cexpr_list ds c t i es = inr rs ->
       unvalued_bound_list ds c es = unvalued_bound_list ds c' es /\
       all_int_valued ds c es = all_int_valued ds c' es).
  Proof.
    intros M. pose proof (cexpr_mono ds c c' M) as [ME ML].
    apply expr_mutind.
    - reflexivity.
    - reflexivity.
    - intros t es IH r H. rewrite cexpr_node in H.
      destruct (cexpr_list ds c t 0 es) as [p|rs] eqn:E.
      + exfalso. eapply cexpr_list_inl; eassumption.
      + destruct (IH _ _ _ E) as [U A].
        change (bounds_unvalued ds c t es || unvalued_bound_list ds c es =
                bounds_unvalued ds c' t es || unvalued_bound_list ds c' es).
        rewrite U. f_equal.
        destruct t; try reflexivity. destruct es as [|b rest]; [reflexivity|].
        rewrite cexpr_list_cons in E. destruct (cexpr ds c b) as [x|x|rb] eqn:EB; try discriminate.
        destruct (precheck (NSlice lo hi st) 0 rb); [discriminate|].
        destruct (cexpr_list ds c (NSlice lo hi st) 1 rest) as [p|rs'] eqn:E2; [discriminate|].
        cbn. rewrite EB, (ME _ _ EB).
        change (all_int_valued ds c (ECons b rest)) with (pvalued_int (cexpr ds c b) && all_int_valued ds c rest) in A.
        change (all_int_valued ds c' (ECons b rest)) with (pvalued_int (cexpr ds c' b) && all_int_valued ds c' rest) in A.
        rewrite EB, (ME _ _ EB) in A.
        rewrite (all_int_valued_rs ds c _ _ _ _ E2), (all_int_valued_rs ds c' _ _ _ _ (ML _ _ _ _ E2)). reflexivity.
    - intros t i rs _. split; reflexivity.
    - intros e IHe rest IHr t i rs H. rewrite cexpr_list_cons in H.
      destruct (cexpr ds c e) as [x|x|r] eqn:E; try discriminate.
      destruct (precheck t i r); [discriminate|].
      destruct (cexpr_list ds c t (S i) rest) as [p|rs'] eqn:E2; [discriminate|].
      destruct (IHr _ _ _ E2) as [U A]. split.
      + change (unvalued_bound ds c e || unvalued_bound_list ds c rest =
                unvalued_bound ds c' e || unvalued_bound_list ds c' rest).
        now rewrite (IHe r eq_refl), U.
      + change (pvalued_int (cexpr ds c e) && all_int_valued ds c rest =
                pvalued_int (cexpr ds c' e) && all_int_valued ds c' rest).
        now rewrite E, (ME _ _ E), A.
  Qed.

  Variable pw : Z -> Z -> Z.
  Variable rho : name -> option value.
  Hypothesis RC : rt_consistent pw ds rho.

  Lemma lookup_suffix_sub (pre rest : list (name * cresult)) :
    NoDup (keys (pre ++ rest)) -> sub_env (lookup rest) (lookup (pre ++ rest)).
  Proof.
    intros ND n r L. rewrite lookup_app_old; [exact L|].
    apply lookup_some_in in L. rewrite keys_app in ND.
    revert ND L. generalize (keys pre) (keys rest). intros l1 l2 ND L I.
    induction l1 as [|x t IH]; [exact I|]. cbn in ND. inversion ND; subst.
    destruct I as [->|I]; [apply H1; apply in_or_app; now right|now apply IH].
  Qed.

  (* along the (topologically sorted) cache: values agree with run time and are well typed *)
  Lemma cache_agrees s : check_all ds = Some s ->
    (forall d, In d ds -> unvalued_bound ds (lookup (cache s)) (dinit d) = false) ->
    env_agree (lookup (cache s)) rho /\ (forall n r, lookup (cache s) n = Some r -> res_wt r).
  Proof.
    intros E NU.
    destruct (check_all_ok ds) as (s' & E' & G & _). rewrite E in E'. injection E' as <-.
    assert (forall rest pre, cache s = pre ++ rest ->
              env_agree (lookup rest) rho /\ (forall n r, lookup rest n = Some r -> res_wt r)) as K.
    { induction rest as [|[n r] rest IH]; intros pre H.
      - split; intros ? ? ?; discriminate.
      - assert (cache s = (pre ++ [(n, r)]) ++ rest) as H2 by (rewrite H, <- app_assoc; reflexivity).
        destruct (IH _ H2) as [EA CW].
        destruct (g_topo _ _ G pre n r rest H) as (d & F & C).
        destruct (find_decl_some _ _ _ F) as [DN DI].
        assert (sub_env (lookup rest) (lookup (cache s))) as SUB.
        { rewrite H2. apply lookup_suffix_sub. rewrite <- H2. apply (g_nodup _ _ G). }
        assert (unvalued_bound ds (lookup rest) (dinit d) = false) as NU'.
        { rewrite (proj1 (classes_mono _ _ SUB) _ _ C). apply NU; exact DI. }
        split.
        + intros m rm v L V. cbn in L. destruct (n =? m) eqn:Q; [|eapply EA; eassumption].
          apply Z.eqb_eq in Q. subst m. injection L as <-.
          pose proof (proj1 (value_agrees ds (lookup rest) pw rho EA) _ NU' _ _ C V) as RT.
          pose proof (RC d DI) as RCd. rewrite DN in RCd. specialize (RCd F). rewrite RT in RCd. exact RCd.
        + intros m rm L. cbn in L. destruct (n =? m) eqn:Q; [|eapply CW; eassumption].
          injection L as <-. exact (proj1 (results_well_typed ds (lookup rest) CW) _ _ C). }
    apply (K (cache s) []). reflexivity.
  Qed.
End Program.
