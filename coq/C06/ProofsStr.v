(* C06/ProofsStr.v — the compile-time string kernels (models of incan_core::strings) compute
   Python's indexing and slicing. *)
From Coq Require Import ZArith List Bool Lia.
From Verif Require Import Base.I64 C06.Model.
Import ListNotations.
Open Scope Z_scope.

Lemma slen_nonneg s : 0 <= slen s.
Proof. unfold slen. lia. Qed.

Lemma nth_error_in_range (s : str) (i : Z) : 0 <= i < slen s -> exists c, nth_error s (Z.to_nat i) = Some c.
Proof.
  intros H. destruct (nth_error s (Z.to_nat i)) eqn:E; [eauto|].
  apply nth_error_None in E. unfold slen in H. lia.
Qed.

(* ---- indexing *)
Theorem cindex_py s i : cindex s i = py_index s i.
Proof.
  unfold cindex, py_index. pose proof (slen_nonneg s) as L. set (len := slen s) in *.
  destruct (len =? 0) eqn:Z0.
  - apply Z.eqb_eq in Z0. rewrite Z0.
    destruct ((- 0 <=? i) && (i <? 0)) eqn:Q; [lia|reflexivity].
  - apply Z.eqb_neq in Z0.
    destruct (i <? 0) eqn:N.
    + apply Z.ltb_lt in N.
      destruct ((i + len <? 0) || (i + len >=? len)) eqn:A;
        destruct ((- len <=? i) && (i <? len)) eqn:B; try lia; try reflexivity.
      f_equal. f_equal.
      rewrite <- (Z_mod_plus_full i 1 len). rewrite Z.mul_1_l. rewrite Z.mod_small; lia.
    + apply Z.ltb_ge in N.
      destruct ((i <? 0) || (i >=? len)) eqn:A;
        destruct ((- len <=? i) && (i <? len)) eqn:B; try lia; try reflexivity.
      rewrite Z.mod_small; [reflexivity|lia].
Qed.

(* ---- slicing: bounds *)
Lemma cslice_bounds_py len a b k : 0 <= len -> k <> 0 ->
  cslice_bounds len a b k =
  (match a with Some v => py_adjust len k v | None => if k <? 0 then len - 1 else 0 end,
   match b with Some v => py_adjust len k v | None => if k <? 0 then -1 else len end).
Proof.
  intros L K. unfold cslice_bounds, py_adjust, clampz.
  destruct a as [a|]; destruct b as [b|]; cbn [andb];
  repeat match goal with
         | |- context [if ?c then _ else _] =>
             match c with
             | context [if _ then _ else _] => fail 1
             | _ => let E := fresh "E" in destruct c eqn:E
             end
         end; f_equal; lia.
Qed.

(* ---- slicing: loops *)
Lemma slice_len_up_step i e k : 0 < k -> i < e ->
  py_slice_len i e k = 1 + py_slice_len (i + k) e k.
Proof.
  intros K L. unfold py_slice_len.
  assert (k <? 0 = false) as -> by lia.
  assert (i <? e = true) as -> by lia.
  destruct (i + k <? e) eqn:Q.
  - replace (e - i - 1) with ((e - (i + k) - 1) + 1 * k) by lia.
    rewrite Z.div_add by lia. lia.
  - rewrite Z.div_small by lia. lia.
Qed.

Lemma slice_len_up_stop i e k : 0 < k -> e <= i -> py_slice_len i e k = 0.
Proof. intros K L. unfold py_slice_len. assert (k <? 0 = false) as -> by lia. assert (i <? e = false) as -> by lia. reflexivity. Qed.

Lemma slice_len_nonneg i e k : k <> 0 -> 0 <= py_slice_len i e k.
Proof.
  intros K. unfold py_slice_len. destruct (k <? 0) eqn:N.
  - destruct (e <? i) eqn:Q; [|lia]. pose proof (Z.div_pos (i - e - 1) (- k)). lia.
  - destruct (i <? e) eqn:Q; [|lia]. pose proof (Z.div_pos (e - i - 1) k). lia.
Qed.

Lemma loop_up_py s e k : 0 < k -> e <= slen s ->
  forall fuel i, 0 <= i -> (Z.to_nat (e - i) < fuel)%nat ->
    loop_up fuel s i e k = pick s (zrange i k (Z.to_nat (py_slice_len i e k))).
Proof.
  intros K E. induction fuel as [|f IH]; intros i I F; [lia|].
  cbn [loop_up]. destruct (i <? e) eqn:Q.
  - apply Z.ltb_lt in Q. rewrite (slice_len_up_step i e k K Q).
    pose proof (slice_len_nonneg (i + k) e k ltac:(lia)) as NN.
    rewrite Z2Nat.inj_add by lia. change (Z.to_nat 1) with 1%nat. cbn [Nat.add zrange pick].
    rewrite IH by lia.
    destruct (nth_error_in_range s i ltac:(lia)) as [c ->].
    destruct (pick s (zrange (i + k) k (Z.to_nat (py_slice_len (i + k) e k)))); [|reflexivity].
    assert (0 <=? i = true) as -> by lia. reflexivity.
  - apply Z.ltb_ge in Q. rewrite (slice_len_up_stop i e k K Q). reflexivity.
Qed.

Lemma slice_len_down_step i e k : k < 0 -> e < i ->
  py_slice_len i e k = 1 + py_slice_len (i + k) e k.
Proof.
  intros K L. unfold py_slice_len.
  assert (k <? 0 = true) as -> by lia.
  assert (e <? i = true) as -> by lia.
  destruct (e <? i + k) eqn:Q.
  - replace (i - e - 1) with ((i + k - e - 1) + 1 * (- k)) by lia.
    rewrite Z.div_add by lia. lia.
  - rewrite Z.div_small by lia. lia.
Qed.

Lemma slice_len_down_stop i e k : k < 0 -> i <= e -> py_slice_len i e k = 0.
Proof. intros K L. unfold py_slice_len. assert (k <? 0 = true) as -> by lia. assert (e <? i = false) as -> by lia. reflexivity. Qed.

Lemma loop_down_py s e k : k < 0 -> -1 <= e ->
  forall fuel i, i < slen s -> (Z.to_nat (i - e) < fuel)%nat ->
    loop_down fuel s i e k = pick s (zrange i k (Z.to_nat (py_slice_len i e k))).
Proof.
  intros K E. induction fuel as [|f IH]; intros i I F; [lia|].
  cbn [loop_down]. destruct (i >? e) eqn:Q.
  - assert (e < i) as Q' by lia. rewrite (slice_len_down_step i e k K Q').
    pose proof (slice_len_nonneg (i + k) e k ltac:(lia)) as NN.
    rewrite Z2Nat.inj_add by lia. change (Z.to_nat 1) with 1%nat. cbn [Nat.add zrange pick].
    rewrite IH by lia.
    destruct (nth_error_in_range s i ltac:(lia)) as [c ->].
    destruct (pick s (zrange (i + k) k (Z.to_nat (py_slice_len (i + k) e k)))); [|reflexivity].
    assert (0 <=? i = true) as -> by lia. reflexivity.
  - assert (i <= e) as Q' by lia. rewrite (slice_len_down_stop i e k K Q'). reflexivity.
Qed.

Lemma py_adjust_range len k v : 0 <= len -> k <> 0 ->
  (0 < k -> 0 <= py_adjust len k v <= len) /\ (k < 0 -> -1 <= py_adjust len k v <= len - 1).
Proof.
  intros L K. unfold py_adjust.
  repeat match goal with
         | |- context [if ?c then _ else _] =>
             match c with
             | context [if _ then _ else _] => fail 1
             | _ => let E := fresh "E" in destruct c eqn:E
             end
         end; lia.
Qed.

Definition slice_to_out (p : option (option str)) : slice_out :=
  match p with
  | None => SliceStepZero
  | Some (Some r) => SliceOk r
  | Some None => SliceOutOfFuel
  end.

(* the compile-time slice IS Python's slice; in particular the stated fuel (length + 1) suffices *)
Theorem cslice_py s a b k : cslice s a b k = slice_to_out (py_slice s a b k).
Proof.
  unfold cslice, py_slice. set (kk := match k with Some v => v | None => 1 end).
  destruct (kk =? 0) eqn:Z0; [reflexivity|]. apply Z.eqb_neq in Z0.
  pose proof (slen_nonneg s) as L.
  rewrite (cslice_bounds_py (slen s) a b kk L Z0).
  set (A := match a with Some v => py_adjust (slen s) kk v | None => if kk <? 0 then slen s - 1 else 0 end).
  set (B := match b with Some v => py_adjust (slen s) kk v | None => if kk <? 0 then -1 else slen s end).
  assert ((0 < kk -> 0 <= A <= slen s /\ 0 <= B <= slen s) /\
          (kk < 0 -> -1 <= A <= slen s - 1 /\ -1 <= B <= slen s - 1)) as R.
  { unfold A, B. split; intros H.
    - assert (kk <? 0 = false) as -> by lia.
      destruct a as [a|]; destruct b as [b|];
        repeat match goal with |- context [py_adjust ?l ?k ?v] =>
          let P := fresh in pose proof (proj1 (py_adjust_range l k v L Z0) H) as P;
          generalize dependent (py_adjust l k v); intros end; lia.
    - assert (kk <? 0 = true) as -> by lia.
      destruct a as [a|]; destruct b as [b|];
        repeat match goal with |- context [py_adjust ?l ?k ?v] =>
          let P := fresh in pose proof (proj2 (py_adjust_range l k v L Z0) H) as P;
          generalize dependent (py_adjust l k v); intros end; lia. }
  destruct (kk >? 0) eqn:P.
  - assert (0 < kk) as P' by lia. destruct (proj1 R P') as [RA RB].
    rewrite (loop_up_py s B kk P' ltac:(lia) (S (length s)) A ltac:(lia)).
    + destruct (pick s _); reflexivity.
    + unfold slen in *. lia.
  - assert (kk < 0) as P' by lia. destruct (proj2 R P') as [RA RB].
    rewrite (loop_down_py s B kk P' ltac:(lia) (S (length s)) A ltac:(lia)).
    + destruct (pick s _); reflexivity.
    + unfold slen in *. lia.
Qed.

(* Python's slice never fails to pick its indices (the inner option of py_slice is always Some) *)
Theorem py_slice_total s a b k : py_slice s a b k <> Some None.
Proof.
  intros H. unfold py_slice in H.
  set (kk := match k with Some v => v | None => 1 end) in *.
  destruct (kk =? 0) eqn:Z0; [discriminate|]. injection H as H.
  set (A := match a with Some v => py_adjust (slen s) kk v | None => if kk <? 0 then slen s - 1 else 0 end) in *.
  set (B := match b with Some v => py_adjust (slen s) kk v | None => if kk <? 0 then -1 else slen s end) in *.
  apply Z.eqb_neq in Z0. pose proof (slen_nonneg s) as L.
  assert ((0 < kk -> 0 <= A <= slen s /\ 0 <= B <= slen s) /\
          (kk < 0 -> -1 <= A <= slen s - 1 /\ -1 <= B <= slen s - 1)) as R.
  { unfold A, B. split; intros H1.
    - assert (kk <? 0 = false) as -> by lia.
      destruct a as [a|]; destruct b as [b|];
        repeat match goal with |- context [py_adjust ?l ?k ?v] =>
          let P := fresh in pose proof (proj1 (py_adjust_range l k v L Z0) H1) as P;
          generalize dependent (py_adjust l k v); intros end; lia.
    - assert (kk <? 0 = true) as -> by lia.
      destruct a as [a|]; destruct b as [b|];
        repeat match goal with |- context [py_adjust ?l ?k ?v] =>
          let P := fresh in pose proof (proj2 (py_adjust_range l k v L Z0) H1) as P;
          generalize dependent (py_adjust l k v); intros end; lia. }
  (* pick over in-range indices is total *)
  assert (forall n i, (0 < kk -> 0 <= i /\ i + (Z.of_nat n - 1) * kk < slen s \/ n = O) ->
                      (kk < 0 -> i < slen s /\ 0 <= i + (Z.of_nat n - 1) * kk \/ n = O) ->
                      pick s (zrange i kk n) <> None) as PK.
  { induction n as [|n IHn]; intros i U D; [discriminate|]. cbn [zrange pick].
    assert (0 <= i < slen s) as IR.
    { destruct (Z_lt_le_dec 0 kk) as [P|P].
      - destruct (U P) as [[? ?]|?]; [|discriminate]. nia.
      - assert (kk < 0) as P' by lia. destruct (D P') as [[? ?]|?]; [|discriminate]. nia. }
    destruct (nth_error_in_range s i IR) as [c ->].
    assert (pick s (zrange (i + kk) kk n) <> None) as Q.
    { apply IHn; intros P.
      - destruct n; [now right|left]. destruct (U P) as [[? ?]|?]; [|discriminate]. split; [lia|]. nia.
      - destruct n; [now right|left]. destruct (D P) as [[? ?]|?]; [|discriminate]. split; [lia|]. nia. }
    destruct (pick s (zrange (i + kk) kk n)); [|congruence].
    assert (0 <=? i = true) as -> by lia. discriminate. }
  revert H. apply PK; intros P.
  - destruct (proj1 R P) as [RA RB]. unfold py_slice_len. assert (kk <? 0 = false) as -> by lia.
    destruct (A <? B) eqn:Q; [left|now right].
    pose proof (Z.div_pos (B - A - 1) kk ltac:(lia) P) as DP.
    rewrite Z2Nat.id by lia. split; [lia|].
    pose proof (Z.mul_div_le (B - A - 1) kk P). nia.
  - destruct (proj2 R P) as [RA RB]. unfold py_slice_len. assert (kk <? 0 = true) as -> by lia.
    destruct (B <? A) eqn:Q; [left|now right].
    pose proof (Z.div_pos (A - B - 1) (- kk) ltac:(lia) ltac:(lia)) as DP.
    rewrite Z2Nat.id by lia. split; [lia|].
    pose proof (Z.mul_div_le (A - B - 1) (- kk) ltac:(lia)). nia.
Qed.
