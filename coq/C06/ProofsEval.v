(* C06/ProofsEval.v — the stateful const evaluator: invariants of the NotStarted/InProgress/Done
   map and the cache, fuel bound, link to the pure evaluator, cycle theorems. *)
From Coq Require Import ZArith List Bool Lia.
From Verif Require Import Base.I64 C06.Model.
Import ListNotations.
Open Scope Z_scope.

Scheme expr_ind2 := Induction for expr Sort Prop
  with exprs_ind2 := Induction for exprs Sort Prop.
Combined Scheme expr_mutind from expr_ind2, exprs_ind2.

Definition keys {A} (l : list (name * A)) : list name := map fst l.

Lemma lookup_none {A} (l : list (name * A)) n : lookup l n = None <-> ~ In n (keys l).
Proof.
  induction l as [|[m a] t IH]; cbn; [tauto|].
  destruct (m =? n) eqn:E.
  - apply Z.eqb_eq in E. split; [discriminate|]. intros H; exfalso; apply H; now left.
  - apply Z.eqb_neq in E. rewrite IH. tauto.
Qed.

Lemma lookup_some_in {A} (l : list (name * A)) n a : lookup l n = Some a -> In n (keys l).
Proof.
  intros H. destruct (in_dec Z.eq_dec n (keys l)) as [i|ni]; [exact i|].
  apply lookup_none in ni. congruence.
Qed.

Lemma lookup_app_old {A} (new old : list (name * A)) n :
  ~ In n (keys new) -> lookup (new ++ old) n = lookup old n.
Proof.
  induction new as [|[m a] t IH]; cbn; [reflexivity|]. intros H.
  destruct (m =? n) eqn:E.
  - apply Z.eqb_eq in E. exfalso; apply H; now left.
  - apply IH. tauto.
Qed.

Lemma keys_app {A} (a b : list (name * A)) : keys (a ++ b) = keys a ++ keys b.
Proof. unfold keys. apply map_app. Qed.

Lemma in_keys_split {A} (l : list (name * A)) n :
  In n (keys l) -> exists pre a rest, l = pre ++ (n, a) :: rest.
Proof.
  induction l as [|[m a] t IH]; cbn; [tauto|]. intros [->|H].
  - exists [], a, t. reflexivity.
  - destruct (IH H) as (pre & b & rest & ->). exists ((m, a) :: pre), b, rest. reflexivity.
Qed.

Lemma find_decl_some ds n d : find_decl ds n = Some d -> dname d = n /\ In d ds.
Proof.
  induction ds as [|x t IH]; cbn; [discriminate|].
  destruct (dname x =? n) eqn:E.
  - intros [= <-]. apply Z.eqb_eq in E. split; [exact E|now left].
  - intros H. destruct (IH H). split; [assumption|now right].
Qed.

Lemma find_decl_in ds d : In d ds -> is_decl ds (dname d) = true.
Proof.
  unfold is_decl. induction ds as [|x t IH]; cbn; [tauto|]. intros [->|H].
  - now rewrite Z.eqb_refl.
  - destruct (dname x =? dname d); [reflexivity|]. now apply IH.
Qed.

Lemma is_decl_names ds n : is_decl ds n = true -> In n (names ds).
Proof.
  unfold is_decl. destruct (find_decl ds n) eqn:E; [|discriminate]. intros _.
  apply find_decl_some in E. destruct E as [<- H]. now apply in_map.
Qed.

(* unfolding equations of the mutual fixpoints *)
Lemma ceval_node ds rec stack s t es :
  ceval ds rec stack s (ENode t es) =
  match ceval_list ds rec stack s t O [] es with
  | None => None
  | Some (s1, None) => Some (s1, None)
  | Some (s1, Some rs) =>
      match combine t es rs with
      | CAbort err => Some (push_err err s1, None)
      | COk w r => Some (push_warn w s1, Some r)
      end
  end.
Proof. reflexivity. Qed.
Lemma ceval_list_cons ds rec stack s t i prev e rest :
  ceval_list ds rec stack s t i prev (ECons e rest) =
  match ceval ds rec stack s e with
  | None => None
  | Some (s1, None) => Some (s1, None)
  | Some (s1, Some r) =>
      match precheck t i prev r with
      | Some err => Some (push_err err s1, None)
      | None =>
          match ceval_list ds rec stack s1 t (S i) (prev ++ [r]) rest with
          | None => None
          | Some (s2, None) => Some (s2, None)
          | Some (s2, Some rs) => Some (s2, Some (r :: rs))
          end
      end
  end.
Proof. reflexivity. Qed.
Lemma cexpr_node ds c t es :
  cexpr ds c (ENode t es) =
  match cexpr_list ds c t O [] es with
  | inl p => p
  | inr rs => match combine t es rs with CAbort err => PErr err | COk _ r => POk r end
  end.
Proof. reflexivity. Qed.
Lemma cexpr_list_cons ds c t i prev e rest :
  cexpr_list ds c t i prev (ECons e rest) =
  match cexpr ds c e with
  | POk r =>
      match precheck t i prev r with
      | Some err => inl (PErr err)
      | None => match cexpr_list ds c t (S i) (prev ++ [r]) rest with inl p => inl p | inr rs => inr (r :: rs) end
      end
  | p => inl p
  end.
Proof. reflexivity. Qed.

Lemma last_default_irrel (l : list name) x d1 d2 : last (x :: l) d1 = last (x :: l) d2.
Proof.
  revert x. induction l as [|y t IH]; intros x; [reflexivity|].
  change (last (x :: y :: t) d1) with (last (y :: t) d1).
  change (last (x :: y :: t) d2) with (last (y :: t) d2). apply IH.
Qed.

Lemma by_name_S ds f stack s n :
  by_name ds (S f) stack s n =
  match lookup (cache s) n with
  | Some r => Some (s, Some r)
  | None =>
      match stm s n with
      | Done => Some (s, None)
      | InProgress => Some (push_err (ECycle (stack ++ [n])) s, None)
      | NotStarted =>
          match find_decl ds n with
          | None => Some (push_err (EUnknownSym n) s, None)
          | Some d =>
              let s1 := set_stm n InProgress s in
              match ceval ds (by_name ds f) (stack ++ [n]) s1 (dinit d) with
              | None => None
              | Some (s2, ro) =>
                  let s3 := set_stm n Done s2 in
                  Some (match ro with Some r => add_cache n r s3 | None => s3 end, ro)
              end
          end
      end
  end.
Proof. reflexivity. Qed.

Ltac split5 := split; [|split; [|split; [|split]]].
Ltac split4 := split; [|split; [|split]].

Section WithDecls.
  Variable ds : list decl.

  Definition ext (L : list (name * cresult)) (c : cenv) : Prop :=
    forall n r, lookup L n = Some r -> c n = Some r.

  Definition topo (L : list (name * cresult)) : Prop :=
    forall pre n r rest, L = pre ++ (n, r) :: rest ->
      exists d, find_decl ds n = Some d /\ cexpr ds (lookup rest) (dinit d) = POk r.

  Record good (s : cstate) : Prop := mkgood {
    g_nodup : NoDup (keys (cache s));
    g_done : forall n, In n (keys (cache s)) -> stm s n = Done;
    g_topo : topo (cache s);
    g_noerr : errs s = [] -> forall n, stm s n = Done -> In n (keys (cache s))
  }.

  Record trans (s s' : cstate) : Prop := mktrans {
    t_cache : exists new, cache s' = new ++ cache s;
    t_errs : exists ne, errs s' = errs s ++ ne;
    t_done : forall n, stm s n = Done -> stm s' n = Done;
    t_ip : forall n, stm s n = InProgress <-> stm s' n = InProgress
  }.

  Lemma trans_refl s : trans s s.
  Proof. constructor; [now exists []|exists []; now rewrite app_nil_r|auto|tauto]. Qed.

  Lemma trans_trans a b c : trans a b -> trans b c -> trans a c.
  Proof.
    intros [[n1 H1] [e1 E1] D1 I1] [[n2 H2] [e2 E2] D2 I2]. constructor.
    - exists (n2 ++ n1). rewrite H2, H1. now rewrite app_assoc.
    - exists (e1 ++ e2). rewrite E2, E1. now rewrite app_assoc.
    - auto.
    - intros n. rewrite I1. apply I2.
  Qed.

  Lemma trans_push e s : trans s (push_err e s).
  Proof. constructor; cbn; [now exists []|now exists [e]|auto|tauto]. Qed.

  Lemma good_push e s : good s -> good (push_err e s).
  Proof.
    intros [a b c d]. constructor; cbn; auto.
    intros H. destruct (errs s); discriminate.
  Qed.

  Lemma push_errs_ne e s : errs (push_err e s) <> [].
  Proof. cbn. destruct (errs s); discriminate. Qed.

  Lemma trans_errs_ne s s' : trans s s' -> errs s <> [] -> errs s' <> [].
  Proof. intros [_ [ne E] _ _] H. rewrite E. destruct (errs s); [congruence|discriminate]. Qed.

  Lemma good_push_warn w s : good s -> good (push_warn w s).
  Proof. destruct w; cbn; [apply good_push|auto]. Qed.
  Lemma trans_push_warn w s : trans s (push_warn w s).
  Proof. destruct w; cbn; [apply trans_push|apply trans_refl]. Qed.

  Lemma ext_back s1 s2 c : good s2 -> trans s1 s2 -> ext (cache s2) c -> ext (cache s1) c.
  Proof.
    intros G [[new H] _ _ _] X n r L. apply X. rewrite H.
    rewrite lookup_app_old; [exact L|].
    intros I. pose proof (g_nodup _ G) as ND. rewrite H, keys_app in ND.
    apply lookup_some_in in L.
    revert ND I L. generalize (keys new) (keys (cache s1)). intros l1 l2 ND I L.
    induction l1 as [|x t IH]; [exact I|]. cbn in ND. inversion ND; subst.
    destruct I as [->|I]; [apply H2; apply in_or_app; now right|now apply IH].
  Qed.

  (* ---- the measure: declared names still NotStarted *)
  Definition is_ns (c : cst) : bool := match c with NotStarted => true | _ => false end.
  Definition ns_count (s : cstate) : nat := length (filter (fun n => is_ns (stm s n)) (names ds)).

  Lemma ns_count_trans s s' : trans s s' -> (ns_count s' <= ns_count s)%nat.
  Proof.
    intros [_ _ D I]. unfold ns_count. induction (names ds) as [|n t IH]; cbn; [lia|].
    destruct (stm s' n) eqn:E'; destruct (stm s n) eqn:E; cbn; try lia.
    - apply I in E. congruence.
    - apply D in E. congruence.
  Qed.

  Lemma ns_count_set s n v : stm s n = NotStarted -> In n (names ds) -> v <> NotStarted ->
    (S (ns_count (set_stm n v s)) <= ns_count s)%nat.
  Proof.
    intros E I V. unfold ns_count. cbn. induction (names ds) as [|m t IH]; [destruct I|].
    cbn. destruct (m =? n) eqn:Q.
    - apply Z.eqb_eq in Q. subst m. rewrite E. cbn.
      assert (is_ns v = false) as Hv by (destruct v; cbn; congruence). rewrite Hv. cbn.
      clear IH I. induction t as [|x t IH]; cbn; [lia|].
      destruct (x =? n) eqn:Q.
      + rewrite Hv. destruct (is_ns (stm s x)); cbn; lia.
      + destruct (is_ns (stm s x)); cbn; lia.
    - destruct I as [->|I]; [rewrite Z.eqb_refl in Q; discriminate|].
      specialize (IH I). destruct (is_ns (stm s m)); cbn; lia.
  Qed.

  (* ---- the contract of eval_const_by_name, for states with at most k names NotStarted *)
  Definition rec_ok (k : nat) (rec : list name -> cstate -> name -> crun) : Prop :=
    forall stack s n, good s -> (ns_count s <= k)%nat -> is_decl ds n = true ->
      exists s' ro, rec stack s n = Some (s', ro) /\ good s' /\ trans s s' /\
        (forall r, ro = Some r -> lookup (cache s') n = Some r) /\
        (ro = None -> errs s' <> []).

  Lemma ceval_ok k rec : rec_ok k rec ->
    (forall e stack s, good s -> (ns_count s <= k)%nat ->
       exists s' ro, ceval ds rec stack s e = Some (s', ro) /\ good s' /\ trans s s' /\
         (forall r, ro = Some r -> forall c, ext (cache s') c -> cexpr ds c e = POk r) /\
         (ro = None -> errs s' <> [])) /\
    (forall es stack s t i prev, good s -> (ns_count s <= k)%nat ->
       exists s' ro, ceval_list ds rec stack s t i prev es = Some (s', ro) /\ good s' /\ trans s s' /\
         (forall rs, ro = Some rs -> forall c, ext (cache s') c -> cexpr_list ds c t i prev es = inr rs) /\
         (ro = None -> errs s' <> [])).
  Proof.
    intros R. apply expr_mutind.
    - (* literal *)
      intros l stack s G K. exists s, (Some (lit_result l)). cbn.
      split5; [reflexivity|exact G|apply trans_refl| |discriminate].
      intros r [= <-] c _. reflexivity.
    - (* identifier *)
      intros n stack s G K. cbn. destruct (is_decl ds n) eqn:D.
      + destruct (R stack s n G K D) as (s' & ro & E & G' & T & L & N).
        exists s', ro. split5; [exact E|exact G'|exact T| |exact N].
        intros r -> c X. rewrite (X n r (L r eq_refl)). reflexivity.
      + exists (push_err (ENonConst n) s), None.
        split5; [reflexivity|now apply good_push|apply trans_push|discriminate|].
        intros _. apply push_errs_ne.
    - (* node *)
      intros t es IH stack s G K. rewrite ceval_node.
      destruct (IH stack s t O [] G K) as (s1 & ro & E & G1 & T1 & L1 & N1). rewrite E.
      destruct ro as [rs|].
      + destruct (combine t es rs) as [err|w r] eqn:C.
        * exists (push_err err s1), None.
          split5; [reflexivity|now apply good_push| |discriminate|].
          -- eapply trans_trans; [exact T1|apply trans_push].
          -- intros _. apply push_errs_ne.
        * exists (push_warn w s1), (Some r).
          split5; [reflexivity|now apply good_push_warn| | |discriminate].
          -- eapply trans_trans; [exact T1|apply trans_push_warn].
          -- intros r0 [= <-] c X.
             assert (ext (cache s1) c) as X1.
             { intros n r1. destruct w; cbn in X; apply X. }
             rewrite cexpr_node, (L1 rs eq_refl c X1), C. reflexivity.
      + exists s1, None. split5; [reflexivity|exact G1|exact T1|discriminate|intros _; exact (N1 eq_refl)].
    - (* nil *)
      intros stack s t i prev G K. exists s, (Some []). cbn.
      split5; [reflexivity|exact G|apply trans_refl| |discriminate].
      intros rs [= <-] c _. reflexivity.
    - (* cons *)
      intros e IHe rest IHr stack s t i prev G K. rewrite ceval_list_cons.
      destruct (IHe stack s G K) as (s1 & ro & E & G1 & T1 & L1 & N1). rewrite E.
      destruct ro as [r|].
      + destruct (precheck t i prev r) as [err|] eqn:P.
        * exists (push_err err s1), None.
          split5; [reflexivity|now apply good_push| |discriminate|].
          -- eapply trans_trans; [exact T1|apply trans_push].
          -- intros _. apply push_errs_ne.
        * assert (ns_count s1 <= k)%nat as K1 by (pose proof (ns_count_trans _ _ T1); lia).
          destruct (IHr stack s1 t (S i) (prev ++ [r]) G1 K1) as (s2 & ro2 & E2 & G2 & T2 & L2 & N2). rewrite E2.
          destruct ro2 as [rs|].
          -- exists s2, (Some (r :: rs)).
             split5; [reflexivity|exact G2| | |discriminate].
             ++ eapply trans_trans; eassumption.
             ++ intros rs0 [= <-] c X.
                rewrite cexpr_list_cons, (L1 r eq_refl c (ext_back _ _ _ G2 T2 X)), P, (L2 rs eq_refl c X). reflexivity.
          -- exists s2, None.
             split5; [reflexivity|exact G2| |discriminate|intros _; exact (N2 eq_refl)].
             eapply trans_trans; eassumption.
      + exists s1, None. split5; [reflexivity|exact G1|exact T1|discriminate|intros _; exact (N1 eq_refl)].
  Qed.

  Lemma good_set_ip s n : good s -> stm s n = NotStarted -> good (set_stm n InProgress s).
  Proof.
    intros [a b c d] E. constructor; cbn; auto.
    - intros m I. destruct (m =? n) eqn:Q; [|auto].
      apply Z.eqb_eq in Q. subst. rewrite (b _ I) in E. discriminate.
    - intros H m. destruct (m =? n) eqn:Q; [discriminate|]. apply d; assumption.
  Qed.

  Lemma by_name_ok : forall k, rec_ok k (by_name ds (S k)).
  Proof.
    induction k as [|k IH]; intros stack s n G K D; rewrite by_name_S.
    - (* no declared name is NotStarted *)
      destruct (lookup (cache s) n) as [r|] eqn:L.
      { exists s, (Some r). split5; [reflexivity|exact G|apply trans_refl|congruence|discriminate]. }
      destruct (stm s n) eqn:E.
      + exfalso. apply is_decl_names in D. unfold ns_count in K.
        assert (In n (filter (fun n => is_ns (stm s n)) (names ds))) as I
            by (apply filter_In; split; [assumption|now rewrite E]).
        destruct (filter (fun n => is_ns (stm s n)) (names ds)); [destruct I|cbn in K; lia].
      + exists (push_err (ECycle (stack ++ [n])) s), None.
        split5; [reflexivity|now apply good_push|apply trans_push|discriminate|intros _; apply push_errs_ne].
      + exists s, None. split5; [reflexivity|exact G|apply trans_refl|discriminate|].
        intros _ H. apply lookup_none in L. apply L. exact (g_noerr _ G H n E).
    - destruct (lookup (cache s) n) as [r|] eqn:L.
      { exists s, (Some r). split5; [reflexivity|exact G|apply trans_refl|congruence|discriminate]. }
      destruct (stm s n) eqn:E.
      + (* NotStarted: evaluate the initializer *)
        unfold is_decl in D. destruct (find_decl ds n) as [d|] eqn:F; [|discriminate].
        cbv zeta. set (s1 := set_stm n InProgress s).
        assert (good s1) as G1 by (apply good_set_ip; assumption).
        assert (In n (names ds)) as IN by (apply is_decl_names; unfold is_decl; now rewrite F).
        assert (ns_count s1 <= k)%nat as K1.
        { pose proof (ns_count_set s n InProgress E IN ltac:(discriminate)) as H. fold s1 in H. lia. }
        destruct (proj1 (ceval_ok k _ IH) (dinit d) (stack ++ [n]) s1 G1 K1)
          as (s2 & ro & EV & G2 & T2 & L2 & N2).
        rewrite EV.
        assert (stm s2 n = InProgress) as IP2.
        { apply (t_ip _ _ T2). unfold s1. cbn. now rewrite Z.eqb_refl. }
        assert (~ In n (keys (cache s2))) as NK.
        { intros I. rewrite (g_done _ G2 _ I) in IP2. discriminate. }
        assert (trans s (set_stm n Done s2)) as T3.
        { destruct T2 as [TC TE TD TI]. constructor; cbn.
          - exact TC.
          - exact TE.
          - intros m Dm. destruct (m =? n) eqn:Q; [reflexivity|].
            apply TD. unfold s1. cbn. now rewrite Q.
          - intros m. destruct (m =? n) eqn:Q.
            + apply Z.eqb_eq in Q. subst m. rewrite E. split; discriminate.
            + rewrite <- TI. unfold s1. cbn. rewrite Q. tauto. }
        destruct ro as [r|].
        * exists (add_cache n r (set_stm n Done s2)), (Some r).
          split5; [reflexivity| | | |discriminate].
          -- (* good *)
             constructor; cbn.
             ++ constructor; [exact NK|apply (g_nodup _ G2)].
             ++ intros m [<-|I]; [now rewrite Z.eqb_refl|].
                destruct (m =? n); [reflexivity|]. apply (g_done _ G2 _ I).
             ++ intros pre m r0 rest H. destruct pre as [|x pre]; cbn in H.
                ** injection H as <- <- <-. exists d. split; [exact F|].
                   apply (L2 r eq_refl). intros ? ? X; exact X.
                ** injection H as _ H. apply (g_topo _ G2 pre m r0 rest H).
             ++ intros H m. destruct (m =? n) eqn:Q.
                ** apply Z.eqb_eq in Q. subst. intros _. now left.
                ** intros Dm. right. apply (g_noerr _ G2 H m Dm).
          -- destruct T3 as [[new TC] TE TD TI]. constructor; cbn.
             ++ exists ((n, r) :: new). cbn in TC. now rewrite TC.
             ++ exact TE.
             ++ exact TD.
             ++ exact TI.
          -- intros r0 [= <-]. cbn. now rewrite Z.eqb_refl.
        * exists (set_stm n Done s2), None.
          split5; [reflexivity| |exact T3|discriminate|].
          -- constructor; cbn.
             ++ apply (g_nodup _ G2).
             ++ intros m I. destruct (m =? n); [reflexivity|]. apply (g_done _ G2 _ I).
             ++ apply (g_topo _ G2).
             ++ intros H. exfalso. exact (N2 eq_refl H).
          -- intros _. cbn. exact (N2 eq_refl).
      + exists (push_err (ECycle (stack ++ [n])) s), None.
        split5; [reflexivity|now apply good_push|apply trans_push|discriminate|intros _; apply push_errs_ne].
      + exists s, None. split5; [reflexivity|exact G|apply trans_refl|discriminate|].
        intros _ H. apply lookup_none in L. apply L. exact (g_noerr _ G H n E).
  Qed.

  Lemma ns_count_le s : (ns_count s <= length ds)%nat.
  Proof.
    unfold ns_count, names. rewrite <- (map_length dname ds).
    induction (map dname ds) as [|x t IH]; cbn; [lia|]. destruct (is_ns (stm s x)); cbn; lia.
  Qed.

  Lemma good_st0 : good st0.
  Proof.
    constructor; cbn; try (constructor); try tauto.
    - intros pre n r rest H. destruct pre; discriminate.
    - intros _ n H. discriminate.
  Qed.

  (* check_and_resolve_const: never out of fuel; invariants kept; a decl whose evaluation
     produced no result leaves an error behind *)
  Lemma check_decl_ok s d : good s -> In d ds ->
    exists s', check_decl ds s d = Some s' /\ good s' /\ trans s s' /\
      (errs s' = [] -> In (dname d) (keys (cache s'))).
  Proof.
    intros G I. unfold check_decl, fuel_for.
    destruct (by_name_ok (length ds) [] s (dname d) G (ns_count_le s) (find_decl_in _ _ I))
      as (s1 & ro & E & G1 & T1 & L1 & N1).
    rewrite E. destruct ro as [r|].
    - assert (good (add_pub (dname d) r s1)) as GP by (destruct G1; constructor; cbn; auto).
      assert (trans s (add_pub (dname d) r s1)) as TP.
      { eapply trans_trans; [exact T1|].
        constructor; cbn; [now exists []|exists []; now rewrite app_nil_r|auto|tauto]. }
      assert (In (dname d) (keys (cache s1))) as IK by (eapply lookup_some_in; apply (L1 r eq_refl)).
      assert (forall e, exists s', Some (push_err e (add_pub (dname d) r s1)) = Some s' /\ good s' /\ trans s s' /\
                (errs s' = [] -> In (dname d) (keys (cache s')))) as PE.
      { intros e. eexists. split4; [reflexivity|apply good_push; exact GP| |].
        - eapply trans_trans; [exact TP|apply trans_push].
        - intros H. exfalso. exact (push_errs_ne _ _ H). }
      assert (exists s', Some (add_pub (dname d) r s1) = Some s' /\ good s' /\ trans s s' /\
                (errs s' = [] -> In (dname d) (keys (cache s')))) as PO.
      { eexists. split4; [reflexivity|exact GP|exact TP|]. intros _. exact IK. }
      destruct (dann d) as [a|].
      + destruct (compat (rty r) (freeze a)); [exact PO|apply PE].
      + destruct (rty r); try exact PO. apply PE.
    - exists s1. split4; [reflexivity|exact G1|exact T1|]. intros H. exfalso. exact (N1 eq_refl H).
  Qed.

  Lemma trans_keys s s' n : trans s s' -> In n (keys (cache s)) -> In n (keys (cache s')).
  Proof. intros [[new H] _ _ _] I. rewrite H, keys_app. apply in_or_app. now right. Qed.
  Lemma trans_noerr s s' : trans s s' -> errs s' = [] -> errs s = [].
  Proof. intros [_ [ne H] _ _] E. rewrite H in E. now destruct (errs s). Qed.

  Lemma check_from_ok todo : forall s, good s -> incl todo ds ->
    exists s', check_from ds s todo = Some s' /\ good s' /\ trans s s' /\
      (errs s' = [] -> forall d, In d todo -> In (dname d) (keys (cache s'))).
  Proof.
    induction todo as [|d t IH]; intros s G I; cbn.
    - exists s. split4; [reflexivity|exact G|apply trans_refl|]. intros _ d [].
    - destruct (check_decl_ok s d G (I d (or_introl eq_refl))) as (s1 & E & G1 & T1 & K1).
      rewrite E.
      destruct (IH s1 G1 (fun x H => I x (or_intror H))) as (s2 & E2 & G2 & T2 & K2).
      exists s2. split4; [exact E2|exact G2| |].
      + eapply trans_trans; eassumption.
      + intros H x [<-|X]; [|now apply K2].
        eapply trans_keys; [exact T2|]. apply K1. eapply trans_noerr; eassumption.
  Qed.

  Theorem check_all_ok :
    exists s, check_all ds = Some s /\ good s /\
      (errs s = [] -> forall d, In d ds -> In (dname d) (keys (cache s))).
  Proof.
    destruct (check_from_ok ds st0 good_st0 (incl_refl _)) as (s & E & G & _ & K).
    exists s. auto.
  Qed.

  Lemma cexpr_list_inl c es : forall t i prev p, cexpr_list ds c t i prev es = inl p -> forall r, p <> POk r.
  Proof.
    induction es as [|e rest IH]; intros t i prev p H r; [discriminate|].
    rewrite cexpr_list_cons in H.
    destruct (cexpr ds c e) as [x|x|r0] eqn:E; try (injection H as <-; discriminate).
    destruct (precheck t i prev r0); [injection H as <-; discriminate|].
    destruct (cexpr_list ds c t (S i) (prev ++ [r0]) rest) as [q|rs] eqn:E2; [|discriminate].
    injection H as <-. eapply IH; eassumption.
  Qed.

  (* ---- success of the pure evaluator visits every identifier *)
  Lemma cexpr_idents c :
    (forall e r, cexpr ds c e = POk r -> forall x, In x (idents e) -> is_decl ds x = true /\ c x <> None) /\
    (forall es t i prev rs, cexpr_list ds c t i prev es = inr rs ->
       forall x, In x (idents_list es) -> is_decl ds x = true /\ c x <> None).
  Proof.
    apply expr_mutind.
    - intros l r _ x [].
    - intros n r H x [<-|[]]. cbn in H. destruct (is_decl ds n); [|discriminate].
      split; [reflexivity|]. destruct (c n); [discriminate|discriminate].
    - intros t es IH r H x I. rewrite cexpr_node in H. change (In x (idents_list es)) in I.
      destruct (cexpr_list ds c t 0 [] es) as [p|rs] eqn:E.
      + exfalso. eapply cexpr_list_inl; eassumption.
      + eapply IH; eassumption.
    - intros t i prev rs _ x [].
    - intros e IHe rest IHr t i prev rs H x I. rewrite cexpr_list_cons in H.
      change (In x (idents e ++ idents_list rest)) in I.
      destruct (cexpr ds c e) as [| |r] eqn:E; try discriminate.
      destruct (precheck t i prev r); [discriminate|].
      destruct (cexpr_list ds c t (S i) (prev ++ [r]) rest) as [p|rs'] eqn:E2; [discriminate|].
      apply in_app_or in I. destruct I as [I|I].
      + eapply (IHe r eq_refl); eassumption.
      + eapply IHr; eassumption.
  Qed.

  Lemma cexpr_mono c c' : (forall n r, c n = Some r -> c' n = Some r) ->
    (forall e r, cexpr ds c e = POk r -> cexpr ds c' e = POk r) /\
    (forall es t i prev rs, cexpr_list ds c t i prev es = inr rs -> cexpr_list ds c' t i prev es = inr rs).
  Proof.
    intros M. apply expr_mutind.
    - intros l r H. exact H.
    - intros n r H. cbn in *. destruct (is_decl ds n); [|discriminate].
      destruct (c n) as [r0|] eqn:E; [|discriminate]. now rewrite (M _ _ E).
    - intros t es IH r H. rewrite cexpr_node in *.
      destruct (cexpr_list ds c t 0 [] es) as [p|rs] eqn:E.
      + exfalso. eapply cexpr_list_inl; eassumption.
      + now rewrite (IH _ _ _ _ E).
    - intros t i prev rs H. exact H.
    - intros e IHe rest IHr t i prev rs H. rewrite cexpr_list_cons in *.
      destruct (cexpr ds c e) as [x|x|r] eqn:E; try discriminate.
      rewrite (IHe r eq_refl).
      destruct (precheck t i prev r); [discriminate|].
      destruct (cexpr_list ds c t (S i) (prev ++ [r]) rest) as [q|rs'] eqn:E2; [discriminate|].
      now rewrite (IHr _ _ _ _ E2).
  Qed.

  (* ---- a topologically sorted cache admits no dependency cycle *)
  Lemma topo_dep L : topo L -> forall pre a r rest b,
    L = pre ++ (a, r) :: rest -> dep ds a b -> In b (keys rest).
  Proof.
    intros T pre a r rest b H (d & F & I & _).
    destruct (T pre a r rest H) as (d' & F' & C). rewrite F in F'. injection F' as <-.
    destruct (proj1 (cexpr_idents (lookup rest)) _ _ C b I) as [_ N].
    destruct (lookup rest b) eqn:Q; [eapply lookup_some_in; eassumption|congruence].
  Qed.

  Lemma chain_rest L : topo L -> forall p a pre r rest,
    L = pre ++ (a, r) :: rest -> chain ds a p -> p <> [] -> In (last p a) (keys rest).
  Proof.
    intros T. induction p as [|b t IH]; intros a pre r rest H C NE; [congruence|].
    destruct C as [D C].
    pose proof (topo_dep L T pre a r rest b H D) as IB.
    destruct t as [|b' t'].
    - exact IB.
    - destruct (in_keys_split _ _ IB) as (pre2 & r2 & rest2 & HR).
      assert (L = (pre ++ (a, r) :: pre2) ++ (b, r2) :: rest2) as H2.
      { rewrite H, HR. rewrite <- app_assoc. reflexivity. }
      specialize (IH b _ r2 rest2 H2 C ltac:(discriminate)).
      replace (last (b :: b' :: t') a) with (last (b' :: t') b).
      + rewrite HR, keys_app. apply in_or_app. right. right. exact IH.
      + change (last (b :: b' :: t') a) with (last (b' :: t') a). apply last_default_irrel.
  Qed.

  Theorem no_errors_no_cycle s : check_all ds = Some s -> errs s = [] -> ~ has_cycle ds.
  Proof.
    intros E NE (a & p & PN & C & LA).
    destruct check_all_ok as (s' & E' & G & K). rewrite E in E'. injection E' as <-.
    assert (In a (keys (cache s))) as IA.
    { destruct p as [|b t]; [congruence|]. destruct C as [(d & F & _) _].
      apply find_decl_some in F. destruct F as [<- I]. apply (K NE d I). }
    destruct (in_keys_split _ _ IA) as (pre & r & rest & H).
    pose proof (chain_rest _ (g_topo _ G) p a pre r rest H C PN) as I.
    unfold last_of in LA. rewrite LA in I.
    pose proof (g_nodup _ G) as ND. rewrite H, keys_app in ND. cbn in ND.
    apply NoDup_remove_2 in ND. apply ND. apply in_or_app. now right.
  Qed.

  (* the published results are successes of the pure evaluator over the final cache *)
  Theorem cached_is_pure s : check_all ds = Some s ->
    forall n r, lookup (cache s) n = Some r ->
      exists d, find_decl ds n = Some d /\ cexpr ds (lookup (cache s)) (dinit d) = POk r.
  Proof.
    intros E n r L.
    destruct check_all_ok as (s' & E' & G & _). rewrite E in E'. injection E' as <-.
    destruct (in_keys_split _ _ (lookup_some_in _ _ _ L)) as (pre & r' & rest & H).
    assert (r' = r) as ->.
    { pose proof (g_nodup _ G) as ND. rewrite H, keys_app in ND. cbn in ND.
      apply NoDup_remove_2 in ND. rewrite H in L. rewrite lookup_app_old in L.
      - cbn in L. rewrite Z.eqb_refl in L. congruence.
      - intros I. apply ND. apply in_or_app. now left. }
    destruct (g_topo _ G pre n r rest H) as (d & F & C). exists d. split; [exact F|].
    refine (proj1 (cexpr_mono (lookup rest) (lookup (cache s)) _) _ _ C).
    intros m rm Lm. rewrite H.
    pose proof (g_nodup _ G) as ND. rewrite H in ND.
    assert (pre ++ (n, r) :: rest = (pre ++ [(n, r)]) ++ rest) as -> by (now rewrite <- app_assoc).
    rewrite lookup_app_old; [exact Lm|].
    assert (pre ++ (n, r) :: rest = (pre ++ [(n, r)]) ++ rest) as EQ by (now rewrite <- app_assoc).
    rewrite EQ, keys_app in ND. apply lookup_some_in in Lm.
    revert ND Lm. generalize (keys (pre ++ [(n, r)])) (keys rest). intros l1 l2 ND Lm I.
    induction l1 as [|x t IH]; [exact I|]. cbn in ND. inversion ND; subst.
    destruct I as [->|I]; [apply H2; apply in_or_app; now right|now apply IH].
  Qed.
End WithDecls.
