(* C06/ProofsAgree.v — the pure const evaluator against the run-time semantics:
   value agreement, error agreement on the valued strict fragment, typing of computed values. *)
From Coq Require Import ZArith List Bool Lia.
From Verif Require Import Base.I64 C06.Model C06.ProofsEval C06.ProofsStr.
Import ListNotations.
Open Scope Z_scope.

Definition env_agree (c : cenv) (rho : name -> option value) : Prop :=
  forall n r v, c n = Some r -> rval r = Some v -> rho n = Some v.

(* what a child contributes: if its value is known at compile time, run time produces that value *)
Definition vagree (r : cresult) (o : rres) : Prop := forall v, rval r = Some v -> o = RVal v.

Lemma rt_eval_node pw rho t es : rt_eval pw rho (ENode t es) = rt_node pw t es (rt_eval_list pw rho es).
Proof. reflexivity. Qed.
Lemma rt_eval_list_cons pw rho e r : rt_eval_list pw rho (ECons e r) = rt_eval pw rho e :: rt_eval_list pw rho r.
Proof. reflexivity. Qed.

Lemma vstr_val r s : vstr r = Some s -> rval r = Some (VStr s).
Proof. unfold vstr. destruct (rval r) as [[]|]; congruence. Qed.
Lemma vint_val r z : vint r = Some z -> rval r = Some (VInt z).
Proof. unfold vint. destruct (rval r) as [[]|]; congruence. Qed.
Lemma vbool_val r b : vbool r = Some b -> rval r = Some (VBool b).
Proof. unfold vbool. destruct (rval r) as [[]|]; congruence. Qed.

Section Agree.
  Variable ds : list decl.
  Variable c : cenv.
  Variable pw : Z -> Z -> Z.
  Variable rho : name -> option value.
  Hypothesis EA : env_agree c rho.

  (* ---- unary, binary, index: value of the combined result *)
  Lemma unary_value op r o w r' v :
    vagree r o -> comb_unary op r = COk w r' -> rval r' = Some v ->
    rt_node pw (NUn op) (ECons (ELit (LInt 0)) ENil) [o] = RVal v /\
    forall es, rt_node pw (NUn op) es [o] = RVal v.
  Proof.
    intros A C V.
    assert (forall es, rt_node pw (NUn op) es [o] = RVal v) as H.
    { intros es. unfold comb_unary in C.
      destruct op; destruct (rty r); try discriminate; injection C as <- <-; cbn in V;
        destruct (rval r) as [[]|] eqn:RV; try discriminate; injection V as <-;
        rewrite (A _ RV); cbn; destruct (exprs_list es); reflexivity. }
    split; [apply H|exact H].
  Qed.

  Lemma binary_value op es l r ol or_ rhs e0 w r' v :
    exprs_list es = [e0; rhs] ->
    vagree l ol -> vagree r or_ -> comb_binary op rhs l r = COk w r' -> rval r' = Some v ->
    rt_node pw (NBin op) es [ol; or_] = RVal v.
  Proof.
    intros ES A B C V. unfold comb_binary in C.
    destruct (is_str_like (rty l) && is_str_like (rty r)) eqn:S.
    - (* both string-like *)
      destruct op; cbn in C;
        try (injection C as <- <-; cbn in V;
             destruct (vstr l) as [a|] eqn:VA; [|discriminate];
             destruct (vstr r) as [b|] eqn:VB; [|discriminate];
             injection V as <-;
             rewrite (A _ (vstr_val _ _ VA)), (B _ (vstr_val _ _ VB)); cbn; rewrite ES; reflexivity);
        try (injection C as <- <-; discriminate).
      + (* arithmetic on strings other than + : numeric branch *)
        destruct (num_ty (rty l)); destruct (num_ty (rty r)); try discriminate; injection C as <- <-; discriminate.
      + destruct (num_ty (rty l)); destruct (num_ty (rty r)); try discriminate; injection C as <- <-; discriminate.
      + destruct (num_ty (rty l)); destruct (num_ty (rty r)); try discriminate; injection C as <- <-; discriminate.
      + destruct (num_ty (rty l)); destruct (num_ty (rty r)); try discriminate; injection C as <- <-; discriminate.
      + destruct (num_ty (rty l)); destruct (num_ty (rty r)); try discriminate; injection C as <- <-; discriminate.
      + destruct (num_ty (rty l)); destruct (num_ty (rty r)); try discriminate; injection C as <- <-; discriminate.
      + (* and *)
        destruct (rty l); try discriminate; destruct (rty r); discriminate.
      + destruct (rty l); try discriminate; destruct (rty r); discriminate.
      + discriminate.
    - (* not both string-like *)
      rewrite !andb_false_r in C.
      destruct op; cbn in C;
        try (destruct (num_ty (rty l)); destruct (num_ty (rty r)); try discriminate;
             try (injection C as <- <-; discriminate);
             destruct (compat (rty l) (rty r)); try discriminate; injection C as <- <-; discriminate);
        try discriminate.
      + (* and *)
        destruct (rty l); try discriminate; destruct (rty r); try discriminate.
        injection C as <- <-. cbn in V.
        destruct (vbool l) as [a|] eqn:VA; [|discriminate].
        destruct (vbool r) as [b|] eqn:VB; [|discriminate]. injection V as <-.
        rewrite (A _ (vbool_val _ _ VA)), (B _ (vbool_val _ _ VB)). destruct a, b; reflexivity.
      + destruct (rty l); try discriminate; destruct (rty r); try discriminate.
        injection C as <- <-. cbn in V.
        destruct (vbool l) as [a|] eqn:VA; [|discriminate].
        destruct (vbool r) as [b|] eqn:VB; [|discriminate]. injection V as <-.
        rewrite (A _ (vbool_val _ _ VA)), (B _ (vbool_val _ _ VB)). destruct a, b; reflexivity.
  Qed.

  Lemma index_value es b i ob oi w r' v :
    vagree b ob -> vagree i oi -> comb_index b i = COk w r' -> rval r' = Some v ->
    rt_node pw NIndex es [ob; oi] = RVal v.
  Proof.
    intros A B C V. unfold comb_index in C.
    destruct (negb (is_str_like (rty b))); [discriminate|].
    destruct (negb (is_intlike (rty i))); [discriminate|].
    destruct (vstr b) as [s|] eqn:VS; [|injection C as <- <-; discriminate].
    destruct (vint i) as [k|] eqn:VI; [|injection C as <- <-; discriminate].
    destruct (cindex s k) as [ch|] eqn:CI; [|discriminate].
    injection C as <- <-. cbn in V. injection V as <-.
    rewrite (A _ (vstr_val _ _ VS)), (B _ (vint_val _ _ VI)). cbn.
    rewrite <- cindex_py, CI. destruct (exprs_list es); reflexivity.
  Qed.

  Lemma index_error es b i ob oi :
    vagree b ob -> vagree i oi -> comb_index b i = CAbort EIndexOOR ->
    rt_node pw NIndex es [ob; oi] = RRaise IndexError.
  Proof.
    intros A B C. unfold comb_index in C.
    destruct (negb (is_str_like (rty b))); [discriminate|].
    destruct (negb (is_intlike (rty i))); [discriminate|].
    destruct (vstr b) as [s|] eqn:VS; [|discriminate].
    destruct (vint i) as [k|] eqn:VI; [|discriminate].
    destruct (cindex s k) as [ch|] eqn:CI; [discriminate|].
    rewrite (A _ (vstr_val _ _ VS)), (B _ (vint_val _ _ VI)). cbn.
    rewrite <- cindex_py, CI. destruct (exprs_list es); reflexivity.
  Qed.

  (* ---- slices: all present bounds have a known int value *)
  Lemma slice_sem lo hi st es b ob rs outs s :
    vstr b = Some s -> vagree b ob ->
    Forall2 vagree rs outs -> forallb int_valued rs = true ->
    match comb_slice lo hi st (b :: rs) with
    | COk _ r' => forall v, rval r' = Some v -> rt_node pw (NSlice lo hi st) es (ob :: outs) = RVal v
    | CAbort EStepZero => rt_node pw (NSlice lo hi st) es (ob :: outs) = RRaise ValueError
    | CAbort _ => True
    end.
  Proof.
    intros VS A F IV. rewrite (A _ (vstr_val _ _ VS)). unfold comb_slice. rewrite IV, VS.
    destruct lo, hi, st; destruct rs as [|r1 [|r2 [|r3 [|r4 rs]]]]; cbn [take_bound]; try exact I;
    repeat match goal with
      | F : Forall2 vagree (_ :: _) _ |- _ => inversion F; subst; clear F
      | F : Forall2 vagree [] _ |- _ => inversion F; subst; clear F
      end;
    cbn [forallb] in IV; repeat (apply andb_true_iff in IV; destruct IV as [? IV]);
    repeat match goal with
      | H : int_valued ?r = true |- _ =>
          unfold int_valued in H; destruct (rval r) as [[]|] eqn:?; try discriminate; clear H
      end;
    repeat match goal with
      | H : vagree ?r ?o, E : rval ?r = Some _ |- _ => rewrite (H _ E); clear H
      end;
    unfold vint; repeat match goal with E : rval ?r = Some _ |- _ => rewrite E; clear E end;
    unfold rt_node; cbn [all_vals rt_slice rt_take];
    match goal with
    | |- context [cslice ?s0 ?a ?b0 ?k] =>
        rewrite (cslice_py s0 a b0 k);
        pose proof (py_slice_total s0 a b0 k) as TOT;
        destruct (py_slice s0 a b0 k) as [[out|]|]; cbn [slice_to_out];
        [intros v [= <-]; reflexivity|congruence|reflexivity]
    end.
  Qed.

  (* ---- the general combine lemma for values *)
  Lemma combine_value t es rs outs w r v :
    Forall2 vagree rs outs ->
    combine t es rs = COk w r -> rval r = Some v -> rt_node pw t es outs = RVal v.
  Proof.
    intros F C V. destruct t; cbn [combine] in C.
    - (* unary *)
      destruct rs as [|r1 [|? ?]]; try discriminate. inversion F as [|? o1 ? outs1 A1 F1]; subst. inversion F1; subst.
      exact (proj2 (unary_value _ _ _ _ _ _ A1 C V) es).
    - destruct rs as [|l [|r2 [|? ?]]]; try discriminate.
      destruct (exprs_list es) as [|e0 [|rhs [|? ?]]] eqn:ES; try discriminate.
      inversion F as [|? ol ? outs1 A1 F1]; subst. inversion F1 as [|? or_ ? outs2 A2 F2]; subst. inversion F2; subst.
      eapply binary_value; eassumption.
    - injection C as <- <-. discriminate.
    - destruct rs; injection C as <- <-; discriminate.
    - destruct rs; injection C as <- <-; discriminate.
    - destruct rs as [|k [|v0 rest]]; try discriminate; [injection C as <- <-; discriminate|].
      destruct (Nat.even (length (k :: v0 :: rest))); [injection C as <- <-; discriminate|discriminate].
    - destruct rs as [|b [|i [|? ?]]]; try discriminate.
      inversion F as [|? ob ? outs1 A1 F1]; subst. inversion F1 as [|? oi ? outs2 A2 F2]; subst. inversion F2; subst.
      eapply index_value; eassumption.
    - (* slice *)
      destruct rs as [|b rest]; [discriminate|].
      inversion F as [|? ob ? outs1 A1 F1]; subst.
      destruct (forallb int_valued rest) eqn:IV; [destruct (vstr b) as [s|] eqn:VS|].
      + pose proof (slice_sem lo hi st es b ob rest outs1 s VS A1 F1 IV) as SS.
        rewrite C in SS. exact (SS v V).
      + unfold comb_slice in C. rewrite IV, VS in C.
        destruct (take_bound lo rest) as [[x1 q1]|]; [|discriminate].
        destruct (take_bound hi q1) as [[x2 q2]|]; [|discriminate].
        destruct (take_bound st q2) as [[x3 [|? ?]]|]; try discriminate.
        injection C as <- <-. discriminate.
      + unfold comb_slice in C. rewrite IV in C.
        destruct (take_bound lo rest) as [[x1 q1]|]; [|discriminate].
        destruct (take_bound hi q1) as [[x2 q2]|]; [|discriminate].
        destruct (take_bound st q2) as [[x3 [|? ?]]|]; try discriminate.
        injection C as <- <-. discriminate.
    - discriminate.
    - discriminate.
  Qed.

  (* ---- induction over expressions *)
  Theorem value_agrees :
    (forall e r v, cexpr ds c e = POk r -> rval r = Some v -> rt_eval pw rho e = RVal v) /\
    (forall es t i prev rs, cexpr_list ds c t i prev es = inr rs -> Forall2 vagree rs (rt_eval_list pw rho es)).
  Proof.
    apply expr_mutind.
    - intros l r v H V. cbn in *. injection H as <-. destruct l; cbn in V; injection V as <-; reflexivity.
    - intros n r v H V. cbn in *. destruct (is_decl ds n); [|discriminate].
      destruct (c n) as [r0|] eqn:E; [|discriminate]. injection H as <-. now rewrite (EA _ _ _ E V).
    - intros t es IH r v H V. rewrite cexpr_node in H. rewrite rt_eval_node.
      destruct (cexpr_list ds c t 0 [] es) as [p|rs] eqn:E.
      + exfalso. eapply cexpr_list_inl; eassumption.
      + destruct (combine t es rs) as [err|w r0] eqn:C; [discriminate|]. injection H as <-.
        eapply combine_value; [exact (IH _ _ _ _ E)|exact C|exact V].
    - intros t i prev rs H. injection H as <-. constructor.
    - intros e IHe rest IHr t i prev rs H. rewrite cexpr_list_cons in H. rewrite rt_eval_list_cons.
      destruct (cexpr ds c e) as [x|x|r] eqn:E; try discriminate.
      destruct (precheck t i prev r); [discriminate|].
      destruct (cexpr_list ds c t (S i) (prev ++ [r]) rest) as [p|rs'] eqn:E2; [discriminate|]. injection H as <-.
      constructor; [|eapply IHr; eassumption].
      intros v V. eapply IHe; eauto.
  Qed.

  (* ---- every value the evaluator computes has the type it reports, given a well-typed environment *)
  Definition res_wt (r : cresult) : Prop := forall v, rval r = Some v -> has_type v (rty r) = true.

  Lemma combine_wt t es rs w r : Forall res_wt rs -> combine t es rs = COk w r -> res_wt r.
  Proof.
    intros F C v V. destruct t; cbn [combine] in C.
    - destruct rs as [|r1 [|? ?]]; try discriminate. inversion F as [|? ? W1 _]; subst.
      unfold comb_unary in C. destruct op; destruct (rty r1) eqn:T; try discriminate; injection C as <- <-; cbn in *;
        destruct (rval r1) as [[]|] eqn:RV; try discriminate; injection V as <-;
        specialize (W1 _ RV); rewrite T in W1; cbn in *; congruence.
    - destruct rs as [|l [|r2 [|? ?]]]; try discriminate.
      destruct (exprs_list es) as [|e0 [|rhs [|? ?]]]; try discriminate.
      unfold comb_binary in C.
      destruct (is_str_like (rty l) && is_str_like (rty r2)).
      + destruct op; cbn in C;
          try (injection C as <- <-; cbn in *;
               destruct (vstr l); try discriminate; destruct (vstr r2); try discriminate; injection V as <-; reflexivity);
          try (injection C as <- <-; discriminate);
          try (destruct (num_ty (rty l)); destruct (num_ty (rty r2)); try discriminate; injection C as <- <-; discriminate);
          try (destruct (rty l); try discriminate; destruct (rty r2); discriminate);
          try discriminate.
        all: (destruct (rty l); try discriminate; destruct (rty r2); try discriminate; injection C as <- <-; cbn in *;
              destruct (vbool l); try discriminate; destruct (vbool r2); try discriminate; injection V as <-; reflexivity).
      + rewrite !andb_false_r in C.
        destruct op; cbn in C;
          try (destruct (num_ty (rty l)); destruct (num_ty (rty r2)); try discriminate;
               try (injection C as <- <-; discriminate);
               destruct (compat (rty l) (rty r2)); try discriminate; injection C as <- <-; discriminate);
          try discriminate;
          (destruct (rty l); try discriminate; destruct (rty r2); try discriminate; injection C as <- <-; cbn in *;
           destruct (vbool l); try discriminate; destruct (vbool r2); try discriminate; injection V as <-; reflexivity).
    - injection C as <- <-. discriminate.
    - destruct rs; injection C as <- <-; discriminate.
    - destruct rs; injection C as <- <-; discriminate.
    - destruct rs as [|k [|v0 rest]]; try discriminate; [injection C as <- <-; discriminate|].
      destruct (Nat.even (length (k :: v0 :: rest))); [injection C as <- <-; discriminate|discriminate].
    - destruct rs as [|b [|i [|? ?]]]; try discriminate. unfold comb_index in C.
      destruct (negb (is_str_like (rty b))); [discriminate|]. destruct (negb (is_intlike (rty i))); [discriminate|].
      destruct (vstr b) as [s0|]; [|injection C as <- <-; discriminate].
      destruct (vint i) as [k0|]; [|injection C as <- <-; discriminate].
      destruct (cindex s0 k0); [|discriminate]. injection C as <- <-. cbn in *. injection V as <-. reflexivity.
    - unfold comb_slice in C. destruct rs as [|b rest]; [discriminate|].
      destruct (take_bound lo rest) as [[x1 q1]|]; [|discriminate].
      destruct (take_bound hi q1) as [[x2 q2]|]; [|discriminate].
      destruct (take_bound st q2) as [[x3 [|? ?]]|]; try discriminate.
      destruct (if forallb int_valued rest then vstr b else None) as [s0|]; [|injection C as <- <-; discriminate].
      destruct (cslice s0 x1 x2 x3); try discriminate. injection C as <- <-. cbn in *. injection V as <-. reflexivity.
    - discriminate.
    - discriminate.
  Qed.

  Hypothesis CW : forall n r, c n = Some r -> res_wt r.

  Theorem results_well_typed :
    (forall e r, cexpr ds c e = POk r -> res_wt r) /\
    (forall es t i prev rs, cexpr_list ds c t i prev es = inr rs -> Forall res_wt rs).
  Proof.
    apply expr_mutind.
    - intros l r H. cbn in H. injection H as <-. intros v V. destruct l; cbn in *; injection V as <-; reflexivity.
    - intros n r H. cbn in H. destruct (is_decl ds n); [|discriminate].
      destruct (c n) as [r0|] eqn:E; [|discriminate]. injection H as <-. eapply CW; eassumption.
    - intros t es IH r H. rewrite cexpr_node in H.
      destruct (cexpr_list ds c t 0 [] es) as [p|rs] eqn:E.
      + exfalso. eapply cexpr_list_inl; eassumption.
      + destruct (combine t es rs) as [err|w r0] eqn:C; [discriminate|]. injection H as <-.
        eapply combine_wt; [exact (IH _ _ _ _ E)|exact C].
    - intros t i prev rs H. injection H as <-. constructor.
    - intros e IHe rest IHr t i prev rs H. rewrite cexpr_list_cons in H.
      destruct (cexpr ds c e) as [x|x|r] eqn:E; try discriminate.
      destruct (precheck t i prev r); [discriminate|].
      destruct (cexpr_list ds c t (S i) (prev ++ [r]) rest) as [p|rs'] eqn:E2; [discriminate|]. injection H as <-.
      constructor; [apply (IHe r eq_refl)|eapply IHr; eassumption].
  Qed.
  (* ---- errors: on the valued strict fragment the compile-time diagnostic is the run-time exception *)
  Definition sagree (r : cresult) (o : rres) : Prop := exists v, rval r = Some v /\ o = RVal v.
  Definition eagree (p : pres) (o : rres) : Prop :=
    match p with
    | POk r => sagree r o
    | PErr EIndexOOR => o = RRaise IndexError
    | PErr EStepZero => o = RRaise ValueError
    | _ => True
    end.
  Definition eagree_list (p : pres + list cresult) (outs : list rres) : Prop :=
    match p with
    | inr rs => Forall2 sagree rs outs
    | inl (PErr EIndexOOR) => all_vals outs = inl (RRaise IndexError)
    | inl (PErr EStepZero) => all_vals outs = inl (RRaise ValueError)
    | inl _ => True
    end.

  Lemma rt_node_strict t es outs o : tag_strict t = true -> all_vals outs = inl o -> rt_node pw t es outs = o.
  Proof.
    intros S A. unfold rt_node.
    destruct t as [op|op| | | | | |lo hi st| |]; try discriminate; try (now rewrite A).
    destruct op; try discriminate; now rewrite A.
  Qed.

  Lemma sagree_vagree rs outs : Forall2 sagree rs outs -> Forall2 vagree rs outs.
  Proof.
    induction 1 as [|r o rs outs (v & V & ->) F IH]; constructor; [|exact IH].
    intros v' V'. congruence.
  Qed.

  Lemma strict_abort t es rs err : tag_strict t = true -> combine t es rs = CAbort err ->
    (err = EIndexOOR -> t = NIndex) /\ (err = EStepZero -> exists lo hi st, t = NSlice lo hi st).
  Proof.
    intros S C. destruct t as [op|op| | | | | |lo hi st| |]; try discriminate; cbn [combine] in C.
    - destruct rs as [|r1 [|? ?]]; try (injection C as <-; split; discriminate).
      unfold comb_unary in C. destruct op; destruct (rty r1); try discriminate; injection C as <-; split; discriminate.
    - destruct rs as [|l [|r2 [|? ?]]]; try (injection C as <-; split; discriminate).
      destruct (exprs_list es) as [|e0 [|rhs [|? ?]]]; try (injection C as <-; split; discriminate).
      unfold comb_binary in C.
      destruct (is_str_like (rty l) && is_str_like (rty r2)); destruct op; try discriminate; cbn in C;
        try discriminate;
        try (destruct (num_ty (rty l)); destruct (num_ty (rty r2)); try discriminate; injection C as <-; split; discriminate);
        try (injection C as <-; split; discriminate).
    - split; [intros _; reflexivity|]. intros ->. exfalso.
      destruct rs as [|b [|i0 [|? ?]]]; try discriminate. unfold comb_index in C.
      destruct (negb (is_str_like (rty b))); [discriminate|].
      destruct (negb (is_intlike (rty i0))); [discriminate|].
      destruct (vstr b) as [s0|]; [|discriminate]. destruct (vint i0) as [k0|]; [|discriminate].
      destruct (cindex s0 k0); discriminate.
    - split; [|intros _; eauto]. intros ->. exfalso.
      unfold comb_slice in C. destruct rs as [|b rest]; [discriminate|].
      destruct (take_bound lo rest) as [[x1 q1]|]; [|discriminate].
      destruct (take_bound hi q1) as [[x2 q2]|]; [|discriminate].
      destruct (take_bound st q2) as [[x3 [|? ?]]|]; try discriminate.
      destruct (if forallb int_valued rest then vstr b else None) as [s0|]; [|discriminate].
      destruct (cslice s0 x1 x2 x3); discriminate.
  Qed.

  Lemma precheck_kind t i prev r err : precheck t i prev r = Some err -> err <> EIndexOOR /\ err <> EStepZero.
  Proof.
    unfold precheck, elem_check. destruct t; try discriminate.
    - destruct prev as [|f ?]; [discriminate|]. destruct (compat (rty r) (rty f)); [discriminate|].
      intros [= <-]. split; discriminate.
    - destruct prev as [|f ?]; [discriminate|]. destruct (compat (rty r) (rty f)); [discriminate|].
      intros [= <-]. split; discriminate.
    - destruct prev as [|k [|v ?]]; try discriminate.
      destruct (compat (rty r) (rty (if Nat.even i then k else v))); [discriminate|].
      intros [= <-]. split; discriminate.
    - destruct i.
      + destruct (is_str_like (rty r)); [discriminate|]. intros [= <-]. split; discriminate.
      + destruct (is_intlike (rty r)); [discriminate|]. intros [= <-]. split; discriminate.
  Qed.

  Theorem error_agrees :
    (forall e, vfrag ds c e = true -> eagree (cexpr ds c e) (rt_eval pw rho e)) /\
    (forall es, vfrag_list ds c es = true -> forall t i prev,
       eagree_list (cexpr_list ds c t i prev es) (rt_eval_list pw rho es)).
  Proof.
    apply expr_mutind.
    - intros l _. cbn. destruct l; eexists; split; reflexivity.
    - intros n V. cbn in V |- *. destruct (is_decl ds n); [|exact I].
      destruct (c n) as [r|] eqn:E; [|exact I]. cbn in *.
      destruct (rval r) as [v|] eqn:RV; [|discriminate].
      exists v. split; [exact RV|]. now rewrite (EA _ _ _ E RV).
    - intros t es IH V.
      change (tag_strict t && vfrag_list ds c es && ok_valued (cexpr ds c (ENode t es)) = true) in V.
      apply andb_true_iff in V. destruct V as [V OV].
      apply andb_true_iff in V. destruct V as [TS VL].
      specialize (IH VL t O []). rewrite rt_eval_node. rewrite cexpr_node in *.
      destruct (cexpr_list ds c t 0 [] es) as [p|rs] eqn:E.
      + (* a child failed *)
        cbn in IH. destruct p as [err|n|r]; try exact I.
        * destruct err; try exact I; cbn; apply rt_node_strict; assumption.
        * exfalso. eapply cexpr_list_inl; eauto.
      + cbn in IH. pose proof (sagree_vagree _ _ IH) as VA.
        destruct (combine t es rs) as [err|w r] eqn:C.
        * destruct (strict_abort t es rs err TS C) as [SI SS].
          destruct err; try exact I; cbn.
          -- rewrite (SI eq_refl) in *. cbn [combine] in C.
             destruct rs as [|b [|i0 [|? ?]]]; try discriminate.
             inversion VA as [|? ob ? outs1 A1 F1]; subst. inversion F1 as [|? oi ? outs2 A2 F2]; subst. inversion F2; subst.
             eapply index_error; eassumption.
          -- destruct (SS eq_refl) as (lo & hi & st & ->). cbn [combine] in C.
             destruct rs as [|b rest]; [discriminate|].
             inversion VA as [|? ob ? outs1 A1 F1]; subst.
             destruct (forallb int_valued rest) eqn:IV; [destruct (vstr b) as [s0|] eqn:VS|].
             ++ pose proof (slice_sem lo hi st es b ob rest outs1 s0 VS A1 F1 IV) as SS'.
                rewrite C in SS'. exact SS'.
             ++ exfalso. unfold comb_slice in C. rewrite IV, VS in C.
                destruct (take_bound lo rest) as [[x1 q1]|]; [|discriminate].
                destruct (take_bound hi q1) as [[x2 q2]|]; [|discriminate].
                destruct (take_bound st q2) as [[x3 [|? ?]]|]; discriminate.
             ++ exfalso. unfold comb_slice in C. rewrite IV in C.
                destruct (take_bound lo rest) as [[x1 q1]|]; [|discriminate].
                destruct (take_bound hi q1) as [[x2 q2]|]; [|discriminate].
                destruct (take_bound st q2) as [[x3 [|? ?]]|]; discriminate.
        * cbn in OV. destruct (rval r) as [v|] eqn:RV; [|discriminate].
          exists v. split; [exact RV|]. eapply combine_value; eassumption.
    - intros _ t i prev. cbn. constructor.
    - intros e IHe rest IHr V t i prev.
      change (vfrag ds c e && vfrag_list ds c rest = true) in V. apply andb_true_iff in V. destruct V as [V1 V2].
      specialize (IHe V1).
      rewrite cexpr_list_cons, rt_eval_list_cons.
      destruct (cexpr ds c e) as [err|n|r] eqn:E.
      + destruct err; try exact I; cbn in IHe |- *; now rewrite IHe.
      + exact I.
      + cbn in IHe. destruct IHe as (v & RV & ->).
        destruct (precheck t i prev r) as [err|] eqn:P.
        * destruct (precheck_kind _ _ _ _ _ P). destruct err; try exact I; congruence.
        * specialize (IHr V2 t (S i) (prev ++ [r])).
          destruct (cexpr_list ds c t (S i) (prev ++ [r]) rest) as [p|rs'] eqn:E2.
          -- cbn in IHr |- *. destruct p as [err|n|r0]; try exact I.
             destruct err; try exact I; cbn in *; now rewrite IHr.
          -- cbn in IHr |- *. constructor; [exists v; split; [exact RV|reflexivity]|exact IHr].
  Qed.
End Agree.
