(* C04/Proofs.v — integer kernels of //, % : both copies (incan_core, incan_stdlib), as generated
   by rs2v from the current source, equal Coq's floor division / modulo on all of i64 x i64. *)
From Verif Require Import Base.I64 Base.Tactics Gen.CoreNum Gen.StdNum.
From Coq Require Import ZifyBool.
Open Scope Z_scope.

Lemma quot_in_i64 a b :
  in_i64 a -> in_i64 b -> b <> 0 -> ~ (a = MIN64 /\ b = -1) -> in_i64 (Z.quot a b).
Proof.
  intros Ha Hb Hb0 Hex.
  pose proof (Z.quot_div a b Hb0) as Hq.
  assert (H0 : 0 <= Z.abs a / Z.abs b) by (apply Z.div_pos; lia).
  destruct (Z.eq_dec (Z.abs b) 1) as [Hb1|Hb1].
  - rewrite Hb1, Z.div_1_r in Hq. i64_facts. lia.
  - assert (H2 : Z.abs a / Z.abs b <= Z.abs a / 2).
    { apply Z.div_le_compat_l; lia. }
    assert (H3 : Z.abs a / 2 <= 2 ^ 62).
    { apply Z.div_le_upper_bound; [lia|]. i64_facts. lia. }
    i64_facts. lia.
Qed.

(* ---------- floor division ---------- *)
Ltac floor_div_tac a b :=
  intros Ha Hb Hb0 Hex;
  pose proof (quot_in_i64 a b Ha Hb Hb0 Hex) as Hq;
  quot_rem_facts a b;
  unfold_ops; split_ifs;
  try (exfalso; i64_facts; lia);
  match goal with
  | |- ovf _ ?X = _ => rewrite ovf_ok by (i64_facts; lia)
  | _ => idtac
  end;
  f_equal;
  match goal with
  | |- ?X = a / b => apply Z.div_unique with (r := a - b * X); [lia | ring]
  end.

Lemma core_floor_div_spec m a b :
  in_i64 a -> in_i64 b -> b <> 0 -> ~ (a = MIN64 /\ b = -1) ->
  core_py_floor_div_i64_impl m a b = Val (a / b).
Proof. unfold core_py_floor_div_i64_impl. floor_div_tac a b. Qed.

Lemma stdlib_floor_div_spec m a b :
  in_i64 a -> in_i64 b -> b <> 0 -> ~ (a = MIN64 /\ b = -1) ->
  stdlib_py_floor_div_i64_impl m a b = Val (a / b).
Proof. unfold stdlib_py_floor_div_i64_impl. floor_div_tac a b. Qed.

(* ---------- modulo ---------- *)
Lemma mod_candidate a b r :
  b <> 0 -> Z.abs (Z.rem a b) < Z.abs b ->
  (r = Z.rem a b /\ (0 <= r < b \/ b < r <= 0)) \/
  (r = Z.rem a b + b /\ (0 <= r < b \/ b < r <= 0)) ->
  r = a mod b.
Proof.
  intros Hb Hr [[-> Hrange]|[-> Hrange]].
  - apply Z.mod_unique with (q := Z.quot a b); [exact Hrange|]. apply Z.quot_rem'.
  - apply Z.mod_unique with (q := Z.quot a b - 1); [exact Hrange|].
    pose proof (Z.quot_rem' a b). lia.
Qed.

Ltac mod_tac2 a b :=
  intros Ha Hb Hb0;
  quot_rem_facts a b;
  unfold_ops; split_ifs;
  try (exfalso; i64_facts; lia);
  match goal with
  | |- ovf _ ?X = _ => rewrite ovf_ok by (i64_facts; lia)
  | _ => idtac
  end;
  f_equal;
  (apply mod_candidate; [assumption | lia | lia]).

Lemma core_mod_spec m a b :
  in_i64 a -> in_i64 b -> b <> 0 -> core_py_mod_i64_impl m a b = Val (a mod b).
Proof. unfold core_py_mod_i64_impl. mod_tac2 a b. Qed.

Lemma stdlib_mod_spec m a b :
  in_i64 a -> in_i64 b -> b <> 0 -> stdlib_py_mod_i64_impl m a b = Val (a mod b).
Proof. unfold stdlib_py_mod_i64_impl. mod_tac2 a b. Qed.

(* ---------- the one excluded pair is exactly the trapping one ---------- *)
Lemma core_floor_div_excluded m : core_py_floor_div_i64_impl m MIN64 (-1) = Trp Overflow.
Proof. destruct m; reflexivity. Qed.
Lemma stdlib_floor_div_excluded m : stdlib_py_floor_div_i64_impl m MIN64 (-1) = Trp Overflow.
Proof. destruct m; reflexivity. Qed.

(* ---------- the two copies agree on every input, failures included ---------- *)
Lemma copies_agree_floor_div m a b :
  in_i64 a -> in_i64 b ->
  core_py_floor_div_i64_impl m a b = stdlib_py_floor_div_i64_impl m a b.
Proof.
  intros Ha Hb.
  destruct (Z.eq_dec b 0) as [->|Hb0].
  - unfold core_py_floor_div_i64_impl, stdlib_py_floor_div_i64_impl. unfold_ops.
    destruct m; reflexivity.
  - destruct (Z.eq_dec a MIN64) as [->|Ha0]; [destruct (Z.eq_dec b (-1)) as [->|Hb1]|].
    + now rewrite core_floor_div_excluded, stdlib_floor_div_excluded.
    + rewrite core_floor_div_spec, stdlib_floor_div_spec by (auto; lia). reflexivity.
    + rewrite core_floor_div_spec, stdlib_floor_div_spec by (auto; lia). reflexivity.
Qed.

Lemma copies_agree_mod m a b :
  in_i64 a -> in_i64 b ->
  core_py_mod_i64_impl m a b = stdlib_py_mod_i64_impl m a b.
Proof.
  intros Ha Hb.
  destruct (Z.eq_dec b 0) as [->|Hb0].
  - unfold core_py_mod_i64_impl, stdlib_py_mod_i64_impl. unfold_ops. destruct m; reflexivity.
  - rewrite core_mod_spec, stdlib_mod_spec by auto. reflexivity.
Qed.

(* ---------- Python's laws, as corollaries about Coq's / and mod ---------- *)
Lemma py_identity a b : b <> 0 -> a = (a / b) * b + a mod b.
Proof. intros Hb. pose proof (Z.div_mod a b Hb). lia. Qed.
Lemma py_mod_sign a b : b <> 0 -> (0 < b -> 0 <= a mod b < b) /\ (b < 0 -> b < a mod b <= 0).
Proof. intros Hb. split; intros H; [apply Z.mod_pos_bound|apply Z.mod_neg_bound]; lia. Qed.
Lemma py_floor a b : b <> 0 -> (0 < b -> (a / b) * b <= a < (a / b + 1) * b) /\
                               (b < 0 -> (a / b + 1) * b < a <= (a / b) * b).
Proof.
  intros Hb. pose proof (Z.div_mod a b Hb) as Hdm.
  split; intros Hs; [pose proof (Z.mod_pos_bound a b) as Hm|pose proof (Z.mod_neg_bound a b) as Hm]; lia.
Qed.
(* the identity also holds in the machine's wrapping arithmetic, where (a // b) * b may not fit
   (a = MAX, b = MIN gives q * b = 2^63) *)
Lemma wrap64_add_l x y : wrap64 (wrap64 x + y) = wrap64 (x + y).
Proof.
  unfold wrap64.
  replace ((x + 2 ^ 63) mod 2 ^ 64 - 2 ^ 63 + y + 2 ^ 63) with ((x + 2 ^ 63) mod 2 ^ 64 + y) by ring.
  rewrite Z.add_mod_idemp_l by lia. f_equal. f_equal. ring.
Qed.
Lemma py_identity_wrapping a b :
  in_i64 a -> b <> 0 -> wrap64 (wrap64 ((a / b) * b) + a mod b) = a.
Proof.
  intros Ha Hb. rewrite wrap64_add_l, <- py_identity by assumption. now apply wrap64_id.
Qed.
