(* C04/ProofsModel.v — theorems about the entry points (C04/Model.v). *)
From Verif Require Import Base.I64 Base.F64 Base.Tactics Gen.CoreNum Gen.StdNum C04.Model C04.Proofs.
From Coq Require Import ZifyBool Floats.SpecFloat.
Open Scope Z_scope.

Lemma b_neqb (b : Z) : b <> 0 -> (b =? 0) = false.
Proof. lia. Qed.

(* ---- integers: value equals Python's for every representable case ---- *)
Lemma py_floor_div_int_spec m a b :
  in_i64 a -> in_i64 b -> b <> 0 -> ~ (a = MIN64 /\ b = -1) ->
  py_floor_div m (NI a) (NI b) = OInt (spec_floor_div a b).
Proof.
  intros Ha Hb Hb0 Hex. unfold py_floor_div, is_zero. rewrite (b_neqb b Hb0).
  now rewrite stdlib_floor_div_spec.
Qed.

Lemma py_mod_int_spec m a b :
  in_i64 a -> in_i64 b -> b <> 0 -> py_mod m (NI a) (NI b) = OInt (spec_mod a b).
Proof.
  intros Ha Hb Hb0. unfold py_mod, is_zero. rewrite (b_neqb b Hb0). now rewrite stdlib_mod_spec.
Qed.

Lemma py_floor_div_i64_spec m a b :
  in_i64 a -> in_i64 b -> b <> 0 -> ~ (a = MIN64 /\ b = -1) ->
  py_floor_div_i64 m a b = OInt (spec_floor_div a b).
Proof.
  intros Ha Hb Hb0 Hex. unfold py_floor_div_i64, stdlib_py_floor_div_i64, raise_if, bind.
  rewrite (b_neqb b Hb0). now rewrite stdlib_floor_div_spec.
Qed.

Lemma py_mod_i64_spec m a b :
  in_i64 a -> in_i64 b -> b <> 0 -> py_mod_i64 m a b = OInt (spec_mod a b).
Proof.
  intros Ha Hb Hb0. unfold py_mod_i64, stdlib_py_mod_i64, raise_if, bind.
  rewrite (b_neqb b Hb0). now rewrite stdlib_mod_spec.
Qed.

(* ---- the excluded pair is exactly an overflow abort (Rust's own "attempt to divide with
        overflow"), in debug and release alike ---- *)
Lemma py_floor_div_excluded m : py_floor_div m (NI MIN64) (NI (-1)) = OPanic Overflow.
Proof. destruct m; reflexivity. Qed.

(* ---- zero divisor: always the documented error, for every operator and operand kind ---- *)
Lemma to_float_zero r : is_zero r = true -> f64_eqb (to_float r) f64_zero = true.
Proof.
  destruct r as [z|f]; cbn [is_zero to_float]; intros H; [|exact H].
  apply Z.eqb_eq in H. subst z. reflexivity.
Qed.

Lemma zero_divisor_div l r : is_zero r = true -> py_div l r = OZeroDiv.
Proof. intros H. unfold py_div. now rewrite to_float_zero. Qed.
Lemma zero_divisor_mod m l r : is_zero r = true -> py_mod m l r = OZeroDiv.
Proof. intros H. unfold py_mod. now rewrite H. Qed.
Lemma zero_divisor_floor_div m l r : is_zero r = true -> py_floor_div m l r = OZeroDiv.
Proof. intros H. unfold py_floor_div. now rewrite H. Qed.
Lemma zero_divisor_floor_div_i64 m a : py_floor_div_i64 m a 0 = OZeroDiv.
Proof. reflexivity. Qed.
Lemma zero_divisor_mod_i64 m a : py_mod_i64 m a 0 = OZeroDiv.
Proof. reflexivity. Qed.
Lemma zero_divisor_floor_div_f64 m a b : f64_eqb b f64_zero = true -> py_floor_div_f64 m a b = OZeroDiv.
Proof.
  intros H. unfold py_floor_div_f64, stdlib_py_floor_div_f64, raise_if, bind.
  change (f64_of_bits 0) with f64_zero. now rewrite H.
Qed.
Lemma zero_divisor_mod_f64 m a b : f64_eqb b f64_zero = true -> py_mod_f64 m a b = OZeroDiv.
Proof.
  intros H. unfold py_mod_f64, stdlib_py_mod_f64, raise_if, bind.
  change (f64_of_bits 0) with f64_zero. now rewrite H.
Qed.

(* ---- no other failure ---- *)
Definition is_value_or_zero_div (o : outcome) : Prop :=
  match o with OInt _ | OFloat _ | OZeroDiv => True | OPanic _ => False end.

Lemma div_total l r : is_value_or_zero_div (py_div l r).
Proof. unfold py_div. destruct (f64_eqb _ _); exact I. Qed.

Lemma mod_f64_impl_total m a b :
  f64_eqb b f64_zero = false -> exists f, stdlib_py_mod_f64_impl m a b = Val f.
Proof.
  intros H. unfold stdlib_py_mod_f64_impl, dbg_assert, bind.
  change (f64_of_bits 0) with f64_zero. rewrite H. cbn [negb].
  destruct m; eexists; reflexivity.
Qed.

(* [nonzero_conv]: a non-zero i64 converts (`as f64`) to a non-zero float.  True of IEEE
   conversion; only needed for the *debug* build's `debug_assert!(b != 0.0)` in float % int. *)
Definition nonzero_conv (r : num) : Prop :=
  forall b, r = NI b -> b <> 0 -> f64_eqb (f64_of_i64 b) f64_zero = false.

Lemma mod_total m l r :
  (forall a b, l = NI a -> r = NI b -> in_i64 a /\ in_i64 b) ->
  (m = Wrap \/ nonzero_conv r) ->
  is_value_or_zero_div (py_mod m l r).
Proof.
  intros Hrange Hconv. unfold py_mod. destruct (is_zero r) eqn:Hz; [exact I|].
  destruct l as [a|fa], r as [b|fb]; cbn [is_zero] in Hz; cbn [to_float].
  - destruct (Hrange a b eq_refl eq_refl) as [Ha Hb].
    rewrite stdlib_mod_spec by (auto; lia). exact I.
  - destruct (mod_f64_impl_total m (f64_of_i64 a) fb Hz) as [f ->]. exact I.
  - (* float % int: the promoted divisor is compared inside the kernel's debug assertion *)
    unfold stdlib_py_mod_f64_impl, dbg_assert, bind.
    destruct m; [exact I|].
    destruct Hconv as [Hm|Hc]; [discriminate|].
    change (f64_of_bits 0) with f64_zero.
    rewrite (Hc b eq_refl) by lia. exact I.
  - destruct (mod_f64_impl_total m fa fb Hz) as [f ->]. exact I.
Qed.

Lemma floor_div_total m l r :
  (forall a b, l = NI a -> r = NI b -> in_i64 a /\ in_i64 b /\ ~ (a = MIN64 /\ b = -1)) ->
  is_value_or_zero_div (py_floor_div m l r).
Proof.
  intros Hrange. unfold py_floor_div. destruct (is_zero r) eqn:Hz; [exact I|].
  destruct l as [a|fa], r as [b|fb]; cbn [is_zero] in Hz; try exact I.
  destruct (Hrange a b eq_refl eq_refl) as (Ha & Hb & Hex).
  rewrite stdlib_floor_div_spec by (auto; lia). exact I.
Qed.

(* ---- floats: `/` is the IEEE quotient of the promoted operands, `//` its floor ---- *)
Lemma py_div_is_ieee l r :
  f64_eqb (to_float r) f64_zero = false -> py_div l r = OFloat (f64_div (to_float l) (to_float r)).
Proof. intros H. unfold py_div. now rewrite H. Qed.

Lemma py_floor_div_float l r m :
  is_zero r = false -> (forall a b, ~ (l = NI a /\ r = NI b)) ->
  py_floor_div m l r = OFloat (f64_floor (f64_div (to_float l) (to_float r))).
Proof.
  intros Hz Hk. unfold py_floor_div. rewrite Hz.
  destruct l as [a|fa], r as [b|fb]; try reflexivity. exfalso. apply (Hk a b). split; reflexivity.
Qed.

(* ---- compile-time core and run-time library: identical answers on identical operands ---- *)
Lemma core_runtime_agree_mod m a b :
  in_i64 a -> in_i64 b -> core_mod_i64 m a b = lift_i (stdlib_py_mod_i64_impl m a b).
Proof. intros Ha Hb. unfold core_mod_i64. now rewrite copies_agree_mod. Qed.
Lemma core_runtime_agree_floor_div m a b :
  in_i64 a -> in_i64 b -> core_floor_div_i64 m a b = lift_i (stdlib_py_floor_div_i64_impl m a b).
Proof. intros Ha Hb. unfold core_floor_div_i64. now rewrite copies_agree_floor_div. Qed.
Lemma core_runtime_agree_mod_f64 m a b :
  core_py_mod_f64_impl m a b = stdlib_py_mod_f64_impl m a b.
Proof.
  unfold core_py_mod_f64_impl, stdlib_py_mod_f64_impl, dbg_assert, bind.
  destruct m; [reflexivity|]. destruct (negb _); reflexivity.
Qed.

(* ---- known finding: the float remainder's magnitude is not always below |b| ---- *)
Lemma fmod_rounds_to_divisor_witness :
  let a := f64_of_bits 13470266485465153536 (* -2^-80 *) in
  let b := f64_of_bits 4607182418800017408  (* 1.0 *) in
  rounds_to_divisor a b = true /\ py_mod Wrap (NF a) (NF b) = OFloat b.
Proof. vm_compute. split; reflexivity. Qed.
