(* C04/PropsFloat.v — the float property theorems for C04, and nothing else.
   Each is pinned by its statement, closed by [exact], and followed by Print Assumptions.
   All are over EVERY valid finite binary64 value (no sampling); validity is SpecFloat's own
   [valid_binary 53 1024], the real value is Flocq's [SF2R radix2] (see C04_float_defs).
   [RN] is rounding to nearest-even in binary64: [round radix2 (SpecFloat.fexp 53 1024) ZnearestE].
   The kernels [stdlib_*] are regenerated from /repo by rs2v on every run. *)
From Coq Require Import ZArith Reals Bool Floats.SpecFloat.
From Flocq Require Import Core IEEE754.BinarySingleNaN.
From Verif Require Import Base.I64 Base.F64 Gen.CoreNum Gen.StdNum C04.Model C04.Proofs C04.ProofsModel C04.ProofsFloat.
Open Scope Z_scope.

(* the two abbreviations used in the statements below mean what they say *)
Theorem C04_float_defs :
  (forall x, f64_valid x <-> valid_binary 53 1024 x = true) /\
  (forall x, f64R x = SF2R radix2 x) /\
  (forall s m e, f64R (S754_finite s m e) = (IZR (if s then - Z.pos m else Z.pos m) * bpow radix2 e)%R) /\
  (forall s, f64R (S754_zero s) = 0%R) /\
  (forall n, num_ok n <-> match n with NI z => in_i64 z
                                  | NF f => valid_binary 53 1024 f = true /\ f64_is_finite f = true end).
Proof.
  split; [intros x; reflexivity|]. split; [reflexivity|]. split; [intros [|] m e; reflexivity|].
  split; [reflexivity|]. intros [z|f]; reflexivity.
Qed.
Print Assumptions C04_float_defs.

(* hypotheses are satisfiable by non-trivial values: -7.5 % 2.0 = 0.5, 7.5 % -2.0 = -0.5,
   -7.5 // 2.0 = -4.0, and fmod(-7.5, 2.0) = -1.5 *)
Example C04_float_nonvacuous :
  let a := f64_of_bits 13843502304583483392 (* -7.5 *) in
  let b := f64_of_bits 4611686018427387904  (* 2.0 *) in
  f64_valid a /\ f64_valid b /\ f64_is_finite a = true /\ f64_is_finite b = true /\
  f64_is_zero b = false /\ rounds_to_divisor a b = false /\
  num_ok (NF a) /\ num_ok (NF b) /\ num_ok (NI (-7)) /\ is_zero (NF b) = false /\
  f64_rem a b = f64_of_bits 13832806255468478464 (* -1.5 *) /\
  py_mod Trap (NF a) (NF b) = OFloat (f64_of_bits 4602678819172646912) (* 0.5 *) /\
  py_mod Wrap (NF (f64_neg a)) (NF (f64_neg b)) = OFloat (f64_of_bits 13826050856027422720) (* -0.5 *) /\
  py_floor_div Wrap (NF a) (NF b) = OFloat (f64_of_bits 13839561654909534208) (* -4.0 *).
Proof.
  cbv zeta. unfold num_ok, f64_valid, in_i64, MIN64, MAX64.
  repeat match goal with |- _ /\ _ => split end; try (vm_compute; reflexivity);
    vm_compute; intros H; discriminate H.
Qed.

(* F0  every bit pattern the harness exchanges decodes to a valid float; `i as f64` is valid,
       and finite for every i64 *)
Theorem C04_float_bits_valid :
  (forall z, valid_binary 53 1024 (f64_of_bits z) = true) /\
  (forall z, valid_binary 53 1024 (f64_of_i64 z) = true) /\
  (forall z, in_i64 z -> f64_is_finite (f64_of_i64 z) = true).
Proof. split; [exact of_bits_valid|]. split; [exact of_Z_valid|exact of_i64_finite]. Qed.
Print Assumptions C04_float_bits_valid.

(* F1  (T1) Rust's f64 `%` is C's fmod and it is exact: for finite a and finite non-zero b the
       result is finite, valid, equal (as a real) to a - trunc(a/b)*b, smaller than |b| in
       magnitude, and carries the sign of a (sign bit always, so -0.0 for a negative multiple) *)
Theorem C04_float_fmod_exact : forall a b,
  f64_valid a -> f64_valid b -> f64_is_finite a = true -> f64_is_finite b = true ->
  f64_is_zero b = false ->
  let r := f64_rem a b in
  f64_valid r /\ f64_is_finite r = true /\ f64_sign r = f64_sign a /\
  f64R r = (f64R a - IZR (Ztrunc (f64R a / f64R b)) * f64R b)%R /\
  (Rabs (f64R r) < Rabs (f64R b))%R /\
  ((0 <= f64R a)%R -> (0 <= f64R r)%R) /\ ((f64R a <= 0)%R -> (f64R r <= 0)%R).
Proof. exact rem_is_fmod. Qed.
Print Assumptions C04_float_fmod_exact.

(* F2  (T2, T3) the float `%` kernel, debug and release builds alike, for finite a and finite
       non-zero b: it returns a value r' (no abort), finite and valid, which is a zero or has the
       sign of b and never exceeds b in magnitude; the magnitude is strictly below |b| outside
       the class of known finding C04-fmod-rounds-to-divisor (and always when the fmod remainder
       is zero or has b's sign); inside that class, when the fmod remainder and b have opposite
       signs, r' is exactly b.  r' is the fmod remainder r itself,
       or the correctly rounded sum r + b when r and b have strictly opposite signs. *)
Theorem C04_float_mod_sign_magnitude : forall m a b,
  f64_valid a -> f64_valid b -> f64_is_finite a = true -> f64_is_finite b = true ->
  f64_is_zero b = false ->
  let r := f64_rem a b in
  let opposite := ((0 < f64R r /\ f64R b < 0) \/ (f64R r < 0 /\ 0 < f64R b))%R in
  exists r' : f64,
    stdlib_py_mod_f64_impl m a b = Val r' /\ py_mod m (NF a) (NF b) = OFloat r' /\
    f64_valid r' /\ f64_is_finite r' = true /\
    (opposite -> f64R r' = RN (f64R r + f64R b)) /\ (~ opposite -> r' = r) /\
    ((0 < f64R b)%R -> (0 <= f64R r' <= f64R b)%R) /\
    ((f64R b < 0)%R -> (f64R b <= f64R r' <= 0)%R) /\
    (rounds_to_divisor a b = false -> (Rabs (f64R r') < Rabs (f64R b))%R) /\
    (rounds_to_divisor a b = true -> opposite -> f64R r' = f64R b) /\
    (~ opposite -> (Rabs (f64R r') < Rabs (f64R b))%R).
Proof. exact py_mod_kernel_correct. Qed.
Print Assumptions C04_float_mod_sign_magnitude.

(* F3  the same on the generic entry point with int operands promoted (int % float, float % int,
       float % float): operands are i64s or valid finite floats, the divisor is not zero *)
Theorem C04_float_mod_entry : forall m l r,
  num_ok l -> num_ok r -> is_zero r = false -> (forall a b, ~ (l = NI a /\ r = NI b)) ->
  let a := to_float l in
  let b := to_float r in
  exists r' : f64,
    py_mod m l r = OFloat r' /\ stdlib_py_mod_f64_impl m a b = Val r' /\
    f64_valid r' /\ f64_is_finite r' = true /\
    ((0 < f64R b)%R -> (0 <= f64R r' <= f64R b)%R) /\
    ((f64R b < 0)%R -> (f64R b <= f64R r' <= 0)%R) /\
    (rounds_to_divisor a b = false -> (Rabs (f64R r') < Rabs (f64R b))%R).
Proof. exact py_mod_entry_correct. Qed.
Print Assumptions C04_float_mod_entry.

(* F4  (T4) a non-zero integer converts to a non-zero float (any integer, not only i64) *)
Theorem C04_nonzero_conv : forall z, z <> 0 -> f64_eqb (f64_of_i64 z) f64_zero = false.
Proof. exact of_Z_nonzero. Qed.
Print Assumptions C04_nonzero_conv.

(* F5  C04_no_other_failure (C04/Props.v, P6) without its conversion hypothesis: no operand pair
       produces any failure other than the documented ZeroDivisionError, in both build modes *)
Theorem C04_no_other_failure_unconditional : forall m l r,
  (forall a b, l = NI a -> r = NI b -> in_i64 a /\ in_i64 b /\ ~ (a = MIN64 /\ b = -1)) ->
  is_value_or_zero_div (py_div l r) /\ is_value_or_zero_div (py_mod m l r) /\
  is_value_or_zero_div (py_floor_div m l r).
Proof.
  intros m l r Hr. split; [exact (div_total l r)|]. split.
  - apply mod_total_unconditional. intros a b Hl Hrr. destruct (Hr a b Hl Hrr) as (Ha & Hb & _). now split.
  - exact (floor_div_total m l r Hr).
Qed.
Print Assumptions C04_no_other_failure_unconditional.

(* F6  (T5) floor is exact: for a finite x, [f64_floor x] is finite, valid and its real value is
       the integer floor of x's real value (so x - 1 < floor x <= x) *)
Theorem C04_float_floor_exact : forall x,
  f64_valid x -> f64_is_finite x = true ->
  f64_valid (f64_floor x) /\ f64_is_finite (f64_floor x) = true /\
  f64R (f64_floor x) = IZR (Zfloor (f64R x)) /\
  (f64R x - 1 < f64R (f64_floor x) <= f64R x)%R.
Proof.
  intros x V F. destruct (floor_correct x V F) as (H1 & H2 & H3).
  split; [exact H1|]. split; [exact H2|]. split; [exact H3|exact (proj1 (floor_bounds x V F))].
Qed.
Print Assumptions C04_float_floor_exact.

(* F7  (T5) `/` is the correctly rounded IEEE quotient (Flocq's Bdiv_correct through the bridge):
       for valid a, b with b's real value non-zero, RN(a/b) if that is in range, else the
       infinity of the right sign *)
Theorem C04_float_div_correctly_rounded : forall a b,
  f64_valid a -> f64_valid b -> f64R b <> 0%R ->
  f64_valid (f64_div a b) /\
  if Rlt_bool (Rabs (RN (f64R a / f64R b))) (bpow radix2 1024) then
    f64R (f64_div a b) = RN (f64R a / f64R b) /\
    f64_is_finite (f64_div a b) = f64_is_finite a /\
    (f64_is_nan (f64_div a b) = false -> f64_sign (f64_div a b) = xorb (f64_sign a) (f64_sign b))
  else f64_div a b = S754_infinity (xorb (f64_sign a) (f64_sign b)).
Proof. exact div_correct. Qed.
Print Assumptions C04_float_div_correctly_rounded.

(* F8  (T5) on the entry points, ints promoted: `/` returns the correctly rounded quotient Q of
       the promoted operands and `//` returns the exact floor of Q (or the infinity Q overflowed
       to, unchanged) *)
Theorem C04_float_floor_div_entry : forall m l r,
  num_ok l -> num_ok r -> is_zero r = false -> (forall a b, ~ (l = NI a /\ r = NI b)) ->
  let a := to_float l in
  let b := to_float r in
  let Q := RN (f64R a / f64R b) in
  f64R b <> 0%R /\
  py_div l r = OFloat (f64_div a b) /\
  py_floor_div m l r = OFloat (f64_floor (f64_div a b)) /\
  f64_valid (f64_div a b) /\ f64_valid (f64_floor (f64_div a b)) /\
  if Rlt_bool (Rabs Q) (bpow radix2 1024) then
    f64R (f64_div a b) = Q /\ f64_is_finite (f64_floor (f64_div a b)) = true /\
    f64R (f64_floor (f64_div a b)) = IZR (Zfloor Q)
  else f64_div a b = S754_infinity (xorb (f64_sign a) (f64_sign b)) /\
       f64_floor (f64_div a b) = f64_div a b.
Proof. exact py_floor_div_entry_correct. Qed.
Print Assumptions C04_float_floor_div_entry.
