(* C04/ProofsFloat.v — the float half of C04, over ALL valid finite binary64 values.

   Base/F64.v models Rust's f64 as the standard library's [spec_float] (pure computation over Z).
   Here that model is bridged to Flocq 4 (IEEE754/BinarySingleNaN: the same operations with
   their specification over the reals) and the properties of `%`, `//`, `/` and `i64 as f64`
   are proved as statements about real values:
     1  bridge (SFadd/SFdiv/binary_normalize = B2SF of Flocq's Bplus/Bdiv/binary_normalize;
        every valid spec_float is B2SF of a binary_float; comparisons = comparisons of reals)
     2  mantissa/exponent facts      3  (T4) non-zero int -> non-zero float
     4  (T5) floor is exact          5  (T5) `/` is the correctly rounded quotient
     6  (T1) f64_rem is C's fmod, exact
     7  addition, rounding between 0 and a representable bound
     8  (T2,T3) `%`: sign of the divisor, magnitude <= |b|, < |b| outside rounds_to_divisor
     9  every bit pattern decodes to a valid float; i64 -> f64 is finite
     10 the entry points of C04/Model.v    11 the assembled statements for C04/PropsFloat.v
   Axioms: only those of the standard library's real numbers / classical logic that Flocq uses.
   Flocq's IEEE754/PrimFloat.v (primitive floats, FloatAxioms) is NOT imported: its three small
   SpecFloat/BinarySingleNaN equivalence lemmas are re-proved in section 1. *)
From Coq Require Import ZArith Reals Bool Lia Lra Floats.SpecFloat.
From Flocq Require Import Core IEEE754.BinarySingleNaN.
From Verif Require Import Base.I64 Base.F64 Gen.CoreNum Gen.StdNum C04.Model C04.Proofs C04.ProofsModel.
Local Open Scope Z_scope.

(* ------------------------------------------------------------------ *)
(** * 1. binary64 parameters and the bridge SpecFloat <-> Flocq *)

Global Instance Hprec64 : Prec_gt_0 53 := eq_refl.
Global Instance Hmax64 : Prec_lt_emax 53 1024 := eq_refl.

Notation bf64 := (binary_float 53 1024).
Notation fexp64 := (SpecFloat.fexp 53 1024).
Notation RN := (round radix2 fexp64 ZnearestE).
Notation fmt64 := (generic_format radix2 fexp64).

(* validity = SpecFloat's own predicate; real value = Flocq's SF2R *)
Definition f64_valid (x : f64) : Prop := valid_binary 53 1024 x = true.
Definition f64R (x : f64) : R := SF2R radix2 x.

(* the three small equivalences below are re-proved following Flocq's IEEE754/PrimFloat.v
   (round_nearest_even_equiv .. binary_normalize_equiv, add_equiv, div_equiv) so that no
   primitive-float axiom is ever in scope *)
Lemma rne_equiv s m l : round_nearest_even m l = choice_mode mode_NE s m l.
Proof.
  case l; [reflexivity|intro c]. case c; [|reflexivity..].
  now simpl; unfold Round.cond_incr; case Z.even.
Qed.

Lemma bra_equiv sx mx ex lx :
  SpecFloat.binary_round_aux 53 1024 sx mx ex lx
  = BinarySingleNaN.binary_round_aux 53 1024 mode_NE sx mx ex lx.
Proof.
  unfold SpecFloat.binary_round_aux, BinarySingleNaN.binary_round_aux.
  set (mrse' := shr_fexp _ _ _ _ _). case mrse'; intros mrs' e'; simpl.
  now rewrite (rne_equiv sx).
Qed.

Lemma br_equiv s m e :
  SpecFloat.binary_round 53 1024 s m e = BinarySingleNaN.binary_round 53 1024 mode_NE s m e.
Proof.
  unfold SpecFloat.binary_round, BinarySingleNaN.binary_round, shl_align_fexp.
  set (mez := shl_align _ _ _); case mez as [mz ez]. apply bra_equiv.
Qed.

Lemma bn_equiv m e szero :
  SpecFloat.binary_normalize 53 1024 m e szero
  = B2SF (BinarySingleNaN.binary_normalize 53 1024 Hprec64 Hmax64 mode_NE m e szero).
Proof.
  case m as [|p|p].
  - now simpl.
  - simpl; rewrite B2SF_SF2B; apply br_equiv.
  - simpl; rewrite B2SF_SF2B; apply br_equiv.
Qed.

Lemma add_equiv (x y : bf64) : f64_add (B2SF x) (B2SF y) = B2SF (Bplus mode_NE x y).
Proof.
  unfold f64_add, prec64, emax64.
  case x as [sx|sx| |sx mx ex Bx]; case y as [sy|sy| |sy my ey By];
    [now (trivial || simpl; case Bool.eqb).. | ].
  apply bn_equiv.
Qed.

Lemma div_equiv (x y : bf64) : f64_div (B2SF x) (B2SF y) = B2SF (Bdiv mode_NE x y).
Proof.
  unfold f64_div, prec64, emax64.
  case x as [sx|sx| |sx mx ex Bx]; case y as [sy|sy| |sy my ey By];
    [now (trivial || simpl; case Bool.eqb).. | ].
  simpl. rewrite B2SF_SF2B.
  set (melz := SFdiv_core_binary _ _ _ _ _ _). case melz as [[mz ez] lz].
  apply bra_equiv.
Qed.

(* every valid spec_float is the image of a Flocq binary_float *)
Lemma valid_B2SF (x : f64) : f64_valid x -> exists b : bf64, x = B2SF b.
Proof. intros H. exists (SF2B x H). now rewrite B2SF_SF2B. Qed.

Lemma B2SF_valid (b : bf64) : f64_valid (B2SF b).
Proof. apply valid_binary_B2SF. Qed.

Lemma f64R_B2SF (b : bf64) : f64R (B2SF b) = B2R b.
Proof. apply SF2R_B2SF. Qed.

Lemma finite_B2SF (b : bf64) : f64_is_finite (B2SF b) = is_finite b.
Proof. now destruct b. Qed.

Lemma sign_B2SF (b : bf64) : f64_sign (B2SF b) = Bsign b.
Proof. now destruct b. Qed.

Lemma f64_valid_fmt x : f64_valid x -> fmt64 (f64R x).
Proof. intros H. destruct (valid_B2SF x H) as [b ->]. rewrite f64R_B2SF. apply generic_format_B2R. Qed.

Lemma f64R_lt_emax x : f64_valid x -> (Rabs (f64R x) < bpow radix2 1024)%R.
Proof. intros H. destruct (valid_B2SF x H) as [b ->]. rewrite f64R_B2SF. apply abs_B2R_lt_emax. Qed.

(* comparisons of finite values are the comparisons of the real values *)
Lemma ltb_correct x y : f64_valid x -> f64_valid y ->
  f64_is_finite x = true -> f64_is_finite y = true ->
  f64_ltb x y = Rlt_bool (f64R x) (f64R y).
Proof.
  intros Vx Vy. destruct (valid_B2SF x Vx) as [bx ->]. destruct (valid_B2SF y Vy) as [by' ->].
  rewrite !finite_B2SF, !f64R_B2SF. intros Fx Fy. exact (Bltb_correct 53 1024 bx by' Fx Fy).
Qed.

Lemma eqb_correct x y : f64_valid x -> f64_valid y ->
  f64_is_finite x = true -> f64_is_finite y = true ->
  f64_eqb x y = Req_bool (f64R x) (f64R y).
Proof.
  intros Vx Vy. destruct (valid_B2SF x Vx) as [bx ->]. destruct (valid_B2SF y Vy) as [by' ->].
  rewrite !finite_B2SF, !f64R_B2SF. intros Fx Fy. exact (Beqb_correct 53 1024 bx by' Fx Fy).
Qed.

(* [binary_normalize]: the correctly rounded value of m * 2^e *)
Lemma normalize_correct m e szero :
  let x := F2R (Float radix2 m e) in
  let z := SpecFloat.binary_normalize 53 1024 m e szero in
  f64_valid z /\
  if Rlt_bool (Rabs (RN x)) (bpow radix2 1024) then
    f64R z = RN x /\ f64_is_finite z = true /\
    f64_sign z = match Rcompare x 0 with Eq => szero | Lt => true | Gt => false end
  else z = S754_infinity (Rlt_bool x 0).
Proof.
  intros x z. unfold z. rewrite bn_equiv. split; [apply B2SF_valid|].
  generalize (binary_normalize_correct 53 1024 Hprec64 Hmax64 mode_NE m e szero).
  cbv zeta. fold x. change (round_mode mode_NE) with ZnearestE.
  destruct (Rlt_bool _ _).
  - intros (H1 & H2 & H3). rewrite f64R_B2SF, finite_B2SF.
    split; [exact H1|]. split; [exact H2|].
    rewrite sign_B2SF. exact H3.
  - intros ->. reflexivity.
Qed.

(* the exact case: m * 2^e is representable *)
Lemma normalize_exact m e szero :
  let x := F2R (Float radix2 m e) in
  let z := SpecFloat.binary_normalize 53 1024 m e szero in
  fmt64 x -> (Rabs x < bpow radix2 1024)%R ->
  f64_valid z /\ f64R z = x /\ f64_is_finite z = true /\
  f64_sign z = match Rcompare x 0 with Eq => szero | Lt => true | Gt => false end.
Proof.
  intros x z Hf Hb. destruct (normalize_correct m e szero) as [V H]. fold x z in V, H.
  split; [exact V|]. rewrite (round_generic radix2 fexp64 ZnearestE x Hf) in H.
  rewrite (Rlt_bool_true _ _ Hb) in H. exact H.
Qed.

(* ------------------------------------------------------------------ *)
(** * 2. small facts on mantissas, exponents and integers *)

Lemma pow2_radix k : Zpower radix2 k = 2 ^ k.
Proof. reflexivity. Qed.

Lemma bounded_range m e : bounded 53 1024 m e = true -> Z.pos m < 2 ^ 53 /\ -1074 <= e <= 971.
Proof.
  unfold bounded, canonical_mantissa. intros H. apply andb_prop in H. destruct H as [H1 H2].
  apply Zeq_bool_eq in H1. apply Zle_bool_imp_le in H2.
  rewrite Zpos_digits2_pos in H1. unfold SpecFloat.fexp, SpecFloat.emin in H1.
  pose proof (Zdigits_correct radix2 (Z.pos m)) as [_ Hd]. rewrite pow2_radix in Hd.
  cbn [Z.abs] in Hd.
  assert (Hle : Zdigits radix2 (Z.pos m) <= 53) by lia.
  pose proof (Z.pow_le_mono_r 2 _ _ ltac:(lia) Hle). lia.
Qed.

(* an integer below 2^53 scaled by an exponent >= emin is a binary64 number *)
Lemma small_int_fmt n e : Z.abs n < 2 ^ 53 -> -1074 <= e -> fmt64 (F2R (Float radix2 n e)).
Proof.
  intros Hn He. apply (generic_format_FLT radix2 (-1074) 53).
  now exists (Float radix2 n e).
Qed.

Lemma small_int_lt_emax n e : Z.abs n < 2 ^ 53 -> e <= 971 ->
  (Rabs (F2R (Float radix2 n e)) < bpow radix2 1024)%R.
Proof.
  intros Hn He. apply F2R_lt_bpow. cbn [Fnum Fexp]. rewrite pow2_radix.
  pose proof (Z.pow_le_mono_r 2 53 (1024 - e) ltac:(lia) ltac:(lia)). lia.
Qed.

Lemma F2R_int n : F2R (Float radix2 n 0) = IZR n.
Proof. unfold F2R. cbn [Fnum Fexp bpow]. ring. Qed.

Lemma F2R_nonneg_exp n e : 0 <= e -> F2R (Float radix2 n e) = IZR (n * 2 ^ e).
Proof.
  intros He. unfold F2R. cbn [Fnum Fexp]. rewrite mult_IZR. f_equal.
  rewrite <- (IZR_Zpower radix2 e He). reflexivity.
Qed.

Lemma F2R_neg_exp n e : e < 0 -> F2R (Float radix2 n e) = (IZR n / IZR (2 ^ (- e)))%R.
Proof.
  intros He. unfold F2R, Rdiv. cbn [Fnum Fexp]. f_equal.
  replace e with (- (- e)) at 1 by lia. rewrite bpow_opp. f_equal.
  rewrite <- (IZR_Zpower radix2 (- e)) by lia. reflexivity.
Qed.

Lemma f64R_finite s m e : f64R (S754_finite s m e) = F2R (Float radix2 (cond_Zopp s (Z.pos m)) e).
Proof. reflexivity. Qed.

(* ------------------------------------------------------------------ *)
(** * 3. (T4) a non-zero integer converts to a non-zero float *)

Lemma one_fmt : fmt64 1%R.
Proof. apply (generic_format_FLT_1 radix2 (-1074) 53). lia. Qed.

Lemma of_Z_nonzero z : z <> 0 -> f64_eqb (f64_of_i64 z) f64_zero = false.
Proof.
  intros Hz. unfold f64_of_i64, f64_of_Z, prec64, emax64.
  destruct (normalize_correct z 0 false) as [V H]. cbv zeta in V, H.
  rewrite F2R_int in H.
  destruct (Rlt_bool _ _).
  - destruct H as (HR & HF & _).
    rewrite eqb_correct; [|exact V|reflexivity|exact HF|reflexivity].
    apply Req_bool_false. change (f64R f64_zero) with 0%R. rewrite HR.
    destruct (Z_lt_le_dec z 0) as [Hn|Hp].
    + assert (RN (IZR z) <= -1)%R; [|lra].
      apply round_le_generic; [typeclasses eauto|typeclasses eauto| |].
      * apply generic_format_opp. exact one_fmt.
      * apply IZR_le. lia.
    + assert (1 <= RN (IZR z))%R; [|lra].
      apply round_ge_generic; [typeclasses eauto|typeclasses eauto| |].
      * exact one_fmt.
      * apply IZR_le. lia.
  - rewrite H. now destruct (Rlt_bool (IZR z) 0).
Qed.

(* the conversion always gives a valid float, finite for every i64 *)
Lemma of_Z_valid z : f64_valid (f64_of_i64 z).
Proof. exact (proj1 (normalize_correct z 0 false)). Qed.

(* ------------------------------------------------------------------ *)
(** * 4. (T5) floor is exact *)

Lemma floor_div_abs_le v p : 0 < p -> Z.abs (v / p) <= Z.abs v.
Proof.
  intros Hp. pose proof (Z.div_mod v p ltac:(lia)). pose proof (Z.mod_pos_bound v p Hp). nia.
Qed.

Lemma floor_correct x : f64_valid x -> f64_is_finite x = true ->
  f64_valid (f64_floor x) /\ f64_is_finite (f64_floor x) = true /\
  f64R (f64_floor x) = IZR (Zfloor (f64R x)).
Proof.
  intros V F. destruct x as [s|s| |s m e]; try discriminate.
  - (* zero *) cbn [f64_floor]. split; [exact V|]. split; [reflexivity|].
    change (f64R (S754_zero s)) with 0%R. now rewrite Zfloor_IZR.
  - cbn [f64_floor]. destruct (Z.leb_spec 0 e) as [He|He].
    + split; [exact V|]. split; [reflexivity|].
      rewrite f64R_finite, F2R_nonneg_exp by exact He. now rewrite Zfloor_IZR.
    + destruct (bounded_range m e V) as [Hm He'].
      set (v := if s then - Z.pos m else Z.pos m).
      assert (Hv : v = cond_Zopp s (Z.pos m)) by reflexivity.
      assert (Hp : 0 < 2 ^ (- e)) by (apply Z.pow_pos_nonneg; lia).
      set (q := v / 2 ^ (- e)).
      assert (Hq : Z.abs q < 2 ^ 53).
      { pose proof (floor_div_abs_le v (2 ^ (- e)) Hp). fold q in H.
        assert (Z.abs v = Z.pos m) by (unfold v; destruct s; lia). lia. }
      destruct (normalize_exact q 0 s) as (V' & HR & HF & _).
      * apply small_int_fmt; [exact Hq|lia].
      * apply small_int_lt_emax; [exact Hq|lia].
      * unfold prec64, emax64. split; [exact V'|]. split; [exact HF|].
        rewrite HR, F2R_int, f64R_finite, <- Hv, F2R_neg_exp by exact He.
        rewrite Zfloor_div by lia. reflexivity.
Qed.

(* consequences in the usual form *)
Lemma floor_bounds x : f64_valid x -> f64_is_finite x = true ->
  (f64R x - 1 < f64R (f64_floor x) <= f64R x)%R /\ exists n : Z, f64R (f64_floor x) = IZR n.
Proof.
  intros V F. destruct (floor_correct x V F) as (_ & _ & H). rewrite H. split.
  - pose proof (Zfloor_lb (f64R x)). pose proof (Zfloor_ub (f64R x)). lra.
  - now eexists.
Qed.

(* ------------------------------------------------------------------ *)
(** * 5. (T5) `/` is the correctly rounded quotient (Flocq's Bdiv_correct through the bridge) *)

Lemma div_correct a b : f64_valid a -> f64_valid b -> f64R b <> 0%R ->
  f64_valid (f64_div a b) /\
  if Rlt_bool (Rabs (RN (f64R a / f64R b))) (bpow radix2 1024) then
    f64R (f64_div a b) = RN (f64R a / f64R b) /\
    f64_is_finite (f64_div a b) = f64_is_finite a /\
    (f64_is_nan (f64_div a b) = false -> f64_sign (f64_div a b) = xorb (f64_sign a) (f64_sign b))
  else f64_div a b = S754_infinity (xorb (f64_sign a) (f64_sign b)).
Proof.
  intros Va Vb. destruct (valid_B2SF a Va) as [x ->]. destruct (valid_B2SF b Vb) as [y ->].
  rewrite div_equiv, !f64R_B2SF. intros Hy. split; [apply B2SF_valid|].
  generalize (Bdiv_correct 53 1024 Hprec64 Hmax64 mode_NE x y Hy).
  change (round_mode mode_NE) with ZnearestE.
  destruct (Rlt_bool _ _).
  - intros (H1 & H2 & H3). rewrite !finite_B2SF. split; [exact H1|]. split; [exact H2|].
    intros Hn. assert (Hn' : is_nan (Bdiv mode_NE x y) = false) by (now destruct (Bdiv mode_NE x y)).
    rewrite !sign_B2SF. exact (H3 Hn').
  - intros ->. rewrite !sign_B2SF. reflexivity.
Qed.

(* ------------------------------------------------------------------ *)
(** * 6. (T1) the remainder [f64_rem] is C's fmod, and it is exact *)

Lemma cond_Zopp_mul s a p : cond_Zopp s a * p = cond_Zopp s (a * p).
Proof. destruct s; cbn [cond_Zopp]; ring. Qed.

Lemma rem_cond_Zopp sx sy X Y : 0 <= X -> 0 < Y ->
  Z.rem (cond_Zopp sx X) (cond_Zopp sy Y) = cond_Zopp sx (X mod Y).
Proof.
  intros HX HY. destruct sx, sy; cbn [cond_Zopp];
    rewrite ?Z.rem_opp_l', ?Z.rem_opp_r', Z.rem_mod_nonneg by assumption; reflexivity.
Qed.

Lemma finite_nonzero_R s m e : f64R (S754_finite s m e) <> 0%R.
Proof.
  rewrite f64R_finite. intros H. apply eq_0_F2R in H. destruct s; discriminate.
Qed.

Lemma sign_real x : f64_is_finite x = true ->
  (f64_sign x = true -> (f64R x <= 0)%R) /\ (f64_sign x = false -> (0 <= f64R x)%R).
Proof.
  destruct x as [s|s| |s m e]; try discriminate; intros _; cbn [f64_sign].
  - change (f64R (S754_zero s)) with 0%R. split; intros _; lra.
  - rewrite f64R_finite. split; intros ->; [apply F2R_le_0|apply F2R_ge_0]; cbn; lia.
Qed.

(* the integer view of a finite/finite remainder *)
Lemma rem_finite_correct sx mx ex sy my ey :
  bounded 53 1024 mx ex = true -> bounded 53 1024 my ey = true ->
  let a := S754_finite sx mx ex in
  let b := S754_finite sy my ey in
  let r := f64_rem a b in
  f64_valid r /\ f64_is_finite r = true /\ f64_sign r = sx /\
  f64R r = (f64R a - IZR (Ztrunc (f64R a / f64R b)) * f64R b)%R /\
  (Rabs (f64R r) < Rabs (f64R b))%R.
Proof.
  intros Bx By a b r.
  destruct (bounded_range mx ex Bx) as [Hmx Hex].
  destruct (bounded_range my ey By) as [Hmy Hey].
  set (e := Z.min ex ey).
  set (X := Z.pos mx * 2 ^ (ex - e)).
  set (Y := Z.pos my * 2 ^ (ey - e)).
  assert (Hpx : 0 < 2 ^ (ex - e)) by (apply Z.pow_pos_nonneg; lia).
  assert (Hpy : 0 < 2 ^ (ey - e)) by (apply Z.pow_pos_nonneg; lia).
  assert (HX : 0 < X) by (unfold X; lia).
  assert (HY : 0 < Y) by (unfold Y; lia).
  pose proof (Z.mod_pos_bound X Y HY) as HR.
  pose proof (Z.mod_le X Y ltac:(lia) HY) as HRX.
  set (Rm := X mod Y) in *.
  (* the value of the operands on the common exponent *)
  assert (Ea : f64R a = F2R (Float radix2 (cond_Zopp sx X) e)).
  { unfold a. rewrite f64R_finite. rewrite (F2R_change_exp radix2 e _ ex) by lia.
    now rewrite pow2_radix, cond_Zopp_mul. }
  assert (Eb : f64R b = F2R (Float radix2 (cond_Zopp sy Y) e)).
  { unfold b. rewrite f64R_finite. rewrite (F2R_change_exp radix2 e _ ey) by lia.
    now rewrite pow2_radix, cond_Zopp_mul. }
  (* the remainder's mantissa is below 2^53 *)
  assert (HRs : Rm < 2 ^ 53).
  { destruct (Z.le_ge_cases ex ey) as [Hle|Hle].
    - assert (ex - e = 0) by lia. assert (X = Z.pos mx) by (unfold X; rewrite H; lia). lia.
    - assert (ey - e = 0) by lia. assert (Y = Z.pos my) by (unfold Y; rewrite H; lia). lia. }
  assert (Er : r = SpecFloat.binary_normalize 53 1024 (cond_Zopp sx Rm) e sx).
  { unfold r, a, b, f64_rem, prec64, emax64. fold e. fold X. fold Y. fold Rm. now destruct sx. }
  assert (Habs : Z.abs (cond_Zopp sx Rm) = Rm) by (destruct sx; cbn [cond_Zopp]; lia).
  destruct (normalize_exact (cond_Zopp sx Rm) e sx) as (V & HRr & HF & HS).
  { apply small_int_fmt; lia. }
  { apply small_int_lt_emax; lia. }
  rewrite <- Er in V, HRr, HF, HS.
  split; [exact V|]. split; [exact HF|]. split; [|split].
  - rewrite HS. rewrite <- (F2R_0 radix2 e), Rcompare_F2R.
    destruct sx; cbn [cond_Zopp]; destruct (Z.compare_spec (- Rm) 0); destruct (Z.compare_spec Rm 0);
      try reflexivity; lia.
  - rewrite HRr, Ea, Eb. unfold Rm. rewrite <- (rem_cond_Zopp sx sy X Y) by lia.
    set (sX := cond_Zopp sx X). set (sY := cond_Zopp sy Y).
    assert (HsY : sY <> 0) by (unfold sY; destruct sy; cbn [cond_Zopp]; lia).
    unfold F2R. cbn [Fnum Fexp].
    assert (Hp : bpow radix2 e <> 0%R) by (apply Rgt_not_eq, bpow_gt_0).
    assert (HsYR : IZR sY <> 0%R) by (apply not_0_IZR; exact HsY).
    replace (IZR sX * bpow radix2 e / (IZR sY * bpow radix2 e))%R with (IZR sX / IZR sY)%R
      by (field; split; assumption).
    rewrite Ztrunc_div by exact HsY.
    assert (Hqr : IZR sX = (IZR sY * IZR (Z.quot sX sY) + IZR (Z.rem sX sY))%R).
    { rewrite <- mult_IZR, <- plus_IZR. f_equal. apply Z.quot_rem'. }
    replace (IZR (Z.rem sX sY)) with (IZR sX - IZR sY * IZR (Z.quot sX sY))%R by lra.
    ring.
  - rewrite HRr, Eb, <- !F2R_Zabs, Habs. apply F2R_lt.
    destruct sy; cbn [cond_Zopp]; lia.
Qed.

Lemma rem_correct a b :
  f64_valid a -> f64_valid b -> f64_is_finite a = true -> f64_is_finite b = true ->
  f64_is_zero b = false ->
  let r := f64_rem a b in
  f64_valid r /\ f64_is_finite r = true /\ f64_sign r = f64_sign a /\
  f64R r = (f64R a - IZR (Ztrunc (f64R a / f64R b)) * f64R b)%R /\
  (Rabs (f64R r) < Rabs (f64R b))%R.
Proof.
  intros Va Vb Fa Fb Zb.
  destruct b as [sy|sy| |sy my ey]; try discriminate.
  destruct a as [sx|sx| |sx mx ex]; try discriminate.
  - (* a = +-0 : the remainder is a itself *)
    cbn [f64_rem]. cbv zeta. split; [exact Va|]. split; [reflexivity|]. split; [reflexivity|].
    change (f64R (S754_zero sx)) with 0%R. split.
    + unfold Rdiv. rewrite Rmult_0_l, Ztrunc_IZR. ring.
    + rewrite Rabs_R0. apply Rabs_pos_lt. apply finite_nonzero_R.
  - exact (rem_finite_correct sx mx ex sy my ey Va Vb).
Qed.

(* ------------------------------------------------------------------ *)
(** * 7. addition through the bridge, rounding between 0 and a representable bound *)

Lemma add_correct x y :
  f64_valid x -> f64_valid y -> f64_is_finite x = true -> f64_is_finite y = true ->
  f64_valid (f64_add x y) /\
  ((Rabs (RN (f64R x + f64R y)) < bpow radix2 1024)%R ->
   f64R (f64_add x y) = RN (f64R x + f64R y) /\ f64_is_finite (f64_add x y) = true).
Proof.
  intros Vx Vy. destruct (valid_B2SF x Vx) as [bx ->]. destruct (valid_B2SF y Vy) as [by' ->].
  rewrite add_equiv, !finite_B2SF, !f64R_B2SF. intros Fx Fy. split; [apply B2SF_valid|].
  intros Hlt. generalize (Bplus_correct 53 1024 Hprec64 Hmax64 mode_NE bx by' Fx Fy).
  change (round_mode mode_NE) with ZnearestE. rewrite (Rlt_bool_true _ _ Hlt).
  intros (H1 & H2 & _). now split.
Qed.

Lemma RN_between B S : fmt64 B ->
  ((0 <= S <= B)%R -> (0 <= RN S <= B)%R) /\ ((B <= S <= 0)%R -> (B <= RN S <= 0)%R).
Proof.
  intros HB. split; intros [H1 H2]; split.
  - apply round_ge_generic; [typeclasses eauto|typeclasses eauto|apply generic_format_0|exact H1].
  - apply round_le_generic; [typeclasses eauto|typeclasses eauto|exact HB|exact H2].
  - apply round_ge_generic; [typeclasses eauto|typeclasses eauto|exact HB|exact H1].
  - apply round_le_generic; [typeclasses eauto|typeclasses eauto|apply generic_format_0|exact H2].
Qed.

(* ------------------------------------------------------------------ *)
(** * 8. (T2, T3) the float `%`: sign of the divisor, magnitude at most |b| *)

Lemma nonzero_not_zero x : f64R x <> 0%R -> f64_is_zero x = false.
Proof. destruct x; try reflexivity. intros H. now elim H. Qed.

Lemma finite_nonzero_split b : f64_is_finite b = true -> f64_is_zero b = false ->
  exists s m e, b = S754_finite s m e.
Proof. destruct b as [s|s| |s m e]; try discriminate. intros _ _. now exists s, m, e. Qed.

Lemma eqb_zero_finite s m e : f64_eqb (S754_finite s m e) f64_zero = false.
Proof. now destruct s. Qed.

(* the value computed by the generated kernel once its debug assertion holds *)
Definition py_mod_val (a b : f64) : f64 :=
  let r := f64_rem a b in
  if (f64_ltb f64_zero r && f64_ltb b f64_zero) || (f64_ltb r f64_zero && f64_ltb f64_zero b)
  then f64_add r b else r.

Lemma impl_is_val m a b :
  f64_eqb b f64_zero = false -> stdlib_py_mod_f64_impl m a b = Val (py_mod_val a b).
Proof.
  intros H. unfold stdlib_py_mod_f64_impl, dbg_assert, bind.
  change (f64_of_bits 0) with f64_zero. rewrite H. destruct m; reflexivity.
Qed.

(* r and b of strictly opposite signs with |r| < |b|: the rounded sum stays between 0 and b *)
Lemma add_leaf r b :
  f64_valid r -> f64_valid b -> f64_is_finite r = true -> f64_is_finite b = true ->
  ((0 < f64R b /\ - f64R b < f64R r < 0) \/ (f64R b < 0 /\ 0 < f64R r < - f64R b))%R ->
  let s := f64_add r b in
  f64_valid s /\ f64_is_finite s = true /\ f64R s = RN (f64R r + f64R b) /\
  ((0 < f64R b)%R -> (0 <= f64R s <= f64R b)%R) /\
  ((f64R b < 0)%R -> (f64R b <= f64R s <= 0)%R) /\
  (f64_eqb s b = false -> (Rabs (f64R s) < Rabs (f64R b))%R) /\
  (f64_eqb s b = true -> f64R s = f64R b).
Proof.
  intros Vr Vb Fr Fb Hc s.
  destruct (add_correct r b Vr Vb Fr Fb) as [Vs Hs]. fold s in Vs, Hs.
  pose proof (f64_valid_fmt b Vb) as HfB. pose proof (f64R_lt_emax b Vb) as HltB.
  destruct (RN_between (f64R b) (f64R r + f64R b) HfB) as [Hp Hn].
  set (R := f64R r) in *. set (B := f64R b) in *. set (S := RN (R + B)) in *.
  assert (Hbnd : (Rabs S <= Rabs B)%R).
  { destruct Hc as [[H1 H2]|[H1 H2]].
    - destruct Hp as [Ha Hb]; [lra|]. rewrite !Rabs_pos_eq by lra. exact Hb.
    - destruct Hn as [Ha Hb]; [lra|]. rewrite !Rabs_left1 by lra. lra. }
  destruct Hs as [HS HF]; [lra|].
  split; [exact Vs|]. split; [exact HF|]. split; [exact HS|].
  rewrite HS. split; [intros H; apply Hp; lra|]. split; [intros H; apply Hn; lra|].
  rewrite (eqb_correct s b Vs Vb HF Fb), HS. fold B.
  split; intros He.
  - assert (Hne : S <> B) by (destruct (Req_bool_spec S B); [discriminate|assumption]).
    destruct Hc as [[H1 H2]|[H1 H2]].
    + destruct Hp as [Ha Hb]; [lra|]. rewrite !Rabs_pos_eq by lra.
      destruct Hb as [Hl|He']; [exact Hl|now elim Hne].
    + destruct Hn as [Ha Hb]; [lra|]. rewrite !Rabs_left1 by lra.
      destruct Ha as [Hl|He']; [lra|now elim Hne].
  - destruct (Req_bool_spec S B); [assumption|discriminate].
Qed.

Lemma py_mod_val_correct a b :
  f64_valid a -> f64_valid b -> f64_is_finite a = true -> f64_is_finite b = true ->
  f64_is_zero b = false ->
  let r := f64_rem a b in
  let r' := py_mod_val a b in
  let opposite := ((0 < f64R r /\ f64R b < 0) \/ (f64R r < 0 /\ 0 < f64R b))%R in
  f64_valid r' /\ f64_is_finite r' = true /\
  (opposite -> f64R r' = RN (f64R r + f64R b)) /\ (~ opposite -> r' = r) /\
  ((0 < f64R b)%R -> (0 <= f64R r' <= f64R b)%R) /\
  ((f64R b < 0)%R -> (f64R b <= f64R r' <= 0)%R) /\
  (rounds_to_divisor a b = false -> (Rabs (f64R r') < Rabs (f64R b))%R) /\
  (rounds_to_divisor a b = true -> opposite -> f64R r' = f64R b).
Proof.
  intros Va Vb Fa Fb Zb r r' opposite.
  destruct (rem_correct a b Va Vb Fa Fb Zb) as (Vr & Fr & _ & _ & Hlt). fold r in Vr, Fr, Hlt.
  assert (HB0 : f64R b <> 0%R).
  { destruct (finite_nonzero_split b Fb Zb) as (s & m & e & ->). apply finite_nonzero_R. }
  assert (Vz : f64_valid f64_zero) by reflexivity.
  assert (Fz : f64_is_finite f64_zero = true) by reflexivity.
  assert (Er' : r' = if (Rlt_bool 0 (f64R r) && Rlt_bool (f64R b) 0) || (Rlt_bool (f64R r) 0 && Rlt_bool 0 (f64R b))
                     then f64_add r b else r).
  { unfold r', py_mod_val. fold r.
    rewrite (ltb_correct f64_zero r Vz Vr Fz Fr), (ltb_correct b f64_zero Vb Vz Fb Fz),
            (ltb_correct r f64_zero Vr Vz Fr Fz), (ltb_correct f64_zero b Vz Vb Fz Fb).
    reflexivity. }
  assert (Hrd : rounds_to_divisor a b = negb (f64_is_zero r) && f64_eqb (f64_add r b) b) by reflexivity.
  unfold opposite. clearbody r r'. clear opposite.
  set (R := f64R r) in *. set (B := f64R b) in *.
  assert (HBp : (0 < B -> - B < R < B)%R).
  { intros H. rewrite (Rabs_pos_eq B) in Hlt by lra. now apply Rabs_lt_inv in Hlt. }
  assert (HBn : (B < 0 -> B < R < - B)%R).
  { intros H. rewrite (Rabs_left B) in Hlt by lra. apply Rabs_lt_inv in Hlt. lra. }
  (* the two leaves *)
  match goal with |- ?G =>
    assert (Lid : r' = r -> ~ ((0 < R /\ B < 0) \/ (R < 0 /\ 0 < B))%R -> G);
    [|assert (Ladd : r' = f64_add r b -> ((0 < R /\ B < 0) \/ (R < 0 /\ 0 < B))%R -> G)] end.
  { intros -> Hno. fold R.
    split; [exact Vr|]. split; [exact Fr|]. split; [intros H; now elim Hno|]. split; [reflexivity|].
    split; [intros H; specialize (HBp H); lra|]. split; [intros H; specialize (HBn H); lra|].
    split; [intros _; exact Hlt|]. intros _ H. now elim Hno. }
  { intros -> Hop.
    assert (Hc : ((0 < B /\ - B < R < 0) \/ (B < 0 /\ 0 < R < - B))%R).
    { destruct Hop as [[H1 H2]|[H1 H2]]; [right|left]; (split; [assumption|]);
        [specialize (HBn H2)|specialize (HBp H2)]; lra. }
    destruct (add_leaf r b Vr Vb Fr Fb Hc) as (Vs & Fs & HS & Hp & Hn & Hne & Heq).
    assert (HRz : f64_is_zero r = false).
    { apply nonzero_not_zero. fold R. destruct Hop as [[H1 _]|[H1 _]]; lra. }
    rewrite Hrd, HRz. cbn [negb andb].
    split; [exact Vs|]. split; [exact Fs|]. split; [intros _; exact HS|].
    split; [intros H; now elim H|]. split; [exact Hp|]. split; [exact Hn|].
    split; [exact Hne|]. intros H _. exact (Heq H). }
  destruct (Rtotal_order B 0) as [Bn|[Bz|Bp]]; [|now elim HB0|].
  - rewrite (Rlt_bool_true B 0 Bn), (Rlt_bool_false 0 B) in Er' by lra.
    rewrite andb_true_r, andb_false_r, orb_false_r in Er'.
    revert Er'. destruct (Rlt_bool_spec 0 R) as [HR|HR]; intros Er'.
    + apply Ladd; [exact Er'|lra].
    + apply Lid; [exact Er'|lra].
  - rewrite (Rlt_bool_false B 0), (Rlt_bool_true 0 B Bp) in Er' by lra.
    rewrite andb_true_r, andb_false_r, orb_false_l in Er'.
    revert Er'. destruct (Rlt_bool_spec R 0) as [HR|HR]; intros Er'.
    + apply Ladd; [exact Er'|lra].
    + apply Lid; [exact Er'|lra].
Qed.

(* ------------------------------------------------------------------ *)
(** * 9. every bit pattern decodes to a valid float; i64 -> f64 is finite *)

Lemma bounded_intro p e :
  (Z.pos p < 2 ^ 52 /\ e = -1074) \/ (2 ^ 52 <= Z.pos p < 2 ^ 53 /\ -1074 <= e <= 971) ->
  bounded 53 1024 p e = true.
Proof.
  intros H. unfold bounded, canonical_mantissa. apply andb_true_intro. split.
  - apply Zeq_bool_true. rewrite Zpos_digits2_pos. unfold SpecFloat.fexp, SpecFloat.emin.
    destruct H as [[H1 ->]|[H1 H2]].
    + pose proof (Zdigits_le_Zpower radix2 52 (Z.pos p)) as Hd. rewrite pow2_radix in Hd.
      cbn [Z.abs] in Hd. specialize (Hd H1). lia.
    + rewrite (Zdigits_unique radix2 (Z.pos p) 53); [lia|].
      exact H1.
  - apply Zle_imp_le_bool. lia.
Qed.

Lemma of_bits_valid z : f64_valid (f64_of_bits z).
Proof.
  unfold f64_of_bits. cbv zeta.
  pose proof (Z.mod_pos_bound (z / 2 ^ 52) (2 ^ 11) ltac:(lia)) as He.
  pose proof (Z.mod_pos_bound z (2 ^ 52) ltac:(lia)) as Hm.
  set (s := (z / 2 ^ 63) mod 2 =? 1).
  set (e := (z / 2 ^ 52) mod 2 ^ 11) in *. set (m := z mod 2 ^ 52) in *.
  destruct (Z.eqb_spec e 0) as [E0|E0].
  - destruct (Z.eqb_spec m 0); [reflexivity|]. unfold f64_valid. cbn [valid_binary].
    apply bounded_intro. left. rewrite Z2Pos.id by lia. lia.
  - destruct (Z.eqb_spec e 2047); [destruct (m =? 0); reflexivity|].
    unfold f64_valid. cbn [valid_binary].
    apply bounded_intro. right. rewrite Z2Pos.id by lia. lia.
Qed.

Lemma of_i64_finite z : in_i64 z -> f64_is_finite (f64_of_i64 z) = true.
Proof.
  intros Hz. unfold f64_of_i64, f64_of_Z, prec64, emax64.
  destruct (normalize_correct z 0 false) as [V H]. cbv zeta in V, H. rewrite F2R_int in H.
  rewrite Rlt_bool_true in H; [exact (proj1 (proj2 H))|].
  apply Rle_lt_trans with (bpow radix2 63); [|apply bpow_lt; lia].
  apply abs_round_le_generic; [typeclasses eauto|typeclasses eauto| |].
  - apply (generic_format_FLT_bpow radix2 (-1074) 53). lia.
  - rewrite <- abs_IZR, <- (IZR_Zpower radix2 63) by lia. apply IZR_le. rewrite pow2_radix.
    unfold in_i64, MIN64, MAX64 in Hz. lia.
Qed.

Lemma eqb_zero_false_not_zero x : f64_eqb x f64_zero = false -> f64_is_zero x = false.
Proof. destruct x; try reflexivity. discriminate. Qed.

Lemma nonzero_conv_holds r : nonzero_conv r.
Proof. intros b _ Hb. now apply of_Z_nonzero. Qed.

(* ------------------------------------------------------------------ *)
(** * 10. the entry points of C04/Model.v on well-formed operands *)

(* a well-formed operand: an i64, or a valid finite binary64 *)
Definition num_ok (n : num) : Prop :=
  match n with NI z => in_i64 z | NF f => f64_valid f /\ f64_is_finite f = true end.

Lemma to_float_ok n : num_ok n -> f64_valid (to_float n) /\ f64_is_finite (to_float n) = true.
Proof.
  destruct n as [z|f]; cbn [num_ok to_float]; [|tauto].
  intros Hz. split; [apply of_Z_valid|now apply of_i64_finite].
Qed.

Lemma to_float_nonzero r : is_zero r = false ->
  f64_eqb (to_float r) f64_zero = false /\ f64_is_zero (to_float r) = false.
Proof.
  intros Hz. assert (H : f64_eqb (to_float r) f64_zero = false).
  { destruct r as [b|f]; cbn [is_zero to_float] in *; [|exact Hz].
    apply of_Z_nonzero. now apply Z.eqb_neq. }
  split; [exact H|now apply eqb_zero_false_not_zero].
Qed.

Lemma py_mod_float_entry m l r :
  is_zero r = false -> (forall a b, ~ (l = NI a /\ r = NI b)) ->
  py_mod m l r = OFloat (py_mod_val (to_float l) (to_float r)).
Proof.
  intros Hz Hk. destruct (to_float_nonzero r Hz) as [He _].
  unfold py_mod. rewrite Hz.
  destruct l as [a|fa], r as [b|fb]; try (rewrite (impl_is_val _ _ _ He); reflexivity).
  exfalso. apply (Hk a b). now split.
Qed.

Lemma mod_total_unconditional m l r :
  (forall a b, l = NI a -> r = NI b -> in_i64 a /\ in_i64 b) ->
  is_value_or_zero_div (py_mod m l r).
Proof. intros H. apply mod_total; [exact H|right; apply nonzero_conv_holds]. Qed.

(* `//` on floats: the exact floor of the correctly rounded quotient *)
Lemma floor_div_float_correct a b :
  f64_valid a -> f64_valid b -> f64_is_finite a = true -> f64_is_finite b = true ->
  f64_is_zero b = false ->
  let q := f64_div a b in
  let Q := RN (f64R a / f64R b) in
  f64_valid q /\ f64_valid (f64_floor q) /\
  if Rlt_bool (Rabs Q) (bpow radix2 1024) then
    f64R q = Q /\ f64_is_finite (f64_floor q) = true /\ f64R (f64_floor q) = IZR (Zfloor Q)
  else q = S754_infinity (xorb (f64_sign a) (f64_sign b)) /\ f64_floor q = q.
Proof.
  intros Va Vb Fa Fb Zb q Q.
  assert (HB0 : f64R b <> 0%R).
  { destruct (finite_nonzero_split b Fb Zb) as (s & m & e & ->). apply finite_nonzero_R. }
  destruct (div_correct a b Va Vb HB0) as [Vq H]. fold q Q in Vq, H.
  split; [exact Vq|].
  destruct (Rlt_bool (Rabs Q) (bpow radix2 1024)).
  - destruct H as (HR & HF & _). rewrite Fa in HF.
    destruct (floor_correct q Vq HF) as (V' & F' & R').
    split; [exact V'|]. split; [exact HR|]. split; [exact F'|]. now rewrite R', HR.
  - rewrite H. split; [reflexivity|]. split; reflexivity.
Qed.

(* ------------------------------------------------------------------ *)
(** * 11. assembled statements used by C04/PropsFloat.v *)

(* (T1) complete: C's fmod *)
Lemma rem_is_fmod a b :
  f64_valid a -> f64_valid b -> f64_is_finite a = true -> f64_is_finite b = true ->
  f64_is_zero b = false ->
  let r := f64_rem a b in
  f64_valid r /\ f64_is_finite r = true /\ f64_sign r = f64_sign a /\
  f64R r = (f64R a - IZR (Ztrunc (f64R a / f64R b)) * f64R b)%R /\
  (Rabs (f64R r) < Rabs (f64R b))%R /\
  ((0 <= f64R a)%R -> (0 <= f64R r)%R) /\ ((f64R a <= 0)%R -> (f64R r <= 0)%R).
Proof.
  intros Va Vb Fa Fb Zb r.
  destruct (rem_correct a b Va Vb Fa Fb Zb) as (Vr & Fr & Sr & Er & Hlt). fold r in Vr, Fr, Sr, Er, Hlt.
  split; [exact Vr|]. split; [exact Fr|]. split; [exact Sr|]. split; [exact Er|]. split; [exact Hlt|].
  destruct (sign_real r Fr) as [Hrt Hrf]. destruct (sign_real a Fa) as [Hat Haf].
  assert (Hz : f64R a = 0%R -> f64R r = 0%R).
  { intros H0. rewrite Er, H0. unfold Rdiv. rewrite Rmult_0_l, Ztrunc_IZR. ring. }
  rewrite Sr in Hrt, Hrf.
  split; intros H; destruct (f64_sign a).
  - specialize (Hat eq_refl). rewrite Hz by lra. lra.
  - now apply Hrf.
  - now apply Hrt.
  - specialize (Haf eq_refl). rewrite Hz by lra. lra.
Qed.

(* (T2, T3) on the entry point, int operands promoted *)
Lemma py_mod_entry_correct m l r :
  num_ok l -> num_ok r -> is_zero r = false -> (forall a b, ~ (l = NI a /\ r = NI b)) ->
  let a := to_float l in
  let b := to_float r in
  exists r' : f64,
    py_mod m l r = OFloat r' /\ stdlib_py_mod_f64_impl m a b = Val r' /\
    f64_valid r' /\ f64_is_finite r' = true /\
    ((0 < f64R b)%R -> (0 <= f64R r' <= f64R b)%R) /\
    ((f64R b < 0)%R -> (f64R b <= f64R r' <= 0)%R) /\
    (rounds_to_divisor a b = false -> (Rabs (f64R r') < Rabs (f64R b))%R).
Proof.
  intros Hl Hr Hz Hk a b.
  destruct (to_float_ok l Hl) as [Va Fa]. destruct (to_float_ok r Hr) as [Vb Fb].
  destruct (to_float_nonzero r Hz) as [He Zb]. fold a in Va, Fa. fold b in Vb, Fb, He, Zb.
  destruct (py_mod_val_correct a b Va Vb Fa Fb Zb) as (V' & F' & _ & _ & Hp & Hn & Hm & _).
  exists (py_mod_val a b).
  split; [exact (py_mod_float_entry m l r Hz Hk)|]. split; [exact (impl_is_val m a b He)|].
  split; [exact V'|]. split; [exact F'|]. split; [exact Hp|]. split; [exact Hn|exact Hm].
Qed.

(* the kernel itself, both build modes, with the exact value it computes *)
Lemma py_mod_kernel_correct m a b :
  f64_valid a -> f64_valid b -> f64_is_finite a = true -> f64_is_finite b = true ->
  f64_is_zero b = false ->
  let r := f64_rem a b in
  let opposite := ((0 < f64R r /\ f64R b < 0) \/ (f64R r < 0 /\ 0 < f64R b))%R in
  exists r' : f64,
    stdlib_py_mod_f64_impl m a b = Val r' /\ py_mod m (NF a) (NF b) = OFloat r' /\
    f64_valid r' /\ f64_is_finite r' = true /\
    (opposite -> f64R r' = RN (f64R r + f64R b)) /\ (~ opposite -> r' = r) /\
    ((0 < f64R b)%R -> (0 <= f64R r' <= f64R b)%R) /\
    ((f64R b < 0)%R -> (f64R b <= f64R r' <= 0)%R) /\
    (rounds_to_divisor a b = false -> (Rabs (f64R r') < Rabs (f64R b))%R) /\
    (rounds_to_divisor a b = true -> opposite -> f64R r' = f64R b) /\
    (~ opposite -> (Rabs (f64R r') < Rabs (f64R b))%R).
Proof.
  intros Va Vb Fa Fb Zb r opposite.
  assert (He : f64_eqb b f64_zero = false).
  { destruct (finite_nonzero_split b Fb Zb) as (s & mb & e & ->). apply eqb_zero_finite. }
  exists (py_mod_val a b).
  split; [exact (impl_is_val m a b He)|]. split.
  - apply (py_mod_float_entry m (NF a) (NF b)); [exact He|]. intros x y [H _]. discriminate.
  - destruct (py_mod_val_correct a b Va Vb Fa Fb Zb) as (V' & F' & Hop & Hno & Hp & Hn & Hm & Hrd).
    destruct (rem_correct a b Va Vb Fa Fb Zb) as (_ & _ & _ & _ & Hlt).
    repeat (split; [assumption|]). intros H. rewrite (Hno H). exact Hlt.
Qed.

(* (T5) `//` and `/` on the entry points *)
Lemma py_floor_div_entry_correct m l r :
  num_ok l -> num_ok r -> is_zero r = false -> (forall a b, ~ (l = NI a /\ r = NI b)) ->
  let a := to_float l in
  let b := to_float r in
  let Q := RN (f64R a / f64R b) in
  f64R b <> 0%R /\
  py_div l r = OFloat (f64_div a b) /\
  py_floor_div m l r = OFloat (f64_floor (f64_div a b)) /\
  f64_valid (f64_div a b) /\ f64_valid (f64_floor (f64_div a b)) /\
  if Rlt_bool (Rabs Q) (bpow radix2 1024) then
    f64R (f64_div a b) = Q /\ f64_is_finite (f64_floor (f64_div a b)) = true /\
    f64R (f64_floor (f64_div a b)) = IZR (Zfloor Q)
  else f64_div a b = S754_infinity (xorb (f64_sign a) (f64_sign b)) /\
       f64_floor (f64_div a b) = f64_div a b.
Proof.
  intros Hl Hr Hz Hk a b Q.
  destruct (to_float_ok l Hl) as [Va Fa]. destruct (to_float_ok r Hr) as [Vb Fb].
  destruct (to_float_nonzero r Hz) as [He Zb]. fold a in Va, Fa. fold b in Vb, Fb, He, Zb.
  split. { destruct (finite_nonzero_split b Fb Zb) as (s & mb & e & ->). apply finite_nonzero_R. }
  split; [exact (py_div_is_ieee l r He)|]. split; [exact (py_floor_div_float l r m Hz Hk)|].
  destruct (floor_div_float_correct a b Va Vb Fa Fb Zb) as (V1 & V2 & H).
  split; [exact V1|]. split; [exact V2|exact H].
Qed.
