(* C04/Model.v — hand-written model of the generic entry points of incan_stdlib::num
   (py_div / py_mod / py_floor_div over the four operand-kind pairs), on top of the kernels
   that rs2v generates from the current source (Gen/StdNum.v, Gen/CoreNum.v).
   Definitions only. *)
From Verif Require Import Base.I64 Base.F64 Gen.CoreNum Gen.StdNum.
Open Scope Z_scope.

Inductive num := NI (z : Z) | NF (f : f64).

(* what a call does: a value, the documented ZeroDivisionError, or some other Rust panic *)
Inductive outcome :=
| OInt (z : Z)
| OFloat (f : f64)
| OZeroDiv                (* panic "ZeroDivisionError: float division by zero" *)
| OPanic (k : trap_kind). (* any other abort: overflow, Rust's own division panic, assert *)

Definition to_float (n : num) : f64 :=
  match n with NI z => f64_of_i64 z | NF f => f end.

(* sealed::IncanNumeric::is_zero : `*self == 0` / `*self == 0.0` (true for -0.0, false for NaN) *)
Definition is_zero (n : num) : bool :=
  match n with NI z => z =? 0 | NF f => f64_eqb f f64_zero end.

Definition lift_i (r : res Z) : outcome :=
  match r with Val z => OInt z | Trp Raised => OZeroDiv | Trp k => OPanic k end.
Definition lift_f (r : res f64) : outcome :=
  match r with Val f => OFloat f | Trp Raised => OZeroDiv | Trp k => OPanic k end.

(* pub fn py_div<L, R>(lhs, rhs) -> f64 *)
Definition py_div (l r : num) : outcome :=
  let lf := to_float l in
  let rf := to_float r in
  if f64_eqb rf f64_zero then OZeroDiv else OFloat (f64_div lf rf).

(* pub fn py_mod<L, R>(lhs, rhs): zero test on the un-promoted divisor, then the PyModImpl impls *)
Definition py_mod (m : mode) (l r : num) : outcome :=
  if is_zero r then OZeroDiv else
  match l, r with
  | NI a, NI b => lift_i (stdlib_py_mod_i64_impl m a b)
  | _, _ => lift_f (stdlib_py_mod_f64_impl m (to_float l) (to_float r))
  end.

(* pub fn py_floor_div<L, R>(lhs, rhs) *)
Definition py_floor_div (m : mode) (l r : num) : outcome :=
  if is_zero r then OZeroDiv else
  match l, r with
  | NI a, NI b => lift_i (stdlib_py_floor_div_i64_impl m a b)
  | _, _ => OFloat (f64_floor (f64_div (to_float l) (to_float r)))
  end.

(* the suffixed compatibility wrappers are generated (Gen/StdNum.v); here only their lifting *)
Definition py_floor_div_i64 (m : mode) (a b : Z) : outcome := lift_i (stdlib_py_floor_div_i64 m a b).
Definition py_mod_i64 (m : mode) (a b : Z) : outcome := lift_i (stdlib_py_mod_i64 m a b).
Definition py_floor_div_f64 (m : mode) (a b : f64) : outcome := lift_f (stdlib_py_floor_div_f64 m a b).
Definition py_mod_f64 (m : mode) (a b : f64) : outcome := lift_f (stdlib_py_mod_f64 m a b).

(* semantic core (compile-time side) *)
Definition core_mod_i64 (m : mode) (a b : Z) : outcome := lift_i (core_py_mod_i64_impl m a b).
Definition core_floor_div_i64 (m : mode) (a b : Z) : outcome := lift_i (core_py_floor_div_i64_impl m a b).
Definition core_mod_f64 (m : mode) (a b : f64) : outcome := lift_f (core_py_mod_f64_impl m a b).

(* ---- the independent specification (Python over unbounded integers) ---- *)
Definition spec_floor_div (a b : Z) : Z := a / b.     (* Coq's Z.div rounds toward -infinity *)
Definition spec_mod (a b : Z) : Z := a mod b.         (* Coq's Z.modulo has the sign of the divisor *)

(* ---- known finding C04-fmod-rounds-to-divisor: r + b rounds to b ---- *)
Definition rounds_to_divisor (a b : f64) : bool :=
  let r := f64_rem a b in
  negb (f64_is_zero r) && f64_eqb (f64_add r b) b.

(* ---- rendering for the correspondence run ---- *)
Definition render (o : outcome) : Z * Z :=
  match o with
  | OInt z => (0, z)
  | OFloat f => (1, f64_to_bits f)
  | OZeroDiv => (2, 0)
  | OPanic Overflow => (3, 0)
  | OPanic DivZero => (3, 1)
  | OPanic AssertFail => (3, 2)
  | OPanic Raised => (3, 3)
  end.
