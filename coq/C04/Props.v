(* C04/Props.v — the property theorems for C04, and nothing else.
   Each is pinned by its statement, closed by [exact], and followed by Print Assumptions.
   The kernels [stdlib_*]/[core_*] are regenerated from /repo by rs2v on every run. *)
From Verif Require Import Base.I64 Base.F64 Gen.CoreNum Gen.StdNum C04.Model C04.Proofs C04.ProofsModel.
Open Scope Z_scope.

(* hypotheses are satisfiable by non-trivial values *)
Example C04_nonvacuous :
  in_i64 (-7) /\ in_i64 3 /\ 3 <> 0 /\ ~ (-7 = MIN64 /\ 3 = -1) /\
  py_floor_div Wrap (NI (-7)) (NI 3) = OInt (-3) /\ py_mod Trap (NI (-7)) (NI 3) = OInt 2 /\
  py_mod Wrap (NI MIN64) (NI (-1)) = OInt 0.
Proof. repeat split; try (unfold in_i64, MIN64, MAX64; lia); vm_compute; reflexivity. Qed.

(* P1  a // b rounds toward negative infinity, for all i64 pairs but the excluded one *)
Theorem C04_floor_div_spec : forall m a b,
  in_i64 a -> in_i64 b -> b <> 0 -> ~ (a = MIN64 /\ b = -1) ->
  py_floor_div m (NI a) (NI b) = OInt (a / b) /\ py_floor_div_i64 m a b = OInt (a / b).
Proof. intros; split; [exact (py_floor_div_int_spec m a b H H0 H1 H2) | exact (py_floor_div_i64_spec m a b H H0 H1 H2)]. Qed.
Print Assumptions C04_floor_div_spec.

(* P2  a % b is Python's modulo (sign of the divisor), for all i64 pairs, MIN % -1 = 0 included *)
Theorem C04_mod_spec : forall m a b,
  in_i64 a -> in_i64 b -> b <> 0 ->
  py_mod m (NI a) (NI b) = OInt (a mod b) /\ py_mod_i64 m a b = OInt (a mod b).
Proof. intros; split; [exact (py_mod_int_spec m a b H H0 H1) | exact (py_mod_i64_spec m a b H H0 H1)]. Qed.
Print Assumptions C04_mod_spec.

(* P3  Python's laws for the values of P1/P2: identity, sign, floor; the identity also holds in
       wrapping machine arithmetic *)
Theorem C04_python_laws : forall a b, b <> 0 ->
  a = (a / b) * b + a mod b /\
  (0 < b -> 0 <= a mod b < b) /\ (b < 0 -> b < a mod b <= 0) /\
  (0 < b -> (a / b) * b <= a < (a / b + 1) * b) /\ (b < 0 -> (a / b + 1) * b < a <= (a / b) * b) /\
  (in_i64 a -> wrap64 (wrap64 ((a / b) * b) + a mod b) = a).
Proof.
  intros a b Hb. split; [exact (py_identity a b Hb)|].
  split; [exact (proj1 (py_mod_sign a b Hb))|]. split; [exact (proj2 (py_mod_sign a b Hb))|].
  split; [exact (proj1 (py_floor a b Hb))|]. split; [exact (proj2 (py_floor a b Hb))|].
  intros Ha; exact (py_identity_wrapping a b Ha Hb).
Qed.
Print Assumptions C04_python_laws.

(* P4  the excluded pair is exactly the one that aborts *)
Theorem C04_excluded_pair : forall m, py_floor_div m (NI MIN64) (NI (-1)) = OPanic Overflow.
Proof. exact py_floor_div_excluded. Qed.
Print Assumptions C04_excluded_pair.

(* P5  a zero divisor always gives the documented ZeroDivisionError: every operator, every kind *)
Theorem C04_zero_divisor : forall m l r, is_zero r = true ->
  py_div l r = OZeroDiv /\ py_mod m l r = OZeroDiv /\ py_floor_div m l r = OZeroDiv.
Proof.
  intros m l r H. split; [exact (zero_divisor_div l r H)|].
  split; [exact (zero_divisor_mod m l r H) | exact (zero_divisor_floor_div m l r H)].
Qed.
Print Assumptions C04_zero_divisor.

Theorem C04_zero_divisor_suffixed : forall m a fa fb, f64_eqb fb f64_zero = true ->
  py_floor_div_i64 m a 0 = OZeroDiv /\ py_mod_i64 m a 0 = OZeroDiv /\
  py_floor_div_f64 m fa fb = OZeroDiv /\ py_mod_f64 m fa fb = OZeroDiv.
Proof.
  intros m a fa fb H. split; [exact (zero_divisor_floor_div_i64 m a)|].
  split; [exact (zero_divisor_mod_i64 m a)|].
  split; [exact (zero_divisor_floor_div_f64 m fa fb H) | exact (zero_divisor_mod_f64 m fa fb H)].
Qed.
Print Assumptions C04_zero_divisor_suffixed.

(* P6  no operand pair produces any other failure (ints in range; the excluded pair excluded;
       debug builds additionally need that a non-zero int converts to a non-zero float) *)
Theorem C04_no_other_failure : forall m l r,
  (forall a b, l = NI a -> r = NI b -> in_i64 a /\ in_i64 b /\ ~ (a = MIN64 /\ b = -1)) ->
  (m = Wrap \/ nonzero_conv r) ->
  is_value_or_zero_div (py_div l r) /\ is_value_or_zero_div (py_mod m l r) /\
  is_value_or_zero_div (py_floor_div m l r).
Proof.
  intros m l r Hr Hc. split; [exact (div_total l r)|]. split.
  - apply mod_total; [|exact Hc]. intros a b Hl Hrr. destruct (Hr a b Hl Hrr) as (Ha & Hb & _). now split.
  - exact (floor_div_total m l r Hr).
Qed.
Print Assumptions C04_no_other_failure.

(* P7  compile-time semantic core = run-time library, on every operand pair (failures included) *)
Theorem C04_core_runtime_agree : forall m a b, in_i64 a -> in_i64 b ->
  core_py_mod_i64_impl m a b = stdlib_py_mod_i64_impl m a b /\
  core_py_floor_div_i64_impl m a b = stdlib_py_floor_div_i64_impl m a b.
Proof. intros m a b Ha Hb. split; [exact (copies_agree_mod m a b Ha Hb) | exact (copies_agree_floor_div m a b Ha Hb)]. Qed.
Print Assumptions C04_core_runtime_agree.

Theorem C04_core_runtime_agree_f64 : forall m a b,
  core_py_mod_f64_impl m a b = stdlib_py_mod_f64_impl m a b.
Proof. exact core_runtime_agree_mod_f64. Qed.
Print Assumptions C04_core_runtime_agree_f64.

(* P8  floats: `/` is the IEEE quotient with ints promoted, `//` is the floor of that quotient *)
Theorem C04_float_div_floor : forall m l r,
  (f64_eqb (to_float r) f64_zero = false -> py_div l r = OFloat (f64_div (to_float l) (to_float r))) /\
  (is_zero r = false -> (forall a b, ~ (l = NI a /\ r = NI b)) ->
   py_floor_div m l r = OFloat (f64_floor (f64_div (to_float l) (to_float r)))).
Proof. intros m l r. split; [exact (py_div_is_ieee l r) | exact (py_floor_div_float l r m)]. Qed.
Print Assumptions C04_float_div_floor.

(* P9  known finding C04-fmod-rounds-to-divisor is real in the model: a witness where the float
       remainder's magnitude equals |b| (CPython does the same) *)
Theorem C04_fmod_magnitude_refuted :
  exists a b, rounds_to_divisor a b = true /\ py_mod Wrap (NF a) (NF b) = OFloat b.
Proof.
  exists (f64_of_bits 13470266485465153536), (f64_of_bits 4607182418800017408).
  exact fmod_rounds_to_divisor_witness.
Qed.
Print Assumptions C04_fmod_magnitude_refuted.
