From Verif Require Import Base.I64 Base.Tactics Gen.CoreStr Gen.StdColl C05.Model.
From Coq Require Import ZifyBool.
Open Scope Z_scope.
Definition opt_in_i64 (o : option Z) : Prop := match o with Some z => in_i64 z | None => True end.
Goal forall m n s e k,
  0 <= n <= MAX64 -> in_i64 k -> in_i64 s -> in_i64 e -> k <> 0 ->
  stdlib_list_slice_bounds m n (Some s) (Some e) (Some k) = Val (k, py_adjust n k (Some s) true, py_adjust n k (Some e) false).
Proof.
  intros m n s e k Hn Hk Hs He Hk0. unfold stdlib_list_slice_bounds.
  cbv beta iota zeta delta [bind raise_if add64 sub64 clamp64 py_adjust].
  match goal with |- context [?k =? 0] => replace (k =? 0) with false by lia end.
  cbv beta iota.
  repeat match goal with
  | |- context [ovf ?m ?z] => rewrite (ovf_ok m z) by (i64_facts; lia)
  | |- context [if ?c then _ else _] =>
      match c with
      | context [if _ then _ else _] => fail 1
      | context [ovf] => fail 1
      | _ => let E := fresh "E" in destruct c eqn:E
      end
  end; cbv beta iota.
  all: try (exfalso; i64_facts; lia).
  all: repeat f_equal. all: try (i64_facts; lia). Show.
