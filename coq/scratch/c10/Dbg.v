(* Lex/LayoutMachine.v — the fuelled machine [lex] (one [mstep] per scan_token call) computes exactly the
   one-pass semantics [scan], and the fuel 2*|s|+2 always suffices (termination of the layout machine). *)
From Coq Require Import List Arith Lia Bool NArith ZArith.
From Verif Require Import Lex.Layout Lex.LayoutEdits.
Import ListNotations.

Definition mode_of (s : st) : mode := if als s then LS 0 else IL (depth s).

Definition denote (s : st) : list ev :=
  rev (out s) ++ repeat (T TDedent) (pending s) ++ scan_from (rest s) (mode_of s) (stk s).

Definition inv (s : st) : Prop :=
  (als s = true -> depth s = 0) /\ (0 < pending s -> rest s <> []).

Definition mu (s : st) : nat :=
  2 * length (rest s) + length (stk s) + pending s + (if als s then 1 else 0).

(* ------------------------------------------------------------------ helper loops vs scan *)

Lemma scan_from_cons : forall c r m stk,
  scan_from (c :: r) m stk = let '(e1, m1, s1) := trans c m stk in e1 ++ scan_from r m1 s1.
Proof.
  intros. unfold scan_from. cbn [walk]. destruct (trans c m stk) as [[e1 m1] s1].
  destruct (walk r m1 s1) as [[e2 m2] s2]. now rewrite app_assoc.
Qed.

Lemma scan_from_nil : forall m stk, scan_from [] m stk = closing stk.
Proof. reflexivity. Qed.

Lemma skip_comment_len : forall r, length (skip_comment r) <= length r.
Proof. induction r as [|c r IH]; cbn; [lia|]. destruct c; cbn; lia. Qed.

Lemma scan_comment_CL : forall r stk,
  scan_from r CL stk = scan_from (match skip_comment r with Nl :: r'' => r'' | x => x end) (LS 0) stk.
Proof.
  induction r as [|c r IH]; intros stk; [reflexivity|].
  destruct c; cbn [skip_comment]; rewrite scan_from_cons; cbn [trans app]; try apply IH. reflexivity.
Qed.

Lemma scan_comment_CI : forall r d stk,
  scan_from r (CI d) stk = scan_from (skip_comment r) (IL d) stk.
Proof.
  induction r as [|c r IH]; intros d stk; [reflexivity|].
  destruct c; cbn [skip_comment]; rewrite scan_from_cons; cbn [trans app]; try apply IH.
  rewrite (scan_from_cons Nl r (IL d)). cbn [trans]. reflexivity.
Qed.

Lemma drop_blanks_scan : forall r d stk, scan_from (drop_blanks r) (IL d) stk = scan_from r (IL d) stk.
Proof.
  induction r as [|c r IH]; intros d stk; [reflexivity|].
  destruct c; cbn [drop_blanks]; try reflexivity; rewrite (scan_from_cons _ r); cbn [trans il_step app]; apply IH.
Qed.

Lemma drop_blanks_len : forall r, length (drop_blanks r) <= length r.
Proof. induction r as [|c r IH]; cbn; [lia|]. destruct c; cbn; lia. Qed.

Lemma drop_blanks_head : forall r c r', drop_blanks r = c :: r' -> c <> Sp /\ c <> Tab.
Proof.
  induction r as [|a r IH]; intros c r' H; [discriminate|].
  destruct a; cbn [drop_blanks] in H; try (inversion H; subst; split; discriminate); eapply IH; exact H.
Qed.

Definition code_head (r : list sym) : Prop :=
  match r with
  | [] => True
  | c :: _ => match c with Sp | Tab | Cr | Nl | Hash => False | _ => True end
  end.

Lemma hi_loop_scan : forall r ind stk,
  match hi_loop r ind with
  | HReturn r' => scan_from r (LS ind) stk = scan_from r' (LS 0) stk /\ length r' < length r
  | HStop ind' r' => scan_from r (LS ind) stk = scan_from r' (LS ind') stk /\ code_head r' /\
                     length r' <= length r /\ ind <= ind' /\ (ind < ind' -> length r' < length r)
  end.
Proof.
  induction r as [|c r IH]; intros ind stk; cbn [hi_loop].
  - repeat split; cbn; lia.
  - destruct c; try (repeat split; cbn; lia).
    + specialize (IH (ind + 1) stk). rewrite scan_from_cons. cbn [trans app].
      destruct (hi_loop r (ind + 1)); cbn [length]; intuition lia.
    + specialize (IH (ind + 4) stk). rewrite scan_from_cons. cbn [trans app].
      destruct (hi_loop r (ind + 4)); cbn [length]; intuition lia.
    + rewrite scan_from_cons. cbn [trans app]. split; [reflexivity | cbn; lia].
    + specialize (IH ind stk). rewrite scan_from_cons. cbn [trans app].
      destruct (hi_loop r ind); cbn [length]; intuition lia.
    + rewrite scan_from_cons. cbn [trans app]. split; [apply scan_comment_CL|].
      pose proof (skip_comment_len r). cbn [length].
      destruct (skip_comment r) as [|x y]; [cbn in *; lia|]. destruct x; cbn [length] in *; lia.
Qed.

(* a code symbol at line start: the indentation events, then the same symbol inside the line *)
Lemma scan_code_head : forall c r ind stk, code_head (c :: r) ->
  scan_from (c :: r) (LS ind) stk =
  let '(e1, stk') := indent_events ind stk in e1 ++ scan_from (c :: r) (IL 0) stk'.
Proof.
  intros c r ind stk H. rewrite scan_from_cons.
  destruct c; try (now destruct H); cbn [trans];
    destruct (indent_events ind stk) as [e1 stk']; rewrite scan_from_cons; cbn [trans];
    match goal with |- context [il_step ?c ?d] => destruct (il_step c d) as [e2 m2] end;
    now rewrite app_assoc.
Qed.

Lemma pop_count_len : forall ind stk, length (pop_above ind stk) + count_above ind stk <= length stk + 1.
Proof.
  induction stk as [|l r IH]; cbn [pop_above count_above length]; [lia|].
  destruct (l <=? ind); cbn [length]; [lia|].
  destruct r as [|l2 r2]; [cbn; lia|]. cbn [length] in *. lia.
Qed.

Lemma count_above_pos : forall ind stk, ind < top stk -> 0 < count_above ind stk.
Proof.
  intros ind [|l r] H; cbn in *; [lia|]. destruct (l <=? ind) eqn:E; [apply Nat.leb_le in E; lia | lia].
Qed.

(* ------------------------------------------------------------------ one step *)

Lemma rev_cons_app : forall (A : Type) (x : A) l r, rev (x :: l) ++ r = rev l ++ x :: r.
Proof. intros. cbn [rev]. now rewrite <- app_assoc. Qed.

Lemma mstep_sound : forall s, rest s <> [] -> inv s ->
  denote (mstep s) = denote s /\ inv (mstep s) /\ mu (mstep s) < mu s.
Proof.
  intros [r stk pend a d o] Hne [Hdep Hpend]. cbn [rest Layout.stk pending als depth out] in *.
  unfold mstep. cbn [rest Layout.stk pending als depth out].
  destruct (0 <? pend) eqn:Ep.
  { (* a pending dedent *)
    apply Nat.ltb_lt in Ep. unfold denote, inv, mu, mode_of. cbn [rest Layout.stk pending als depth out].
    split; [|split; [split; [exact Hdep | intros _; exact Hne] | lia]].
    rewrite rev_cons_app. destruct pend; [lia|]. cbn [repeat Nat.sub]. rewrite Nat.sub_0_r. reflexivity. }
  apply Nat.ltb_ge in Ep. assert (pend = 0) by lia. subst pend. clear Ep Hpend.
  destruct a.
  { (* handle_indentation *)
    specialize (Hdep eq_refl). subst d.
    pose proof (hi_loop_scan r 0 stk) as Hh.
    destruct (hi_loop r 0) as [r'|ind r'].
    - destruct Hh as [Hs Hl]. unfold denote, inv, mu, mode_of, set_rest. cbn [rest Layout.stk pending als depth out].
      split; [now rewrite Hs | split; [split; [reflexivity | lia] | lia]].
    - destruct Hh as (Hs & Hc & Hl & _ & Hlt).
      destruct r' as [|c r''].
      + unfold denote, inv, mu, mode_of. cbn [rest Layout.stk pending als depth out].
        split; [rewrite Hs; reflexivity | split; [split; [discriminate | lia] |]].
        destruct r; [now destruct Hne | cbn [length] in *; lia].
      + rewrite (scan_code_head c r'' ind stk Hc) in Hs. unfold indent_events in Hs.
        destruct (top stk <? ind) eqn:E1.
        * apply Nat.ltb_lt in E1.
          unfold denote, inv, mu, mode_of. cbn [rest Layout.stk pending als depth out repeat app].
          split; [rewrite Hs, rev_cons_app; reflexivity | split; [split; [discriminate | lia] |]].
          assert (0 < ind) by lia. specialize (Hlt H). cbn [length] in *. lia.
        * destruct (ind <? top stk) eqn:E2.
          -- apply Nat.ltb_lt in E2. pose proof (count_above_pos ind stk E2) as Hcp.
             pose proof (pop_count_len ind stk) as Hpl.
             set (count := count_above ind stk) in *. set (stk' := pop_above ind stk) in *.
             unfold denote, inv, mu, mode_of. cbn [rest Layout.stk pending als depth out].
             assert (E0 : (0 <? count) = true) by now apply Nat.ltb_lt. rewrite E0.
             split; [|split; [split; [discriminate | intros _; discriminate] |]].
             ++ rewrite Hs. cbn [app]. rewrite rev_cons_app, rev_app_distr. Show.
