From Verif Require Import Base.I64 C05.Model.
Open Scope Z_scope.
Definition opts := None :: map Some [-7;-6;-5;-4;-3;-2;-1;0;1;2;3;4;5;6;7].
Definition ks := [-9;-3;-2;-1;1;2;3;9].
Definition lists : list (list Z) := [[]; [10]; [10;20]; [10;20;30;40;50]].
Definition ok (l : list Z) s e k :=
  match list_slice 20 Trap l s e (Some k), str_slice 20 Wrap l s e (Some k) with
  | OVal r, OVal r' => if list_eq_dec Z.eq_dec r (py_slice l s e k) then if list_eq_dec Z.eq_dec r' r then true else false else false
  | _, _ => false end.
Eval vm_compute in forallb (fun l => forallb (fun s => forallb (fun e => forallb (fun k => ok l s e k) ks) opts) opts) lists.
Eval vm_compute in (list_slice 20 Wrap [104;101;108;108;111] (Some 2) None (Some MAX64), list_slice 20 Trap [104;101;108;108;111] (Some 2) None (Some MAX64)).
Eval vm_compute in (range 10 Wrap (MAX64-1) MAX64 2, range 10 Trap 5 0 (-2), range 3 Trap 0 10 1).
Eval vm_compute in (map (fun i => (list_get Trap [1;2;3] i, str_char_at Trap [1;2;3] i, py_index [1;2;3] i)) [-4;-3;-1;0;2;3]).
