From Verif Require Import Base.I64 Base.F64 Gen.CoreNum Gen.Adapters C07.Model.
From Coq Require Import ZifyBool.
Open Scope Z_scope.
Goal forall l r, doc_ty l = DFloat -> doc_ty r = DInt ->  tail_cast (fst (lower l)) = false ->
 rust_binop (ast_to_ir (cop_ast CLt)) (ir_of (dty_res DFloat)) (ir_of (dty_res DInt)) (fst (lower r)) (tail_cast (fst (lower l))) RF64 RI64 = Some RBool.
Proof. intros l r H1 H2 Hlt. cbn. Show.
