(* Lex/Chars.v — character-level model of the Incan lexer (definitions only; C11, and the abstraction used
   by the C10 correspondence run).

   Hand model of crates/incan_syntax/src/lexer/{mod.rs,indent.rs,strings.rs,numbers.rs}: the same machine
   as Lex/Layout.v (one [cstep] per call of scan_token, explicit fuel) but over Unicode scalar values, with
   the string / f-string / byte-string / number / identifier / operator scanners and with spans.

   Positions.  The model counts consumed SCALARS ([cnt]); a span is a pair of scalar counts and is turned
   into byte offsets by [off src k] = total UTF-8 length of the first k scalars.  This is the invariant of
   Lexer::advance (`current_pos = pos + c.len_utf8()`) made part of the representation.
   The correspondence run compares these byte offsets with the real spans.

   Abstracted: token payloads (identifier spelling, keyword id, operator id, literal value, f-string parts)
   are not modelled, only the token class and span; an integer literal's value is modelled just far enough
   to decide `parse::<i64>()` failure; `parse::<f64>()` failure is modelled as "exponent without digits"; a float literal is also rejected when its decimal
   value rounds to infinity (>= 2^1024 - 2^970), computed exactly from the literal's digits. *)
From Coq Require Import List Arith Lia Bool NArith ZArith.
From Verif Require Import Lex.Layout.
Import ListNotations.
Open Scope N_scope.

Definition ch := N.

(* UTF-8 length of a scalar value *)
Definition blen (c : ch) : nat :=
  if c <? 128 then 1%nat else if c <? 2048 then 2%nat else if c <? 65536 then 3%nat else 4%nat.

Fixpoint bytes (l : list ch) : nat := match l with [] => 0%nat | c :: r => (blen c + bytes r)%nat end.

(* byte offset of the boundary after the first k scalars *)
Definition off (src : list ch) (k : nat) : nat := bytes (firstn k src).

Definition is_digit (c : ch) : bool := (48 <=? c) && (c <=? 57).
Definition is_alpha (c : ch) : bool := ((65 <=? c) && (c <=? 90)) || ((97 <=? c) && (c <=? 122)).
Definition is_ident_start (c : ch) : bool := is_alpha c || (c =? 95).
Definition is_ident_continue (c : ch) : bool := is_alpha c || is_digit c || (c =? 95).
Definition is_hex (c : ch) : bool := is_digit c || ((65 <=? c) && (c <=? 70)) || ((97 <=? c) && (c <=? 102)).
Definition is_quote (c : ch) : bool := (c =? 34) || (c =? 39).

(* error codes (the harness classifies the real messages the same way) *)
Definition E_UNEXPECTED : N := 1.      (* Unexpected character '..' *)
Definition E_UNMATCHED : N := 2.       (* Unmatched closing bracket *)
Definition E_INCONSISTENT : N := 3.    (* Inconsistent indentation: expected {} spaces, got {} *)
Definition E_STR_EOF : N := 4.         (* Unterminated string *)
Definition E_STR_NL : N := 5.          (* Unterminated string (newline in single-quoted string) *)
Definition E_ESC_EOF : N := 6.         (* Unterminated escape sequence *)
Definition E_BYTES_EOF : N := 7.       (* Unterminated byte string *)
Definition E_BYTES_NL : N := 8.        (* Unterminated byte string (newline in string) *)
Definition E_HEX : N := 9.             (* Invalid hex escape *)
Definition E_NONASCII : N := 10.       (* Non-ASCII character in byte string *)
Definition E_FSTR : N := 11.           (* Unterminated f-string *)
Definition E_FSTR_BRACE : N := 12.     (* Unmatched '}' in f-string *)
Definition E_FSTR_ESC : N := 13.       (* Unterminated escape in f-string *)
Definition E_FLOAT : N := 14.          (* Invalid float literal *)
Definition E_INT : N := 15.            (* Invalid integer literal *)

(* ------------------------------------------------------------------ scanners
   Each scanner is structurally recursive on the remaining input [r] and returns
   (errors as (code, scalars consumed from r when the error was pushed), scalars consumed from r). *)

Definition serrs := list (N * nat).

(* strings.rs scan_string: the loop, after the opening quote(s) *)
Fixpoint str_loop (triple : bool) (q : ch) (r : list ch) (n : nat) : serrs * nat :=
  match r with
  | [] => ([(E_STR_EOF, n)], n)
  | c :: r1 =>
      if c =? q then
        if triple then
          match r1 with
          | c2 :: r2 =>
              if c2 =? q then
                match r2 with
                | c3 :: _ => if c3 =? q then ([], n + 3)%nat else str_loop triple q r2 (n + 2)%nat
                | [] => str_loop triple q r2 (n + 2)%nat
                end
              else str_loop triple q r1 (n + 1)%nat
          | [] => str_loop triple q r1 (n + 1)%nat
          end
        else ([], n + 1)%nat
      else if (c =? 10) && negb triple then ([(E_STR_NL, n)], n)
      else if c =? 92 then
        match r1 with
        | [] => ([(E_ESC_EOF, n + 1)%nat], n + 1)%nat
        | _ :: r2 => str_loop triple q r2 (n + 2)%nat
        end
      else str_loop triple q r1 (n + 1)%nat
  end.

Definition scan_string (q : ch) (r : list ch) : serrs * nat :=
  match r with
  | c1 :: c2 :: r2 => if (c1 =? q) && (c2 =? q) then str_loop true q r2 2 else str_loop false q r 0
  | _ => str_loop false q r 0
  end.

(* u8::from_str_radix(hex, 16) on the (at most two) scalars after `\x` *)
Definition hex_ok (h : list ch) : bool :=
  match h with
  | [a] => is_hex a
  | [a; b] => (is_hex a || (a =? 43)) && is_hex b
  | _ => false
  end.

(* strings.rs scan_byte_string: the loop, after `b` and the quote *)
Fixpoint bytes_loop (q : ch) (r : list ch) (n : nat) : serrs * nat :=
  match r with
  | [] => ([(E_BYTES_EOF, n)], n)
  | c :: r1 =>
      if c =? q then ([], n + 1)%nat
      else if c =? 10 then ([(E_BYTES_NL, n)], n)
      else if c =? 92 then
        match r1 with
        | [] => ([(E_ESC_EOF, n + 1)%nat], n + 1)%nat
        | e :: r2 =>
            if e =? 120 then
              match r2 with
              | [] => let '(es, m) := bytes_loop q r2 (n + 2)%nat in ((E_HEX, n + 2)%nat :: es, m)
              | h1 :: r3 =>
                  match r3 with
                  | [] => let '(es, m) := bytes_loop q r3 (n + 3)%nat in
                          ((if hex_ok [h1] then [] else [(E_HEX, n + 3)%nat]) ++ es, m)
                  | h2 :: r4 => let '(es, m) := bytes_loop q r4 (n + 4)%nat in
                                ((if hex_ok [h1; h2] then [] else [(E_HEX, n + 4)%nat]) ++ es, m)
                  end
              end
            else bytes_loop q r2 (n + 2)%nat
        end
      else if 128 <=? c then let '(es, m) := bytes_loop q r1 (n + 1)%nat in ((E_NONASCII, n) :: es, m)
      else bytes_loop q r1 (n + 1)%nat
  end.

(* strings.rs scan_fstring + scan_fstring_expr as ONE loop: [ed] = 0 in literal text, > 0 = brace depth inside {..} *)
Fixpoint fstr_loop (q : ch) (ed : nat) (r : list ch) (n : nat) : serrs * nat :=
  match r with
  | [] => ([(E_FSTR, n)], n)
  | c :: r1 =>
      match ed with
      | S d' =>
          if c =? 123 then fstr_loop q (S ed) r1 (n + 1)%nat
          else if c =? 125 then fstr_loop q d' r1 (n + 1)%nat
          else fstr_loop q ed r1 (n + 1)%nat
      | O =>
          if c =? q then ([], n + 1)%nat
          else if c =? 123 then
            match r1 with
            | c2 :: r2 => if c2 =? 123 then fstr_loop q 0 r2 (n + 2)%nat else fstr_loop q 1 r1 (n + 1)%nat
            | [] => fstr_loop q 1 r1 (n + 1)%nat
            end
          else if c =? 125 then
            match r1 with
            | c2 :: r2 =>
                if c2 =? 125 then fstr_loop q 0 r2 (n + 2)%nat
                else let '(es, m) := fstr_loop q 0 r1 (n + 1)%nat in ((E_FSTR_BRACE, n + 1)%nat :: es, m)
            | [] => let '(es, m) := fstr_loop q 0 r1 (n + 1)%nat in ((E_FSTR_BRACE, n + 1)%nat :: es, m)
            end
          else if c =? 92 then
            match r1 with
            | [] => ([(E_FSTR_ESC, n + 1)%nat], n + 1)%nat
            | _ :: r2 => fstr_loop q 0 r2 (n + 2)%nat
            end
          else if c =? 10 then ([(E_FSTR, n)], n)
          else fstr_loop q 0 r1 (n + 1)%nat
      end
  end.

(* numbers.rs scan_number as ONE loop over four phases *)
Inductive nphase : Type := PInt | PFrac | PExpSign | PExp.

Definition next_is_digit (r : list ch) : bool := match r with c :: _ => is_digit c | [] => false end.
Definition is_e (c : ch) : bool := (c =? 101) || (c =? 69).

(* returns (scalars consumed from r, is_float, exponent has a digit, integer value) *)
Fixpoint num_loop (ph : nphase) (r : list ch) (n : nat) (isf expd : bool) (val : N) : nat * bool * bool * N :=
  match r with
  | [] => (n, isf, expd, val)
  | c :: r1 =>
      match ph with
      | PInt =>
          if is_digit c then num_loop PInt r1 (n + 1)%nat isf expd (10 * val + (c - 48))
          else if c =? 95 then num_loop PInt r1 (n + 1)%nat isf expd val
          else if (c =? 46) && next_is_digit r1 then num_loop PFrac r1 (n + 1)%nat true expd val
          else if is_e c then num_loop PExpSign r1 (n + 1)%nat true expd val
          else (n, isf, expd, val)
      | PFrac =>
          if is_digit c || (c =? 95) then num_loop PFrac r1 (n + 1)%nat isf expd val
          else if is_e c then num_loop PExpSign r1 (n + 1)%nat true expd val
          else (n, isf, expd, val)
      | PExpSign =>
          if (c =? 43) || (c =? 45) then num_loop PExp r1 (n + 1)%nat isf expd val
          else if is_digit c then num_loop PExp r1 (n + 1)%nat isf true val
          else (n, isf, expd, val)
      | PExp =>
          if is_digit c then num_loop PExp r1 (n + 1)%nat isf true val
          else (n, isf, expd, val)
      end
  end.

Definition I64_MAX : N := 9223372036854775807.

(* numbers.rs: `value.parse::<f64>()` is correctly rounded (ties to even), so the result is infinite exactly when the
   decimal value is >= f64::MAX + half an ulp = 2^1024 - 2^970; such a literal is rejected ("Invalid float literal").
   [float_parts] reads the literal's text: mantissa digits (value, count), fraction digits, exponent (sign, value). *)
Definition F64_INF_THRESHOLD : N := 2 ^ 1024 - 2 ^ 970.

Fixpoint float_parts (l : list ch) (ph : nat) (m : N) (dig frac : nat) (eneg : bool) (e : N) : N * nat * nat * bool * N :=
  match l with
  | [] => (m, dig, frac, eneg, e)
  | c :: r =>
      if is_digit c then
        match ph with
        | O => float_parts r 0 (10 * m + (c - 48)) (S dig) frac eneg e
        | S O => float_parts r 1 (10 * m + (c - 48)) (S dig) (S frac) eneg e
        | _ => float_parts r 2 m dig frac eneg (10 * e + (c - 48))
        end
      else if c =? 46 then float_parts r 1 m dig frac eneg e
      else if is_e c then float_parts r 2 m dig frac eneg e
      else if c =? 45 then float_parts r ph m dig frac true e
      else float_parts r ph m dig frac eneg e
  end.

Definition float_overflows (lit : list ch) : bool :=
  let '(m, dig, frac, eneg, e) := float_parts lit 0 0 0 0 false 0 in
  if m =? 0 then false
  else
    let k : Z := ((if eneg then - Z.of_N e else Z.of_N e) - Z.of_nat frac)%Z in
    if (400 <? k)%Z then true
    else if (0 <=? k)%Z then F64_INF_THRESHOLD <=? m * 10 ^ Z.to_N k
    else if (Z.of_nat dig <=? - k)%Z then false
    else F64_INF_THRESHOLD * 10 ^ Z.to_N (- k) <=? m.

Fixpoint ident_loop (r : list ch) (n : nat) : nat :=
  match r with
  | c :: r1 => if is_ident_continue c then ident_loop r1 (n + 1)%nat else n
  | [] => n
  end.

Definition peek_is (r : list ch) (c : ch) : bool := match r with x :: _ => x =? c | [] => false end.

(* mod.rs scan_token, the operator arms: number of FURTHER scalars consumed after c, or None = no operator *)
Definition op_extra (c : ch) (r : list ch) : option nat :=
  let p1 := peek_is r in
  let p2 := peek_is (tl r) in
  let one := 1%nat in let two := 2%nat in let zero := 0%nat in
  if c =? 43 then Some (if p1 61 then one else zero)                                   (* + += *)
  else if c =? 45 then Some (if p1 62 || p1 61 then one else zero)                     (* - -> -= *)
  else if c =? 42 then Some (if p1 42 || p1 61 then one else zero)                     (* * ** *= *)
  else if c =? 47 then Some (if p1 47 then (if p2 61 then two else one) else if p1 61 then one else zero)  (* / // //= /= *)
  else if c =? 37 then Some (if p1 61 then one else zero)                              (* % %= *)
  else if (c =? 63) || (c =? 64) || (c =? 44) then Some zero                           (* ? @ , *)
  else if c =? 58 then Some (if p1 58 then one else zero)                              (* : :: *)
  else if c =? 61 then Some (if p1 61 || p1 62 then one else zero)                     (* = == => *)
  else if c =? 60 then Some (if p1 61 then one else zero)                              (* < <= *)
  else if c =? 62 then Some (if p1 61 then one else zero)                              (* > >= *)
  else if c =? 46 then Some (if p1 46 then (if p2 46 || p2 61 then two else one) else zero)  (* . .. ... ..= *)
  else None.

Inductive ikind : Type := IOpen | IClose | IStr | IBytes | IFStr | IWord | IInt | IFloat | IPunct | INone.

(* what scan_token does with a scalar [c] that is not blank, newline, CR or '#':
   (token class or INone, FURTHER scalars consumed from r, errors with counts relative to r) *)
Definition scan_item (c : ch) (r : list ch) : ikind * nat * serrs :=
  match op_extra c r with
  | Some k => (IPunct, k, [])
  | None =>
      if (c =? 40) || (c =? 91) || (c =? 123) then (IOpen, 0%nat, [])
      else if (c =? 41) || (c =? 93) || (c =? 125) then (IClose, 0%nat, [])
      else if c =? 33 then
        if peek_is r 61 then (IPunct, 1%nat, []) else (INone, 0%nat, [(E_UNEXPECTED, 0%nat)])
      else if is_quote c then let '(es, n) := scan_string c r in (IStr, n, es)
      else if (c =? 102) && match r with q :: _ => is_quote q | [] => false end then
        match r with
        | q :: r1 => let '(es, n) := fstr_loop q 0 r1 1 in (IFStr, n, es)
        | [] => (INone, 0%nat, [])
        end
      else if (c =? 98) && match r with q :: _ => is_quote q | [] => false end then
        match r with
        | q :: r1 => let '(es, n) := bytes_loop q r1 1 in (IBytes, n, es)
        | [] => (INone, 0%nat, [])
        end
      else if is_digit c then
        let '(n, isf, expd, val) := num_loop PInt r 0 false false (c - 48) in
        if isf then (if (expd || negb (existsb is_e (firstn n r))) && negb (float_overflows (c :: firstn n r))
                     then (IFloat, n, []) else (INone, n, [(E_FLOAT, n)]))
        else (if val <=? I64_MAX then (IInt, n, []) else (INone, n, [(E_INT, n)]))
      else if is_ident_start c then (IWord, ident_loop r 0, [])
      else (INone, 0%nat, [(E_UNEXPECTED, 0%nat)])
  end.

(* ------------------------------------------------------------------ the machine *)

Inductive cev : Type :=
| CT (kind : N) (a b : nat)                  (* token class, span in scalar counts *)
| CE (code : N) (a b : nat) (x y : nat).     (* error code, span, two numeric payloads (expected, got) *)

(* token classes *)
Definition K_NEWLINE : N := 1.  Definition K_INDENT : N := 2.  Definition K_DEDENT : N := 3.  Definition K_EOF : N := 4.
Definition K_OPEN : N := 5.     Definition K_CLOSE : N := 6.   Definition K_STR : N := 7.     Definition K_WORD : N := 8.
Definition K_PUNCT : N := 9.    Definition K_BYTES : N := 17.  Definition K_FSTR : N := 18.
Definition K_INT : N := 30.     Definition K_FLOAT : N := 31.

Definition kind_code (k : ikind) : option N :=
  match k with
  | IOpen => Some K_OPEN | IClose => Some K_CLOSE | IStr => Some K_STR | IBytes => Some K_BYTES
  | IFStr => Some K_FSTR | IWord => Some K_WORD | IInt => Some K_INT | IFloat => Some K_FLOAT
  | IPunct => Some K_PUNCT | INone => None
  end.

Record cst : Type := mkcst {
  crest : list ch;
  ccnt : nat;             (* scalars consumed so far; current_pos = off src ccnt *)
  cstk : list nat;
  cpending : nat;
  cals : bool;
  cdepth : nat;
  cout : list cev         (* most recent first *)
}.

Definition cinit (s : list ch) : cst := mkcst s 0 [0%nat] 0 true 0 [].

Fixpoint cdrop_blanks (r : list ch) (n : nat) : nat :=
  match r with
  | c :: r' => if (c =? 32) || (c =? 9) then cdrop_blanks r' (n + 1)%nat else n
  | [] => n
  end.

Fixpoint cskip_comment (r : list ch) (n : nat) : nat :=
  match r with
  | c :: r' => if c =? 10 then n else cskip_comment r' (n + 1)%nat
  | [] => n
  end.

Inductive chres : Type := CHReturn (n : nat) | CHStop (ind : nat) (n : nat).

Fixpoint chi_loop (r : list ch) (ind n : nat) : chres :=
  match r with
  | [] => CHStop ind n
  | c :: r' =>
      if c =? 32 then chi_loop r' (ind + 1)%nat (n + 1)%nat
      else if c =? 9 then chi_loop r' (ind + 4)%nat (n + 1)%nat
      else if c =? 13 then chi_loop r' ind (n + 1)%nat
      else if c =? 10 then CHReturn (n + 1)%nat
      else if c =? 35 then
        let k := cskip_comment r' (n + 1)%nat in
        CHReturn (if peek_is (skipn (k - (n + 1))%nat r') 10 then (k + 1)%nat else k)
      else CHStop ind n
  end.

Definition cstep (s : cst) : cst :=
  let pos := ccnt s in
  if (0 <? cpending s)%nat then
    mkcst (crest s) pos (cstk s) (cpending s - 1) (cals s) (cdepth s) (CT K_DEDENT pos pos :: cout s)
  else if cals s then
    match chi_loop (crest s) 0 0 with
    | CHReturn n => mkcst (skipn n (crest s)) (pos + n) (cstk s) (cpending s) (cals s) (cdepth s) (cout s)
    | CHStop ind n =>
        let r := skipn n (crest s) in
        let pos' := (pos + n)%nat in
        match r with
        | [] => mkcst [] pos' (cstk s) (cpending s) false (cdepth s) (cout s)
        | _ :: _ =>
            let cur := top (cstk s) in
            if (cur <? ind)%nat then
              mkcst r pos' (ind :: cstk s) (cpending s) false (cdepth s) (CT K_INDENT pos pos' :: cout s)
            else if (ind <? cur)%nat then
              let count := count_above ind (cstk s) in
              let stk' := pop_above ind (cstk s) in
              let final := top stk' in
              let errs := if (ind =? final)%nat then [] else [CE E_INCONSISTENT pos pos' final ind] in
              mkcst r pos' stk' (if (1 <? count)%nat then count - 1 else cpending s)%nat false (cdepth s)
                    ((if (0 <? count)%nat then [CT K_DEDENT pos pos'] else []) ++ errs ++ cout s)
            else mkcst r pos' (cstk s) (cpending s) false (cdepth s) (cout s)
        end
    end
  else
    let nb := cdrop_blanks (crest s) 0 in
    let start := (pos + nb)%nat in
    match skipn nb (crest s) with
    | [] => mkcst [] start (cstk s) (cpending s) (cals s) (cdepth s) (cout s)
    | c :: r =>
        if c =? 35 then
          let k := cskip_comment r 0 in
          mkcst (skipn k r) (start + 1 + k) (cstk s) (cpending s) (cals s) (cdepth s) (cout s)
        else if c =? 10 then
          if (0 <? cdepth s)%nat then mkcst r (start + 1) (cstk s) (cpending s) (cals s) (cdepth s) (cout s)
          else mkcst r (start + 1) (cstk s) (cpending s) true (cdepth s) (CT K_NEWLINE start (start + 1) :: cout s)
        else if c =? 13 then mkcst r (start + 1) (cstk s) (cpending s) (cals s) (cdepth s) (cout s)
        else
          let '(k, n, es) := scan_item c r in
          let fin := (start + 1 + n)%nat in
          let errs := map (fun e : N * nat => CE (fst e) start (start + 1 + snd e) 0 0) es in
          let tokl := match kind_code k with Some kc => [CT kc start fin] | None => [] end in
          match k with
          | IOpen => mkcst (skipn n r) fin (cstk s) (cpending s) (cals s) (cdepth s + 1) (tokl ++ rev errs ++ cout s)
          | IClose =>
              if (cdepth s =? 0)%nat
              then mkcst (skipn n r) fin (cstk s) (cpending s) (cals s) 0 (tokl ++ CE E_UNMATCHED start fin 0 0 :: cout s)
              else mkcst (skipn n r) fin (cstk s) (cpending s) (cals s) (cdepth s - 1) (tokl ++ cout s)
          | _ => mkcst (skipn n r) fin (cstk s) (cpending s) (cals s) (cdepth s) (tokl ++ rev errs ++ cout s)
          end
    end.

Inductive coutcome : Type := CDone (evs : list cev) | COutOfFuel.

Definition cclosing (stk : list nat) (pos : nat) : list cev :=
  repeat (CT K_DEDENT pos pos) (length stk - 1) ++ [CT K_EOF pos pos].

Fixpoint crun (fuel : nat) (s : cst) : coutcome :=
  match crest s with
  | [] => CDone (rev (cout s) ++ cclosing (cstk s) (ccnt s))
  | _ :: _ => match fuel with
              | O => COutOfFuel
              | S f => crun f (cstep s)
              end
  end.

Definition clex_fuel (fuel : nat) (s : list ch) : coutcome := crun fuel (cinit s).
Definition clex (s : list ch) : coutcome := clex_fuel (2 * length s + 2) s.

Definition ctoks (evs : list cev) : list cev := filter (fun e => match e with CT _ _ _ => true | _ => false end) evs.
Definition cerrs (evs : list cev) : list cev := filter (fun e => match e with CE _ _ _ _ _ => true | _ => false end) evs.
(* Result<Vec<Token>, Vec<CompileError>> *)
Definition cresult (evs : list cev) : list cev + list cev :=
  match cerrs evs with [] => inl (ctoks evs) | es => inr es end.

(* well-formed span: start <= end <= |src| in bytes, both on scalar boundaries *)
Definition boundary (src : list ch) (p : nat) : Prop := exists k, (k <= length src)%nat /\ p = off src k.
Definition span_wf (src : list ch) (a b : nat) : Prop :=
  (a <= b)%nat /\ (b <= bytes src)%nat /\ boundary src a /\ boundary src b.

Definition ev_span (e : cev) : nat * nat := match e with CT _ a b => (a, b) | CE _ a b _ _ => (a, b) end.

(* ------------------------------------------------------------------ abstraction to the class alphabet (C10 tie) *)

Definition syms_of (k : ikind) (nerr : nat) (id : N) : list sym :=
  repeat (Bad id) nerr ++
  match k with
  | IOpen => [Open id] | IClose => [Close id]
  | IStr | IBytes | IFStr => [Str id]
  | IWord | IInt | IFloat => [Word id]
  | IPunct => [Punct id]
  | INone => []
  end.

(* payload of every symbol = index of its first scalar *)
Fixpoint abstract_fuel (fuel : nat) (r : list ch) (cnt : nat) (incomment : bool) : list sym :=
  match fuel with
  | O => []
  | S f =>
      match r with
      | [] => []
      | c :: r1 =>
          if c =? 10 then Nl :: abstract_fuel f r1 (cnt + 1)%nat false
          else if incomment then Punct 0 :: abstract_fuel f r1 (cnt + 1)%nat true
          else if c =? 32 then Sp :: abstract_fuel f r1 (cnt + 1)%nat false
          else if c =? 9 then Tab :: abstract_fuel f r1 (cnt + 1)%nat false
          else if c =? 13 then Cr :: abstract_fuel f r1 (cnt + 1)%nat false
          else if c =? 35 then Hash :: abstract_fuel f r1 (cnt + 1)%nat true
          else
            let '(k, n, es) := scan_item c r1 in
            syms_of k (length es) (N.of_nat cnt) ++ abstract_fuel f (skipn n r1) (cnt + 1 + n)%nat false
      end
  end.

Definition abstract (s : list ch) : list sym := abstract_fuel (length s) s 0 false.

(* the {expression} parts of an f-string, as FStringPart::Expr records them: (first scalar, one past the last scalar)
   of the text between `{` and its matching `}` (nested braces included), counts relative to r as in [fstr_loop].
   Mirrors [fstr_loop] arm by arm; at the end of input an open expression runs to the end. *)
Fixpoint fstr_exprs (q : ch) (ed st : nat) (r : list ch) (n : nat) : list (nat * nat) :=
  match r with
  | [] => match ed with O => [] | S _ => [(st, n)] end
  | c :: r1 =>
      match ed with
      | S d' =>
          if c =? 123 then fstr_exprs q (S ed) st r1 (n + 1)%nat
          else if c =? 125 then
            match d' with
            | O => (st, n) :: fstr_exprs q 0 0 r1 (n + 1)%nat
            | S _ => fstr_exprs q d' st r1 (n + 1)%nat
            end
          else fstr_exprs q ed st r1 (n + 1)%nat
      | O =>
          if c =? q then []
          else if c =? 123 then
            match r1 with
            | c2 :: r2 => if c2 =? 123 then fstr_exprs q 0 0 r2 (n + 2)%nat else fstr_exprs q 1 (n + 1)%nat r1 (n + 1)%nat
            | [] => fstr_exprs q 1 (n + 1)%nat r1 (n + 1)%nat
            end
          else if c =? 125 then
            match r1 with
            | c2 :: r2 => if c2 =? 125 then fstr_exprs q 0 0 r2 (n + 2)%nat else fstr_exprs q 0 0 r1 (n + 1)%nat
            | [] => fstr_exprs q 0 0 r1 (n + 1)%nat
            end
          else if c =? 92 then
            match r1 with
            | [] => []
            | _ :: r2 => fstr_exprs q 0 0 r2 (n + 2)%nat
            end
          else if c =? 10 then []
          else fstr_exprs q 0 0 r1 (n + 1)%nat
      end
  end.

(* for every f-string token of a run: (scalar index of the token, scalar ranges of its {expression} parts) *)
Definition fstring_parts (src : list ch) (o : coutcome) : list (Z * list (Z * Z)) :=
  match o with
  | CDone evs =>
      flat_map (fun e => match e with
                         | CT k a _ =>
                             if k =? K_FSTR then
                               match skipn a src with
                               | _ :: q :: r1 =>
                                   [(Z.of_nat a, map (fun p : nat * nat => (Z.of_nat (a + 1 + fst p), Z.of_nat (a + 1 + snd p)))
                                                     (fstr_exprs q 0 0 r1 1))]
                               | _ => []
                               end
                             else []
                         | _ => []
                         end) evs
  | COutOfFuel => []
  end.

(* ------------------------------------------------------------------ rendering and input decoding for the runs *)

Definition rcev (src : list ch) (e : cev) : Z * Z * Z * Z * Z :=
  match e with
  | CT k a b => (Z.of_N k, Z.of_nat a, Z.of_nat b, 0%Z, 0%Z)
  | CE c a b x y => ((100 + Z.of_N c)%Z, Z.of_nat a, Z.of_nat b, Z.of_nat x, Z.of_nat y)
  end.

Definition crender (src : list ch) (o : coutcome) : list (Z * Z * Z * Z * Z) :=
  match o with CDone evs => map (rcev src) evs | COutOfFuel => [((-1)%Z, 0%Z, 0%Z, 0%Z, 0%Z)] end.
