(* Lex/Layout.v — the layout state machine of the Incan lexer over a character-class alphabet.
   Definitions only (shared by C10 and C11).

   Source of the hand model (tied by the correspondence runs of checks/c10.py and checks/c11.py):
     crates/incan_syntax/src/lexer/mod.rs     Lexer::tokenize, Lexer::scan_token, open_bracket, close_bracket
     crates/incan_syntax/src/lexer/indent.rs  Lexer::handle_indentation

   A string literal, a word (identifier / keyword / number) and an operator are ONE symbol each:
   how their characters are scanned is the concern of Lex/Chars.v (C11); no layout edit of C10 acts
   inside one.  [Bad] is a character (or literal) for which the real lexer pushes an error and no
   token ("Unexpected character", "Invalid integer literal").

   Two presentations are defined:
     [lex]   the machine, one [mstep] per call of scan_token, run with explicit fuel;
     [scan]  a one-pass, one-symbol-at-a-time transition system (the big-step layout semantics).
   Lex/LayoutProofs.v proves [lex s = Done (scan s)] for every input. *)
From Coq Require Import List Arith Lia Bool NArith ZArith.
Import ListNotations.

Inductive sym : Type :=
| Sp | Tab | Nl | Cr | Hash
| Open (k : N) | Close (k : N)
| Str (n : N) | Word (n : N) | Punct (n : N) | Bad (n : N).

Inductive tok : Type := TNewline | TIndent | TDedent | TEof | TSym (s : sym).
Inductive err : Type := EUnmatched | EInconsistent (expected got : nat) | ELex (n : N).
Inductive ev : Type := T (t : tok) | E (e : err).

(* ---------------------------------------------------------------- indentation stack (head = top) *)

Definition top (stk : list nat) : nat := match stk with [] => 0 | t :: _ => t end.

(* indent.rs:65  `for &level in self.indent_stack.iter().rev() { if indent >= level {break} count += 1 }` *)
Fixpoint count_above (ind : nat) (stk : list nat) : nat :=
  match stk with
  | [] => 0
  | l :: r => if l <=? ind then 0 else S (count_above ind r)
  end.

(* indent.rs:73  `while let Some(&top) = last { if indent >= top {break} pop; if is_empty {push(0); break} }` *)
Fixpoint pop_above (ind : nat) (stk : list nat) : list nat :=
  match stk with
  | [] => []
  | l :: r => if l <=? ind then stk else match r with [] => [0] | _ => pop_above ind r end
  end.

(* what handle_indentation emits for a code line of indentation [ind], and the new stack *)
Definition indent_events (ind : nat) (stk : list nat) : list ev * list nat :=
  let cur := top stk in
  if cur <? ind then ([T TIndent], ind :: stk)
  else if ind <? cur then
    let stk' := pop_above ind stk in
    let final := top stk' in
    ((if ind =? final then [] else [E (EInconsistent final ind)]) ++ repeat (T TDedent) (count_above ind stk), stk')
  else ([], stk).

(* tokenize(): `while indent_stack.len() > 1 { pop; push Dedent }` then Eof *)
Definition closing (stk : list nat) : list ev := repeat (T TDedent) (length stk - 1) ++ [T TEof].

(* ---------------------------------------------------------------- the machine *)

Record st : Type := mkst {
  rest : list sym;        (* self.chars (remaining input) *)
  stk : list nat;         (* self.indent_stack, top first *)
  pending : nat;          (* self.pending_dedents *)
  als : bool;             (* self.at_line_start *)
  depth : nat;            (* self.bracket_depth *)
  out : list ev           (* self.tokens and self.errors, most recent first *)
}.

Definition init (s : list sym) : st := mkst s [0] 0 true 0 [].

(* scan_token: `while peek is ' ' or '\t' advance` *)
Fixpoint drop_blanks (r : list sym) : list sym :=
  match r with
  | Sp :: r' => drop_blanks r'
  | Tab :: r' => drop_blanks r'
  | _ => r
  end.

(* `while let Some(c) = peek { if c == '\n' {break} advance }` *)
Fixpoint skip_comment (r : list sym) : list sym :=
  match r with
  | [] => []
  | Nl :: _ => r
  | _ :: r' => skip_comment r'
  end.

Inductive hres : Type :=
| HReturn (r : list sym)              (* blank or comment line consumed; `return` with at_line_start still set *)
| HStop (ind : nat) (r : list sym).   (* `break` at a code symbol, or end of input *)

(* the `while let Some(c) = self.peek()` loop of handle_indentation *)
Fixpoint hi_loop (r : list sym) (ind : nat) : hres :=
  match r with
  | [] => HStop ind []
  | Sp :: r' => hi_loop r' (ind + 1)
  | Tab :: r' => hi_loop r' (ind + 4)
  | Cr :: r' => hi_loop r' ind
  | Nl :: r' => HReturn r'
  | Hash :: r' => HReturn (match skip_comment r' with Nl :: r'' => r'' | x => x end)
  | _ => HStop ind r
  end.

Definition set_rest (s : st) (r : list sym) : st := mkst r (stk s) (pending s) (als s) (depth s) (out s).
Definition emit1 (s : st) (r : list sym) (e : ev) : st := mkst r (stk s) (pending s) (als s) (depth s) (e :: out s).

(* one call of Lexer::scan_token (precondition of the caller: rest s <> []) *)
Definition mstep (s : st) : st :=
  if 0 <? pending s then
    mkst (rest s) (stk s) (pending s - 1) (als s) (depth s) (T TDedent :: out s)
  else if als s then
    (* handle_indentation *)
    match hi_loop (rest s) 0 with
    | HReturn r => set_rest s r
    | HStop _ [] => mkst [] (stk s) (pending s) false (depth s) (out s)
    | HStop ind r =>
        let cur := top (stk s) in
        if cur <? ind then
          mkst r (ind :: stk s) (pending s) false (depth s) (T TIndent :: out s)
        else if ind <? cur then
          let count := count_above ind (stk s) in
          let stk' := pop_above ind (stk s) in
          let final := top stk' in
          let errs := if ind =? final then [] else [E (EInconsistent final ind)] in
          mkst r stk' (if 1 <? count then count - 1 else pending s) false (depth s)
               ((if 0 <? count then [T TDedent] else []) ++ errs ++ out s)
        else
          mkst r (stk s) (pending s) false (depth s) (out s)
    end
  else
    match drop_blanks (rest s) with
    | [] => set_rest s []
    | c :: r =>
        match c with
        | Hash => set_rest s (skip_comment r)
        | Nl => if 0 <? depth s then set_rest s r
                else mkst r (stk s) (pending s) true (depth s) (T TNewline :: out s)
        | Cr => set_rest s r
        | Sp => emit1 s r (E (ELex 32))      (* unreachable after drop_blanks; Rust's `_` arm *)
        | Tab => emit1 s r (E (ELex 9))      (* unreachable after drop_blanks; Rust's `_` arm *)
        | Open _ => mkst r (stk s) (pending s) (als s) (depth s + 1) (T (TSym c) :: out s)
        | Close _ =>
            if depth s =? 0 then mkst r (stk s) (pending s) (als s) 0 (T (TSym c) :: E EUnmatched :: out s)
            else mkst r (stk s) (pending s) (als s) (depth s - 1) (T (TSym c) :: out s)
        | Str _ | Word _ | Punct _ => emit1 s r (T (TSym c))
        | Bad n => emit1 s r (E (ELex n))
        end
    end.

Inductive outcome : Type := Done (evs : list ev) | OutOfFuel.

(* tokenize(): `while !is_at_end() { scan_token() }`, then the closing dedents and Eof *)
Fixpoint run (fuel : nat) (s : st) : outcome :=
  match rest s with
  | [] => Done (rev (out s) ++ closing (stk s))
  | _ :: _ => match fuel with
              | 0 => OutOfFuel
              | S f => run f (mstep s)
              end
  end.

Definition lex_fuel (fuel : nat) (s : list sym) : outcome := run fuel (init s).
Definition lex (s : list sym) : outcome := lex_fuel (2 * length s + 2) s.

(* Result<Vec<Token>, Vec<CompileError>> *)
Definition toks (evs : list ev) : list tok := flat_map (fun e => match e with T t => [t] | E _ => [] end) evs.
Definition errs (evs : list ev) : list err := flat_map (fun e => match e with E x => [x] | T _ => [] end) evs.
Definition result (evs : list ev) : list tok + list err :=
  match errs evs with [] => inl (toks evs) | es => inr es end.

(* ---------------------------------------------------------------- the one-pass transition system *)

Inductive mode : Type :=
| LS (ind : nat)    (* at the start of a line, [ind] columns of indentation counted so far *)
| CL                (* inside a comment that began at line start (its newline is swallowed) *)
| IL (d : nat)      (* inside a line, bracket depth d *)
| CI (d : nat).     (* inside a comment that began inside a line *)

Definition il_step (c : sym) (d : nat) : list ev * mode :=
  match c with
  | Sp | Tab | Cr => ([], IL d)
  | Hash => ([], CI d)
  | Nl => if 0 <? d then ([], IL d) else ([T TNewline], LS 0)
  | Open _ => ([T (TSym c)], IL (d + 1))
  | Close _ => if d =? 0 then ([E EUnmatched; T (TSym c)], IL 0) else ([T (TSym c)], IL (d - 1))
  | Str _ | Word _ | Punct _ => ([T (TSym c)], IL d)
  | Bad n => ([E (ELex n)], IL d)
  end.

Definition trans (c : sym) (m : mode) (stk : list nat) : list ev * mode * list nat :=
  match m with
  | LS ind =>
      match c with
      | Sp => ([], LS (ind + 1), stk)
      | Tab => ([], LS (ind + 4), stk)
      | Cr => ([], LS ind, stk)
      | Nl => ([], LS 0, stk)
      | Hash => ([], CL, stk)
      | _ => let '(e1, stk') := indent_events ind stk in
             let '(e2, m') := il_step c 0 in (e1 ++ e2, m', stk')
      end
  | CL => match c with Nl => ([], LS 0, stk) | _ => ([], CL, stk) end
  | IL d => let '(e, m') := il_step c d in (e, m', stk)
  | CI d => match c with
            | Nl => let '(e, m') := il_step Nl d in (e, m', stk)
            | _ => ([], CI d, stk)
            end
  end.

Fixpoint walk (s : list sym) (m : mode) (stk : list nat) : list ev * mode * list nat :=
  match s with
  | [] => ([], m, stk)
  | c :: r => let '(e1, m1, s1) := trans c m stk in
              let '(e2, m2, s2) := walk r m1 s1 in (e1 ++ e2, m2, s2)
  end.

Definition scan_from (s : list sym) (m : mode) (stk : list nat) : list ev :=
  let '(e, _, stk') := walk s m stk in e ++ closing stk'.

Definition scan (s : list sym) : list ev := scan_from s (LS 0) [0].

(* ---------------------------------------------------------------- vocabulary of the C10 edits *)

Definition is_blank (c : sym) : bool := match c with Sp | Tab | Cr => true | _ => false end.
Definition is_nl (c : sym) : bool := match c with Nl => true | _ => false end.
Definition blanks (l : list sym) : Prop := forallb is_blank l = true.
Definition no_nl (l : list sym) : Prop := forallb (fun c => negb (is_nl c)) l = true.

Fixpoint width (l : list sym) : nat :=
  match l with
  | Sp :: r => 1 + width r
  | Tab :: r => 4 + width r
  | _ :: r => width r
  | [] => 0
  end.

Definition close_k (k : nat) : list ev := repeat (T TDedent) k ++ [T TEof].

(* equality of event lists up to an optional Newline immediately before the closing Dedent* Eof *)
Definition approx (x y : list ev) : Prop :=
  x = y \/ exists a k, (x = a ++ T TNewline :: close_k k /\ y = a ++ close_k k)
                    \/ (y = a ++ T TNewline :: close_k k /\ x = a ++ close_k k).

Definition crlf (s : list sym) : list sym := flat_map (fun c => match c with Nl => [Cr; Nl] | _ => [c] end) s.

(* one physical line [l'] is a re-indentation of [l] by the column map [f]: the leading run of blanks
   (spaces, tabs, CRs) of width w is replaced by a run of width [f w].  [W] is the set of columns on which
   [f] is required to be monotone (all columns that occur); blank lines and comment-only lines may get any
   leading blanks at all. *)
Definition reindent_line (W : nat -> Prop) (f : nat -> nat) (l l' : list sym) : Prop :=
  exists ws ws' body, l = ws ++ body /\ l' = ws' ++ body /\ blanks ws /\ blanks ws' /\
    match body with
    | [] => True
    | Hash :: _ => True
    | c :: _ => is_blank c = false /\ W (width ws) /\ width ws' = f (width ws)
    end.

Inductive reindented (W : nat -> Prop) (f : nat -> nat) : list sym -> list sym -> Prop :=
| ri_last l l' : no_nl l -> reindent_line W f l l' -> reindented W f l l'
| ri_cons l l' r r' : no_nl l -> reindent_line W f l l' -> reindented W f r r' ->
                      reindented W f (l ++ Nl :: r) (l' ++ Nl :: r').

Definition map_err (f : nat -> nat) (e : ev) : ev :=
  match e with E (EInconsistent a b) => E (EInconsistent (f a) (f b)) | x => x end.

Definition mode_after (p : list sym) : mode := let '(_, m, _) := walk p (LS 0) [0] in m.

(* ---------------------------------------------------------------- rendering for the correspondence run *)

Definition rsym (c : sym) : Z * Z :=
  (match c with
   | Sp => (10, 0) | Tab => (11, 0) | Nl => (12, 0) | Cr => (13, 0) | Hash => (14, 0)
   | Open k => (5, Z.of_N k) | Close k => (6, Z.of_N k)
   | Str n => (7, Z.of_N n) | Word n => (8, Z.of_N n) | Punct n => (9, Z.of_N n) | Bad n => (15, Z.of_N n)
   end)%Z.

Definition rev_ev (e : ev) : Z * Z * Z :=
  (match e with
   | T TNewline => (1, 0, 0) | T TIndent => (2, 0, 0) | T TDedent => (3, 0, 0) | T TEof => (4, 0, 0)
   | T (TSym c) => let '(a, b) := rsym c in (a, b, 0)
   | E EUnmatched => (20, 0, 0)
   | E (EInconsistent a b) => (21, Z.of_nat a, Z.of_nat b)
   | E (ELex n) => (22, Z.of_N n, 0)
   end)%Z.

Definition render (o : outcome) : list (Z * Z * Z) :=
  match o with Done evs => map rev_ev evs | OutOfFuel => [((-1)%Z, 0%Z, 0%Z)] end.
