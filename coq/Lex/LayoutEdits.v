(* Lex/LayoutEdits.v — invariance of the one-pass layout semantics [scan] under the layout edits of C10.
   Every lemma is for all inputs and all positions (p and q are arbitrary prefix / suffix). *)
From Coq Require Import List Arith Lia Bool NArith ZArith.
From Verif Require Import Lex.Layout.
Import ListNotations.

(* ------------------------------------------------------------------ composition *)

Lemma walk_app : forall p q m stk,
  walk (p ++ q) m stk =
  let '(e1, m1, s1) := walk p m stk in
  let '(e2, m2, s2) := walk q m1 s1 in (e1 ++ e2, m2, s2).
Proof.
  induction p as [|c p IH]; intros q m stk; cbn [app walk].
  - destruct (walk q m stk) as [[e2 m2] s2]. reflexivity.
  - destruct (trans c m stk) as [[e1 m1] s1]. rewrite IH.
    destruct (walk p m1 s1) as [[e2 m2] s2]. destruct (walk q m2 s2) as [[e3 m3] s3].
    now rewrite app_assoc.
Qed.

Lemma scan_from_app : forall p q m stk,
  scan_from (p ++ q) m stk = let '(e1, m1, s1) := walk p m stk in e1 ++ scan_from q m1 s1.
Proof.
  intros. unfold scan_from. rewrite walk_app.
  destruct (walk p m stk) as [[e1 m1] s1]. destruct (walk q m1 s1) as [[e2 m2] s2].
  now rewrite app_assoc.
Qed.

(* a segment that every state steps over silently and identically to another segment *)
Lemma scan_from_replace : forall p x y q m stk,
  (forall m1 s1, walk x m1 s1 = walk y m1 s1) ->
  scan_from (p ++ x ++ q) m stk = scan_from (p ++ y ++ q) m stk.
Proof.
  intros p x y q m stk H. rewrite !scan_from_app.
  destruct (walk p m stk) as [[e1 m1] s1]. rewrite !scan_from_app, H. reflexivity.
Qed.

Lemma walk_cons : forall c r m stk,
  walk (c :: r) m stk = let '(e1, m1, s1) := trans c m stk in
                        let '(e2, m2, s2) := walk r m1 s1 in (e1 ++ e2, m2, s2).
Proof. reflexivity. Qed.

(* ------------------------------------------------------------------ blanks and comments *)

(* a run of blanks emits nothing, leaves the stack alone, and only moves the indentation counter *)
Lemma walk_blanks : forall ws m stk, blanks ws ->
  walk ws m stk = ([], match m with LS i => LS (i + width ws) | x => x end, stk).
Proof.
  unfold blanks. induction ws as [|c ws IH]; intros m stk H; cbn [walk width].
  - destruct m; try reflexivity. now rewrite Nat.add_0_r.
  - cbn [forallb] in H. apply andb_true_iff in H as [Hc Hws].
    destruct c; try discriminate Hc; destruct m; cbn [trans il_step]; rewrite IH by exact Hws; cbn [app];
      try reflexivity; f_equal; f_equal; f_equal; cbn [width]; lia.
Qed.

Lemma trans_nl_after_blanks : forall i j stk, trans Nl (LS i) stk = trans Nl (LS j) stk.
Proof. reflexivity. Qed.

(* the newline that ends a line erases the indentation counter: blanks before it are invisible *)
Lemma walk_blanks_nl : forall ws m stk, blanks ws -> walk (ws ++ [Nl]) m stk = walk [Nl] m stk.
Proof.
  intros ws m stk H. rewrite walk_app, (walk_blanks ws m stk H).
  destruct m; cbn [walk trans]; repeat match goal with |- context [il_step ?c ?d] => destruct (il_step c d) end; reflexivity.
Qed.

Definition comment_mode (m : mode) : mode :=
  match m with LS _ => CL | IL d => CI d | x => x end.

Lemma walk_comment_body : forall body m stk, no_nl body ->
  (m = CL \/ exists d, m = CI d) -> walk body m stk = ([], m, stk).
Proof.
  unfold no_nl. induction body as [|c b IH]; intros m stk H Hm; [reflexivity|].
  cbn [forallb] in H. apply andb_true_iff in H as [Hc Hb].
  destruct Hm as [->|[d ->]]; destruct c; try discriminate Hc; cbn [walk trans];
    (rewrite IH; [reflexivity | exact Hb | (now left) || (right; now eexists)]).
Qed.

Lemma walk_comment : forall body m stk, no_nl body ->
  walk (Hash :: body) m stk = ([], comment_mode m, stk).
Proof.
  intros body m stk H. rewrite walk_cons.
  destruct m; cbn [trans il_step comment_mode]; rewrite walk_comment_body; try exact H; try reflexivity;
    try (now left); try (right; now eexists).
Qed.

Lemma trans_nl_comment : forall m stk, trans Nl (comment_mode m) stk = trans Nl m stk.
Proof. destruct m; reflexivity. Qed.

Lemma walk_comment_nl : forall body m stk, no_nl body ->
  walk (Hash :: body ++ [Nl]) m stk = walk [Nl] m stk.
Proof.
  intros body m stk H. change (Hash :: body ++ [Nl]) with ((Hash :: body) ++ [Nl]).
  rewrite walk_app, walk_comment by exact H. cbn [walk]. rewrite trans_nl_comment.
  destruct (trans Nl m stk) as [[e1 m1] s1]. reflexivity.
Qed.

Lemma closing_indep : forall p m stk e m1 s1, walk p m stk = (e, m1, s1) ->
  scan_from p m stk = e ++ closing s1.
Proof. intros. unfold scan_from. now rewrite H. Qed.

(* E1: a comment before a line end (or at the end of the file), at any position *)
Lemma edit_comment_eol : forall p body q,
  no_nl body -> (q = [] \/ exists q', q = Nl :: q') ->
  scan (p ++ Hash :: body ++ q) = scan (p ++ q).
Proof.
  intros p body q Hb [->|[q' ->]]; unfold scan.
  - rewrite !scan_from_app.
    destruct (walk p (LS 0) [0]) as [[e1 m1] s1]. f_equal.
    unfold scan_from. rewrite app_nil_r, walk_comment by exact Hb. reflexivity.
  - assert (Hq : Hash :: body ++ Nl :: q' = (Hash :: body ++ [Nl]) ++ q').
    { cbn [app]. now rewrite <- app_assoc. }
    rewrite Hq. change (Nl :: q') with ([Nl] ++ q').
    apply scan_from_replace. intros. apply walk_comment_nl. exact Hb.
Qed.

(* E2: blanks before a line end (or at the end of the file) *)
Lemma edit_trailing_blanks : forall p ws q,
  blanks ws -> (q = [] \/ exists q', q = Nl :: q') ->
  scan (p ++ ws ++ q) = scan (p ++ q).
Proof.
  intros p ws q Hw [->|[q' ->]]; unfold scan.
  - rewrite !scan_from_app.
    destruct (walk p (LS 0) [0]) as [[e1 m1] s1]. f_equal.
    unfold scan_from. rewrite app_nil_r, walk_blanks by exact Hw. cbn [walk]. reflexivity.
  - change (Nl :: q') with ([Nl] ++ q'). rewrite (app_assoc ws).
    apply scan_from_replace. intros. apply walk_blanks_nl. exact Hw.
Qed.

(* the mode in which a physical line begins *)
Definition line_start_mode (m : mode) : Prop :=
  m = LS 0 \/ exists d, m = IL (S d).

Lemma trans_nl_line_start : forall m stk e m1 s1, trans Nl m stk = (e, m1, s1) -> line_start_mode m1 /\ s1 = stk.
Proof.
  intros m stk e m1 s1 H. destruct m as [i| |d|d]; cbn [trans il_step] in H.
  - inversion H; subst. split; [now left | reflexivity].
  - inversion H; subst. split; [now left | reflexivity].
  - destruct d; cbn in H; inversion H; subst; (split; [|reflexivity]); [now left | right; now eexists].
  - destruct d; cbn in H; inversion H; subst; (split; [|reflexivity]); [now left | right; now eexists].
Qed.

Lemma walk_snoc_nl : forall p m stk e m1 s1,
  walk (p ++ [Nl]) m stk = (e, m1, s1) -> line_start_mode m1.
Proof.
  intros p m stk e m1 s1 H. rewrite walk_app in H.
  destruct (walk p m stk) as [[e0 m0] s0]. cbn [walk] in H.
  destruct (trans Nl m0 s0) as [[e2 m2] s2] eqn:Ht. inversion H; subst.
  apply (trans_nl_line_start _ _ _ _ _ Ht).
Qed.

(* a whole blank line or comment line is invisible where a physical line begins *)
Lemma walk_blank_line : forall ws m stk, blanks ws -> line_start_mode m ->
  walk (ws ++ [Nl]) m stk = ([], m, stk).
Proof.
  intros ws m stk Hw Hm. rewrite walk_blanks_nl by exact Hw.
  destruct Hm as [->|[d ->]]; reflexivity.
Qed.

Lemma walk_comment_line : forall ws body m stk, blanks ws -> no_nl body -> line_start_mode m ->
  walk (ws ++ Hash :: body ++ [Nl]) m stk = ([], m, stk).
Proof.
  intros ws body m stk Hw Hb Hm. rewrite walk_app, walk_blanks by exact Hw.
  rewrite walk_comment_nl by exact Hb.
  destruct Hm as [->|[d ->]]; reflexivity.
Qed.

Definition layout_line (x : list sym) : Prop :=
  exists ws, blanks ws /\ (x = ws ++ [Nl] \/ exists body, no_nl body /\ x = ws ++ Hash :: body ++ [Nl]).

Lemma walk_layout_line : forall x m stk, layout_line x -> line_start_mode m -> walk x m stk = ([], m, stk).
Proof.
  intros x m stk (ws & Hw & [->|(body & Hb & ->)]) Hm.
  - now apply walk_blank_line.
  - now apply walk_comment_line.
Qed.

(* E3: a blank line (empty, blanks, with Cr) or a comment-only line, inserted where a line begins *)
Lemma edit_layout_line : forall p x q,
  layout_line x -> (p = [] \/ exists p', p = p' ++ [Nl]) ->
  scan (p ++ x ++ q) = scan (p ++ q).
Proof.
  intros p x q Hx Hp. unfold scan. rewrite !scan_from_app.
  destruct (walk p (LS 0) [0]) as [[e1 m1] s1] eqn:Hwp.
  assert (Hm : line_start_mode m1).
  { destruct Hp as [->|[p' ->]].
    - cbn in Hwp. inversion Hwp. now left.
    - eapply walk_snoc_nl. exact Hwp. }
  f_equal. rewrite scan_from_app, walk_layout_line by assumption. reflexivity.
Qed.

(* E4: a carriage return is invisible at every position and in every state *)
Lemma trans_cr : forall m stk, trans Cr m stk = ([], m, stk).
Proof. destruct m; reflexivity. Qed.

Lemma edit_cr : forall p q, scan (p ++ Cr :: q) = scan (p ++ q).
Proof.
  intros. unfold scan. change (Cr :: q) with ([Cr] ++ q).
  rewrite <- (app_nil_l q) at 2. apply scan_from_replace.
  intros. cbn [walk]. rewrite trans_cr. reflexivity.
Qed.

Lemma scan_from_crlf : forall s m stk, scan_from (crlf s) m stk = scan_from s m stk.
Proof.
  induction s as [|c s IH]; intros m stk; [reflexivity|].
  unfold crlf. cbn [flat_map]. fold (crlf s).
  assert (Hgen : forall l, scan_from (l ++ crlf s) m stk = scan_from (l ++ s) m stk).
  { intros l. rewrite !scan_from_app. destruct (walk l m stk) as [[e1 m1] s1]. now rewrite IH. }
  destruct c; try (apply (Hgen [_])).
  change ([Cr; Nl] ++ crlf s) with ([Cr] ++ [Nl] ++ crlf s).
  rewrite (scan_from_app [Cr]). cbn [walk]. rewrite trans_cr. cbn [app].
  apply (Hgen [Nl]).
Qed.

Lemma edit_crlf : forall s, scan (crlf s) = scan s.
Proof. intros. apply scan_from_crlf. Qed.

(* E5: the final newline *)
Lemma edit_final_newline : forall s, approx (scan (s ++ [Nl])) (scan s).
Proof.
  intros s. unfold scan. rewrite scan_from_app.
  destruct (walk s (LS 0) [0]) as [[e m] stk] eqn:Hw.
  rewrite (closing_indep _ _ _ _ _ _ Hw).
  unfold scan_from. cbn [walk].
  destruct (trans Nl m stk) as [[e2 m2] s2] eqn:Ht.
  pose proof (trans_nl_line_start _ _ _ _ _ Ht) as [_ ->].
  assert (He : e2 = [] \/ e2 = [T TNewline]).
  { destruct m as [i| |d|d]; cbn [trans il_step] in Ht.
    - inversion Ht; now left.
    - inversion Ht; now left.
    - destruct d; cbn in Ht; inversion Ht; [now right | now left].
    - destruct d; cbn in Ht; inversion Ht; [now right | now left]. }
  destruct He as [->| ->]; cbn [app].
  - left. try rewrite app_nil_r. reflexivity.
  - right. exists e, (length stk - 1). left. unfold closing, close_k. split; [|reflexivity].
    try rewrite app_nil_r. reflexivity.
Qed.

(* E6: a newline followed by arbitrary blanks between two symbols inside brackets *)
Lemma walk_nl_in_brackets : forall ws d stk, blanks ws ->
  walk (Nl :: ws) (IL (S d)) stk = ([], IL (S d), stk).
Proof.
  intros. rewrite walk_cons. cbn [trans il_step Nat.ltb Nat.leb]. rewrite walk_blanks by assumption.
  reflexivity.
Qed.

Lemma edit_newline_in_brackets : forall p ws q d,
  blanks ws -> mode_after p = IL (S d) ->
  scan (p ++ Nl :: ws ++ q) = scan (p ++ q).
Proof.
  intros p ws q d Hw Hm. unfold scan, mode_after in *.
  change (Nl :: ws ++ q) with ((Nl :: ws) ++ q). rewrite !scan_from_app.
  destruct (walk p (LS 0) [0]) as [[e1 m1] s1]. subst m1. f_equal.
  rewrite scan_from_app, walk_nl_in_brackets by assumption. reflexivity.
Qed.

(* the bracket depth of [mode_after] is what one expects: opening brackets outside comments minus closers *)
Lemma mode_after_open : forall p k d, mode_after p = IL d -> mode_after (p ++ [Open k]) = IL (d + 1).
Proof.
  intros p k d. unfold mode_after. rewrite walk_app.
  destruct (walk p (LS 0) [0]) as [[e1 m1] s1]. intros ->. reflexivity.
Qed.

(* ------------------------------------------------------------------ E7: re-indentation *)

Definition sym_is_hash (c : sym) : bool := match c with Hash => true | _ => false end.

Section Reindent.
  Variable W : nat -> Prop.
  Variable f : nat -> nat.
  Hypothesis f_mono : forall a b, W a -> W b -> a < b -> f a < f b.
  Hypothesis W_zero : W 0.
  Hypothesis f_zero : f 0 = 0.

  Lemma f_le : forall a b, W a -> W b -> a <= b -> f a <= f b.
  Proof. intros a b Wa Wb H. destruct (Nat.eq_dec a b) as [->|Hn]; [lia|]. assert (a < b) as L by lia. pose proof (f_mono a b Wa Wb L). lia. Qed.

  Lemma f_leb : forall a b, W a -> W b -> (f a <=? f b) = (a <=? b).
  Proof.
    intros a b Wa Wb. destruct (a <=? b) eqn:E.
    - apply Nat.leb_le in E. apply Nat.leb_le. now apply f_le.
    - apply Nat.leb_gt in E. apply Nat.leb_gt. now apply f_mono.
  Qed.

  Lemma f_ltb : forall a b, W a -> W b -> (f a <? f b) = (a <? b).
  Proof.
    intros a b Wa Wb. unfold Nat.ltb. destruct (S a <=? b) eqn:E.
    - apply Nat.leb_le in E. apply Nat.leb_le. assert (a < b) as L by lia. pose proof (f_mono a b Wa Wb L). lia.
    - apply Nat.leb_gt in E. apply Nat.leb_gt. assert (b <= a) as L by lia. pose proof (f_le b a Wb Wa L). lia.
  Qed.

  Lemma f_eqb : forall a b, W a -> W b -> (f a =? f b) = (a =? b).
  Proof.
    intros a b Wa Wb. destruct (a =? b) eqn:E.
    - apply Nat.eqb_eq in E. subst. apply Nat.eqb_refl.
    - apply Nat.eqb_neq in E. apply Nat.eqb_neq. intros H.
      destruct (Nat.lt_ge_cases a b) as [L|L].
      + pose proof (f_mono a b Wa Wb L). lia.
      + assert (b < a) as L2 by lia. pose proof (f_mono b a Wb Wa L2). lia.
  Qed.

  Lemma top_map : forall stk, top (map f stk) = f (top stk).
  Proof. destruct stk; cbn; [now rewrite f_zero | reflexivity]. Qed.

  Lemma top_W : forall stk, Forall W stk -> W (top stk).
  Proof. intros stk H. destruct stk; cbn; [exact W_zero | now inversion H]. Qed.

  Lemma count_above_map : forall ind stk, W ind -> Forall W stk -> count_above (f ind) (map f stk) = count_above ind stk.
  Proof.
    induction stk as [|l r IH]; intros Wi Hs; cbn; [reflexivity|]. inversion Hs; subst.
    rewrite f_leb by assumption. destruct (l <=? ind); [reflexivity | now rewrite IH].
  Qed.

  Lemma pop_above_map : forall ind stk, W ind -> Forall W stk ->
    pop_above (f ind) (map f stk) = map f (pop_above ind stk) /\ Forall W (pop_above ind stk).
  Proof.
    induction stk as [|l r IH]; intros Wi Hs; cbn [map pop_above]; [split; [reflexivity | constructor]|].
    inversion Hs; subst. rewrite f_leb by assumption.
    destruct (l <=? ind); [split; [reflexivity | exact Hs]|].
    destruct r as [|l2 r2]; cbn [map]; [split; [now rewrite f_zero | constructor; [exact W_zero | constructor]] | now apply IH].
  Qed.

  Lemma map_err_repeat : forall n, map (map_err f) (repeat (T TDedent) n) = repeat (T TDedent) n.
  Proof. induction n; cbn; [reflexivity | now rewrite IHn]. Qed.

  Lemma indent_events_map : forall ind stk e stk', W ind -> Forall W stk ->
    indent_events ind stk = (e, stk') ->
    indent_events (f ind) (map f stk) = (map (map_err f) e, map f stk') /\ Forall W stk'.
  Proof.
    intros ind stk e stk' Wi Hs H. unfold indent_events in *. pose proof (top_W stk Hs) as Wt.
    rewrite top_map, !f_ltb by assumption.
    destruct (top stk <? ind).
    - inversion H; subst. split; [reflexivity | now constructor].
    - destruct (ind <? top stk).
      + inversion H; subst. destruct (pop_above_map ind stk Wi Hs) as [Hp Wp].
        rewrite Hp, top_map, f_eqb, count_above_map by (auto using top_W).
        rewrite map_app, map_err_repeat. split; [|exact Wp].
        destruct (ind =? top (pop_above ind stk)); reflexivity.
      + inversion H; subst. split; [reflexivity | exact Hs].
  Qed.

  Lemma il_step_no_inconsistent : forall c d e m, il_step c d = (e, m) -> map (map_err f) e = e.
  Proof.
    intros c d e m H. destruct c; cbn [il_step] in H;
      try (inversion H; subst; reflexivity);
      try (destruct (0 <? d); inversion H; subst; reflexivity);
      try (destruct (d =? 0); inversion H; subst; reflexivity).
  Qed.

  (* in the modes that do not look at the stack, the events and the next mode do not depend on it *)
  Definition stackless (m : mode) : Prop := match m with LS _ => False | _ => True end.

  Lemma trans_stackless : forall c m, stackless m ->
    exists e m', (forall stk, trans c m stk = (e, m', stk)) /\ map (map_err f) e = e /\
                 (is_nl c = false -> stackless m').
  Proof.
    intros c m Hm. destruct m as [i| |d|d]; [destruct Hm| | |].
    - destruct c; (eexists; eexists; split; [intros; reflexivity | split; [reflexivity | intros; exact I || discriminate]]).
    - cbn [trans]. destruct (il_step c d) as [e m'] eqn:Hs. exists e, m'. split; [reflexivity|].
      split; [eapply il_step_no_inconsistent; exact Hs|].
      intros Hc. destruct c; try discriminate Hc; cbn [il_step] in Hs;
        try (inversion Hs; subst; exact I); destruct (d =? 0); inversion Hs; subst; exact I.
    - destruct c; try (eexists; eexists; split; [intros; reflexivity | split; [reflexivity | intros; exact I || discriminate]]).
      cbn [trans]. destruct (il_step Nl d) as [e m'] eqn:Hs. exists e, m'. split; [reflexivity|].
      split; [eapply il_step_no_inconsistent; exact Hs | discriminate].
  Qed.

  Lemma walk_stackless : forall b m, stackless m -> no_nl b ->
    exists e m', (forall stk, walk b m stk = (e, m', stk)) /\ map (map_err f) e = e /\ stackless m'.
  Proof.
    unfold no_nl. induction b as [|c b IH]; intros m Hm Hb.
    - exists [], m. repeat split; assumption.
    - cbn [forallb] in Hb. apply andb_true_iff in Hb as [Hc Hb].
      destruct (trans_stackless c m Hm) as (e1 & m1 & Ht & He1 & Hm1).
      assert (Hcn : is_nl c = false) by (destruct (is_nl c); [discriminate Hc | reflexivity]).
      destruct (IH m1 (Hm1 Hcn) Hb) as (e2 & m2 & Hw & He2 & Hm2).
      exists (e1 ++ e2), m2. split; [|split; [now rewrite map_app, He1, He2 | exact Hm2]].
      intros stk. cbn [walk]. now rewrite Ht, Hw.
  Qed.

  (* the state in which a physical line may begin, for the simulation *)
  Definition line_begin (m : mode) : Prop := match m with LS i => i = 0 | _ => True end.

  (* one physical line, re-indented: same events (errors mapped), related stacks, and a mode that is
     either identical, or [LS _] on both sides (the line held only blanks) *)
  Definition mode_sim (m m' : mode) : Prop := m = m' \/ exists i j, m = LS i /\ m' = LS j.

  Lemma walk_reindent_line : forall l l' m stk e m1 s1,
    no_nl l -> reindent_line W f l l' -> line_begin m -> Forall W stk ->
    walk l m stk = (e, m1, s1) ->
    exists m1', walk l' m (map f stk) = (map (map_err f) e, m1', map f s1) /\ mode_sim m1 m1' /\ Forall W s1.
  Proof.
    intros l l' m stk e m1 s1 Hnl (ws & ws' & body & -> & -> & Hws & Hws' & Hbody) Hm HW Hw.
    rewrite walk_app, walk_blanks in Hw by exact Hws. rewrite walk_app, walk_blanks by exact Hws'.
    assert (Hnb : no_nl body).
    { unfold no_nl in *. rewrite forallb_app in Hnl. now apply andb_true_iff in Hnl as [_ ?]. }
    destruct m as [i| |d|d].
    - (* at a line start: the indentation counter is f-related *)
      cbn in Hm. subst i. cbn [Nat.add] in *.
      destruct body as [|c b].
      + cbn [walk] in *. inversion Hw; subst. eexists. split; [reflexivity|]. split; [right; now do 2 eexists | exact HW].
      + cbn [walk] in Hw |- *.
        assert (Hcn : is_nl c = false).
        { unfold no_nl in Hnb. cbn [forallb] in Hnb. apply andb_true_iff in Hnb as [Hc _].
          destruct (is_nl c); [discriminate Hc | reflexivity]. }
        assert (Hb : no_nl b).
        { unfold no_nl in *. cbn [forallb] in Hnb. now apply andb_true_iff in Hnb as [_ ?]. }
        destruct (sym_is_hash c) eqn:Hh.
        * destruct c; try discriminate Hh. cbn [trans] in Hw |- *.
          destruct (walk_stackless b CL I Hb) as (e2 & m2 & Hwb & He2 & _).
          rewrite Hwb in Hw. rewrite Hwb. inversion Hw; subst.
          eexists. split; [|split; [now left | exact HW]]. cbn [app]. now rewrite He2.
        * assert (Hcode : is_blank c = false /\ W (width ws) /\ width ws' = f (width ws)).
          { destruct c; try discriminate Hh; exact Hbody. }
          destruct Hcode as (Hblank & Wws & Hwidth). rewrite Hwidth.
          destruct (indent_events (width ws) stk) as [e1 stk1] eqn:Hie.
          destruct (indent_events_map _ _ _ _ Wws HW Hie) as [Hie' HW1].
          assert (Ht : trans c (LS (width ws)) stk = (let '(e2, m') := il_step c 0 in (e1 ++ e2, m', stk1)) /\
                       trans c (LS (f (width ws))) (map f stk) =
                         (let '(e2, m') := il_step c 0 in (map (map_err f) e1 ++ e2, m', map f stk1))).
          { destruct c; try discriminate Hblank; try discriminate Hcn; try discriminate Hh;
              cbn [trans]; rewrite Hie, Hie'; split; reflexivity. }
          destruct Ht as [Ht Ht']. rewrite Ht in Hw. rewrite Ht'. clear Ht Ht'.
          destruct (il_step c 0) as [e2 m2] eqn:Hil.
          assert (Hm2 : stackless m2).
          { destruct c; try discriminate Hcn; try discriminate Hblank; cbn [il_step] in Hil;
              inversion Hil; subst; exact I. }
          destruct (walk_stackless b m2 Hm2 Hb) as (e3 & m3 & Hwb & He3 & _).
          rewrite Hwb in Hw. rewrite Hwb. inversion Hw; subst.
          eexists. split; [|split; [now left | exact HW1]].
          rewrite !map_app, He3, (il_step_no_inconsistent _ _ _ _ Hil). reflexivity.
    - destruct (walk_stackless body CL I Hnb) as (e2 & m2 & Hwb & He2 & _).
      rewrite Hwb in Hw. rewrite Hwb. inversion Hw; subst. eexists. split; [|split; [now left | exact HW]]. cbn [app]. now rewrite He2.
    - destruct (walk_stackless body (IL d) I Hnb) as (e2 & m2 & Hwb & He2 & _).
      rewrite Hwb in Hw. rewrite Hwb. inversion Hw; subst. eexists. split; [|split; [now left | exact HW]]. cbn [app]. now rewrite He2.
    - destruct (walk_stackless body (CI d) I Hnb) as (e2 & m2 & Hwb & He2 & _).
      rewrite Hwb in Hw. rewrite Hwb. inversion Hw; subst. eexists. split; [|split; [now left | exact HW]]. cbn [app]. now rewrite He2.
  Qed.

  Lemma trans_nl_sim : forall m m' stk e m1 s1, mode_sim m m' ->
    trans Nl m stk = (e, m1, s1) ->
    trans Nl m' (map f stk) = (map (map_err f) e, m1, map f s1) /\ line_begin m1.
  Proof.
    intros m m' stk e m1 s1 Hs Ht.
    assert (Hlb : line_begin m1).
    { destruct (trans_nl_line_start _ _ _ _ _ Ht) as [[->|[d ->]] _]; exact eq_refl || exact I. }
    split; [|exact Hlb].
    destruct Hs as [<-|(i & j & -> & ->)].
    - destruct m as [i| |d|d]; cbn [trans il_step] in Ht |- *;
        try (inversion Ht; subst; reflexivity);
        destruct (0 <? d); inversion Ht; subst; reflexivity.
    - cbn [trans] in Ht |- *. inversion Ht; subst. reflexivity.
  Qed.

  Lemma closing_map : forall stk, closing (map f stk) = map (map_err f) (closing stk).
  Proof. intros. unfold closing. rewrite map_length, map_app, map_err_repeat. reflexivity. Qed.

  Lemma scan_from_reindented : forall s s', reindented W f s s' ->
    forall m stk, line_begin m -> Forall W stk ->
    scan_from s' m (map f stk) = map (map_err f) (scan_from s m stk).
  Proof.
    induction 1 as [l l' Hnl Hrl | l l' r r' Hnl Hrl Hrest IH]; intros m stk Hm HW.
    - unfold scan_from. destruct (walk l m stk) as [[e m1] s1] eqn:Hw.
      destruct (walk_reindent_line _ _ _ _ _ _ _ Hnl Hrl Hm HW Hw) as (m1' & Hw' & _).
      rewrite Hw'. now rewrite map_app, closing_map.
    - rewrite !scan_from_app.
      destruct (walk l m stk) as [[e m1] s1] eqn:Hw.
      destruct (walk_reindent_line _ _ _ _ _ _ _ Hnl Hrl Hm HW Hw) as (m1' & Hw' & Hsim & HW1).
      rewrite Hw'. rewrite map_app. f_equal.
      change (Nl :: r') with ([Nl] ++ r'). change (Nl :: r) with ([Nl] ++ r).
      rewrite !scan_from_app. cbn [walk].
      destruct (trans Nl m1 s1) as [[e2 m2] s2] eqn:Ht.
      destruct (trans_nl_sim _ _ _ _ _ _ Hsim Ht) as [Ht' Hlb].
      pose proof (trans_nl_line_start _ _ _ _ _ Ht) as [_ ->].
      rewrite Ht'. rewrite !app_nil_r, map_app. f_equal. apply IH; assumption.
  Qed.

  Lemma edit_reindent : forall s s', reindented W f s s' -> scan s' = map (map_err f) (scan s).
  Proof.
    intros s s' H. unfold scan.
    replace [0] with (map f [0]) at 1 by (cbn; now rewrite f_zero).
    apply scan_from_reindented; [exact H | reflexivity | constructor; [exact W_zero | constructor]].
  Qed.
End Reindent.
