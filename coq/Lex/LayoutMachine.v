(* Lex/LayoutMachine.v — the fuelled machine [lex] (one [mstep] per scan_token call) computes exactly the
   one-pass semantics [scan], and the fuel 2*|s|+2 always suffices (termination of the layout machine). *)
From Coq Require Import List Arith Lia Bool NArith ZArith.
From Verif Require Import Lex.Layout Lex.LayoutEdits.
Import ListNotations.

Definition mode_of (s : st) : mode := if als s then LS 0 else IL (depth s).

Definition denote (s : st) : list ev :=
  rev (out s) ++ repeat (T TDedent) (pending s) ++ scan_from (rest s) (mode_of s) (stk s).

Definition inv (s : st) : Prop :=
  (als s = true -> depth s = 0) /\ (0 < pending s -> rest s <> []).

Definition mu (s : st) : nat :=
  2 * length (rest s) + length (stk s) + pending s + (if als s then 1 else 0).

(* ------------------------------------------------------------------ helper loops vs scan *)

Lemma scan_from_cons : forall c r m stk,
  scan_from (c :: r) m stk = let '(e1, m1, s1) := trans c m stk in e1 ++ scan_from r m1 s1.
Proof.
  intros. unfold scan_from. cbn [walk]. destruct (trans c m stk) as [[e1 m1] s1].
  destruct (walk r m1 s1) as [[e2 m2] s2]. now rewrite app_assoc.
Qed.

Lemma scan_from_nil : forall m stk, scan_from [] m stk = closing stk.
Proof. reflexivity. Qed.

Lemma skip_comment_len : forall r, length (skip_comment r) <= length r.
Proof. induction r as [|c r IH]; cbn; [lia|]. destruct c; cbn; lia. Qed.

Lemma scan_comment_CL : forall r stk,
  scan_from r CL stk = scan_from (match skip_comment r with Nl :: r'' => r'' | x => x end) (LS 0) stk.
Proof.
  induction r as [|c r IH]; intros stk; [reflexivity|].
  destruct c; cbn [skip_comment]; rewrite scan_from_cons; cbn [trans app]; try apply IH. reflexivity.
Qed.

Lemma scan_comment_CI : forall r d stk,
  scan_from r (CI d) stk = scan_from (skip_comment r) (IL d) stk.
Proof.
  induction r as [|c r IH]; intros d stk; [reflexivity|].
  destruct c; cbn [skip_comment]; rewrite scan_from_cons; cbn [trans app]; try apply IH.
  rewrite (scan_from_cons Nl r (IL d)). cbn [trans]. reflexivity.
Qed.

Lemma drop_blanks_scan : forall r d stk, scan_from (drop_blanks r) (IL d) stk = scan_from r (IL d) stk.
Proof.
  induction r as [|c r IH]; intros d stk; [reflexivity|].
  destruct c; cbn [drop_blanks]; try reflexivity; rewrite (scan_from_cons _ r); cbn [trans il_step app]; apply IH.
Qed.

Lemma drop_blanks_len : forall r, length (drop_blanks r) <= length r.
Proof. induction r as [|c r IH]; cbn; [lia|]. destruct c; cbn; lia. Qed.

Lemma drop_blanks_head : forall r c r', drop_blanks r = c :: r' -> c <> Sp /\ c <> Tab.
Proof.
  induction r as [|a r IH]; intros c r' H; [discriminate|].
  destruct a; cbn [drop_blanks] in H; try (inversion H; subst; split; discriminate); eapply IH; exact H.
Qed.

Definition code_head (r : list sym) : Prop :=
  match r with
  | [] => True
  | c :: _ => match c with Sp | Tab | Cr | Nl | Hash => False | _ => True end
  end.

Lemma hi_loop_scan : forall r ind stk,
  match hi_loop r ind with
  | HReturn r' => scan_from r (LS ind) stk = scan_from r' (LS 0) stk /\ length r' < length r
  | HStop ind' r' => scan_from r (LS ind) stk = scan_from r' (LS ind') stk /\ code_head r' /\
                     length r' <= length r /\ ind <= ind' /\ (ind < ind' -> length r' < length r)
  end.
Proof.
  induction r as [|c r IH]; intros ind stk; cbn [hi_loop].
  - repeat split; cbn; lia.
  - destruct c; try (repeat split; cbn; lia).
    + specialize (IH (ind + 1) stk). rewrite scan_from_cons. cbn [trans app].
      destruct (hi_loop r (ind + 1)); cbn [length]; intuition lia.
    + specialize (IH (ind + 4) stk). rewrite scan_from_cons. cbn [trans app].
      destruct (hi_loop r (ind + 4)); cbn [length]; intuition lia.
    + rewrite scan_from_cons. cbn [trans app]. split; [reflexivity | cbn; lia].
    + specialize (IH ind stk). rewrite scan_from_cons. cbn [trans app].
      destruct (hi_loop r ind); cbn [length]; intuition lia.
    + rewrite scan_from_cons. cbn [trans app]. split; [apply scan_comment_CL|].
      pose proof (skip_comment_len r). cbn [length].
      destruct (skip_comment r) as [|x y]; [cbn in *; lia|]. destruct x; cbn [length] in *; lia.
Qed.

(* a code symbol at line start: the indentation events, then the same symbol inside the line *)
Lemma scan_code_head : forall c r ind stk, code_head (c :: r) ->
  scan_from (c :: r) (LS ind) stk =
  let '(e1, stk') := indent_events ind stk in e1 ++ scan_from (c :: r) (IL 0) stk'.
Proof.
  intros c r ind stk H. rewrite scan_from_cons.
  destruct c; try (now destruct H); cbn [trans];
    destruct (indent_events ind stk) as [e1 stk']; rewrite scan_from_cons; cbn [trans];
    match goal with |- context [il_step ?c ?d] => destruct (il_step c d) as [e2 m2] end;
    now rewrite app_assoc.
Qed.

Lemma pop_count_len : forall ind stk, length (pop_above ind stk) + count_above ind stk <= length stk + 1.
Proof.
  induction stk as [|l r IH]; cbn [pop_above count_above length]; [lia|].
  destruct (l <=? ind); cbn [length]; [lia|].
  destruct r as [|l2 r2]; [cbn; lia|]. cbn [length] in *. lia.
Qed.

Lemma count_above_pos : forall ind stk, ind < top stk -> 0 < count_above ind stk.
Proof.
  intros ind [|l r] H; cbn in *; [lia|]. destruct (l <=? ind) eqn:E; [apply Nat.leb_le in E; lia | lia].
Qed.

(* ------------------------------------------------------------------ one step *)

Lemma rev_cons_app : forall (A : Type) (x : A) l r, rev (x :: l) ++ r = rev l ++ x :: r.
Proof. intros. cbn [rev]. now rewrite <- app_assoc. Qed.

Lemma mstep_sound : forall s, rest s <> [] -> inv s ->
  denote (mstep s) = denote s /\ inv (mstep s) /\ mu (mstep s) < mu s.
Proof.
  intros [r stk pend a d o] Hne [Hdep Hpend]. cbn [rest Layout.stk pending als depth out] in *.
  unfold mstep. cbn [rest Layout.stk pending als depth out].
  destruct (0 <? pend) eqn:Ep.
  { (* a pending dedent *)
    apply Nat.ltb_lt in Ep. unfold denote, inv, mu, mode_of. cbn [rest Layout.stk pending als depth out].
    split; [|split; [split; [exact Hdep | intros _; exact Hne] | lia]].
    rewrite rev_cons_app. destruct pend; [lia|]. cbn [repeat Nat.sub]. rewrite Nat.sub_0_r. reflexivity. }
  apply Nat.ltb_ge in Ep. assert (pend = 0) by lia. subst pend. clear Ep Hpend.
  destruct a.
  { (* handle_indentation *)
    specialize (Hdep eq_refl). subst d.
    pose proof (hi_loop_scan r 0 stk) as Hh.
    destruct (hi_loop r 0) as [r'|ind r'].
    - destruct Hh as [Hs Hl]. unfold denote, inv, mu, mode_of, set_rest. cbn [rest Layout.stk pending als depth out].
      split; [now rewrite Hs | split; [split; [reflexivity | lia] | lia]].
    - destruct Hh as (Hs & Hc & Hl & _ & Hlt).
      destruct r' as [|c r''].
      + unfold denote, inv, mu, mode_of. cbn [rest Layout.stk pending als depth out].
        split; [rewrite Hs; reflexivity | split; [split; [discriminate | lia] |]].
        destruct r; [now destruct Hne | cbn [length] in *; lia].
      + rewrite (scan_code_head c r'' ind stk Hc) in Hs. unfold indent_events in Hs.
        destruct (top stk <? ind) eqn:E1.
        * apply Nat.ltb_lt in E1.
          unfold denote, inv, mu, mode_of. cbn [rest Layout.stk pending als depth out repeat app].
          split; [rewrite Hs, rev_cons_app; reflexivity | split; [split; [discriminate | lia] |]].
          assert (0 < ind) by lia. specialize (Hlt H). cbn [length] in *. lia.
        * destruct (ind <? top stk) eqn:E2.
          -- apply Nat.ltb_lt in E2. pose proof (count_above_pos ind stk E2) as Hcp.
             pose proof (pop_count_len ind stk) as Hpl.
             set (count := count_above ind stk) in *. set (stk' := pop_above ind stk) in *.
             unfold denote, inv, mu, mode_of. cbn [rest Layout.stk pending als depth out].
             assert (E0 : (0 <? count) = true) by now apply Nat.ltb_lt. rewrite E0.
             split; [|split; [split; [discriminate | intros _; discriminate] |]].
             ++ rewrite Hs. cbn [app]. rewrite rev_cons_app, rev_app_distr.
                assert (Hrev : rev (if ind =? top stk' then [] else [E (EInconsistent (top stk') ind)]) =
                               (if ind =? top stk' then [] else [E (EInconsistent (top stk') ind)])).
                { destruct (ind =? top stk'); reflexivity. }
                rewrite Hrev. cbn [repeat app]. rewrite <- !app_assoc. f_equal. f_equal.
                destruct (1 <? count) eqn:E3.
                ** destruct count as [|n]; [lia|]. cbn [repeat Nat.sub app]. now rewrite Nat.sub_0_r.
                ** apply Nat.ltb_ge in E3. assert (count = 1) by lia. rewrite H. reflexivity.
             ++ destruct (1 <? count) eqn:E3; cbn [length] in *; lia.
          -- unfold denote, inv, mu, mode_of. cbn [rest Layout.stk pending als depth out repeat app].
             split; [rewrite Hs; reflexivity | split; [split; [discriminate | lia] |]].
             cbn [length] in *. lia. }
  (* inside a line *)
  clear Hdep.
  pose proof (drop_blanks_scan r d stk) as Hdb. pose proof (drop_blanks_len r) as Hdl.
  pose proof (drop_blanks_head r) as Hdh.
  assert (Hr : 0 < length r) by (destruct r; [now destruct Hne | cbn; lia]).
  destruct (drop_blanks r) as [|c r'].
  { unfold denote, inv, mu, mode_of, set_rest. cbn [rest Layout.stk pending als depth out].
    split; [now rewrite <- Hdb | split; [split; [discriminate | lia] | cbn [length]; lia]]. }
  specialize (Hdh c r' eq_refl). cbn [length] in Hdl.
  unfold denote, mode_of in *. cbn [rest Layout.stk pending als depth out repeat app] in *.
  rewrite <- Hdb, scan_from_cons. clear Hdb.
  destruct c; cbn [trans il_step];
    unfold inv, mu, set_rest, emit1; cbn [rest Layout.stk pending als depth out repeat app length].
  - now destruct Hdh.
  - now destruct Hdh.
  - (* Nl *)
    destruct (0 <? d) eqn:Ed; cbn [rest Layout.stk pending als depth out repeat app length].
    + split; [reflexivity | split; [split; [discriminate | lia] | lia]].
    + apply Nat.ltb_ge in Ed. split; [now rewrite rev_cons_app | split; [split; [lia | lia] | lia]].
  - split; [reflexivity | split; [split; [discriminate | lia] | lia]].
  - pose proof (skip_comment_len r').
    split; [now rewrite scan_comment_CI | split; [split; [discriminate | lia] | lia]].
  - split; [now rewrite rev_cons_app | split; [split; [discriminate | lia] | lia]].
  - destruct (d =? 0) eqn:Ed; cbn [rest Layout.stk pending als depth out repeat app length].
    + split; [now rewrite !rev_cons_app | split; [split; [discriminate | lia] | lia]].
    + split; [now rewrite rev_cons_app | split; [split; [discriminate | lia] | lia]].
  - split; [now rewrite rev_cons_app | split; [split; [discriminate | lia] | lia]].
  - split; [now rewrite rev_cons_app | split; [split; [discriminate | lia] | lia]].
  - split; [now rewrite rev_cons_app | split; [split; [discriminate | lia] | lia]].
  - split; [now rewrite rev_cons_app | split; [split; [discriminate | lia] | lia]].
Qed.

(* ------------------------------------------------------------------ the whole run *)

Lemma run_sound : forall fuel s, inv s -> mu s <= fuel -> run fuel s = Done (denote s).
Proof.
  induction fuel as [|f IH]; intros s Hi Hmu.
  - destruct s as [r stk pend a d o]. unfold mu in Hmu. cbn [rest Layout.stk pending als depth out] in Hmu.
    destruct r as [|c r]; [|cbn [length] in Hmu; lia].
    destruct Hi as [_ Hp]. cbn [rest pending] in Hp.
    assert (pend = 0) by (destruct pend; [reflexivity | exfalso; apply Hp; [lia | reflexivity]]). subst.
    reflexivity.
  - destruct (rest s) as [|c r] eqn:Hr.
    + destruct s as [r0 stk pend a d o]. cbn [rest] in Hr. subst r0.
      destruct Hi as [_ Hp]. cbn [rest pending] in Hp.
      assert (pend = 0) by (destruct pend; [reflexivity | exfalso; apply Hp; [lia | reflexivity]]). subst.
      reflexivity.
    + assert (Hne : rest s <> []) by (rewrite Hr; discriminate).
      destruct (mstep_sound s Hne Hi) as (Hd & Hi' & Hm).
      cbn [run]. rewrite Hr. rewrite IH; [now rewrite Hd | exact Hi' | lia].
Qed.

Theorem machine_refines_scan : forall s, lex s = Done (scan s).
Proof.
  intros s. unfold lex, lex_fuel. rewrite run_sound.
  - reflexivity.
  - split; cbn; [reflexivity | lia].
  - unfold mu, init. cbn [rest Layout.stk pending als depth out length]. lia.
Qed.

Theorem lex_fuel_enough : forall s fuel, 2 * length s + 2 <= fuel -> lex_fuel fuel s = Done (scan s).
Proof.
  intros s fuel H. unfold lex_fuel. rewrite run_sound.
  - reflexivity.
  - split; cbn; [reflexivity | lia].
  - unfold mu, init. cbn [rest Layout.stk pending als depth out length]. lia.
Qed.

(* shape of the result: the stream ends in its only Eof *)
Lemma walk_no_eof : forall s m stk e m1 s1, walk s m stk = (e, m1, s1) -> ~ In (T TEof) e.
Proof.
  induction s as [|c r IH]; intros m stk e m1 s1 H; cbn [walk] in H.
  - inversion H; subst. intros [].
  - destruct (trans c m stk) as [[e1 m2] s2] eqn:Ht. destruct (walk r m2 s2) as [[e2 m3] s3] eqn:Hw.
    inversion H; subst. intros Hin. apply in_app_or in Hin as [Hin|Hin]; [|eapply IH; eauto].
    clear IH Hw H. unfold trans in Ht.
    assert (Hil : forall c d e m, il_step c d = (e, m) -> ~ In (T TEof) e).
    { intros c0 d e m0 Hs. destruct c0; cbn [il_step] in Hs;
        try (inversion Hs; subst; cbn; intuition discriminate);
        try (destruct (0 <? d); inversion Hs; subst; cbn; intuition discriminate);
        try (destruct (d =? 0); inversion Hs; subst; cbn; intuition discriminate). }
    assert (Hie : forall ind stk e stk', indent_events ind stk = (e, stk') -> ~ In (T TEof) e).
    { intros ind st0 e st' Hs. unfold indent_events in Hs.
      destruct (top st0 <? ind); [inversion Hs; subst; cbn; intuition discriminate|].
      destruct (ind <? top st0); [|inversion Hs; subst; cbn; intuition].
      inversion Hs; subst. intros Hx. apply in_app_or in Hx as [Hx|Hx].
      - destruct (ind =? top (pop_above ind st0)); cbn in Hx; intuition discriminate.
      - apply repeat_spec in Hx. discriminate. }
    destruct m as [i| |d|d].
    + destruct c; try (inversion Ht; subst; now cbn in Hin);
        destruct (indent_events i stk) as [e3 s3] eqn:Hi;
        match type of Ht with context [il_step ?c ?d] => destruct (il_step c d) as [e4 m4] eqn:Hs end;
        inversion Ht; subst; apply in_app_or in Hin as [Hin|Hin];
        [eapply Hie; eauto | eapply Hil; eauto | eapply Hie; eauto | eapply Hil; eauto
        | eapply Hie; eauto | eapply Hil; eauto | eapply Hie; eauto | eapply Hil; eauto
        | eapply Hie; eauto | eapply Hil; eauto | eapply Hie; eauto | eapply Hil; eauto].
    + destruct c; inversion Ht; subst; now cbn in Hin.
    + destruct (il_step c d) as [e4 m4] eqn:Hs. inversion Ht; subst. eapply Hil; eauto.
    + destruct c; try (inversion Ht; subst; now cbn in Hin).
      destruct (il_step Nl d) as [e4 m4] eqn:Hs. inversion Ht; subst. eapply Hil; eauto.
Qed.

Lemma scan_shape : forall s, exists body k, scan s = body ++ close_k k /\ ~ In (T TEof) body.
Proof.
  intros s. unfold scan, scan_from. destruct (walk s (LS 0) [0]) as [[e m] stk] eqn:Hw.
  exists e, (length stk - 1). split; [reflexivity | eapply walk_no_eof; exact Hw].
Qed.
