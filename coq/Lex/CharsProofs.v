(* Lex/CharsProofs.v — termination (explicit fuel bound), span well-formedness and result shape of the
   character-level lexer model Lex/Chars.v. *)
From Coq Require Import List Arith Lia Bool NArith ZArith.
From Verif Require Import Lex.Layout Lex.LayoutMachine Lex.Chars.
Import ListNotations.
Close Scope N_scope.
Open Scope nat_scope.

(* ------------------------------------------------------------------ byte offsets *)

Lemma blen_pos : forall c, 1 <= blen c <= 4.
Proof. intros c. unfold blen. destruct (c <? 128)%N, (c <? 2048)%N, (c <? 65536)%N; lia. Qed.

Lemma off_mono : forall s a b, a <= b -> off s a <= off s b.
Proof.
  unfold off. induction s as [|c s IH]; intros a b H.
  - now rewrite !firstn_nil.
  - destruct a as [|a]; [cbn; lia|]. destruct b as [|b]; [lia|]. cbn [firstn bytes].
    specialize (IH a b). lia.
Qed.

Lemma off_le_total : forall s k, off s k <= bytes s.
Proof.
  unfold off. induction s as [|c s IH]; intros k; [now rewrite firstn_nil|].
  destruct k; cbn [firstn bytes]; [lia|]. specialize (IH k). lia.
Qed.

Lemma off_boundary : forall s k, boundary s (off s k).
Proof.
  intros s k. exists (Nat.min k (length s)). split; [lia|]. unfold off.
  destruct (Nat.le_ge_cases k (length s)) as [H|H].
  - now rewrite Nat.min_l.
  - rewrite Nat.min_r by exact H. now rewrite !firstn_all2 by lia.
Qed.

Lemma off_strict : forall s a b, a < b -> b <= length s -> off s a < off s b.
Proof.
  unfold off. induction s as [|c s IH]; intros a b H Hb; [cbn in Hb; lia|].
  destruct b as [|b]; [lia|]. cbn [length] in Hb. destruct a as [|a]; cbn [firstn bytes].
  - pose proof (blen_pos c). lia.
  - specialize (IH a b). lia.
Qed.

Lemma span_wf_of_counts : forall s a b, a <= b -> span_wf s (off s a) (off s b).
Proof.
  intros s a b H. repeat split; [now apply off_mono | apply off_le_total | apply off_boundary | apply off_boundary].
Qed.

(* ------------------------------------------------------------------ termination measure *)

Definition cmu (s : cst) : nat :=
  2 * length (crest s) + length (cstk s) + cpending s + (if cals s then 1 else 0).

Lemma cskip_comment_ge : forall r n, n <= cskip_comment r n.
Proof. induction r as [|c r IH]; intros n; cbn; [lia|]. destruct (c =? 10)%N; [lia|]. specialize (IH (n + 1)). lia. Qed.

Lemma chi_loop_bounds : forall r ind n,
  match chi_loop r ind n with
  | CHReturn n' => n < n'
  | CHStop ind' n' => ind <= ind' /\ n <= n' /\ (ind < ind' -> n < n')
  end.
Proof.
  induction r as [|c r IH]; intros ind n; cbn [chi_loop]; [lia|].
  destruct (c =? 32)%N.
  { specialize (IH (ind + 1) (n + 1)). destruct (chi_loop r (ind + 1) (n + 1)); lia. }
  destruct (c =? 9)%N.
  { specialize (IH (ind + 4) (n + 1)). destruct (chi_loop r (ind + 4) (n + 1)); lia. }
  destruct (c =? 13)%N.
  { specialize (IH ind (n + 1)). destruct (chi_loop r ind (n + 1)); lia. }
  destruct (c =? 10)%N; [lia|].
  destruct (c =? 35)%N; [|lia].
  pose proof (cskip_comment_ge r (n + 1)).
  destruct (peek_is _ _); lia.
Qed.

Lemma skipn_len_le : forall (A : Type) n (l : list A), length (skipn n l) <= length l.
Proof. intros. rewrite skipn_length. lia. Qed.

Lemma skipn_len_lt : forall (A : Type) n (l : list A), l <> [] -> 0 < n -> length (skipn n l) < length l.
Proof. intros A n l Hl Hn. rewrite skipn_length. destruct l; [now destruct Hl | cbn [length]; lia]. Qed.

Definition ev_ok (e : cev) : Prop := fst (ev_span e) <= snd (ev_span e).

Lemma Forall_ev_ok_map_errs : forall start (es : serrs) l,
  Forall ev_ok l ->
  Forall ev_ok (rev (map (fun e : N * nat => CE (fst e) start (start + 1 + snd e) 0 0) es) ++ l).
Proof.
  intros start es l Hl. apply Forall_app. split; [|exact Hl].
  apply Forall_rev. apply Forall_forall. intros x Hx. apply in_map_iff in Hx as (e & <- & _).
  unfold ev_ok. cbn. lia.
Qed.

Lemma cstep_sound : forall s, crest s <> [] ->
  cmu (cstep s) < cmu s /\ (Forall ev_ok (cout s) -> Forall ev_ok (cout (cstep s))).
Proof.
  intros [r cnt sk pend a d o] Hne. cbn [crest] in Hne.
  unfold cstep, cmu. cbn [crest ccnt cstk cpending cals cdepth cout].
  destruct (0 <? pend) eqn:Ep.
  { apply Nat.ltb_lt in Ep. cbn [crest ccnt cstk cpending cals cdepth cout]. split; [lia|].
    intros H. constructor; [unfold ev_ok; cbn; lia | exact H]. }
  apply Nat.ltb_ge in Ep. assert (pend = 0) by lia. subst pend. clear Ep.
  destruct a.
  { pose proof (chi_loop_bounds r 0 0) as Hb.
    destruct (chi_loop r 0 0) as [n|ind n].
    - cbn [crest ccnt cstk cpending cals cdepth cout]. split; [|auto].
      pose proof (skipn_len_lt _ n r Hne Hb). lia.
    - destruct Hb as (_ & _ & Hlt).
      pose proof (skipn_len_le _ n r) as Hle.
      destruct (skipn n r) as [|c r'] eqn:Hsk.
      + cbn [crest ccnt cstk cpending cals cdepth cout]. split; [|auto].
        destruct r; [now destruct Hne | cbn [length]; lia].
      + destruct (top sk <? ind) eqn:E1.
        * apply Nat.ltb_lt in E1. cbn [crest ccnt cstk cpending cals cdepth cout length].
          assert (0 < ind) by lia. specialize (Hlt H).
          pose proof (skipn_len_lt _ n r Hne Hlt) as Hl2. rewrite Hsk in Hl2. cbn [length] in Hl2.
          split; [lia|]. intros Ho. constructor; [unfold ev_ok; cbn; lia | exact Ho].
        * destruct (ind <? top sk) eqn:E2.
          -- apply Nat.ltb_lt in E2. pose proof (count_above_pos ind sk E2) as Hcp.
             pose proof (pop_count_len ind sk) as Hpl.
             cbn [crest ccnt cstk cpending cals cdepth cout length] in *.
             split.
             ++ destruct (1 <? count_above ind sk); lia.
             ++ intros Ho. apply Forall_app. split.
                ** destruct (0 <? count_above ind sk); constructor; [unfold ev_ok; cbn; lia | constructor].
                ** apply Forall_app. split; [|exact Ho].
                   destruct (ind =? top (pop_above ind sk)); constructor; [unfold ev_ok; cbn; lia | constructor].
          -- cbn [crest ccnt cstk cpending cals cdepth cout length] in *. split; [lia | auto]. }
  (* inside a line *)
  pose proof (skipn_len_le _ (cdrop_blanks r 0) r) as Hdl.
  assert (Hr : 0 < length r) by (destruct r; [now destruct Hne | cbn; lia]).
  destruct (skipn (cdrop_blanks r 0) r) as [|c r'] eqn:Hsk.
  { cbn [crest ccnt cstk cpending cals cdepth cout length]. split; [lia | auto]. }
  cbn [length] in Hdl.
  destruct (c =? 35)%N.
  { pose proof (skipn_len_le _ (cskip_comment r' 0) r').
    cbn [crest ccnt cstk cpending cals cdepth cout]. split; [lia | auto]. }
  destruct (c =? 10)%N.
  { destruct (0 <? d); cbn [crest ccnt cstk cpending cals cdepth cout]; (split; [lia|]); auto.
    intros Ho. constructor; [unfold ev_ok; cbn; lia | exact Ho]. }
  destruct (c =? 13)%N.
  { cbn [crest ccnt cstk cpending cals cdepth cout]. split; [lia | auto]. }
  destruct (scan_item c r') as [[k n] es].
  pose proof (skipn_len_le _ n r') as Hn.
  assert (Htok : forall l, Forall ev_ok l ->
            Forall ev_ok (match kind_code k with Some kc => [CT kc (cnt + cdrop_blanks r 0) (cnt + cdrop_blanks r 0 + 1 + n)] | None => [] end ++ l)).
  { intros l Hl. destruct (kind_code k); cbn [app]; [constructor; [unfold ev_ok; cbn; lia | exact Hl] | exact Hl]. }
  destruct k; try (destruct (d =? 0));
    cbn [crest ccnt cstk cpending cals cdepth cout]; (split; [lia|]); intros Ho;
    try (apply Htok; apply Forall_ev_ok_map_errs; exact Ho).
  - apply Htok. constructor; [unfold ev_ok; cbn; lia | exact Ho].
  - apply Htok. exact Ho.
Qed.

Lemma cclosing_ok : forall stk pos, Forall ev_ok (cclosing stk pos).
Proof.
  intros. unfold cclosing. apply Forall_app. split.
  - apply Forall_forall. intros x Hx. apply repeat_spec in Hx. subst. unfold ev_ok. cbn. lia.
  - constructor; [unfold ev_ok; cbn; lia | constructor].
Qed.

Lemma crun_total : forall fuel s, cmu s <= fuel ->
  exists evs, crun fuel s = CDone evs /\ (Forall ev_ok (cout s) -> Forall ev_ok evs).
Proof.
  induction fuel as [|f IH]; intros s Hmu.
  - destruct (crest s) as [|c r] eqn:Hr.
    + exists (rev (cout s) ++ cclosing (cstk s) (ccnt s)). cbn [crun]. rewrite Hr. split; [reflexivity|].
      intros Ho. apply Forall_app. split; [now apply Forall_rev | apply cclosing_ok].
    + unfold cmu in Hmu. rewrite Hr in Hmu. cbn [length] in Hmu. lia.
  - destruct (crest s) as [|c r] eqn:Hr.
    + exists (rev (cout s) ++ cclosing (cstk s) (ccnt s)). cbn [crun]. rewrite Hr. split; [reflexivity|].
      intros Ho. apply Forall_app. split; [now apply Forall_rev | apply cclosing_ok].
    + assert (Hne : crest s <> []) by (rewrite Hr; discriminate).
      destruct (cstep_sound s Hne) as [Hlt Hok].
      destruct (IH (cstep s)) as (evs & He & Hev); [lia|].
      exists evs. cbn [crun]. rewrite Hr. split; [exact He | auto].
Qed.

Lemma crun_fuel_mono : forall fuel s evs, crun fuel s = CDone evs -> forall k, crun (fuel + k) s = CDone evs.
Proof.
  induction fuel as [|f IH]; intros s evs H k.
  - cbn [crun] in H. destruct (crest s) eqn:Hr; [|discriminate].
    destruct k; cbn [crun Nat.add]; now rewrite Hr.
  - cbn [crun Nat.add] in *. destruct (crest s) eqn:Hr; [exact H|]. now apply IH.
Qed.

Theorem clex_total : forall s, exists evs, clex s = CDone evs /\ Forall ev_ok evs.
Proof.
  intros s. destruct (crun_total (2 * length s + 2) (cinit s)) as (evs & H & Hok).
  - unfold cmu, cinit. cbn [crest cstk cpending cals length]. lia.
  - exists evs. split; [exact H | apply Hok; constructor].
Qed.

Theorem clex_fuel_enough : forall s fuel, 2 * length s + 2 <= fuel -> clex_fuel fuel s = clex s.
Proof.
  intros s fuel H. destruct (clex_total s) as (evs & He & _). unfold clex, clex_fuel in *.
  replace fuel with ((2 * length s + 2) + (fuel - (2 * length s + 2))) by lia.
  rewrite (crun_fuel_mono _ _ _ He). now rewrite He.
Qed.

Theorem clex_spans_wf : forall s evs, clex s = CDone evs ->
  forall e, In e evs -> span_wf s (off s (fst (ev_span e))) (off s (snd (ev_span e))).
Proof.
  intros s evs H e Hin. destruct (clex_total s) as (evs' & He & Hok). rewrite H in He. inversion He; subst evs'.
  apply span_wf_of_counts. rewrite Forall_forall in Hok. exact (Hok e Hin).
Qed.

(* ------------------------------------------------------------------ result shape *)

Lemma crun_shape : forall fuel s evs, crun fuel s = CDone evs ->
  exists body stk pos, evs = body ++ cclosing stk pos.
Proof.
  induction fuel as [|f IH]; intros s evs H; cbn [crun] in H; destruct (crest s) eqn:Hr; try discriminate.
  - inversion H. now do 3 eexists.
  - inversion H. now do 3 eexists.
  - eapply IH. exact H.
Qed.

Lemma ctoks_app : forall a b, ctoks (a ++ b) = ctoks a ++ ctoks b.
Proof. intros. unfold ctoks. apply filter_app. Qed.

Lemma ctoks_cclosing : forall stk pos, ctoks (cclosing stk pos) = cclosing stk pos.
Proof.
  intros. unfold cclosing. rewrite ctoks_app. f_equal.
  induction (length stk - 1); cbn; [reflexivity | now f_equal].
Qed.

Theorem clex_result_shape : forall s evs, clex s = CDone evs ->
  (exists body pos, ctoks evs = body ++ [CT K_EOF pos pos]) /\
  (forall ts, cresult evs = inl ts -> exists body pos, ts = body ++ [CT K_EOF pos pos]) /\
  (forall es, cresult evs = inr es -> es <> [] /\ forall e, In e es -> exists c a b x y, e = CE c a b x y).
Proof.
  intros s evs H. destruct (crun_shape _ _ _ H) as (body & stk & pos & ->).
  assert (Hs : exists b2 p2, ctoks (body ++ cclosing stk pos) = b2 ++ [CT K_EOF p2 p2]).
  { rewrite ctoks_app, ctoks_cclosing. unfold cclosing. rewrite app_assoc. now do 2 eexists. }
  split; [exact Hs|]. split.
  - intros ts Hr. unfold cresult in Hr. destruct (cerrs _); [|discriminate]. inversion Hr; subst. exact Hs.
  - intros es Hr. unfold cresult in Hr. destruct (cerrs (body ++ cclosing stk pos)) as [|e0 es0] eqn:He; [discriminate|].
    inversion Hr; subst. split; [discriminate|]. intros e Hin. rewrite <- He in Hin. unfold cerrs in Hin.
    apply filter_In in Hin as [_ Hf]. destruct e; [discriminate | now do 5 eexists].
Qed.
