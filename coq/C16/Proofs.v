(* C16/Proofs.v — lemmas about the runner model: strings, selection, the verdict loop. *)
From Coq Require Import ZArith List Bool Lia.
From Verif Require Import C16.Model.
Import ListNotations.
Open Scope Z_scope.

(* ------------------------------------------------------------------------------------------ *)
(* strings *)

Lemma str_eqb_spec : forall a b, str_eqb a b = true <-> a = b.
Proof.
  induction a as [|x a IH]; destruct b as [|y b]; cbn [str_eqb]; split; intro H; try reflexivity; try discriminate.
  - apply andb_true_iff in H. destruct H as [H1 H2]. apply Z.eqb_eq in H1. apply IH in H2. subst. reflexivity.
  - inversion H; subst. apply andb_true_iff. split; [apply Z.eqb_refl | apply IH; reflexivity].
Qed.

Lemma str_eqb_refl : forall a, str_eqb a a = true.
Proof. intro a. apply str_eqb_spec. reflexivity. Qed.

Lemma prefixb_spec : forall p s, prefixb p s = true <-> exists r, s = p ++ r.
Proof.
  induction p as [|x p IH]; intros s.
  - cbn [prefixb]. split; [intros _; exists s; reflexivity | reflexivity].
  - destruct s as [|y s]; cbn [prefixb].
    + split; [discriminate | intros [r Hr]; discriminate].
    + split.
      * intro H. apply andb_true_iff in H. destruct H as [H1 H2]. apply Z.eqb_eq in H1. apply IH in H2.
        destruct H2 as [r Hr]. exists r. subst. reflexivity.
      * intros [r Hr]. cbn [app] in Hr. inversion Hr; subst. apply andb_true_iff. split; [apply Z.eqb_refl|].
        apply IH. exists r. reflexivity.
Qed.

Lemma suffixb_spec : forall p s, suffixb p s = true <-> exists r, s = r ++ p.
Proof.
  intros p s. unfold suffixb. rewrite prefixb_spec. split.
  - intros [r Hr]. exists (rev r). apply (f_equal (@rev Z)) in Hr. rewrite rev_involutive in Hr.
    rewrite Hr, rev_app_distr, rev_involutive. reflexivity.
  - intros [r Hr]. exists (rev r). subst. apply rev_app_distr.
Qed.

Lemma containsb_spec : forall kw s, containsb kw s = true <-> exists a b, s = a ++ kw ++ b.
Proof.
  intros kw. induction s as [|c s IH].
  - cbn [containsb]. rewrite orb_false_r, prefixb_spec. split.
    + intros [r Hr]. exists [], r. exact Hr.
    + intros [a [b H]]. destruct a as [|x a]; [exists b; exact H | discriminate].
  - cbn [containsb]. rewrite orb_true_iff, prefixb_spec, IH. split.
    + intros [[r Hr] | [a [b H]]].
      * exists [], r. exact Hr.
      * exists (c :: a), b. cbn [app]. rewrite H. reflexivity.
    + intros [a [b H]]. destruct a as [|x a].
      * left. exists b. exact H.
      * right. cbn [app] in H. inversion H; subst. exists a, b. reflexivity.
Qed.

Lemma is_test_file_name_spec : forall n,
  is_test_file_name n = true <->
  ((exists r, n = s_test_ ++ r) \/ (exists r, n = r ++ s__test_incn)) /\ (exists r, n = r ++ s_incn).
Proof.
  intro n. unfold is_test_file_name. rewrite andb_true_iff, orb_true_iff, prefixb_spec, !suffixb_spec. reflexivity.
Qed.

Lemma excluded_dir_spec : forall n,
  excluded_dir n = true <-> (exists r, n = c_dot :: r) \/ n = s_target \/ n = s_node_modules.
Proof.
  intro n. unfold excluded_dir. rewrite !orb_true_iff, !str_eqb_spec. split.
  - intros [[H | H] | H]; [left | right; left; exact H | right; right; exact H].
    destruct n as [|c r]; [discriminate|]. apply Z.eqb_eq in H. subst. exists r. reflexivity.
  - intros [[r H] | [H | H]]; [left; left | left; right; exact H | right; exact H].
    subst. apply Z.eqb_refl.
Qed.

(* ------------------------------------------------------------------------------------------ *)
(* file discovery *)

(* which test files a tree contains, as a relation (the documented rule) *)
Inductive reach : bool -> list str -> node -> list str -> content -> Prop :=
| reach_file : forall top pre nm c,
    is_test_file_name nm = true -> reach top pre (File nm c) (pre ++ [nm]) c
| reach_dir : forall top pre nm ch x p c,
    (top = true \/ excluded_dir nm = false) -> In x ch -> reach false (pre ++ [nm]) x p c ->
    reach top pre (Dir nm ch) p c.

Fixpoint node_size (n : node) : nat :=
  match n with
  | File _ _ => 1%nat
  | Dir _ ch => S ((fix go (l : list node) : nat := match l with [] => 0%nat | x :: r => (node_size x + go r)%nat end) ch)
  end.

Lemma walk_reach_sz : forall k n, (node_size n <= k)%nat -> forall top pre p c,
  In (p, c) (walk top pre n) <-> reach top pre n p c.
Proof.
  induction k as [|k IH]; intros n Hk top pre p c.
  - destruct n; cbn [node_size] in Hk; lia.
  - destruct n as [nm fc | nm ch].
    + cbn [walk]. destruct (is_test_file_name nm) eqn:E.
      * split.
        -- intros [H | []]. inversion H; subst. constructor. exact E.
        -- intro H. inversion H; subst. left. reflexivity.
      * split; [intros [] | intro H; inversion H; subst; congruence].
    + cbn [walk]. cbn [node_size] in Hk. apply le_S_n in Hk.
      set (go := fix go (l : list node) : list (list str * content) :=
                   match l with [] => [] | x :: r => walk false (pre ++ [nm]) x ++ go r end).
      set (sz := fix go (l : list node) : nat := match l with [] => 0%nat | x :: r => (node_size x + go r)%nat end) in Hk.
      assert (Hgo : forall l, (sz l <= k)%nat ->
                (In (p, c) (go l) <-> exists x, In x l /\ reach false (pre ++ [nm]) x p c)).
      { induction l as [|x l IHl]; intro Hl.
        - cbn. split; [intros [] | intros [x [[] _]]].
        - cbn [go sz] in *. rewrite in_app_iff. rewrite IHl by lia. rewrite (IH x) by lia. split.
          + intros [H | [y [Hy H]]]; [exists x; split; [left; reflexivity | exact H] | exists y; split; [right; exact Hy | exact H]].
          + intros [y [[Hy | Hy] H]]; [subst; left; exact H | right; exists y; split; assumption]. }
      destruct (negb top && excluded_dir nm) eqn:E.
      * split; [intros [] |]. intro H. inversion H; subst.
        apply andb_true_iff in E. destruct E as [E1 E2]. apply negb_true_iff in E1.
        match goal with Hd : top = true \/ excluded_dir nm = false |- _ => destruct Hd as [Hd | Hd]; congruence end.
      * rewrite (Hgo ch Hk). split.
        -- intros [x [Hx H]]. apply reach_dir with (x := x); try assumption.
           apply andb_false_iff in E. destruct E as [E | E]; [left; apply negb_false_iff in E; exact E | right; exact E].
        -- intro H. inversion H; subst. exists x. split; assumption.
Qed.

Lemma walk_reach : forall n top pre p c, In (p, c) (walk top pre n) <-> reach top pre n p c.
Proof. intros n. apply (walk_reach_sz (node_size n)). lia. Qed.

Lemma insert_path_in : forall e l x, In x (insert_path e l) <-> x = e \/ In x l.
Proof.
  intros e l x. induction l as [|h t IH]; cbn [insert_path].
  - cbn. split; [intros [H | []]; left; symmetry; exact H | intros [H | []]; left; symmetry; exact H].
  - destruct (path_leb (fst e) (fst h)).
    + cbn [In]. split; [intros [H | H]; [left; symmetry; exact H | right; exact H] | intros [H | H]; [left; symmetry; exact H | right; exact H]].
    + cbn [In]. rewrite IH. tauto.
Qed.

Lemma sort_paths_in : forall l x, In x (sort_paths l) <-> In x l.
Proof.
  induction l as [|e t IH]; intro x; cbn [sort_paths].
  - reflexivity.
  - rewrite insert_path_in, IH. cbn [In]. split; [intros [H | H]; [left; symmetry; exact H | right; exact H] | intros [H | H]; [left; symmetry; exact H | right; exact H]].
Qed.

Lemma insert_path_length : forall e l, length (insert_path e l) = S (length l).
Proof.
  intros e l. induction l as [|h t IH]; cbn [insert_path]; [reflexivity|].
  destruct (path_leb (fst e) (fst h)); cbn [length]; [reflexivity | rewrite IH; reflexivity].
Qed.

Lemma sort_paths_length : forall l, length (sort_paths l) = length l.
Proof. induction l as [|e t IH]; cbn [sort_paths]; [reflexivity | rewrite insert_path_length, IH; reflexivity]. Qed.

(* totality of the two orders *)
Lemma str_leb_total : forall a b, str_leb a b = false -> str_leb b a = true.
Proof.
  induction a as [|x a IH]; destruct b as [|y b]; cbn [str_leb]; intro H; try reflexivity; try discriminate.
  destruct (x <? y) eqn:E1; [discriminate|]. destruct (y <? x) eqn:E2; [reflexivity|]. apply IH. exact H.
Qed.

Lemma str_eqb_sym : forall a b, str_eqb a b = str_eqb b a.
Proof.
  intros a b. destruct (str_eqb a b) eqn:E.
  - apply str_eqb_spec in E. subst. symmetry. apply str_eqb_refl.
  - destruct (str_eqb b a) eqn:E2; [|reflexivity]. apply str_eqb_spec in E2. subst. rewrite str_eqb_refl in E. discriminate.
Qed.

Lemma path_leb_total : forall a b, path_leb a b = false -> path_leb b a = true.
Proof.
  induction a as [|x a IH]; destruct b as [|y b]; cbn [path_leb]; intro H; try reflexivity; try discriminate.
  rewrite (str_eqb_sym y x). destruct (str_eqb x y); [apply IH; exact H | apply str_leb_total; exact H].
Qed.

Inductive sorted_paths : list (list str * content) -> Prop :=
| sp_nil : sorted_paths []
| sp_one : forall e, sorted_paths [e]
| sp_cons : forall a b l, path_leb (fst a) (fst b) = true -> sorted_paths (b :: l) -> sorted_paths (a :: b :: l).

Lemma insert_path_sorted : forall e l, sorted_paths l -> sorted_paths (insert_path e l).
Proof.
  intros e l H. induction H as [| h | a b l Hab Hs IH]; cbn [insert_path].
  - constructor.
  - destruct (path_leb (fst e) (fst h)) eqn:E.
    + constructor; [exact E | constructor].
    + constructor; [apply path_leb_total; exact E | constructor].
  - destruct (path_leb (fst e) (fst a)) eqn:E.
    + constructor; [exact E|]. constructor; assumption.
    + cbn [insert_path] in IH. destruct (path_leb (fst e) (fst b)) eqn:E2.
      * constructor; [apply path_leb_total; exact E|]. constructor; assumption.
      * constructor; assumption.
Qed.

Lemma sort_paths_sorted : forall l, sorted_paths (sort_paths l).
Proof. induction l as [|e t IH]; cbn [sort_paths]; [constructor | apply insert_path_sorted; exact IH]. Qed.

(* ------------------------------------------------------------------------------------------ *)
(* test discovery inside a file *)

Lemma tests_of_decls_spec : forall path fx ds t,
  In t (tests_of_decls path fx ds) <->
  exists f, In (DFun f) ds /\ is_fixture f = false /\ prefixb s_test_ (f_name f) = true /\
            t = {| t_path := path; t_name := f_name f; t_markers := extract_markers (f_decs f);
                   t_fixtures := filter (fun p => mem_str p fx) (f_params f);
                   t_params := f_params f; t_async := f_async f |}.
Proof.
  intros path fx ds t. induction ds as [|d r IH]; cbn [tests_of_decls].
  - split; [intros [] | intros [f [[] _]]].
  - destruct d as [f|].
    + destruct (is_fixture f) eqn:Ef; [| destruct (prefixb s_test_ (f_name f)) eqn:Ep]; cbn [In]; rewrite ?IH.
      * split.
        -- intros [g [Hg H]]. exists g. split; [right; exact Hg | exact H].
        -- intros [g [[Hg | Hg] [H1 H]]]; [inversion Hg; subst; congruence | exists g; split; [exact Hg | split; assumption]].
      * split.
        -- intros [H | [g [Hg H]]].
           ++ exists f. split; [left; reflexivity|]. split; [exact Ef|]. split; [exact Ep | symmetry; exact H].
           ++ exists g. split; [right; exact Hg | exact H].
        -- intros [g [[Hg | Hg] [H1 [H2 H3]]]].
           ++ inversion Hg; subst. left. reflexivity.
           ++ right. exists g. repeat split; assumption.
      * split.
        -- intros [g [Hg H]]. exists g. split; [right; exact Hg | exact H].
        -- intros [g [[Hg | Hg] [H1 [H2 H3]]]]; [inversion Hg; subst; congruence | exists g; repeat split; assumption].
    + rewrite IH. cbn [In]. split.
      * intros [g [Hg H]]. exists g. split; [right; exact Hg | exact H].
      * intros [g [[Hg | Hg] H]]; [discriminate | exists g; split; assumption].
Qed.

Lemma is_fixture_spec : forall f, is_fixture f = true <-> exists d, In d (f_decs f) /\ d_name d = s_fixture.
Proof.
  intro f. unfold is_fixture. rewrite existsb_exists. split; intros [d [H1 H2]]; exists d; split; try assumption; apply str_eqb_spec; exact H2.
Qed.

(* ------------------------------------------------------------------------------------------ *)
(* selection *)

Lemma has_slow_spec : forall ms, has_slow ms = true <-> In MSlow ms.
Proof.
  intro ms. unfold has_slow. rewrite existsb_exists. split.
  - intros [m [H1 H2]]. destruct m; try discriminate. exact H1.
  - intro H. exists MSlow. split; [exact H | reflexivity].
Qed.

Lemma selected_spec : forall f slow t,
  selected f slow t = true <->
  (forall kw, f = Some kw -> exists a b, t_name t = a ++ kw ++ b) /\ (slow = false -> ~ In MSlow (t_markers t)).
Proof.
  intros f slow t. unfold selected. rewrite andb_true_iff, orb_true_iff, negb_true_iff. split.
  - intros [H1 H2]. split.
    + intros kw Hf. subst. apply containsb_spec. exact H1.
    + intros Hs Hin. destruct H2 as [H2 | H2]; [congruence|]. apply has_slow_spec in Hin. congruence.
  - intros [H1 H2]. split.
    + destruct f as [kw|]; [|reflexivity]. apply containsb_spec. apply H1. reflexivity.
    + destruct slow; [left; reflexivity | right]. destruct (has_slow (t_markers t)) eqn:E; [|reflexivity].
      apply has_slow_spec in E. exfalso. apply (H2 eq_refl). exact E.
Qed.

Lemma select_in : forall f slow ts t,
  In t (select f slow ts) <->
  In t ts /\ (forall kw, f = Some kw -> exists a b, t_name t = a ++ kw ++ b) /\ (slow = false -> ~ In MSlow (t_markers t)).
Proof. intros. unfold select. rewrite filter_In, selected_spec. reflexivity. Qed.

Lemma select_app : forall f slow a b, select f slow (a ++ b) = select f slow a ++ select f slow b.
Proof. intros. unfold select. apply filter_app. Qed.

(* ------------------------------------------------------------------------------------------ *)
(* the verdict loop *)

Definition b2z (b : bool) : Z := if b then 1 else 0.

Lemma step_spec : forall run t s,
  let r := verdict (t_markers t) (run t) in
  let s' := fst (step run t s) in
  snd (step run t s) = r /\
  results s' = results s ++ [(t, r)] /\
  executed s' = executed s ++ (if not_skipped t then [t] else []) /\
  n_passed s' = n_passed s + b2z (is_passed r) /\
  n_failed s' = n_failed s + b2z (is_failed r) /\
  n_skipped s' = n_skipped s + b2z (is_skipped r) /\
  n_xfailed s' = n_xfailed s + b2z (is_xfailed r) /\
  n_xpassed s' = n_xpassed s + b2z (is_xpassed r).
Proof.
  intros run t s. unfold step, verdict, not_skipped.
  destruct (find_skip (t_markers t)) as [reason|]; cbn.
  - rewrite app_nil_r. repeat split; lia.
  - destruct (find_xfail (t_markers t)) as [reason|]; destruct (run t); cbn; repeat split; lia.
Qed.

Lemma countZ_app : forall p a b, countZ p (a ++ b) = countZ p a + countZ p b.
Proof. intros p a b. induction a as [|x a IH]; cbn [countZ app]; [lia | rewrite IH; lia]. Qed.

Lemma loop_spec : forall stop run ts s,
  let s' := loop stop run ts s in
  let vs := verdicts stop run ts in
  results s' = results s ++ vs /\
  executed s' = executed s ++ filter not_skipped (map fst vs) /\
  n_passed s' = n_passed s + countZ is_passed vs /\
  n_failed s' = n_failed s + countZ is_failed vs /\
  n_skipped s' = n_skipped s + countZ is_skipped vs /\
  n_xfailed s' = n_xfailed s + countZ is_xfailed vs /\
  n_xpassed s' = n_xpassed s + countZ is_xpassed vs.
Proof.
  intros stop run ts. induction ts as [|t rest IH]; intro s.
  - cbn. rewrite !app_nil_r. repeat split; lia.
  - cbn [loop verdicts].
    pose proof (step_spec run t s) as Hs. cbv zeta in Hs.
    destruct (step run t s) as [s1 r1] eqn:Es. cbn [fst snd] in Hs.
    destruct Hs as [Hr [H1 [H2 [H3 [H4 [H5 [H6 H7]]]]]]]. subst r1.
    set (r := verdict (t_markers t) (run t)) in *.
    destruct (stop && is_failed r) eqn:Eb.
    + cbn [map fst filter countZ snd]. rewrite H1, H2, H3, H4, H5, H6, H7.
      unfold b2z. destruct (not_skipped t); repeat split; try lia; reflexivity.
    + specialize (IH s1). cbv zeta in IH.
      destruct IH as [I1 [I2 [I3 [I4 [I5 [I6 I7]]]]]].
      rewrite I1, I2, I3, I4, I5, I6, I7, H1, H2, H3, H4, H5, H6, H7.
      cbn [map fst filter countZ snd]. unfold b2z.
      rewrite <- !app_assoc. destruct (not_skipped t); cbn [app]; repeat split; try lia; reflexivity.
Qed.

Lemma loop_st0 : forall stop run ts,
  let s' := loop stop run ts st0 in
  let vs := verdicts stop run ts in
  results s' = vs /\ executed s' = filter not_skipped (map fst vs) /\
  n_passed s' = countZ is_passed vs /\ n_failed s' = countZ is_failed vs /\
  n_skipped s' = countZ is_skipped vs /\ n_xfailed s' = countZ is_xfailed vs /\
  n_xpassed s' = countZ is_xpassed vs.
Proof.
  intros stop run ts. pose proof (loop_spec stop run ts st0) as H. cbv zeta in *.
  cbn [st0 results executed n_passed n_failed n_skipped n_xfailed n_xpassed app] in H.
  destruct H as [H1 [H2 [H3 [H4 [H5 [H6 H7]]]]]]. repeat split; try assumption; lia.
Qed.

Lemma countZ_nonneg : forall p l, 0 <= countZ p l.
Proof. intros p l. induction l as [|x l IH]; cbn [countZ]; [lia | destruct (p (snd x)); lia]. Qed.

Lemma countZ_pos_iff : forall p l, countZ p l > 0 <-> exists x, In x l /\ p (snd x) = true.
Proof.
  intros p l. induction l as [|x l IH]; cbn [countZ].
  - split; [lia | intros [x [[] _]]].
  - pose proof (countZ_nonneg p l). destruct (p (snd x)) eqn:E.
    + split; [intros _; exists x; split; [left; reflexivity | exact E] | lia].
    + rewrite Z.add_0_l, IH. split.
      * intros [y [Hy Hp]]. exists y. split; [right; exact Hy | exact Hp].
      * intros [y [[Hy | Hy] Hp]]; [subst; congruence | exists y; split; assumption].
Qed.

Lemma countZ_total : forall l,
  countZ is_passed l + countZ is_failed l + countZ is_skipped l + countZ is_xfailed l + countZ is_xpassed l
  = Z.of_nat (length l).
Proof.
  induction l as [|x l IH]; [reflexivity|]. cbn [countZ length]. rewrite Nat2Z.inj_succ.
  destruct (snd x); cbn [is_passed is_failed is_skipped is_xfailed is_xpassed]; lia.
Qed.

(* every entry of the report is the verdict of its own test *)
Lemma verdicts_in : forall stop run ts t r,
  In (t, r) (verdicts stop run ts) -> In t ts /\ r = verdict (t_markers t) (run t).
Proof.
  intros stop run ts. induction ts as [|x rest IH]; intros t r H; cbn [verdicts] in H.
  - destruct H.
  - destruct H as [H | H].
    + inversion H; subst. split; [left; reflexivity | reflexivity].
    + destruct (stop && is_failed (verdict (t_markers x) (run x))); [destruct H|].
      apply IH in H. destruct H as [H1 H2]. split; [right; exact H1 | exact H2].
Qed.

Lemma verdicts_nostop_fst : forall run ts, map fst (verdicts false run ts) = ts.
Proof. intros run ts. induction ts as [|t r IH]; [reflexivity|]. cbn [verdicts andb map fst]. rewrite IH. reflexivity. Qed.

Lemma verdicts_nostop_eq : forall run ts,
  verdicts false run ts = map (fun t => (t, verdict (t_markers t) (run t))) ts.
Proof. intros run ts. induction ts as [|t r IH]; [reflexivity|]. cbn [verdicts andb map]. rewrite IH. reflexivity. Qed.

(* -x: the report is a prefix of the full report, cut right after the first Failed *)
Lemma verdicts_stop_prefix : forall run ts,
  exists suffix,
    verdicts false run ts = verdicts true run ts ++ suffix /\
    (forall pre x post, verdicts true run ts = pre ++ x :: post -> post <> [] -> is_failed (snd x) = false) /\
    (suffix <> [] -> exists pre t, verdicts true run ts = pre ++ [(t, Failed)]).
Proof.
  intros run ts. induction ts as [|t rest IH].
  - exists []. split; [reflexivity|]. split.
    + intros pre x post H. destruct pre; discriminate.
    + intro H. congruence.
  - cbn [verdicts andb]. destruct IH as [suf [I1 [I2 I3]]].
    destruct (is_failed (verdict (t_markers t) (run t))) eqn:E.
    + exists (verdicts false run rest). split; [reflexivity|]. split.
      * intros pre x post H Hp. destruct pre as [|y pre]; cbn [app] in H; inversion H; subst; [congruence|].
        destruct pre; discriminate.
      * intros _. exists [], t. cbn [app]. destruct (verdict (t_markers t) (run t)); try discriminate. reflexivity.
    + exists suf. split; [rewrite I1; reflexivity|]. split.
      * intros pre x post H Hp. destruct pre as [|y pre]; cbn [app] in H; inversion H; subst.
        -- exact E.
        -- apply (I2 pre x post); assumption.
      * intro Hs. destruct (I3 Hs) as [pre [t' H]]. exists ((t, verdict (t_markers t) (run t)) :: pre), t'.
        cbn [app]. rewrite H. reflexivity.
Qed.

Lemma verdicts_stop_nofail : forall run ts,
  (forall x, In x (verdicts false run ts) -> is_failed (snd x) = false) ->
  verdicts true run ts = verdicts false run ts.
Proof.
  intros run ts. induction ts as [|t rest IH]; intro H; [reflexivity|].
  cbn [verdicts andb] in *.
  assert (E : is_failed (verdict (t_markers t) (run t)) = false) by (apply (H _ (or_introl eq_refl))).
  rewrite E in *. rewrite IH; [reflexivity|]. intros x Hx. apply H. right. exact Hx.
Qed.

(* the loop only looks at [run] on the tests it is given, and never at skipped ones *)
Lemma verdicts_ext : forall stop run run' ts,
  (forall t, In t ts -> not_skipped t = true -> run t = run' t) ->
  verdicts stop run ts = verdicts stop run' ts.
Proof.
  intros stop run run' ts. induction ts as [|t rest IH]; intro H; [reflexivity|].
  cbn [verdicts].
  assert (E : verdict (t_markers t) (run t) = verdict (t_markers t) (run' t)).
  { unfold verdict. specialize (H t (or_introl eq_refl)). unfold not_skipped in H.
    destruct (find_skip (t_markers t)); [reflexivity|]. rewrite H; reflexivity. }
  rewrite E. rewrite IH; [reflexivity|]. intros u Hu. apply H. right. exact Hu.
Qed.

Lemma step_ext : forall run run' t s,
  (not_skipped t = true -> run t = run' t) -> step run t s = step run' t s.
Proof.
  intros run run' t s H. unfold step. unfold not_skipped in H.
  destruct (find_skip (t_markers t)); [reflexivity|]. rewrite H; reflexivity.
Qed.

Lemma loop_ext : forall stop run run' ts s,
  (forall t, In t ts -> not_skipped t = true -> run t = run' t) ->
  loop stop run ts s = loop stop run' ts s.
Proof.
  intros stop run run' ts. induction ts as [|t rest IH]; intros s H; [reflexivity|].
  cbn [loop]. rewrite (step_ext run run' t s) by (apply H; left; reflexivity).
  destruct (step run' t s) as [s1 r1]. destruct (stop && is_failed r1); [reflexivity|].
  apply IH. intros u Hu. apply H. right. exact Hu.
Qed.

(* ------------------------------------------------------------------------------------------ *)
(* the verdict table *)

Lemma verdict_skip : forall ms r reason, find_skip ms = Some reason -> verdict ms r = Skipped reason.
Proof. intros ms r reason H. unfold verdict. rewrite H. reflexivity. Qed.

Lemma verdict_xfail : forall ms reason, find_skip ms = None -> find_xfail ms = Some reason ->
  verdict ms RPass = XPassed /\ verdict ms RFail = XFailed reason.
Proof. intros ms reason H1 H2. unfold verdict. rewrite H1, H2. split; reflexivity. Qed.

Lemma verdict_plain : forall ms, find_skip ms = None -> find_xfail ms = None ->
  verdict ms RPass = Passed /\ verdict ms RFail = Failed.
Proof. intros ms H1 H2. unfold verdict. rewrite H1, H2. split; reflexivity. Qed.

Lemma find_skip_some : forall ms reason, find_skip ms = Some reason -> In (MSkip reason) ms.
Proof.
  induction ms as [|m ms IH]; intros reason H; cbn [find_skip] in H; [discriminate|].
  destruct m; try (right; apply IH; exact H). inversion H; subst. left. reflexivity.
Qed.

Ltac other_marker IH :=
  rewrite IH; split;
  [ intros H reason [Hc | Hc]; [discriminate | exact (H reason Hc)]
  | intros H reason Hc; exact (H reason (or_intror Hc)) ].

Lemma find_skip_none : forall ms, find_skip ms = None <-> (forall reason, ~ In (MSkip reason) ms).
Proof.
  induction ms as [|m ms IH]; cbn [find_skip].
  - split; [intros _ reason [] | reflexivity].
  - destruct m as [r0 | r0 | |].
    + split; [discriminate | intro H; exfalso; apply (H r0); left; reflexivity].
    + other_marker IH.
    + other_marker IH.
    + other_marker IH.
Qed.

Lemma find_xfail_none : forall ms, find_xfail ms = None <-> (forall reason, ~ In (MXFail reason) ms).
Proof.
  induction ms as [|m ms IH]; cbn [find_xfail].
  - split; [intros _ reason [] | reflexivity].
  - destruct m as [r0 | r0 | |].
    + other_marker IH.
    + split; [discriminate | intro H; exfalso; apply (H r0); left; reflexivity].
    + other_marker IH.
    + other_marker IH.
Qed.

(* ------------------------------------------------------------------------------------------ *)
(* harness truth *)

Lemma forallb_all_eq : forall (b : test -> bool) t l,
  (forall u, In u l -> u = t) -> forallb b l = match l with [] => true | _ :: _ => b t end.
Proof.
  intros b t l. induction l as [|u l IH]; intro H; [reflexivity|].
  cbn [forallb]. rewrite (H u (or_introl eq_refl)). rewrite IH by (intros v Hv; apply H; right; exact Hv).
  destruct l; destruct (b t); reflexivity.
Qed.

Lemma raw_own_body : forall gen compiles body_ok t,
  harness_executes (gen t) = [t] -> raw_of_harness gen compiles body_ok t = raw_truth compiles body_ok t.
Proof.
  intros gen compiles body_ok t H. unfold raw_of_harness, raw_truth. rewrite H. cbn [forallb]. rewrite andb_true_r. reflexivity.
Qed.

Lemma raw_complement : forall gen compiles body_ok t,
  isolated gen t -> ~ Known_C16_body_not_executed gen compiles body_ok t ->
  raw_of_harness gen compiles body_ok t = raw_truth compiles body_ok t.
Proof.
  intros gen compiles body_ok t Hi H. unfold raw_of_harness, raw_truth, Known_C16_body_not_executed in *.
  rewrite (forallb_all_eq body_ok t _ Hi).
  destruct (harness_executes (gen t)) eqn:E; [|reflexivity].
  destruct (compiles t) eqn:Ec; cbn [andb]; [|reflexivity].
  destruct (body_ok t) eqn:Eb; [reflexivity|]. exfalso. apply H. repeat split; assumption.
Qed.

Lemma executes_nothing_spec : forall gen t, executes_nothing gen t = true <-> harness_executes (gen t) = [].
Proof. intros gen t. unfold executes_nothing. destruct (harness_executes (gen t)); split; intro H; try reflexivity; discriminate. Qed.

Lemma known_body_not_executedb_spec : forall gen compiles body_ok t,
  known_body_not_executedb gen compiles body_ok t = true <-> Known_C16_body_not_executed gen compiles body_ok t.
Proof.
  intros. unfold known_body_not_executedb, Known_C16_body_not_executed.
  rewrite !andb_true_iff, negb_true_iff, executes_nothing_spec. tauto.
Qed.

(* every member of the class that is not skipped IS misreported (the class is not too wide) *)
Lemma known_class_misreported : forall gen compiles body_ok t,
  Known_C16_body_not_executed gen compiles body_ok t -> find_skip (t_markers t) = None ->
  verdict (t_markers t) (raw_of_harness gen compiles body_ok t) <>
  verdict (t_markers t) (raw_truth compiles body_ok t) /\
  is_bad (verdict (t_markers t) (raw_of_harness gen compiles body_ok t)) =
  negb (is_bad (verdict (t_markers t) (raw_truth compiles body_ok t))).
Proof.
  intros gen compiles body_ok t [H1 [H2 H3]] Hs. unfold raw_of_harness, raw_truth, verdict.
  rewrite H1, H2, H3, Hs. cbn. destruct (find_xfail (t_markers t)); split; try discriminate; reflexivity.
Qed.

Lemma harness_runs_body_spec : forall t,
  harness_runs_body t = true <-> t_params t = [] /\ t_async t = false.
Proof.
  intro t. unfold harness_runs_body. destruct (t_params t); [|split; [discriminate | intros [H _]; discriminate]].
  rewrite negb_true_iff. split; [intro H; split; [reflexivity | exact H] | intros [_ H]; exact H].
Qed.

Lemma gen_current_executes : forall t,
  harness_executes (gen_current t) = if harness_runs_body t then [t] else [].
Proof. intro t. unfold harness_executes, gen_current. cbn [h_marked h_filter]. destruct (harness_runs_body t); reflexivity. Qed.

Lemma gen_current_isolated : forall t, isolated gen_current t.
Proof.
  intros t u H. rewrite gen_current_executes in H. destruct (harness_runs_body t); [|destruct H].
  destruct H as [H | []]. symmetry. exact H.
Qed.

Lemma filter_none : forall (p : test -> bool) l, (forall u, In u l -> p u = false) -> filter p l = [].
Proof.
  intros p l. induction l as [|a l IH]; intro H; [reflexivity|]. cbn [filter].
  rewrite (H a (or_introl eq_refl)). apply IH. intros u Hu. apply H. right. exact Hu.
Qed.

Lemma filter_unique : forall (p : test -> bool) l t,
  NoDup l -> In t l -> (forall u, In u l -> p u = true -> u = t) -> p t = true -> filter p l = [t].
Proof.
  intros p l t. induction l as [|a l IH]; intros Hn Hin Hu Hp; [destruct Hin|].
  inversion Hn as [|a' l' Ha Hn']; subst. cbn [filter]. destruct Hin as [Hin | Hin].
  - subst a. rewrite Hp. f_equal. apply filter_none. intros u Hu'.
    destruct (p u) eqn:E; [|reflexivity]. exfalso. apply Ha. rewrite <- (Hu u (or_intror Hu') E). exact Hu'.
  - destruct (p a) eqn:E.
    + exfalso. apply Ha. rewrite (Hu a (or_introl eq_refl) E). exact Hin.
    + apply IH; try assumption. intros u Hu' Hpu. apply Hu; [right; exact Hu' | exact Hpu].
Qed.

Lemma gen_emit_unique : forall file_tests t,
  NoDup (file_tests t) -> In t (file_tests t) ->
  (forall u, In u (file_tests t) -> t_name u = t_name t -> u = t) ->
  harness_executes (gen_emit file_tests t) = harness_executes (gen_current t).
Proof.
  intros file_tests t Hn Hin Hu. rewrite gen_current_executes.
  unfold harness_executes, gen_emit. cbn [h_marked h_filter libtest_selects].
  assert (E : forall l : list test, filter (fun _ : test => true) l = l).
  { induction l as [|a l IH]; [reflexivity|]. cbn [filter]. rewrite IH. reflexivity. }
  rewrite E. destruct (harness_runs_body t) eqn:Hr.
  - apply filter_unique; try assumption.
    + intros u Hu' Hp. apply andb_true_iff in Hp. destruct Hp as [Hp _]. apply str_eqb_spec in Hp. apply Hu; assumption.
    + rewrite str_eqb_refl, Hr. reflexivity.
  - apply filter_none. intros u Hu'. destruct (str_eqb (t_name u) (t_name t)) eqn:En; [|reflexivity].
    apply str_eqb_spec in En. rewrite (Hu u Hu' En), Hr. reflexivity.
Qed.

Lemma gen_all_marked_in : forall exact file_tests t u,
  In u (harness_executes (gen_all_marked exact file_tests t)) <->
  In u (file_tests t) /\ harness_runs_body u = true /\
  (if exact then t_name t = t_name u else exists a b, t_name u = a ++ t_name t ++ b).
Proof.
  intros exact file_tests t u. unfold harness_executes, gen_all_marked. cbn [h_marked h_filter].
  rewrite !filter_In. unfold libtest_selects. destruct exact.
  - rewrite str_eqb_spec. tauto.
  - rewrite containsb_spec. tauto.
Qed.

(* ------------------------------------------------------------------------------------------ *)
(* summary line *)

Lemma summary_parts_spec : forall s n k,
  In (n, k) (summary_parts s) <->
  n > 0 /\ In (n, k) [(n_passed s, 0); (n_failed s, 1); (n_skipped s, 2); (n_xfailed s, 3); (n_xpassed s, 4)].
Proof.
  intros s n k. unfold summary_parts. rewrite filter_In. cbn [fst].
  split; intros [A B]; split; try assumption.
  - apply Z.gtb_lt in B. lia.
  - apply Z.gtb_lt. lia.
Qed.

(* ------------------------------------------------------------------------------------------ *)
(* the order of read_dir does not matter: Path order is a total order, so sorting a set of
   distinct paths has one result *)

Lemma str_leb_refl : forall a, str_leb a a = true.
Proof. induction a as [|x a IH]; cbn [str_leb]; [reflexivity|]. rewrite Z.ltb_irrefl. exact IH. Qed.

Lemma str_leb_antisym : forall a b, str_leb a b = true -> str_leb b a = true -> a = b.
Proof.
  induction a as [|x a IH]; destruct b as [|y b]; cbn [str_leb]; intros H1 H2; try reflexivity; try discriminate.
  destruct (x <? y) eqn:E1; destruct (y <? x) eqn:E2; try discriminate.
  - apply Z.ltb_lt in E1. apply Z.ltb_lt in E2. lia.
  - apply Z.ltb_ge in E1. apply Z.ltb_ge in E2. assert (x = y) by lia. subst. f_equal. apply IH; assumption.
Qed.

Lemma str_leb_trans : forall a b c, str_leb a b = true -> str_leb b c = true -> str_leb a c = true.
Proof.
  induction a as [|x a IH]; intros b c H1 H2; [reflexivity|].
  destruct b as [|y b]; [discriminate|]. destruct c as [|z c]; [discriminate|].
  cbn [str_leb] in *.
  destruct (x <? y) eqn:E1; destruct (y <? x) eqn:E1'; destruct (y <? z) eqn:E2; destruct (z <? y) eqn:E2';
    destruct (x <? z) eqn:E3; destruct (z <? x) eqn:E3'; try reflexivity; try discriminate;
    repeat match goal with
           | H : (_ <? _) = true |- _ => apply Z.ltb_lt in H
           | H : (_ <? _) = false |- _ => apply Z.ltb_ge in H
           end; try lia.
  apply (IH b c); assumption.
Qed.

Lemma str_eqb_false : forall a b, str_eqb a b = false <-> a <> b.
Proof.
  intros a b. split.
  - intros H E. subst. rewrite str_eqb_refl in H. discriminate.
  - intro H. destruct (str_eqb a b) eqn:E; [|reflexivity]. apply str_eqb_spec in E. contradiction.
Qed.

Lemma path_leb_refl : forall a, path_leb a a = true.
Proof. induction a as [|x a IH]; cbn [path_leb]; [reflexivity|]. rewrite str_eqb_refl. exact IH. Qed.

Lemma path_leb_antisym : forall a b, path_leb a b = true -> path_leb b a = true -> a = b.
Proof.
  induction a as [|x a IH]; destruct b as [|y b]; cbn [path_leb]; intros H1 H2; try reflexivity; try discriminate.
  rewrite (str_eqb_sym y x) in H2. destruct (str_eqb x y) eqn:E.
  - apply str_eqb_spec in E. subst. f_equal. apply IH; assumption.
  - exfalso. apply str_eqb_false in E. apply E. apply str_leb_antisym; assumption.
Qed.

Lemma path_leb_trans : forall a b c, path_leb a b = true -> path_leb b c = true -> path_leb a c = true.
Proof.
  induction a as [|x a IH]; intros b c H1 H2; [reflexivity|].
  destruct b as [|y b]; [discriminate|]. destruct c as [|z c]; [discriminate|].
  cbn [path_leb] in *.
  destruct (str_eqb x y) eqn:Exy; destruct (str_eqb y z) eqn:Eyz.
  - apply str_eqb_spec in Exy. apply str_eqb_spec in Eyz. subst. rewrite str_eqb_refl. apply (IH b c); assumption.
  - apply str_eqb_spec in Exy. subst. rewrite Eyz. exact H2.
  - apply str_eqb_spec in Eyz. subst. rewrite Exy. exact H1.
  - destruct (str_eqb x z) eqn:Exz.
    + exfalso. apply str_eqb_spec in Exz. subst. apply str_eqb_false in Exy. apply Exy. apply str_leb_antisym; assumption.
    + apply (str_leb_trans x y z); assumption.
Qed.

From Coq Require Import Permutation.

Lemma sorted_head_le : forall a l, sorted_paths (a :: l) -> forall x, In x l -> path_leb (fst a) (fst x) = true.
Proof.
  intros a l. revert a. induction l as [|b l IH]; intros a H x Hx; [destruct Hx|].
  inversion H; subst. destruct Hx as [Hx | Hx].
  - subst. assumption.
  - apply (path_leb_trans _ (fst b)); [assumption | apply IH; assumption].
Qed.

Lemma sorted_tail : forall a l, sorted_paths (a :: l) -> sorted_paths l.
Proof. intros a l H. inversion H; subst; [constructor | assumption]. Qed.

Lemma nodup_keys_inj : forall (l : list (list str * content)) a b,
  NoDup (map fst l) -> In a l -> In b l -> fst a = fst b -> a = b.
Proof.
  induction l as [|h t IH]; intros a b Hn Ha Hb E; [destruct Ha|].
  cbn [map] in Hn. inversion Hn; subst. destruct Ha as [Ha | Ha]; destruct Hb as [Hb | Hb]; subst.
  - reflexivity.
  - exfalso. apply H1. rewrite E. apply in_map. exact Hb.
  - exfalso. apply H1. rewrite <- E. apply in_map. exact Ha.
  - apply IH; assumption.
Qed.

Lemma sorted_perm_unique : forall l l',
  sorted_paths l -> sorted_paths l' -> Permutation l l' -> NoDup (map fst l) -> l = l'.
Proof.
  induction l as [|a t IH]; intros l' Hs Hs' Hp Hn.
  - apply Permutation_nil in Hp. subst. reflexivity.
  - destruct l' as [|a' t']; [apply Permutation_sym, Permutation_nil in Hp; discriminate|].
    assert (Ea : a = a').
    { assert (Hin : In a (a' :: t')) by (apply (Permutation_in _ Hp); left; reflexivity).
      assert (Hin' : In a' (a :: t)) by (apply (Permutation_in _ (Permutation_sym Hp)); left; reflexivity).
      destruct Hin as [Hin | Hin]; [symmetry; exact Hin|].
      destruct Hin' as [Hin' | Hin']; [exact Hin'|].
      apply (nodup_keys_inj (a :: t)); try assumption; [left; reflexivity | right; exact Hin' |].
      apply path_leb_antisym; [apply (sorted_head_le a t Hs); exact Hin' | apply (sorted_head_le a' t' Hs'); exact Hin]. }
    subst a'. f_equal. apply IH.
    + apply (sorted_tail a); exact Hs.
    + apply (sorted_tail a); exact Hs'.
    + apply (Permutation_cons_inv Hp).
    + cbn [map] in Hn. inversion Hn; assumption.
Qed.

Lemma insert_path_perm : forall e l, Permutation (e :: l) (insert_path e l).
Proof.
  intros e l. induction l as [|h t IH]; cbn [insert_path]; [apply Permutation_refl|].
  destruct (path_leb (fst e) (fst h)); [apply Permutation_refl|].
  apply (perm_trans (perm_swap h e t)). apply perm_skip. exact IH.
Qed.

Lemma sort_paths_perm : forall l, Permutation l (sort_paths l).
Proof.
  induction l as [|e t IH]; cbn [sort_paths]; [constructor|].
  apply (perm_trans (perm_skip e IH)). apply insert_path_perm.
Qed.

Lemma sort_paths_order_independent : forall l l',
  Permutation l l' -> NoDup (map fst l) -> sort_paths l = sort_paths l'.
Proof.
  intros l l' Hp Hn. apply sorted_perm_unique.
  - apply sort_paths_sorted.
  - apply sort_paths_sorted.
  - apply (perm_trans (Permutation_sym (sort_paths_perm l))). apply (perm_trans Hp). apply sort_paths_perm.
  - apply (Permutation_NoDup (l := map fst l)); [|exact Hn]. apply Permutation_map. apply sort_paths_perm.
Qed.

(* two trees that differ only in the order in which directories list their entries *)
Inductive same_tree : node -> node -> Prop :=
| st_file : forall nm c, same_tree (File nm c) (File nm c)
| st_dir : forall nm ch ch1 ch2, same_children ch ch1 -> Permutation ch1 ch2 -> same_tree (Dir nm ch) (Dir nm ch2)
with same_children : list node -> list node -> Prop :=
| sc_nil : same_children [] []
| sc_cons : forall x y l l', same_tree x y -> same_children l l' -> same_children (x :: l) (y :: l').

Scheme same_tree_mut := Induction for same_tree Sort Prop
with same_children_mut := Induction for same_children Sort Prop.

Definition walk_children (pre : list str) (l : list node) : list (list str * content) :=
  flat_map (walk false pre) l.

Lemma walk_dir_eq : forall top pre nm ch,
  walk top pre (Dir nm ch) = if negb top && excluded_dir nm then [] else walk_children (pre ++ [nm]) ch.
Proof.
  intros top pre nm ch. cbn [walk]. destruct (negb top && excluded_dir nm); [reflexivity|].
  unfold walk_children. induction ch as [|x r IH]; [reflexivity|]. cbn [flat_map]. rewrite <- IH. reflexivity.
Qed.

Lemma walk_children_perm : forall pre l l', Permutation l l' -> Permutation (walk_children pre l) (walk_children pre l').
Proof.
  intros pre l l' H. unfold walk_children. induction H.
  - constructor.
  - cbn [flat_map]. apply Permutation_app_head. assumption.
  - cbn [flat_map]. rewrite !app_assoc. apply Permutation_app_tail. apply Permutation_app_comm.
  - eapply perm_trans; eassumption.
Qed.

Lemma walk_same_tree : forall n n', same_tree n n' -> forall top pre, Permutation (walk top pre n) (walk top pre n').
Proof.
  apply (same_tree_mut
           (fun n n' _ => forall top pre, Permutation (walk top pre n) (walk top pre n'))
           (fun l l' _ => forall pre, Permutation (walk_children pre l) (walk_children pre l'))).
  - intros nm c top pre. apply Permutation_refl.
  - intros nm ch ch1 ch2 _ IH Hp top pre. rewrite !walk_dir_eq.
    destruct (negb top && excluded_dir nm); [constructor|].
    apply (perm_trans (IH (pre ++ [nm]))). apply walk_children_perm. exact Hp.
  - intros pre. constructor.
  - intros x y l l' _ IHx _ IHl pre. unfold walk_children in *. cbn [flat_map].
    apply Permutation_app; [apply IHx | apply IHl].
Qed.

Lemma discover_order_independent : forall n n',
  same_tree n n' -> NoDup (map fst (walk true [] n)) ->
  discover_files (Some n) = discover_files (Some n').
Proof.
  intros n n' H Hn. unfold discover_files. apply sort_paths_order_independent; [|exact Hn].
  apply walk_same_tree. exact H.
Qed.
