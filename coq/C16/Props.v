(* C16/Props.v — the property theorems for C16 (`incan test` reports the truth), and nothing else.
   All quantify over ALL test lists / file trees / raw-verdict functions [run].  The model
   (C16/Model.v) is tied to src/cli/test_runner.rs by the correspondence run of checks/c16.py. *)
From Coq Require Import ZArith List Bool Lia.
From Verif Require Import C16.Model C16.Proofs.
Import ListNotations.
Open Scope Z_scope.

(* hypotheses are satisfiable by non-trivial values; the witness of the known finding *)
Definition ex_pass : test := {| t_path := [[116]]; t_name := s_test_ ++ [97]; t_markers := []; t_fixtures := []; t_params := []; t_async := false |}.
Definition ex_fail : test := {| t_path := [[116]]; t_name := s_test_ ++ [98]; t_markers := []; t_fixtures := []; t_params := []; t_async := false |}.
Definition ex_xf : test := {| t_path := [[116]]; t_name := s_test_ ++ [99]; t_markers := [MXFail [107]]; t_fixtures := []; t_params := []; t_async := false |}.
Definition ex_skip : test := {| t_path := [[116]]; t_name := s_test_ ++ [100]; t_markers := [MSlow; MSkip [110]]; t_fixtures := []; t_params := []; t_async := false |}.
(* tests the current harness does not execute: one takes a (fixture) parameter, one is async *)
Definition ex_param_fail : test :=
  {| t_path := [[116]]; t_name := s_test_ ++ [101]; t_markers := []; t_fixtures := [[100; 98]]; t_params := [[100; 98]]; t_async := false |}.
Definition ex_async_fail : test :=
  {| t_path := [[116]]; t_name := s_test_ ++ [102]; t_markers := [MXFail [107]]; t_fixtures := []; t_params := []; t_async := true |}.
Definition ex_body_ok (t : test) : bool := str_eqb (t_name t) (t_name ex_pass).

Example C16_nonvacuous :
  let run := raw_truth (fun _ => true) ex_body_ok in
  let s := loop false run [ex_pass; ex_fail; ex_xf; ex_skip] st0 in
  map snd (results s) = [Passed; Failed; XFailed [107]; Skipped [110]] /\
  executed s = [ex_pass; ex_fail; ex_xf] /\ exit_code s = 1 /\
  select (Some [98]) false [ex_pass; ex_fail; ex_xf; ex_skip] = [ex_fail] /\
  select None false [ex_pass; ex_skip] = [ex_pass] /\ select None true [ex_pass; ex_skip] = [ex_pass; ex_skip] /\
  results (loop true run [ex_fail; ex_pass] st0) = [(ex_fail, Failed)] /\
  ~ Known_C16_body_not_executed gen_current (fun _ => true) ex_body_ok ex_pass /\
  ~ Known_C16_body_not_executed gen_current (fun _ => true) ex_body_ok ex_fail /\
  Known_C16_body_not_executed gen_current (fun _ => true) ex_body_ok ex_param_fail /\
  Known_C16_body_not_executed gen_current (fun _ => true) ex_body_ok ex_async_fail.
Proof.
  cbv zeta. repeat split; try (vm_compute; reflexivity).
  - intros [_ [_ H]]. vm_compute in H. discriminate.
  - intros [H _]. vm_compute in H. discriminate.
Qed.

(* T1  the report is exactly one verdict per selected test, in order (cut after the first Failed
       under -x), and the loop's own counters equal the counts of those verdicts; their sum is the
       number of verdict lines *)
Theorem C16_counts_match_verdicts : forall stop run ts,
  let s := loop stop run ts st0 in
  results s = verdicts stop run ts /\
  n_passed s = countZ is_passed (results s) /\ n_failed s = countZ is_failed (results s) /\
  n_skipped s = countZ is_skipped (results s) /\ n_xfailed s = countZ is_xfailed (results s) /\
  n_xpassed s = countZ is_xpassed (results s) /\
  n_passed s + n_failed s + n_skipped s + n_xfailed s + n_xpassed s = Z.of_nat (length (results s)) /\
  (stop = false -> map fst (results s) = ts).
Proof.
  intros stop run ts. cbv zeta. pose proof (loop_st0 stop run ts) as H. cbv zeta in H.
  destruct H as [H1 [H2 [H3 [H4 [H5 [H6 H7]]]]]]. rewrite H1, H3, H4, H5, H6, H7.
  repeat split. - exact (countZ_total _). - intro Hs. subst. exact (verdicts_nostop_fst run ts).
Qed.
Print Assumptions C16_counts_match_verdicts.

(* T2  exit status of a run that collected tests: 1 iff some reported verdict is Failed or XPassed *)
Theorem C16_exit_nonzero_iff : forall stop run ts,
  let s := loop stop run ts st0 in
  (exit_code s = 1 <-> exists t r, In (t, r) (results s) /\ (r = Failed \/ r = XPassed)) /\
  (exit_code s = 0 \/ exit_code s = 1).
Proof.
  intros stop run ts. cbv zeta. pose proof (loop_st0 stop run ts) as H. cbv zeta in H.
  destruct H as [H1 [_ [_ [H4 [_ [_ H7]]]]]]. unfold exit_code. rewrite H4, H7, H1.
  set (vs := verdicts stop run ts).
  pose proof (countZ_pos_iff is_failed vs) as Pf. pose proof (countZ_pos_iff is_xpassed vs) as Px.
  pose proof (countZ_nonneg is_failed vs) as Nf. pose proof (countZ_nonneg is_xpassed vs) as Nx.
  split.
  - split.
    + intro H. destruct (countZ is_failed vs >? 0) eqn:Ef.
      * assert (G : countZ is_failed vs > 0) by lia. apply Pf in G. destruct G as [[t r] [Hin Hp]].
        exists t, r. split; [exact Hin|]. left. cbn [snd] in Hp. destruct r; try discriminate. reflexivity.
      * destruct (countZ is_xpassed vs >? 0) eqn:Ex; cbn [orb] in H; [|discriminate].
        assert (G : countZ is_xpassed vs > 0) by lia. apply Px in G. destruct G as [[t r] [Hin Hp]].
        exists t, r. split; [exact Hin|]. right. cbn [snd] in Hp. destruct r; try discriminate. reflexivity.
    + intros [t [r [Hin [Hr | Hr]]]]; subst r.
      * assert (G : countZ is_failed vs > 0) by (apply Pf; exists (t, Failed); split; [exact Hin | reflexivity]).
        assert (E : countZ is_failed vs >? 0 = true) by lia. rewrite E. reflexivity.
      * assert (G : countZ is_xpassed vs > 0) by (apply Px; exists (t, XPassed); split; [exact Hin | reflexivity]).
        assert (E : countZ is_xpassed vs >? 0 = true) by lia. rewrite E, orb_true_r. reflexivity.
  - destruct ((countZ is_failed vs >? 0) || (countZ is_xpassed vs >? 0)); [right | left]; reflexivity.
Qed.
Print Assumptions C16_exit_nonzero_iff.

(* T3  the documented exit-code table of `incan test` (docs: cli_reference.md "Exit codes") *)
Theorem C16_exit_documented : forall target o run,
  outcome_exit (run_tests target o run) = 1 <->
  discover_files target = [] \/
  (discover_files target <> [] /\
   select (o_filter o) (o_slow o) (all_tests (discover_files target)) = [] /\ o_fail_on_empty o = true) \/
  (discover_files target <> [] /\
   exists t r, In (t, r) (verdicts (o_stop o) run (select (o_filter o) (o_slow o) (all_tests (discover_files target)))) /\
               (r = Failed \/ r = XPassed)).
Proof.
  intros target o run. unfold run_tests.
  destruct (discover_files target) as [|f fs] eqn:Ef.
  - cbn [outcome_exit]. split; [intros _; left; reflexivity | reflexivity].
  - set (sel := select (o_filter o) (o_slow o) (all_tests (f :: fs))).
    destruct sel as [|t0 rest] eqn:Es.
    + cbn [outcome_exit]. split.
      * intro H. right. left. split; [discriminate|]. split; [reflexivity|]. destruct (o_fail_on_empty o); [reflexivity | discriminate].
      * intros [H | [[_ [_ H]] | [_ [t [r [[] _]]]]]]; [discriminate | rewrite H; reflexivity].
    + cbn [outcome_exit].
      pose proof (C16_exit_nonzero_iff (o_stop o) run (t0 :: rest)) as [H _]. cbv zeta in H.
      pose proof (C16_counts_match_verdicts (o_stop o) run (t0 :: rest)) as [Hr _]. cbv zeta in Hr.
      rewrite Hr in H. rewrite H. split.
      * intro G. right. right. split; [discriminate | exact G].
      * intros [G | [[_ [G _]] | [_ G]]]; [discriminate | discriminate | exact G].
Qed.
Print Assumptions C16_exit_documented.

(* T4  @skip tests are never handed to run_single_test, are reported Skipped with the reason of
       their first @skip, and the whole final state is independent of what running them would give *)
Theorem C16_skip_never_runs : forall stop run ts,
  let s := loop stop run ts st0 in
  (forall t, In t (executed s) -> forall reason, ~ In (MSkip reason) (t_markers t)) /\
  executed s = filter not_skipped (map fst (results s)) /\
  (forall t r reason, In (t, r) (results s) -> find_skip (t_markers t) = Some reason -> r = Skipped reason) /\
  (forall t r, In (t, r) (results s) -> find_skip (t_markers t) = None -> forall reason, r <> Skipped reason) /\
  (forall run', (forall t, In t ts -> not_skipped t = true -> run t = run' t) -> loop stop run' ts st0 = s).
Proof.
  intros stop run ts. cbv zeta. pose proof (loop_st0 stop run ts) as H. cbv zeta in H.
  destruct H as [H1 [H2 _]]. rewrite H1, H2. split; [|split; [reflexivity|split; [|split]]].
  - intros t Hin. apply filter_In in Hin. destruct Hin as [_ Hn]. unfold not_skipped in Hn.
    destruct (find_skip (t_markers t)) eqn:E; [discriminate|]. apply find_skip_none. exact E.
  - intros t r reason Hin Hs. apply verdicts_in in Hin. destruct Hin as [_ Hr]. subst r. apply verdict_skip. exact Hs.
  - intros t r Hin Hs reason Hr. apply verdicts_in in Hin. destruct Hin as [_ Hv]. subst r.
    unfold verdict in Hr. rewrite Hs in Hr. destruct (find_xfail (t_markers t)); destruct (run t); discriminate.
  - intros run' Hext. symmetry. apply loop_ext. exact Hext.
Qed.
Print Assumptions C16_skip_never_runs.

(* T5  every reported verdict is [verdict markers raw] of its own test, and @xfail inverts it:
       a passing body is XPassed (counts as failure), a failing body XFailed (does not) *)
Theorem C16_xfail_inverts : forall stop run ts,
  (forall t r, In (t, r) (results (loop stop run ts st0)) -> In t ts /\ r = verdict (t_markers t) (run t)) /\
  (forall ms reason, find_skip ms = None -> find_xfail ms = Some reason ->
     verdict ms RPass = XPassed /\ verdict ms RFail = XFailed reason /\
     is_bad (verdict ms RPass) = true /\ is_bad (verdict ms RFail) = false) /\
  (forall ms, find_skip ms = None -> (forall reason, ~ In (MXFail reason) ms) ->
     verdict ms RPass = Passed /\ verdict ms RFail = Failed /\
     is_bad (verdict ms RPass) = false /\ is_bad (verdict ms RFail) = true).
Proof.
  intros stop run ts. split; [|split].
  - intros t r Hin. pose proof (loop_st0 stop run ts) as H. cbv zeta in H. destruct H as [H1 _].
    rewrite H1 in Hin. exact (verdicts_in stop run ts t r Hin).
  - intros ms reason H1 H2. destruct (verdict_xfail ms reason H1 H2) as [A B]. rewrite A, B. repeat split.
  - intros ms H1 H2. apply find_xfail_none in H2. destruct (verdict_plain ms H1 H2) as [A B]. rewrite A, B. repeat split.
Qed.
Print Assumptions C16_xfail_inverts.

(* T6  -k selects exactly the tests whose function name contains the keyword as a substring
       (docs: "-k <substr>"), keeping order and multiplicity *)
Theorem C16_k_selects_exactly : forall kw slow ts t,
  (In t (select (Some kw) slow ts) <->
   In t ts /\ (exists a b, t_name t = a ++ kw ++ b) /\ (slow = false -> ~ In MSlow (t_markers t))) /\
  (In t (select None slow ts) <-> In t ts /\ (slow = false -> ~ In MSlow (t_markers t))) /\
  (forall f a b, select f slow (a ++ b) = select f slow a ++ select f slow b).
Proof.
  intros kw slow ts t. split; [|split].
  - rewrite select_in. split.
    + intros [H1 [H2 H3]]. split; [exact H1|]. split; [apply H2; reflexivity | exact H3].
    + intros [H1 [H2 H3]]. split; [exact H1|]. split; [|exact H3]. intros kw' E. inversion E; subst. exact H2.
  - rewrite select_in. split.
    + intros [H1 [_ H3]]. split; assumption.
    + intros [H1 H3]. split; [exact H1|]. split; [discriminate | exact H3].
  - intros f a b. exact (select_app f slow a b).
Qed.
Print Assumptions C16_k_selects_exactly.

(* T7  @slow tests are excluded unless --slow is given; --slow excludes nothing *)
Theorem C16_slow_selects_exactly : forall f ts,
  (forall t, In t (select f false ts) <-> In t (select f true ts) /\ ~ In MSlow (t_markers t)) /\
  select None true ts = ts /\
  (forall t, In t (select None false ts) <-> In t ts /\ ~ In MSlow (t_markers t)).
Proof.
  intros f ts. split; [|split].
  - intro t. rewrite !select_in. split.
    + intros [H1 [H2 H3]]. split; [split; [exact H1 | split; [exact H2 | discriminate]] | apply H3; reflexivity].
    + intros [[H1 [H2 _]] H3]. split; [exact H1 | split; [exact H2 | intros _; exact H3]].
  - unfold select. induction ts as [|t r IH]; [reflexivity|]. cbn [filter selected andb orb]. rewrite IH. reflexivity.
  - intro t. rewrite select_in. split.
    + intros [H1 [_ H3]]. split; [exact H1 | apply H3; reflexivity].
    + intros [H1 H3]. split; [exact H1 | split; [discriminate | intros _; exact H3]].
Qed.
Print Assumptions C16_slow_selects_exactly.

(* T8  -x: the report (and the executed trace) is the prefix of the full report that ends with the
       first Failed; nothing after it is run; without a Failed verdict -x changes nothing *)
Theorem C16_stop_on_fail_prefix : forall run ts,
  let full := loop false run ts st0 in
  let cut := loop true run ts st0 in
  (exists suffix,
     results full = results cut ++ suffix /\
     executed full = executed cut ++ filter not_skipped (map fst suffix) /\
     (forall pre x post, results cut = pre ++ x :: post -> post <> [] -> snd x <> Failed) /\
     (suffix <> [] -> exists pre t, results cut = pre ++ [(t, Failed)])) /\
  ((forall x, In x (results full) -> snd x <> Failed) -> cut = full).
Proof.
  intros run ts. cbv zeta.
  pose proof (loop_st0 false run ts) as Hf. pose proof (loop_st0 true run ts) as Hc. cbv zeta in Hf, Hc.
  destruct Hf as [F1 [F2 _]]. destruct Hc as [C1 [C2 _]].
  split.
  - destruct (verdicts_stop_prefix run ts) as [suf [P1 [P2 P3]]]. exists suf. rewrite F1, F2, C1, C2.
    split; [exact P1|]. split; [rewrite P1, map_app, filter_app; reflexivity|]. split; [|exact P3].
    intros pre x post H Hp Hx. specialize (P2 pre x post H Hp). rewrite Hx in P2. discriminate.
  - intro H. rewrite F1 in H.
    assert (E : verdicts true run ts = verdicts false run ts).
    { apply verdicts_stop_nofail. intros x Hx. specialize (H x Hx). destruct (snd x); try reflexivity. congruence. }
    clear F1 F2 C1 C2.
    assert (G : forall l s, (forall x, In x (verdicts false run l) -> is_failed (snd x) = false) -> loop true run l s = loop false run l s).
    { induction l as [|t rest IH]; intros s Hl; [reflexivity|]. cbn [loop andb].
      pose proof (step_spec run t s) as Hs. cbv zeta in Hs. destruct Hs as [Hs _].
      destruct (step run t s) as [s1 r1]. cbn [snd] in Hs. subst r1.
      cbn [verdicts andb] in Hl.
      assert (E0 : is_failed (verdict (t_markers t) (run t)) = false) by (apply (Hl _ (or_introl eq_refl))).
      rewrite E0 in *. apply IH. intros x Hx. apply Hl. right. exact Hx. }
    apply G. intros x Hx. specialize (H x Hx). destruct (snd x); try reflexivity. congruence.
Qed.
Print Assumptions C16_stop_on_fail_prefix.

(* T9  discovery of files: exactly the files named test_*.incn / *_test.incn that are reachable
       without passing through a directory named .*, target or node_modules; sorted by path *)
Theorem C16_discovery_files_exact : forall n p c,
  (In (p, c) (discover_files (Some n)) <-> reach true [] n p c) /\
  sorted_paths (discover_files (Some n)) /\
  length (discover_files (Some n)) = length (walk true [] n) /\
  discover_files None = [] /\
  (forall nm, is_test_file_name nm = true <->
     ((exists r, nm = s_test_ ++ r) \/ (exists r, nm = r ++ s__test_incn)) /\ (exists r, nm = r ++ s_incn)) /\
  (forall nm, excluded_dir nm = true <-> (exists r, nm = c_dot :: r) \/ nm = s_target \/ nm = s_node_modules).
Proof.
  intros n p c. unfold discover_files. split; [|split; [|split; [|split; [|split]]]].
  - rewrite sort_paths_in. exact (walk_reach n true [] p c).
  - exact (sort_paths_sorted _).
  - exact (sort_paths_length _).
  - reflexivity.
  - exact is_test_file_name_spec.
  - exact excluded_dir_spec.
Qed.
Print Assumptions C16_discovery_files_exact.

(* T10 discovery of tests in a file: exactly the top-level functions named test_* that are not
       @fixture, in declaration order; files that do not parse contribute nothing *)
Theorem C16_discovery_tests_exact : forall path ds t,
  (In t (discover_decls path (Parsed ds)) <->
   exists f, In (DFun f) ds /\ is_fixture f = false /\ (exists r, f_name f = s_test_ ++ r) /\
             t = {| t_path := path; t_name := f_name f; t_markers := extract_markers (f_decs f);
                    t_fixtures := filter (fun p => mem_str p (fixture_names ds)) (f_params f);
                    t_params := f_params f; t_async := f_async f |}) /\
  discover_decls path Unparsable = [] /\
  (forall f, is_fixture f = true <-> exists d, In d (f_decs f) /\ d_name d = s_fixture).
Proof.
  intros path ds t. split; [|split; [reflexivity | exact is_fixture_spec]].
  cbn [discover_decls]. rewrite tests_of_decls_spec. split.
  - intros [f [H1 [H2 [H3 H4]]]]. exists f. repeat split; try assumption. apply prefixb_spec. exact H3.
  - intros [f [H1 [H2 [H3 H4]]]]. exists f. repeat split; try assumption. apply prefixb_spec. exact H3.
Qed.
Print Assumptions C16_discovery_tests_exact.

(* T11 harness truth, REFUTED for what the harness of the current tree does not execute: a test
       that takes parameters (fixtures, @parametrize) or is async gets no #[test], `cargo test`
       runs zero tests for it; if its body fails it is reported Passed with exit 0 — or, under
       @xfail, XPassed with exit 1 *)
Theorem C16_passed_only_if_body_ran_refuted :
  exists compiles body_ok t1 t2,
    Known_C16_body_not_executed gen_current compiles body_ok t1 /\
    Known_C16_body_not_executed gen_current compiles body_ok t2 /\
    t_params t1 <> [] /\ t_async t2 = true /\
    results (loop false (raw_of_harness gen_current compiles body_ok) [t1] st0) = [(t1, Passed)] /\
    exit_code (loop false (raw_of_harness gen_current compiles body_ok) [t1] st0) = 0 /\
    results (loop false (raw_truth compiles body_ok) [t1] st0) = [(t1, Failed)] /\
    results (loop false (raw_of_harness gen_current compiles body_ok) [t2] st0) = [(t2, XPassed)] /\
    exit_code (loop false (raw_of_harness gen_current compiles body_ok) [t2] st0) = 1 /\
    results (loop false (raw_truth compiles body_ok) [t2] st0) = [(t2, XFailed [107])].
Proof.
  exists (fun _ => true), ex_body_ok, ex_param_fail, ex_async_fail.
  repeat split; try (vm_compute; reflexivity). vm_compute. discriminate.
Qed.
Print Assumptions C16_passed_only_if_body_ran_refuted.

(* T11b regression witness of the repaired defect test-body-never-run: a parameterless,
       non-async test whose body fails IS executed by the current harness and reported Failed
       (exit 1); under @xfail it is XFailed (exit 0) — for every such test, not only a sample *)
Theorem C16_body_never_run_fixed : forall compiles body_ok t,
  t_params t = [] -> t_async t = false -> compiles t = true -> body_ok t = false ->
  find_skip (t_markers t) = None ->
  ~ Known_C16_body_not_executed gen_current compiles body_ok t /\
  let s := loop false (raw_of_harness gen_current compiles body_ok) [t] st0 in
  (find_xfail (t_markers t) = None -> results s = [(t, Failed)] /\ exit_code s = 1) /\
  (forall reason, find_xfail (t_markers t) = Some reason -> results s = [(t, XFailed reason)] /\ exit_code s = 0).
Proof.
  intros compiles body_ok t Hp Ha Hc Hb Hs.
  assert (Hr : harness_runs_body t = true) by (apply harness_runs_body_spec; split; assumption).
  assert (He : harness_executes (gen_current t) = [t]) by (rewrite gen_current_executes, Hr; reflexivity).
  split; [intros [K _]; congruence|]. cbv zeta.
  unfold loop, step, exit_code. rewrite (raw_own_body gen_current compiles body_ok t He).
  unfold raw_truth. rewrite Hs, Hc, Hb. cbn [andb].
  split.
  - intro Hx. rewrite Hx. cbn. split; reflexivity.
  - intros reason Hx. rewrite Hx. cbn. split; reflexivity.
Qed.
Print Assumptions C16_body_never_run_fixed.

Example C16_body_never_run_fixed_witness :
  results (loop false (raw_of_harness gen_current (fun _ => true) ex_body_ok) [ex_pass; ex_fail; ex_xf] st0)
  = [(ex_pass, Passed); (ex_fail, Failed); (ex_xf, XFailed [107])].
Proof. vm_compute. reflexivity. Qed.

(* T12 harness truth on the complement of the known class, for ANY generated harness that is
       isolated (the harness run for t executes nothing but t): if no selected test is in the class,
       the whole final state — verdicts, counters, executed trace, exit status — is the truthful
       one, and then Passed means the body ran to completion without failing, Failed means it did not *)
Theorem C16_truthful_outside_known_class : forall stop gen compiles body_ok ts,
  (forall t, In t ts -> isolated gen t) ->
  (forall t, In t ts -> ~ Known_C16_body_not_executed gen compiles body_ok t) ->
  let s := loop stop (raw_of_harness gen compiles body_ok) ts st0 in
  s = loop stop (raw_truth compiles body_ok) ts st0 /\
  (forall t, In (t, Passed) (results s) -> compiles t = true /\ body_ok t = true) /\
  (forall t, In (t, Failed) (results s) -> compiles t = false \/ body_ok t = false) /\
  (forall t, In (t, XPassed) (results s) -> compiles t = true /\ body_ok t = true) /\
  (forall t reason, In (t, XFailed reason) (results s) -> compiles t = false \/ body_ok t = false).
Proof.
  intros stop gen compiles body_ok ts Hi Hk. cbv zeta.
  assert (E : loop stop (raw_of_harness gen compiles body_ok) ts st0 = loop stop (raw_truth compiles body_ok) ts st0).
  { apply loop_ext. intros t Hin _. apply raw_complement; [apply Hi | apply Hk]; exact Hin. }
  rewrite E. split; [reflexivity|].
  pose proof (loop_st0 stop (raw_truth compiles body_ok) ts) as H. cbv zeta in H. destruct H as [H1 _]. rewrite H1.
  assert (V : forall t r, In (t, r) (verdicts stop (raw_truth compiles body_ok) ts) ->
              r = verdict (t_markers t) (raw_truth compiles body_ok t)).
  { intros t r Hin. apply verdicts_in in Hin. exact (proj2 Hin). }
  repeat split.
  - apply V in H. unfold verdict, raw_truth in H. destruct (find_skip (t_markers t)); [discriminate|].
    destruct (compiles t); [reflexivity|]. cbn [andb] in H. destruct (find_xfail (t_markers t)); discriminate.
  - apply V in H. unfold verdict, raw_truth in H. destruct (find_skip (t_markers t)); [discriminate|].
    destruct (compiles t); cbn [andb] in H; [|destruct (find_xfail (t_markers t)); discriminate].
    destruct (body_ok t); [reflexivity|]. destruct (find_xfail (t_markers t)); discriminate.
  - intros t Hin. apply V in Hin. unfold verdict, raw_truth in Hin. destruct (find_skip (t_markers t)); [discriminate|].
    destruct (compiles t); [|left; reflexivity]. cbn [andb] in Hin. destruct (body_ok t); [|right; reflexivity].
    destruct (find_xfail (t_markers t)); discriminate.
  - apply V in H. unfold verdict, raw_truth in H. destruct (find_skip (t_markers t)); [discriminate|].
    destruct (compiles t); [reflexivity|]. cbn [andb] in H. destruct (find_xfail (t_markers t)); discriminate.
  - apply V in H. unfold verdict, raw_truth in H. destruct (find_skip (t_markers t)); [discriminate|].
    destruct (compiles t); cbn [andb] in H; [|destruct (find_xfail (t_markers t)); discriminate].
    destruct (body_ok t); [reflexivity|]. destruct (find_xfail (t_markers t)); discriminate.
  - intros t reason Hin. apply V in Hin. unfold verdict, raw_truth in Hin. destruct (find_skip (t_markers t)); [discriminate|].
    destruct (compiles t); [|left; reflexivity]. cbn [andb] in Hin. destruct (body_ok t); [|right; reflexivity].
    destruct (find_xfail (t_markers t)); discriminate.
Qed.
Print Assumptions C16_truthful_outside_known_class.

(* T12b the same for the harness of the current tree (which is isolated for every test), with the
       class spelled out: a run whose selected tests are all parameterless and not async is reported
       truthfully, whatever other functions the files contain *)
Theorem C16_truthful_for_plain_tests : forall stop compiles body_ok ts,
  (forall t, In t ts -> t_params t = [] /\ t_async t = false) ->
  loop stop (raw_of_harness gen_current compiles body_ok) ts st0 = loop stop (raw_truth compiles body_ok) ts st0.
Proof.
  intros stop compiles body_ok ts H.
  apply (C16_truthful_outside_known_class stop gen_current compiles body_ok ts).
  - intros t _. exact (gen_current_isolated t).
  - intros t Hin [K _]. apply H in Hin. apply harness_runs_body_spec in Hin.
    rewrite gen_current_executes, Hin in K. discriminate.
Qed.
Print Assumptions C16_truthful_for_plain_tests.

(* T13 the class is exact: a test the harness executes is never in it (for the current harness:
       exactly the tests with parameters or async can be), and every member that is not @skip IS
       misreported (its good/bad status is inverted) *)
Theorem C16_known_class_exact : forall gen compiles body_ok t,
  (harness_executes (gen t) <> [] -> ~ Known_C16_body_not_executed gen compiles body_ok t) /\
  (known_body_not_executedb gen compiles body_ok t = true <-> Known_C16_body_not_executed gen compiles body_ok t) /\
  (Known_C16_body_not_executed gen_current compiles body_ok t -> t_params t <> [] \/ t_async t = true) /\
  (Known_C16_body_not_executed gen compiles body_ok t -> find_skip (t_markers t) = None ->
     verdict (t_markers t) (raw_of_harness gen compiles body_ok t) <>
     verdict (t_markers t) (raw_truth compiles body_ok t) /\
     is_bad (verdict (t_markers t) (raw_of_harness gen compiles body_ok t)) =
     negb (is_bad (verdict (t_markers t) (raw_truth compiles body_ok t)))).
Proof.
  intros gen compiles body_ok t. split; [|split; [|split]].
  - intros H [K _]. congruence.
  - exact (known_body_not_executedb_spec gen compiles body_ok t).
  - intros [K _]. rewrite gen_current_executes in K. unfold harness_runs_body in *.
    destruct (t_params t); [|left; discriminate].
    right. destruct (t_async t); [reflexivity | discriminate].
  - exact (known_class_misreported gen compiles body_ok t).
Qed.
Print Assumptions C16_known_class_exact.

(* T14 the summary line prints exactly the non-zero counters, each with its own label
       (0 passed, 1 failed, 2 skipped, 3 xfailed, 4 xpassed) *)
Theorem C16_summary_exact : forall stop run ts n k,
  let s := loop stop run ts st0 in
  In (n, k) (summary_parts s) <->
  n > 0 /\ ((k = 0 /\ n = countZ is_passed (results s)) \/ (k = 1 /\ n = countZ is_failed (results s)) \/
            (k = 2 /\ n = countZ is_skipped (results s)) \/ (k = 3 /\ n = countZ is_xfailed (results s)) \/
            (k = 4 /\ n = countZ is_xpassed (results s))).
Proof.
  intros stop run ts n k. cbv zeta. rewrite summary_parts_spec.
  pose proof (C16_counts_match_verdicts stop run ts) as H. cbv zeta in H.
  destruct H as [_ [H1 [H2 [H3 [H4 [H5 _]]]]]]. rewrite <- H1, <- H2, <- H3, <- H4, <- H5. cbn [In].
  split; intros [Hn H]; split; try exact Hn.
  - destruct H as [H | [H | [H | [H | [H | []]]]]]; inversion H; subst; tauto.
  - destruct H as [[A B] | [[A B] | [[A B] | [[A B] | [A B]]]]]; subst; tauto.
Qed.
Print Assumptions C16_summary_exact.

(* T15 the order in which the file system lists directory entries is irrelevant: two trees that
       differ only in the order of entries (at any depth) give the same list of test files, hence
       the same report order (paths in a file system are distinct) *)
Theorem C16_discovery_order_independent : forall n n',
  same_tree n n' -> NoDup (map fst (walk true [] n)) ->
  discover_files (Some n) = discover_files (Some n').
Proof. exact discover_order_independent. Qed.
Print Assumptions C16_discovery_order_independent.

Example C16_nonvacuous_order :
  let f1 := File (s_test_ ++ [97] ++ s_incn) Unparsable in
  let f2 := File (s_test_ ++ [98] ++ s_incn) (Parsed []) in
  let d := Dir [100] [f2; f1] in
  same_tree (Dir [46] [d; f1; f2]) (Dir [46] [f2; Dir [100] [f1; f2]; f1]) /\
  NoDup (map fst (walk true [] (Dir [46] [d; f1; f2]))) /\
  length (discover_files (Some (Dir [46] [d; f1; f2]))) = 4%nat.
Proof.
  cbv zeta. split; [|split].
  - apply st_dir with (ch1 := [Dir [100] [File (s_test_ ++ [97] ++ s_incn) Unparsable; File (s_test_ ++ [98] ++ s_incn) (Parsed [])];
                               File (s_test_ ++ [97] ++ s_incn) Unparsable; File (s_test_ ++ [98] ++ s_incn) (Parsed [])]).
    + constructor; [|constructor; [constructor | constructor; [constructor | constructor]]].
      apply st_dir with (ch1 := [File (s_test_ ++ [98] ++ s_incn) (Parsed []); File (s_test_ ++ [97] ++ s_incn) Unparsable]).
      * constructor; [constructor | constructor; [constructor | constructor]].
      * apply Permutation.perm_swap.
    + eapply Permutation.perm_trans; [apply Permutation.perm_skip; apply Permutation.perm_swap|].
      apply Permutation.perm_swap.
  - vm_compute. repeat constructor; cbn; intuition discriminate.
  - vm_compute. reflexivity.
Qed.

(* T16 "passed only if its body actually RAN": if the harness generated for each selected test
       executes exactly that test (the current harness for parameterless non-async tests), every
       Passed/XPassed verdict is of a test whose body did run, to completion; for a test the harness
       does not execute even a correct PASSED is not backed by an execution (refuted half) *)
Theorem C16_passed_means_body_ran : forall stop gen compiles body_ok ts t,
  (forall t0, In t0 ts -> harness_executes (gen t0) = [t0]) ->
  let s := loop stop (raw_of_harness gen compiles body_ok) ts st0 in
  In (t, Passed) (results s) \/ In (t, XPassed) (results s) ->
  body_ran gen compiles t = true /\ body_ok t = true.
Proof.
  intros stop gen compiles body_ok ts t Hex. cbv zeta. intro H.
  pose proof (C16_truthful_outside_known_class stop gen compiles body_ok ts) as K. cbv zeta in K.
  assert (Hi : forall t0, In t0 ts -> isolated gen t0).
  { intros t0 Hin u Hu. rewrite (Hex t0 Hin) in Hu. destruct Hu as [Hu | []]. symmetry. exact Hu. }
  assert (Hk : forall t0, In t0 ts -> ~ Known_C16_body_not_executed gen compiles body_ok t0).
  { intros t0 Hin [A _]. rewrite (Hex t0 Hin) in A. discriminate. }
  destruct (K Hi Hk) as [_ [P1 [_ [P2 _]]]].
  assert (Hin : In t ts).
  { pose proof (loop_st0 stop (raw_of_harness gen compiles body_ok) ts) as L. cbv zeta in L. destruct L as [L _].
    rewrite L in H. destruct H as [H | H]; apply verdicts_in in H; exact (proj1 H). }
  assert (PC : compiles t = true /\ body_ok t = true) by (destruct H as [H | H]; [exact (P1 t H) | exact (P2 t H)]).
  destruct PC as [Pc Pb]. split; [|exact Pb].
  unfold body_ran. rewrite (Hex t Hin), Pc. cbn [existsb andb orb]. rewrite str_eqb_refl. reflexivity.
Qed.
Print Assumptions C16_passed_means_body_ran.

Theorem C16_passed_means_body_ran_refuted :
  exists compiles body_ok t,
    In (t, Passed) (results (loop false (raw_of_harness gen_current compiles body_ok) [t] st0)) /\
    body_ok t = true /\ body_ran gen_current compiles t = false /\ t_params t <> [].
Proof.
  exists (fun _ => true), (fun _ => true), ex_param_fail. repeat split; try (vm_compute; auto). vm_compute. discriminate.
Qed.
Print Assumptions C16_passed_means_body_ran_refuted.

(* T18 the verdict of a test depends only on ITS OWN body: for any generated harness that marks
       exactly the selected function with #[test] and whose libtest filter (if any) selects that
       function's name, the raw verdict of t is the truthful one and does not change when the
       bodies of other functions change; the harness of the current tree has this shape for every
       parameterless non-async test *)
Theorem C16_verdict_depends_only_on_own_body : forall gen compiles body_ok body_ok' t,
  h_marked (gen t) = [t] -> libtest_selects (h_filter (gen t)) (t_name t) = true ->
  body_ok t = body_ok' t ->
  raw_of_harness gen compiles body_ok t = raw_truth compiles body_ok t /\
  raw_of_harness gen compiles body_ok t = raw_of_harness gen compiles body_ok' t.
Proof.
  intros gen compiles body_ok body_ok' t Hm Hf Hb.
  assert (He : harness_executes (gen t) = [t]).
  { unfold harness_executes. rewrite Hm. cbn [filter]. rewrite Hf. reflexivity. }
  rewrite !(raw_own_body gen compiles _ t He). split; [reflexivity|].
  unfold raw_truth. rewrite Hb. reflexivity.
Qed.
Print Assumptions C16_verdict_depends_only_on_own_body.

Theorem C16_current_harness_marks_exactly_selected : forall t,
  t_params t = [] -> t_async t = false ->
  h_marked (gen_current t) = [t] /\ h_filter (gen_current t) = None /\
  libtest_selects (h_filter (gen_current t)) (t_name t) = true.
Proof.
  intros t Hp Ha. assert (Hr : harness_runs_body t = true) by (apply harness_runs_body_spec; split; assumption).
  unfold gen_current. rewrite Hr. cbn. repeat split.
Qed.
Print Assumptions C16_current_harness_marks_exactly_selected.

(* T19 REFUTED otherwise: with #[test] on every test function of the file and the selected name
       passed as a libtest filter WITHOUT --exact (a substring filter), the verdict of a passing
       test_add depends on the body of test_add_big: it is reported Failed (exit 1) because the
       sibling fails, and an @xfail test with a passing body is reported XFailed (exit 0, a false
       green) instead of XPassed *)
Definition ex_add : test := {| t_path := [[116]]; t_name := s_test_ ++ [97; 100; 100]; t_markers := []; t_fixtures := []; t_params := []; t_async := false |}.
Definition ex_add_big : test :=
  {| t_path := [[116]]; t_name := s_test_ ++ [97; 100; 100; 95; 98; 105; 103]; t_markers := [MSkip []]; t_fixtures := []; t_params := []; t_async := false |}.
Definition ex_xadd : test := {| t_path := [[116]]; t_name := s_test_ ++ [97; 100; 100]; t_markers := [MXFail []]; t_fixtures := []; t_params := []; t_async := false |}.

Theorem C16_verdict_depends_on_sibling_refuted :
  let file := fun _ : test => [ex_add; ex_add_big] in
  let xfile := fun _ : test => [ex_xadd; ex_add_big] in
  let sibling_fails := fun u : test => negb (str_eqb (t_name u) (t_name ex_add_big)) in
  let gen := gen_all_marked false file in
  raw_of_harness gen (fun _ => true) (fun _ => true) ex_add = RPass /\
  raw_of_harness gen (fun _ => true) sibling_fails ex_add = RFail /\
  sibling_fails ex_add = true /\ raw_truth (fun _ => true) sibling_fails ex_add = RPass /\
  ~ isolated gen ex_add /\
  results (loop false (raw_of_harness gen (fun _ => true) sibling_fails) [ex_add; ex_add_big] st0)
    = [(ex_add, Failed); (ex_add_big, Skipped [])] /\
  results (loop false (raw_truth (fun _ => true) sibling_fails) [ex_add; ex_add_big] st0)
    = [(ex_add, Passed); (ex_add_big, Skipped [])] /\
  exit_code (loop false (raw_of_harness (gen_all_marked false xfile) (fun _ => true) sibling_fails) [ex_xadd; ex_add_big] st0) = 0 /\
  exit_code (loop false (raw_truth (fun _ => true) sibling_fails) [ex_xadd; ex_add_big] st0) = 1.
Proof.
  cbv zeta. repeat split; try (vm_compute; reflexivity).
  intro H. assert (E : ex_add_big = ex_add).
  { apply H. vm_compute. right. left. reflexivity. }
  discriminate.
Qed.
Print Assumptions C16_verdict_depends_on_sibling_refuted.

(* T20 the same design WITH --exact is isolated (and hence truthful by T12) as soon as function
       names are unique in the file: the substring semantics of the filter is what breaks it *)
Theorem C16_exact_filter_isolated : forall file_tests t,
  (forall u, In u (file_tests t) -> t_name u = t_name t -> u = t) ->
  isolated (gen_all_marked true file_tests) t.
Proof.
  intros file_tests t Hu u Hin. apply gen_all_marked_in in Hin. destruct Hin as [H1 [_ H3]].
  apply Hu; [exact H1 | symmetry; exact H3].
Qed.
Print Assumptions C16_exact_filter_isolated.

(* T21 the emitter decides per declaration ([gen_emit]); [gen_current], which every theorem above
       about the current tree uses, is exactly that WHEN FUNCTION NAMES ARE UNIQUE IN THE FILE —
       the hypothesis is explicit here.  Refuted without it: with `test_a(v)` and `test_a()` in one
       file the harness generated for the parameterised declaration executes the other one *)
Theorem C16_emitter_unique_names : forall file_tests t,
  NoDup (file_tests t) -> In t (file_tests t) ->
  (forall u, In u (file_tests t) -> t_name u = t_name t -> u = t) ->
  harness_executes (gen_emit file_tests t) = harness_executes (gen_current t).
Proof. exact gen_emit_unique. Qed.
Print Assumptions C16_emitter_unique_names.

Definition ex_dup_param : test :=
  {| t_path := [[116]]; t_name := s_test_ ++ [97]; t_markers := [MParametrize]; t_fixtures := []; t_params := [[118]]; t_async := false |}.

Theorem C16_emitter_duplicate_names_refuted :
  let file := fun _ : test => [ex_dup_param; ex_pass] in
  t_name ex_dup_param = t_name ex_pass /\ ex_dup_param <> ex_pass /\
  harness_executes (gen_current ex_dup_param) = [] /\
  harness_executes (gen_emit file ex_dup_param) = [ex_pass] /\
  ~ isolated (gen_emit file) ex_dup_param.
Proof.
  cbv zeta. repeat split; try (vm_compute; reflexivity); try discriminate.
  intro H. assert (E : ex_pass = ex_dup_param) by (apply H; vm_compute; left; reflexivity). discriminate.
Qed.
Print Assumptions C16_emitter_duplicate_names_refuted.
