(* C16/Model.v — executable model of `incan test` (src/cli/test_runner.rs), definitions only.

   Hand model (tie: correspondence run, checks/c16.py drives the real runner end to end):
     discover_test_files          -> [is_test_file_name], [excluded_dir], [walk], [discover_files]
     discover_tests_and_fixtures  -> [extract_markers], [discover_decls]
     run_tests: filter            -> [select]
     run_tests: verdict loop      -> [verdict], [step], [loop] (counters kept as the code keeps them)
     run_tests: summary/exit      -> [summary_parts], [exit_code], [run_tests]
     run_single_test              -> an explicit argument [run : test -> raw] (cargo is outside
                                     the model); [raw_of_harness] says what that argument is for a
                                     generated harness that does / does not execute the body.
   Strings are lists of Unicode scalar values (Z). *)
From Coq Require Import ZArith List Bool Lia.
Import ListNotations.
Open Scope Z_scope.

Definition str := list Z.

(* ------------------------------------------------------------------------------------------ *)
(* strings *)

Fixpoint str_eqb (a b : str) : bool :=
  match a, b with
  | [], [] => true
  | x :: a', y :: b' => (x =? y) && str_eqb a' b'
  | _, _ => false
  end.

(* Rust str::starts_with *)
Fixpoint prefixb (p s : str) : bool :=
  match p, s with
  | [], _ => true
  | _ :: _, [] => false
  | x :: p', y :: s' => (x =? y) && prefixb p' s'
  end.

(* Rust str::ends_with *)
Definition suffixb (p s : str) : bool := prefixb (rev p) (rev s).

(* Rust str::contains(&str) *)
Fixpoint containsb (kw s : str) : bool :=
  prefixb kw s || match s with [] => false | _ :: s' => containsb kw s' end.

(* byte-wise (= scalar-wise, UTF-8 preserves order) lexicographic order on names *)
Fixpoint str_leb (a b : str) : bool :=
  match a, b with
  | [], _ => true
  | _ :: _, [] => false
  | x :: a', y :: b' => if x <? y then true else if y <? x then false else str_leb a' b'
  end.

(* std::path::Path ordering: component-wise lexicographic *)
Fixpoint path_leb (a b : list str) : bool :=
  match a, b with
  | [], _ => true
  | _ :: _, [] => false
  | x :: a', y :: b' => if str_eqb x y then path_leb a' b' else str_leb x y
  end.

(* the literals of test_runner.rs *)
Definition s_test_ : str := [116;101;115;116;95].                                  (* "test_" *)
Definition s__test_incn : str := [95;116;101;115;116;46;105;110;99;110].          (* "_test.incn" *)
Definition s_incn : str := [46;105;110;99;110].                                    (* ".incn" *)
Definition s_target : str := [116;97;114;103;101;116].                             (* "target" *)
Definition s_node_modules : str := [110;111;100;101;95;109;111;100;117;108;101;115]. (* "node_modules" *)
Definition s_skip : str := [115;107;105;112].                                      (* "skip" *)
Definition s_xfail : str := [120;102;97;105;108].                                  (* "xfail" *)
Definition s_slow : str := [115;108;111;119].                                      (* "slow" *)
Definition s_parametrize : str := [112;97;114;97;109;101;116;114;105;122;101].     (* "parametrize" *)
Definition s_fixture : str := [102;105;120;116;117;114;101].                       (* "fixture" *)
Definition c_dot : Z := 46.

(* ------------------------------------------------------------------------------------------ *)
(* discovery of files: test_runner.rs discover_test_files *)

(* (name.starts_with("test_") || name.ends_with("_test.incn")) && name.ends_with(".incn") *)
Definition is_test_file_name (n : str) : bool :=
  (prefixb s_test_ n || suffixb s__test_incn n) && suffixb s_incn n.

(* !name.starts_with('.') && name != "target" && name != "node_modules", negated *)
Definition excluded_dir (n : str) : bool :=
  match n with c :: _ => (c =? c_dot) | [] => false end || str_eqb n s_target || str_eqb n s_node_modules.

Inductive marker := MSkip (reason : str) | MXFail (reason : str) | MSlow | MParametrize.

(* a decorator as the runner sees it: its name and, if the FIRST argument is a positional string
   literal, that string (extract_string_arg) *)
Record decorator := { d_name : str; d_arg : option str }.

Record fundecl := { f_name : str; f_decs : list decorator; f_params : list str; f_async : bool }.

(* top-level declarations; only functions matter to the runner *)
Inductive decl := DFun (f : fundecl) | DOther.

(* a file either fails to lex/parse (the runner prints "Error parsing" and drops it) or parses *)
Inductive content := Unparsable | Parsed (ds : list decl).

Inductive node := File (name : str) (c : content) | Dir (name : str) (children : list node).

(* all test files below [n], as (path components, content); [top] = the path given on the command
   line (its own name is never tested against the exclusion list, a FILE given there still needs a
   test file name) *)
Fixpoint walk (top : bool) (pre : list str) (n : node) : list (list str * content) :=
  match n with
  | File nm c => if is_test_file_name nm then [(pre ++ [nm], c)] else []
  | Dir nm ch =>
      if negb top && excluded_dir nm then []
      else (fix go (l : list node) : list (list str * content) :=
              match l with [] => [] | x :: r => walk false (pre ++ [nm]) x ++ go r end) ch
  end.

(* files.sort(): insertion sort by Path order (paths are distinct in a file system) *)
Fixpoint insert_path (e : list str * content) (l : list (list str * content)) :=
  match l with
  | [] => [e]
  | h :: t => if path_leb (fst e) (fst h) then e :: l else h :: insert_path e t
  end.

Fixpoint sort_paths (l : list (list str * content)) :=
  match l with [] => [] | e :: t => insert_path e (sort_paths t) end.

(* [target] = what the command-line path resolves to (None: neither file nor directory) *)
Definition discover_files (target : option node) : list (list str * content) :=
  match target with None => [] | Some n => sort_paths (walk true [] n) end.

(* ------------------------------------------------------------------------------------------ *)
(* discovery of tests in a file: discover_tests_and_fixtures / extract_test_markers *)

Definition arg_or_empty (d : decorator) : str := match d_arg d with Some s => s | None => [] end.

Fixpoint extract_markers (ds : list decorator) : list marker :=
  match ds with
  | [] => []
  | d :: r =>
      (if str_eqb (d_name d) s_skip then [MSkip (arg_or_empty d)]
       else if str_eqb (d_name d) s_xfail then [MXFail (arg_or_empty d)]
       else if str_eqb (d_name d) s_slow then [MSlow]
       else if str_eqb (d_name d) s_parametrize then [MParametrize]
       else []) ++ extract_markers r
  end.

Definition is_fixture (f : fundecl) : bool := existsb (fun d => str_eqb (d_name d) s_fixture) (f_decs f).

Record test := { t_path : list str; t_name : str; t_markers : list marker; t_fixtures : list str;
                 t_params : list str; t_async : bool }.

Definition file_name (p : list str) : str := last p [].

Fixpoint fixture_names (ds : list decl) : list str :=
  match ds with
  | [] => []
  | DFun f :: r => if is_fixture f then f_name f :: fixture_names r else fixture_names r
  | DOther :: r => fixture_names r
  end.

Definition mem_str (x : str) (l : list str) : bool := existsb (str_eqb x) l.

Fixpoint tests_of_decls (path : list str) (fx : list str) (ds : list decl) : list test :=
  match ds with
  | [] => []
  | DFun f :: r =>
      if is_fixture f then tests_of_decls path fx r
      else if prefixb s_test_ (f_name f)
      then {| t_path := path; t_name := f_name f; t_markers := extract_markers (f_decs f);
              t_fixtures := filter (fun p => mem_str p fx) (f_params f);
              t_params := f_params f; t_async := f_async f |} :: tests_of_decls path fx r
      else tests_of_decls path fx r
  | DOther :: r => tests_of_decls path fx r
  end.

Definition discover_decls (path : list str) (c : content) : list test :=
  match c with Unparsable => [] | Parsed ds => tests_of_decls path (fixture_names ds) ds end.

Definition content_fixtures (c : content) : list str :=
  match c with Unparsable => [] | Parsed ds => fixture_names ds end.

Definition all_tests (files : list (list str * content)) : list test :=
  flat_map (fun e => discover_decls (fst e) (snd e)) files.

(* all_fixtures is a HashMap keyed by name: the distinct names *)
Fixpoint dedup (l : list str) : list str :=
  match l with [] => [] | x :: r => if mem_str x r then dedup r else x :: dedup r end.

Definition all_fixture_names (files : list (list str * content)) : list str :=
  dedup (flat_map (fun e => content_fixtures (snd e)) files).

(* ------------------------------------------------------------------------------------------ *)
(* selection: the filter at test_runner.rs:307 *)

Definition marker_is_slow (m : marker) : bool := match m with MSlow => true | _ => false end.
Definition has_slow (ms : list marker) : bool := existsb marker_is_slow ms.

Definition selected (filter : option str) (slow : bool) (t : test) : bool :=
  match filter with Some kw => containsb kw (t_name t) | None => true end
  && (slow || negb (has_slow (t_markers t))).

Definition select (filter : option str) (slow : bool) (ts : list test) : list test :=
  List.filter (selected filter slow) ts.

(* ------------------------------------------------------------------------------------------ *)
(* verdicts: the loop at test_runner.rs:348 *)

Inductive raw := RPass | RFail.                    (* what run_single_test returned *)
Inductive result := Passed | Failed | Skipped (reason : str) | XFailed (reason : str) | XPassed.

Fixpoint find_skip (ms : list marker) : option str :=
  match ms with [] => None | MSkip r :: _ => Some r | _ :: t => find_skip t end.

Fixpoint find_xfail (ms : list marker) : option str :=
  match ms with [] => None | MXFail r :: _ => Some r | _ :: t => find_xfail t end.

Definition verdict (ms : list marker) (r : raw) : result :=
  match find_skip ms with
  | Some reason => Skipped reason
  | None =>
      match find_xfail ms with
      | Some reason => match r with RPass => XPassed | RFail => XFailed reason end
      | None => match r with RPass => Passed | RFail => Failed end
      end
  end.

Record state := {
  n_passed : Z; n_failed : Z; n_skipped : Z; n_xfailed : Z; n_xpassed : Z;
  results : list (test * result);      (* in report order *)
  executed : list test                 (* tests handed to run_single_test, in order *)
}.

Definition st0 : state :=
  {| n_passed := 0; n_failed := 0; n_skipped := 0; n_xfailed := 0; n_xpassed := 0; results := []; executed := [] |}.

Definition is_failed (r : result) : bool := match r with Failed => true | _ => false end.
Definition is_bad (r : result) : bool := match r with Failed | XPassed => true | _ => false end.

(* one iteration of the loop body; the counters are bumped where the code bumps them *)
Definition step (run : test -> raw) (t : test) (s : state) : state * result :=
  match find_skip (t_markers t) with
  | Some reason =>
      ({| n_passed := n_passed s; n_failed := n_failed s; n_skipped := n_skipped s + 1;
          n_xfailed := n_xfailed s; n_xpassed := n_xpassed s;
          results := results s ++ [(t, Skipped reason)]; executed := executed s |}, Skipped reason)
  | None =>
      let r := run t in
      let ex := executed s ++ [t] in
      match find_xfail (t_markers t) with
      | Some reason =>
          match r with
          | RPass => ({| n_passed := n_passed s; n_failed := n_failed s; n_skipped := n_skipped s;
                         n_xfailed := n_xfailed s; n_xpassed := n_xpassed s + 1;
                         results := results s ++ [(t, XPassed)]; executed := ex |}, XPassed)
          | RFail => ({| n_passed := n_passed s; n_failed := n_failed s; n_skipped := n_skipped s;
                         n_xfailed := n_xfailed s + 1; n_xpassed := n_xpassed s;
                         results := results s ++ [(t, XFailed reason)]; executed := ex |}, XFailed reason)
          end
      | None =>
          match r with
          | RPass => ({| n_passed := n_passed s + 1; n_failed := n_failed s; n_skipped := n_skipped s;
                         n_xfailed := n_xfailed s; n_xpassed := n_xpassed s;
                         results := results s ++ [(t, Passed)]; executed := ex |}, Passed)
          | RFail => ({| n_passed := n_passed s; n_failed := n_failed s + 1; n_skipped := n_skipped s;
                         n_xfailed := n_xfailed s; n_xpassed := n_xpassed s;
                         results := results s ++ [(t, Failed)]; executed := ex |}, Failed)
          end
      end
  end.

(* `break` after the first Failed when -x is given (an XPASS does not stop the run) *)
Fixpoint loop (stop : bool) (run : test -> raw) (ts : list test) (s : state) : state :=
  match ts with
  | [] => s
  | t :: rest =>
      let '(s', r) := step run t s in
      if stop && is_failed r then s' else loop stop run rest s'
  end.

(* failed > 0 || xpassed > 0 *)
Definition exit_code (s : state) : Z := if (n_failed s >? 0) || (n_xpassed s >? 0) then 1 else 0.

(* the "N passed, M failed, ..." parts, as (count, kind) with kind 0..4 in print order; zero counts omitted *)
Definition summary_parts (s : state) : list (Z * Z) :=
  List.filter (fun p => fst p >? 0)
    [(n_passed s, 0); (n_failed s, 1); (n_skipped s, 2); (n_xfailed s, 3); (n_xpassed s, 4)].

Record opts := { o_stop : bool; o_slow : bool; o_filter : option str; o_fail_on_empty : bool }.

Inductive outcome :=
| NoTestFiles                            (* Err("No test files found ..."), exit 1 *)
| NoTestsCollected (code : Z)            (* "No tests collected", exit 0, or 1 with --fail-on-empty *)
| Ran (collected : Z) (s : state).       (* "collected N item(s)", verdict lines, summary, exit_code s *)

Definition run_tests (target : option node) (o : opts) (run : test -> raw) : outcome :=
  let files := discover_files target in
  match files with
  | [] => NoTestFiles
  | _ =>
      let sel := select (o_filter o) (o_slow o) (all_tests files) in
      match sel with
      | [] => NoTestsCollected (if o_fail_on_empty o then 1 else 0)
      | _ => Ran (Z.of_nat (length sel)) (loop (o_stop o) run sel st0)
      end
  end.

Definition outcome_exit (oc : outcome) : Z :=
  match oc with NoTestFiles => 1 | NoTestsCollected c => c | Ran _ s => exit_code s end.

(* ------------------------------------------------------------------------------------------ *)
(* independent specification of the report: one verdict per selected test, in order, cut after the
   first Failed when -x is given; counts are counts of verdicts *)

Fixpoint verdicts (stop : bool) (run : test -> raw) (ts : list test) : list (test * result) :=
  match ts with
  | [] => []
  | t :: rest =>
      let r := verdict (t_markers t) (run t) in
      (t, r) :: (if stop && is_failed r then [] else verdicts stop run rest)
  end.

Definition is_passed (r : result) : bool := match r with Passed => true | _ => false end.
Definition is_skipped (r : result) : bool := match r with Skipped _ => true | _ => false end.
Definition is_xfailed (r : result) : bool := match r with XFailed _ => true | _ => false end.
Definition is_xpassed (r : result) : bool := match r with XPassed => true | _ => false end.

Fixpoint countZ (p : result -> bool) (l : list (test * result)) : Z :=
  match l with [] => 0 | x :: r => (if p (snd x) then 1 else 0) + countZ p r end.

Definition not_skipped (t : test) : bool := match find_skip (t_markers t) with None => true | Some _ => false end.

(* ------------------------------------------------------------------------------------------ *)
(* what run_single_test returns, as a function of the generated harness.
   The generated project for the selected test t is described by [harness]: the functions of the
   file that carry #[test] in the generated main.rs ([h_marked]) and the libtest filter the runner
   passes on the `cargo test -- ...` command line ([h_filter]: None = no positional argument,
   Some (pat, exact) = positional argument pat, with or without --exact).  libtest runs every
   marked function the filter selects — a positional argument is a SUBSTRING filter unless --exact
   is given — and `cargo test` exits 0 iff the project builds and every function it ran passed
   (zero functions run: exit 0).
   [compiles t]: read/lex/parse/typecheck/lowering/emission/project generation succeed and
   `cargo test` builds the project.  [body_ok u]: executing the body of u runs to completion
   without a failed assertion or panic. *)
Record harness := { h_marked : list test; h_filter : option (str * bool) }.

Definition libtest_selects (flt : option (str * bool)) (name : str) : bool :=
  match flt with
  | None => true
  | Some (pat, true) => str_eqb pat name
  | Some (pat, false) => containsb pat name
  end.

Definition harness_executes (h : harness) : list test :=
  List.filter (fun u => libtest_selects (h_filter h) (t_name u)) (h_marked h).

Definition raw_of_harness (gen : test -> harness) (compiles body_ok : test -> bool) (t : test) : raw :=
  if compiles t && forallb body_ok (harness_executes (gen t)) then RPass else RFail.

(* libtest only accepts synchronous functions without parameters *)
Definition harness_runs_body (t : test) : bool :=
  match t_params t with [] => negb (t_async t) | _ :: _ => false end.

(* the generated harness of the current tree (src/backend/ir/emit/decls.rs emit_function in test
   mode + src/cli/test_runner.rs run_single_test): #[test] on the selected function only, and only
   if libtest accepts it; `cargo test -- --nocapture` without a positional argument *)
Definition gen_current (t : test) : harness :=
  {| h_marked := if harness_runs_body t then [t] else []; h_filter := None |}.

(* emit_function decides per DECLARATION: every function of the file whose name is the selected name
   and that libtest accepts gets #[test].  [gen_current] is this under the hypothesis that function
   names are unique in the file (C16_emitter_unique_names); with a duplicated name the harness for
   one declaration also runs the other (and rustc rejects the project: two `fn` items of one name) *)
Definition gen_emit (file_tests : test -> list test) (t : test) : harness :=
  {| h_marked := List.filter (fun u => str_eqb (t_name u) (t_name t) && harness_runs_body u) (file_tests t);
     h_filter := None |}.

(* another design (NOT the current tree; used for the refutation and for the --exact theorem): every
   libtest-compatible test function of the file is marked and the runner selects by name *)
Definition gen_all_marked (exact : bool) (file_tests : test -> list test) (t : test) : harness :=
  {| h_marked := List.filter harness_runs_body (file_tests t); h_filter := Some (t_name t, exact) |}.

(* the harness run for t executes nothing but t *)
Definition isolated (gen : test -> harness) (t : test) : Prop :=
  forall u, In u (harness_executes (gen t)) -> u = t.

Definition executes_nothing (gen : test -> harness) (t : test) : bool :=
  match harness_executes (gen t) with [] => true | _ :: _ => false end.

(* did a function with t's name execute in the harness generated for t? *)
Definition body_ran (gen : test -> harness) (compiles : test -> bool) (t : test) : bool :=
  compiles t && existsb (fun u => str_eqb (t_name u) (t_name t)) (harness_executes (gen t)).

(* the truthful raw verdict the property asks for *)
Definition raw_truth (compiles body_ok : test -> bool) (t : test) : raw :=
  if compiles t && body_ok t then RPass else RFail.

(* class of the known finding test-with-params-not-executed: the harness generated for t executes
   nothing (for [gen_current]: t takes parameters — fixtures, @parametrize — or is async) and the
   test's project builds although its body would fail *)
Definition Known_C16_body_not_executed (gen : test -> harness) (compiles body_ok : test -> bool) (t : test) : Prop :=
  harness_executes (gen t) = [] /\ compiles t = true /\ body_ok t = false.

Definition known_body_not_executedb (gen : test -> harness) (compiles body_ok : test -> bool) (t : test) : bool :=
  executes_nothing gen t && compiles t && negb (body_ok t).

(* ------------------------------------------------------------------------------------------ *)
(* rendering for the correspondence run (everything to Z / lists of Z) *)

Definition render_result (r : result) : Z * str :=
  match r with
  | Passed => (0, []) | Failed => (1, []) | Skipped s => (2, s) | XFailed s => (3, s) | XPassed => (4, [])
  end.

Definition render_marker (m : marker) : Z * str :=
  match m with MSkip r => (0, r) | MXFail r => (1, r) | MSlow => (2, []) | MParametrize => (3, []) end.

Definition render_state (s : state) :=
  (map (fun tr => (file_name (t_path (fst tr)), t_name (fst tr), render_result (snd tr))) (results s),
   [n_passed s; n_failed s; n_skipped s; n_xfailed s; n_xpassed s],
   map (fun t => (file_name (t_path t), t_name t, map t_name (h_marked (gen_current t)),
                  match h_filter (gen_current t) with None => (0, [], false) | Some (p, e) => (1, p, e) end)) (executed s),
   summary_parts s).

(* (kind, exit, collected, state) with kind 0 = NoTestFiles, 1 = NoTestsCollected, 2 = Ran *)
Definition render_outcome (oc : outcome) :=
  match oc with
  | NoTestFiles => (0, 1, 0, render_state st0)
  | NoTestsCollected c => (1, c, 0, render_state st0)
  | Ran n s => (2, exit_code s, n, render_state s)
  end.

(* the scripted raw verdicts of a correspondence case: association list keyed by (file name, test) *)
Fixpoint lookup_raw (tbl : list (str * str * bool)) (dflt : bool) (fn tn : str) : bool :=
  match tbl with
  | [] => dflt
  | (f, n, b) :: r => if str_eqb f fn && str_eqb n tn then b else lookup_raw r dflt fn tn
  end.

Definition scripted_run (tbl : list (str * str * bool)) (dflt : bool) (t : test) : raw :=
  if lookup_raw tbl dflt (file_name (t_path t)) (t_name t) then RPass else RFail.

Definition run_case (target : option node) (o : opts) (tbl : list (str * str * bool)) (dflt : bool) :=
  (render_outcome (run_tests target o (scripted_run tbl dflt)),
   all_fixture_names (discover_files target)).

(* discovery alone, for the direct comparison with the public discover_* functions *)
Definition render_discovery (target : option node) :=
  map (fun e => (fst e,
                 match snd e with Unparsable => false | Parsed _ => true end,
                 map (fun t => (t_name t, map render_marker (t_markers t), t_fixtures t, harness_runs_body t)) (discover_decls (fst e) (snd e)),
                 content_fixtures (snd e)))
      (discover_files target).
