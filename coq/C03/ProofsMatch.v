(* C03/ProofsMatch.v — the exhaustiveness function of the walker model depends only on the SET of
   patterns of the arms (not on their number or order), and a mutant that counts arms is unsound *)
From Coq Require Import ZArith List Bool Lia.
From Verif Require Import C03.Model C03.ProofsBase.
Import ListNotations.

Lemma existsb_set : forall A (f : A -> bool) l l',
  (forall x, In x l <-> In x l') -> existsb f l = existsb f l'.
Proof.
  intros A f l l' H. apply eq_true_iff_eq. rewrite !existsb_exists.
  split; intros (x & Hin & Hf); exists x; split; auto; apply H; auto.
Qed.

Lemma flat_map_set : forall A B (f : A -> list B) l l',
  (forall x, In x l <-> In x l') -> forall y, In y (flat_map f l) <-> In y (flat_map f l').
Proof.
  intros A B f l l' H y. rewrite !in_flat_map.
  split; intros (x & Hin & Hy); exists x; split; auto; apply H; auto.
Qed.

Lemma forallb_ext' : forall A (f g : A -> bool) l, (forall x, f x = g x) -> forallb f l = forallb g l.
Proof. induction l; simpl; intros; auto. rewrite H, IHl; auto. Qed.

(* exhaustiveness is a function of the set of arm patterns: duplicates and order are irrelevant *)
Theorem exhaustive_set : forall G t ps ps',
  (forall p, In p ps <-> In p ps') -> exhaustive G t ps = exhaustive G t ps'.
Proof.
  intros G t ps ps' H. unfold exhaustive. destruct (required G t) as [req|]; auto.
  rewrite (existsb_set _ is_wild ps ps' H). f_equal.
  apply forallb_ext'. intros c. apply existsb_set. apply flat_map_set. auto.
Qed.

(* ... namely: no required variant, or a wildcard arm, or every required variant is the
   constructor of SOME arm *)
Theorem exhaustive_spec : forall G t ps,
  exhaustive G t ps = true <->
  match required G t with
  | None => True
  | Some req => In PWild ps \/ forall c, In c req -> exists p, In p ps /\ In c (pat_cov t p)
  end.
Proof.
  intros G t ps. unfold exhaustive. destruct (required G t) as [req|]; [|tauto].
  rewrite orb_true_iff, forallb_forall. split.
  - intros [H|H].
    + left. apply existsb_exists in H as (p & Hin & Hw). destruct p; try discriminate. auto.
    + right. intros c Hc. specialize (H c Hc). apply existsb_exists in H as (c' & Hin & He).
      assert (c = c').
      { destruct c; destruct c'; simpl in He; try discriminate; auto. apply N.eqb_eq in He. now subst. }
      subst c'. apply in_flat_map in Hin as (p & ? & ?). eauto.
  - intros [H|H].
    + left. apply existsb_exists. exists PWild. auto.
    + right. intros c Hc. destruct (H c Hc) as (p & Hin & Hp). apply existsb_exists. exists c. split.
      * apply in_flat_map. eauto.
      * destruct c; simpl; auto. apply N.eqb_refl.
Qed.

(* the mutant: "only look for missing variants when there are fewer constructor arms than variants" *)
Definition exhaustive_count (G : genv) (t : ty) (ps : list pat) : bool :=
  match required G t with
  | None => true
  | Some req =>
      existsb is_wild ps ||
      (length req <=? length (flat_map (pat_cov t) ps))%nat ||
      forallb (fun c => existsb (cov_eqb c) (flat_map (pat_cov t) ps)) req
  end.

Definition empty_genv : genv := {| g_funs := []; g_models := []; g_enums := [] |}.

Theorem exhaustive_count_refuted :
  exists t ps, exhaustive_count empty_genv t ps = true /\ exhaustive empty_genv t ps = false /\ ~ covers empty_genv t ps.
Proof.
  exists (TOpt TInt), [PSome (Some 1%N); PSome None]. repeat split; try reflexivity.
  unfold covers. simpl. intros [[H|[H|[]]]|[_ [H|[H|[]]]]]; discriminate.
Qed.
