(* C03/Model.v — definitions only: re-exports the fragment (Ast), the executable checker model
   (Checker) and the documented rules (Static); the known-finding class predicates; [render]
   for the correspondence run. *)
From Coq Require Import ZArith List Bool.
From Verif Require Export C03.Ast C03.Checker C03.Static.
Import ListNotations.

Definition kind_code (k : kind) : Z :=
  match k with
  | KUnknown => 0 | KMismatch => 1 | KFieldMismatch => 2 | KImmutable => 3 | KTryNonResult => 4
  | KTryErrType => 5 | KNonExhaustive => 6 | KMissingField => 7 | KDupField => 8 | KNoField => 9
  | KPositional => 10 | KArg => 11 | KTryFn => 12 | KPattern => 13 | KGhost => 14
  end%Z.

Definition render (evs : list event) : list (Z * Z) :=
  map (fun e => (kind_code (fst e), Z.of_N (snd e))) evs.

(* ---- known-finding classes.  A class is the set of projects the faithful model accepts and
   that the model with that ONE further switch on rejects; all are decidable (both sides compute) and
   the check script evaluates exactly these (plus "inside the edited construct") per failing case. *)
Definition with_outer := Build_fixes true true true false false false false false.
Definition with_args  := Build_fixes true true false true false false false false.
Definition with_tryfn := Build_fixes true true false false true false false false.
Definition with_arith := Build_fixes true true false false false true false false.
Definition with_pat   := Build_fixes true true false false false false true false.
Definition with_deps  := Build_fixes true true false false false false false true.

Definition Known_by (fx : fixes) (pj : project) : Prop := check real pj = [] /\ check fx pj <> [].

Definition Known_C03_outer := Known_by with_outer.   (* plain assignment to an outer binding = new binding *)
Definition Known_C03_args := Known_by with_args.     (* arguments never compared with parameters *)
Definition Known_C03_tryfn := Known_by with_tryfn.   (* `?` in a function not returning Result *)
Definition Known_C03_arith := Known_by with_arith.   (* int + <anything>; compound assignment on non-numeric types *)
Definition Known_C03_pat := Known_by with_pat.       (* constructor patterns not checked against the subject *)
Definition Known_C03_deps := Known_by with_deps.     (* dependency modules' bodies never checked *)
(* repaired (status "fixed" in known_findings.json): elif-unchecked, guard-unchecked — [real] now
   has fx_elif and fx_guard on; see C03_elif_regression / C03_guard_regression in Props.v *)

(* the union, including combinations of the above (an unchecked argument inside an elif body...) *)
Definition Known_C03 (pj : project) : Prop := Known_by fixed pj.
