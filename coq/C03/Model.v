(* C03/Model.v — definitions only: re-exports the fragment (Ast), the executable checker model
   (Checker) and the documented rules (Static); the known-finding class predicates; [render]
   for the correspondence run. *)
From Coq Require Import ZArith List Bool.
From Verif Require Export C03.Ast C03.Checker.
Import ListNotations.

Definition kind_code (k : kind) : Z :=
  match k with
  | KUnknown => 0 | KMismatch => 1 | KFieldMismatch => 2 | KImmutable => 3 | KTryNonResult => 4
  | KTryErrType => 5 | KNonExhaustive => 6 | KMissingField => 7 | KDupField => 8 | KNoField => 9
  | KPositional => 10 | KArg => 11 | KTryFn => 12 | KPattern => 13 | KGhost => 14
  end%Z.

Definition render (evs : list event) : list (Z * Z) :=
  map (fun e => (kind_code (fst e), Z.of_N (snd e))) evs.
