(* C03/Model.v — definitions only: re-exports the fragment (Ast), the executable checker model
   (Checker) and the documented rules (Static); the known-finding class predicates; [render]
   for the correspondence run. *)
From Coq Require Import ZArith List Bool.
From Verif Require Export C03.Ast C03.Checker C03.Static.
Import ListNotations.

Definition kind_code (k : kind) : Z :=
  match k with
  | KUnknown => 0 | KMismatch => 1 | KFieldMismatch => 2 | KImmutable => 3 | KTryNonResult => 4
  | KTryErrType => 5 | KNonExhaustive => 6 | KMissingField => 7 | KDupField => 8 | KNoField => 9
  | KPositional => 10 | KArg => 11 | KTryFn => 12 | KPattern => 13 | KGhost => 14
  end%Z.

Definition render (evs : list event) : list (Z * Z) :=
  map (fun e => (kind_code (fst e), Z.of_N (snd e))) evs.

(* ---- known-finding classes.  A class is the set of projects the faithful model accepts and
   that the model with that ONE further switch on rejects; all are decidable (both sides compute) and
   the check script evaluates exactly these (plus "inside the edited construct") per failing case. *)
Definition with_outer := Build_fixes true true true false false false false false.
Definition with_args  := Build_fixes true true false true false false false false.
Definition with_tryfn := Build_fixes true true false false true false false false.
Definition with_arith := Build_fixes true true false false false true false false.
Definition with_pat   := Build_fixes true true false false false false true false.
Definition with_deps  := Build_fixes true true false false false false false true.

Definition Known_by (fx : fixes) (pj : project) : Prop := check real pj = [] /\ check fx pj <> [].

Definition Known_C03_outer := Known_by with_outer.   (* plain assignment to an outer binding = new binding *)
Definition Known_C03_args := Known_by with_args.     (* arguments never compared with parameters *)
Definition Known_C03_tryfn := Known_by with_tryfn.   (* `?` in a function not returning Result *)
Definition Known_C03_arith := Known_by with_arith.   (* int + <anything>; compound assignment on non-numeric types *)
Definition Known_C03_pat := Known_by with_pat.       (* constructor patterns not checked against the subject *)
Definition Known_C03_deps := Known_by with_deps.     (* dependency modules' bodies never checked *)
(* repaired (status "fixed" in known_findings.json): elif-unchecked, guard-unchecked — [real] now
   has fx_elif and fx_guard on; see C03_elif_regression / C03_guard_regression in Props.v *)

(* the union, including combinations of the above (an unchecked argument inside an elif body...) *)
Definition Known_C03 (pj : project) : Prop := Known_by fixed pj.

(* ---- a MUTANT walker (seeded change C03-2, not the current code): compound assignment decides
   mutability by a name-keyed set of every name declared `mut` so far in the checker run
   (TypeChecker::mutable_bindings, which the current code only writes) instead of the resolved
   binding.  Such a walker reports exactly the real events minus the "immutable" diagnostics of
   compound assignments whose target NAME is in the set. *)
Fixpoint mut_decls_stmt (s : stmt) : list name :=
  match s with
  | SAssign _ BMut x _ _ => [x]
  | SIf _ _ th el els => mut_decls_block th ++ mut_decls_elifs el ++ mut_decls_oblock els
  | SWhile _ _ b | SFor _ _ _ b => mut_decls_block b
  | SMatch _ _ _ ar => mut_decls_arms ar
  | _ => []
  end
with mut_decls_block (b : block) : list name :=
  match b with BNil => [] | BCons s r => mut_decls_stmt s ++ mut_decls_block r end
with mut_decls_elifs (l : elifs) : list name :=
  match l with LNil => [] | LCons _ b r => mut_decls_block b ++ mut_decls_elifs r end
with mut_decls_oblock (o : oblock) : list name :=
  match o with ONone => [] | OSome b => mut_decls_block b end
with mut_decls_arms (a : arms) : list name :=
  match a with MNil => [] | MCons _ _ _ b r => mut_decls_block b ++ mut_decls_arms r end.

Fixpoint compound_sites_stmt (s : stmt) : list (id * name) :=
  match s with
  | SCompound i x _ _ => [(i, x)]
  | SIf _ _ th el els => compound_sites_block th ++ compound_sites_elifs el ++ compound_sites_oblock els
  | SWhile _ _ b | SFor _ _ _ b => compound_sites_block b
  | SMatch _ _ _ ar => compound_sites_arms ar
  | _ => []
  end
with compound_sites_block (b : block) : list (id * name) :=
  match b with BNil => [] | BCons s r => compound_sites_stmt s ++ compound_sites_block r end
with compound_sites_elifs (l : elifs) : list (id * name) :=
  match l with LNil => [] | LCons _ b r => compound_sites_block b ++ compound_sites_elifs r end
with compound_sites_oblock (o : oblock) : list (id * name) :=
  match o with ONone => [] | OSome b => compound_sites_block b end
with compound_sites_arms (a : arms) : list (id * name) :=
  match a with MNil => [] | MCons _ _ _ b r => compound_sites_block b ++ compound_sites_arms r end.

Definition suppressed (MB : list name) (f : fdecl) (e : event) : bool :=
  match fst e with
  | KImmutable => existsb (fun s => N.eqb (fst s) (snd e) && mem (snd s) MB) (compound_sites_block (f_body f))
  | _ => false
  end.

Definition mutant_check_fn (fx : fixes) (G : genv) (MB : list name) (f : fdecl) : list event :=
  filter (fun e => negb (suppressed MB f e)) (check_fn fx G f).

(* the set is threaded through the functions in checking order and never cleared *)
Fixpoint mutant_funs (fx : fixes) (G : genv) (MB : list name) (fs : list fdecl) : list event :=
  match fs with
  | [] => []
  | f :: r =>
      let MB' := MB ++ mut_decls_block (f_body f) in
      mutant_check_fn fx G MB' f ++ mutant_funs fx G MB' r
  end.

Definition mutant_events (fx : fixes) (p : program) : list event :=
  mutant_funs fx (genv_of [] p) [] (p_funs p).

Definition with_funs (p : program) (fs : list fdecl) : program :=
  {| p_enums := p_enums p; p_models := p_models p; p_funs := fs |}.
