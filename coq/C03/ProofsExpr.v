(* C03/ProofsExpr.v — soundness of the (fixed) expression walker w.r.t. Static.has_type *)
From Coq Require Import ZArith List Bool Lia.
From Verif Require Import C03.Ast C03.Checker C03.Static C03.ProofsBase.
Import ListNotations.

Section Sound.
Variable G : genv.
Variable R : ty.
Hypothesis HG : genv_ground G.
Hypothesis HR : ground R = true.

Notation chk := (check_expr fixed G R).
Notation chka := (check_args fixed G R).

(* what "no event" means for an expression: every ground instance of the computed type is a type *)
Definition esound (S : scopes) (e : expr) : Prop :=
  forall ct, chk S e = (ct, []) ->
  forall t, ground t = true -> compat ct t = true -> has_type G R S e t.

Inductive args_rel (S : scopes) : args -> list argres -> Prop :=
| AR_nil : args_rel S ANil []
| AR_cons : forall nm a r ct rs,
    (forall t, ground t = true -> compat ct t = true -> has_type G R S a t) ->
    args_rel S r rs ->
    args_rel S (ACons nm a r) ((nm, eid a, ct, []) :: rs).

Lemma args_rel_any : forall S xs rs, args_rel S xs rs -> args_any G R S xs.
Proof.
  induction 1; [constructor|].
  destruct (inst_exists ct) as (t & Ht & Hc). econstructor; eauto.
Qed.

Lemma args_rel_typed : forall S i xs rs, args_rel S xs rs ->
  forall ps, forallb ground ps = true -> args_events i ps rs = [] -> args_typed G R S xs ps.
Proof.
  induction 1; intros ps Hps He.
  - destruct ps; simpl in He; [constructor|discriminate].
  - destruct ps as [|p ps]; simpl in He; [destruct nm; discriminate|].
    destruct nm; [discriminate|].
    simpl in Hps. apply andb_true_iff in Hps as [Hp Hps]. nils.
    constructor; auto.
Qed.

(* constructor calls *)
Lemma ctor_loop_sound : forall S flds xs rs, args_rel S xs rs ->
  existsb is_positional rs = false ->
  (forall fld t, In (fld, t) flds -> ground t = true) ->
  forall prov prov', ctor_loop flds rs prov = ([], prov') ->
  fields_typed G R S flds xs /\ NoDup (arg_names xs) /\
  (forall n, In n (arg_names xs) -> ~ In n prov) /\
  (forall n, In n prov' <-> In n prov \/ In n (arg_names xs)).
Proof.
  induction 1; intros Hpos Hfl prov prov' Hl.
  - simpl in Hl. inversion Hl; subst. simpl. repeat split; try constructor; try tauto.
  - simpl in Hpos. apply orb_false_iff in Hpos as [Hp Hpos].
    destruct nm as [n|]; [|discriminate]. simpl in Hl.
    destruct (mem n prov) eqn:Em.
    { destruct (ctor_loop flds rs prov). discriminate. }
    destruct (assoc n flds) as [ft|] eqn:Ef.
    2:{ destruct (ctor_loop flds rs (n :: prov)). discriminate. }
    destruct (ctor_loop flds rs (n :: prov)) as [e p] eqn:El.
    inversion Hl; subst. simpl in H2. nils. subst.
    destruct (IHargs_rel Hpos Hfl _ _ El) as (Hft & Hnd & Hdis & Hprov).
    simpl. repeat split.
    + econstructor; eauto. apply H; auto. apply assoc_In in Ef. eapply Hfl; eauto.
    + constructor; auto. intros Hin. apply (Hdis n Hin). now left.
    + intros n0 [->|Hin].
      * intros Hc. apply In_mem in Hc. congruence.
      * intros Hc. apply (Hdis n0 Hin). now right.
    + intros Hin. apply Hprov in Hin. simpl in Hin. tauto.
    + intros Hin. apply Hprov. simpl. tauto.
Qed.

Lemma ctor_sound : forall S i flds xs rs, args_rel S xs rs ->
  (forall fld t, In (fld, t) flds -> ground t = true) ->
  ctor_events i flds rs = [] ->
  fields_typed G R S flds xs /\ NoDup (arg_names xs) /\
  (forall f, In f (map fst flds) -> In f (arg_names xs)).
Proof.
  intros S i flds xs rs Hr Hfl He. unfold ctor_events in He.
  destruct (existsb is_positional rs) eqn:Ep; [discriminate|].
  destruct (ctor_loop flds rs []) as [e prov] eqn:El. nils. subst.
  destruct (ctor_loop_sound S flds xs rs Hr Ep Hfl [] prov El) as (H1 & H2 & _ & H4).
  repeat split; auto.
  intros f Hf. apply in_map_iff in Hf as ([f' t] & <- & Hin). simpl.
  assert (Hm : mem f' prov = true).
  { destruct (mem f' prov) eqn:Em; auto. exfalso.
    assert (Hx : In (KMissingField, i) (flat_map (fun f0 => ev_if (negb (mem (fst f0) prov)) (KMissingField, i)) flds)).
    { apply in_flat_map. exists (f', t). split; auto. simpl. rewrite Em. simpl. now left. }
    rewrite H0 in Hx. destruct Hx. }
  apply mem_In in Hm. apply H4 in Hm. destruct Hm as [[]|]; auto.
Qed.

Lemma compat_int : forall t, ground t = true -> compat TInt t = true -> t = TInt.
Proof. destruct t; simpl; intros; try discriminate; auto. Qed.
Lemma compat_bool : forall t, ground t = true -> compat TBool t = true -> t = TBool.
Proof. destruct t; simpl; intros; try discriminate; auto. Qed.
Lemma compat_str : forall t, ground t = true -> compat TStr t = true -> t = TStr.
Proof. destruct t; simpl; intros; try discriminate; auto. Qed.
Lemma compat_unit : forall t, ground t = true -> compat TUnit t = true -> t = TUnit.
Proof. destruct t; simpl; intros; try discriminate; auto. Qed.

Lemma bin_sound : forall S i o a b ta tb ct,
  bin_ty fixed i o ta tb = (ct, []) ->
  (forall t, ground t = true -> compat ta t = true -> has_type G R S a t) ->
  (forall t, ground t = true -> compat tb t = true -> has_type G R S b t) ->
  forall t, ground t = true -> compat ct t = true -> has_type G R S (EBin i o a b) t.
Proof.
  intros S i o a b ta tb ct Hb Ha Hb' t Ht Hc.
  destruct o as [op| |].
  - destruct op; destruct ta; destruct tb; simpl in Hb; inversion Hb; subst; clear Hb;
      try (apply compat_int in Hc; auto; subst; apply T_Arith; [apply Ha|apply Hb']; auto; fail);
      try (apply compat_str in Hc; auto; subst; apply T_Concat; [apply Ha|apply Hb']; auto; fail).
  - simpl in Hb. inversion Hb; subst. nils. apply compat_bool in Hc; auto; subst.
    destruct (compat_common _ _ H1) as (t0 & ? & ? & ?). eapply T_Cmp; eauto.
  - simpl in Hb. inversion Hb; subst. apply compat_bool in Hc; auto; subst.
    destruct (inst_exists ta) as (t1 & ? & ?). destruct (inst_exists tb) as (t2 & ? & ?).
    eapply T_Logic; eauto.
Qed.

Lemma chka_cons : forall fx G0 R0 S nm a r,
  check_args fx G0 R0 S (ACons nm a r) =
  (let (t, ev) := check_expr fx G0 R0 S a in (nm, eid a, t, ev) :: check_args fx G0 R0 S r).
Proof. reflexivity. Qed.

Lemma pair_eq : forall A B (a a' : A) (b b' : B), (a, b) = (a', b') -> a = a' /\ b = b'.
Proof. intros. inversion H; auto. Qed.

Theorem expr_sound_all :
  (forall e S, ground_env S -> esound S e) /\
  (forall xs S, ground_env S -> args_evs (chka S xs) = [] -> args_rel S xs (chka S xs)).
Proof.
  apply expr_args_ind.
  - (* ELit *) intros i l S Hg ct H t Ht Hc. destruct l; simpl in H; inversion H; subst.
    + apply compat_int in Hc; auto; subst; constructor.
    + apply compat_bool in Hc; auto; subst; constructor.
    + apply compat_str in Hc; auto; subst; constructor.
    + destruct t; simpl in Hc; try discriminate. constructor. auto.
  - (* EVar *) intros i x S Hg ct H t Ht Hc. cbn in H.
    destruct (lookup S x) as [[t0 m]|] eqn:El; inversion H; subst.
    assert (ground ct = true) by (eapply lookup_ground; eauto).
    assert (ct = t) by (apply compat_ground_eq; auto). subst. econstructor; eauto.
  - (* EUn *) intros i o a IH S Hg ct H t Ht Hc. cbn in H.
    destruct (chk S a) as [ta ea] eqn:Ea. destruct o.
    + destruct (compat ta TInt) eqn:Ec; inversion H; subst; nils.
      apply compat_int in Hc; auto; subst. constructor. eapply IH; eauto.
    + inversion H; subst. nils. subst. apply compat_bool in Hc; auto; subst. constructor. eapply IH; eauto.
  - (* EBin *) intros i o a IHa b IHb S Hg ct H t Ht Hc. cbn in H.
    destruct (chk S a) as [ta ea] eqn:Ea. destruct (chk S b) as [tb eb] eqn:Eb.
    destruct (bin_ty fixed i o ta tb) as [t3 e3] eqn:E3. inversion H; subst. nils. subst.
    eapply bin_sound; eauto.
    + intros; eapply IHa; eauto.
    + intros; eapply IHb; eauto.
  - (* ECall *) intros i ci f xs IH S Hg ct H t Ht Hc. cbn in H.
    destruct (assoc f (g_funs G)) as [[ps r]|] eqn:Ef; [|discriminate].
    inversion H; subst. nils.
    destruct HG as [HGf _]. destruct (HGf _ _ _ (assoc_In _ _ _ _ Ef)) as [Hps Hr].
    assert (ct = t) by (apply compat_ground_eq; auto). subst.
    econstructor; eauto. eapply args_rel_typed; eauto.
  - (* EPrint *) intros i xs IH S Hg ct H t Ht Hc. cbn in H. inversion H; subst.
    apply compat_unit in Hc; auto; subst. constructor. eapply args_rel_any; eauto.
  - (* ECtor *) intros i ci m xs IH S Hg ct H t Ht Hc. cbn in H.
    destruct (assoc m (g_models G)) as [flds|] eqn:Em; [|discriminate].
    inversion H; subst. nils.
    assert (TNamed m = t) by (apply compat_ground_eq; auto). subst.
    destruct HG as [_ HGm].
    destruct (ctor_sound S i flds xs (chka S xs)) as (F1 & F2 & F3); auto.
    { intros fld t0 Hin. eapply HGm; eauto. eapply assoc_In; eauto. }
    econstructor; eauto.
  - (* EVariant *) intros i bi en v S Hg ct H t Ht Hc. cbn in H.
    destruct (assoc en (g_enums G)) as [vs|] eqn:Ee; [|discriminate].
    destruct (mem v vs) eqn:Em; inversion H; subst.
    assert (TNamed en = t) by (apply compat_ground_eq; auto). subst.
    econstructor; eauto. apply mem_In; auto.
  - (* EField *) intros i a IH fld S Hg ct H t Ht Hc. cbn in H.
    destruct (chk S a) as [ta ea] eqn:Ea.
    destruct (field_ty G i ta fld) as [t' e2] eqn:Ef. inversion H; subst. nils. subst.
    unfold field_ty in Ef. destruct ta; try discriminate.
    destruct (assoc n (g_models G)) as [flds|] eqn:Em.
    + destruct (assoc fld flds) as [ft|] eqn:Efl; inversion Ef; subst.
      destruct HG as [_ HGm].
      assert (ground ct = true).
      { eapply HGm; eapply assoc_In; eauto. }
      assert (ct = t) by (apply compat_ground_eq; auto). subst.
      econstructor; eauto. eapply IH; eauto. simpl. apply N.eqb_refl.
    + destruct (assoc n (g_enums G)) as [vs|]; [destruct (mem fld vs)|]; discriminate.
  - (* ETry *) intros i a IH S Hg ct H t Ht Hc. cbn -[cur_err] in H.
    destruct (chk S a) as [ta ea] eqn:Ea.
    destruct ta; try (inversion H; subst; nils; fail).
    destruct (cur_err R) as [ee|] eqn:Ec; [|inversion H; subst; nils; discriminate].
    inversion H; subst. nils. subst.
    unfold cur_err in Ec. destruct R as [| | | | |?|t' e'|] eqn:ER; try discriminate.
    inversion Ec; subst e'. rewrite <- ER in *.
    assert (Hee : ground ee = true).
    { rewrite ER in HR. simpl in HR. apply andb_true_iff in HR as [_ ?]; auto. }
    eapply T_Try with (e := ee) (t' := t'); eauto.
    eapply IH; eauto.
    + simpl. apply andb_true_iff; auto.
    + simpl. apply andb_true_iff; auto.
  - (* ESome *) intros i a IH S Hg ct H t Ht Hc. cbn in H.
    destruct (chk S a) as [ta ea] eqn:Ea. inversion H; subst.
    destruct t; simpl in Hc; try discriminate. constructor. eapply IH; eauto.
  - (* EOk *) intros i a IH S Hg ct H t Ht Hc. cbn in H.
    destruct (chk S a) as [ta ea] eqn:Ea. inversion H; subst.
    destruct t; simpl in Hc; try discriminate.
    simpl in Ht. apply andb_true_iff in Ht as [? ?]. apply andb_true_iff in Hc as [? ?].
    constructor; auto. eapply IH; eauto.
  - (* EErr *) intros i a IH S Hg ct H t Ht Hc. cbn in H.
    destruct (chk S a) as [ta ea] eqn:Ea. inversion H; subst.
    destruct t; simpl in Hc; try discriminate.
    simpl in Ht. apply andb_true_iff in Ht as [? ?].
    constructor; auto. eapply IH; eauto.
  - (* ANil *) intros S Hg H. simpl. constructor.
  - (* ACons *) intros nm a IHa r IHr S Hg H. rewrite chka_cons in *.
    destruct (chk S a) as [ta ea] eqn:Ea. unfold args_evs in H. simpl in H.
    apply app_eq_nil in H as [H1 H2]. subst ea. constructor.
    + intros t Ht Hc. eapply IHa; eauto.
    + apply IHr; auto.
Qed.

Lemma expr_sound : forall e S ct, ground_env S -> chk S e = (ct, []) ->
  forall t, ground t = true -> compat ct t = true -> has_type G R S e t.
Proof. intros. eapply (proj1 expr_sound_all); eauto. Qed.

Lemma expr_sound_any : forall e S ct, ground_env S -> chk S e = (ct, []) -> exists t, has_type G R S e t.
Proof.
  intros. destruct (inst_exists ct) as (t & ? & ?). exists t. eapply expr_sound; eauto.
Qed.

End Sound.
