(* C03/ProofsDecls.v — lemmas for the declaration-level model (C03/Decls.v):
   association tables, the first pass as an invariant over the declaration list, the second pass
   against the documented rules, fuel of extends_chain_reaches. *)
From Coq Require Import ZArith List Bool Lia.
From Verif Require Import C03.Ast C03.Checker C03.ProofsBase C03.Decls.
Import ListNotations.

(* ---------------------------------------------------------------- lists *)
Lemma flat_map_nil_iff : forall A B (f : A -> list B) l, flat_map f l = [] <-> (forall x, In x l -> f x = []).
Proof.
  induction l as [|a l IH]; simpl.
  - split; [intros _ x []|auto].
  - split.
    + intros H. apply app_eq_nil in H as [H1 H2]. intros x [<-|Hx]; auto. apply IH; auto.
    + intros H. rewrite (H a (or_introl eq_refl)). simpl. apply IH. auto.
Qed.

Lemma app_nil_intro : forall A (a b : list A), a = [] -> b = [] -> a ++ b = [].
Proof. intros A a b -> ->. reflexivity. Qed.

Lemma nodupb_NoDup : forall l, nodupb l = true -> NoDup l.
Proof.
  induction l as [|a l IH]; simpl; intros H; [constructor|].
  apply andb_true_iff in H as [H1 H2]. constructor; auto.
  intros Hin. apply In_mem in Hin. rewrite Hin in H1. discriminate.
Qed.

Lemma NoDup_map_inj : forall A (f : A -> name) l a b,
  NoDup (map f l) -> In a l -> In b l -> f a = f b -> a = b.
Proof.
  induction l as [|x l IH]; simpl; intros a b Hn Ha Hb E; [contradiction|].
  inversion Hn as [|? ? Hx Hl]; subst.
  destruct Ha as [<-|Ha], Hb as [<-|Hb]; auto.
  - exfalso. apply Hx. rewrite E. now apply in_map.
  - exfalso. apply Hx. rewrite <- E. now apply in_map.
Qed.

Lemma mem_false_notin : forall n l, mem n l = false -> ~ In n l.
Proof. intros n l H Hin. apply In_mem in Hin. congruence. Qed.

Lemma notin_mem_false : forall n l, ~ In n l -> mem n l = false.
Proof. intros n l H. destruct (mem n l) eqn:E; auto. apply mem_In in E. contradiction. Qed.

(* ---------------------------------------------------------------- association tables *)
Definition keys {A} (m : list (name * A)) : list name := map fst m.

Lemma assoc_none_notin : forall A k (m : list (name * A)), assoc k m = None <-> ~ In k (keys m).
Proof.
  induction m as [|[k' v] m IH]; simpl.
  - split; auto.
  - destruct (N.eqb k k') eqn:E.
    + apply N.eqb_eq in E. subst. split; [discriminate|]. intros H. exfalso. apply H. now left.
    + apply N.eqb_neq in E. rewrite IH. split.
      * intros H [H1|H1]; auto.
      * intros H H1. apply H. now right.
Qed.

Lemma assoc_some_in : forall A k (m : list (name * A)) v, assoc k m = Some v -> In k (keys m).
Proof. intros A k m v H. apply assoc_In in H. apply (in_map fst) in H. exact H. Qed.

Lemma in_assoc_nodup : forall A (m : list (name * A)) k v,
  NoDup (keys m) -> In (k, v) m -> assoc k m = Some v.
Proof.
  induction m as [|[k' v'] m IH]; simpl; intros k v Hn Hin; [contradiction|].
  inversion Hn as [|? ? Hx Hl]; subst.
  destruct Hin as [E|Hin].
  - inversion E; subst. now rewrite N.eqb_refl.
  - destruct (N.eqb k k') eqn:E.
    + apply N.eqb_eq in E. subst. exfalso. apply Hx. apply (in_map fst) in Hin. exact Hin.
    + auto.
Qed.

Lemma keys_filter : forall A (g : name -> bool) (m : list (name * A)),
  keys (filter (fun e => g (fst e)) m) = filter g (keys m).
Proof.
  induction m as [|[k v] m IH]; simpl; auto.
  destruct (g k); simpl; now rewrite IH.
Qed.

Lemma assoc_filter_other : forall A k k' (m : list (name * A)),
  k' <> k -> assoc k' (filter (fun e => negb (N.eqb (fst e) k)) m) = assoc k' m.
Proof.
  induction m as [|[k0 v] m IH]; simpl; intros Hne; auto.
  destruct (N.eqb k0 k) eqn:E; simpl.
  - apply N.eqb_eq in E. subst. destruct (N.eqb k' k) eqn:E2; [apply N.eqb_eq in E2; contradiction|]. auto.
  - destruct (N.eqb k' k0); auto.
Qed.

Lemma assoc_put_same : forall A k (v : A) m, assoc k (put k v m) = Some v.
Proof. intros. unfold put. simpl. now rewrite N.eqb_refl. Qed.

Lemma assoc_put_other : forall A k k' (v : A) m, k' <> k -> assoc k' (put k v m) = assoc k' m.
Proof.
  intros A k k' v m Hne. unfold put. simpl.
  destruct (N.eqb k' k) eqn:E; [apply N.eqb_eq in E; contradiction|].
  now apply assoc_filter_other.
Qed.

Lemma keys_filter_ne : forall A k (m : list (name * A)),
  keys (filter (fun e => negb (N.eqb (fst e) k)) m) = filter (fun x => negb (N.eqb x k)) (keys m).
Proof.
  induction m as [|[k0 v] m IH]; simpl; auto.
  destruct (negb (N.eqb k0 k)); simpl; now rewrite IH.
Qed.

Lemma put_nodup : forall A k (v : A) m, NoDup (keys m) -> NoDup (keys (put k v m)).
Proof.
  intros A k v m Hn. unfold put.
  change (NoDup (k :: keys (filter (fun e : name * A => negb (N.eqb (fst e) k)) m))).
  rewrite keys_filter_ne. constructor.
  - intros Hin. apply filter_In in Hin as [_ H]. rewrite N.eqb_refl in H. discriminate.
  - now apply NoDup_filter.
Qed.

Section FoldPut.
Variables (X A : Type) (key : X -> name) (val : X -> A).

Definition fold_put (xs : list X) (base : list (name * A)) : list (name * A) :=
  fold_left (fun m x => put (key x) (val x) m) xs base.

Lemma find_none_notin : forall k xs, ~ In k (map key xs) -> find (fun x => N.eqb (key x) k) xs = None.
Proof.
  induction xs as [|x xs IH]; simpl; intros H; auto.
  destruct (N.eqb (key x) k) eqn:E.
  - apply N.eqb_eq in E. exfalso. apply H. now left.
  - apply IH. intros H1. apply H. now right.
Qed.

Lemma fold_put_spec : forall xs base k,
  NoDup (map key xs) ->
  assoc k (fold_put xs base) =
  match find (fun x => N.eqb (key x) k) xs with Some x => Some (val x) | None => assoc k base end.
Proof.
  unfold fold_put. induction xs as [|x xs IH]; simpl; intros base k Hn; auto.
  inversion Hn as [|? ? Hx Hl]; subst. rewrite IH by auto.
  destruct (N.eqb (key x) k) eqn:E.
  - apply N.eqb_eq in E. subst. rewrite find_none_notin by auto. apply assoc_put_same.
  - destruct (find _ xs); auto. apply assoc_put_other. apply N.eqb_neq in E. congruence.
Qed.

Lemma fold_put_nodup : forall xs base, NoDup (keys base) -> NoDup (keys (fold_put xs base)).
Proof.
  unfold fold_put. induction xs as [|x xs IH]; simpl; intros base Hn; auto.
  apply IH. now apply put_nodup.
Qed.

Lemma find_key_some : forall k xs x, find (fun x => N.eqb (key x) k) xs = Some x -> In x xs /\ key x = k.
Proof.
  intros k xs x H. apply find_some in H as [H1 H2]. apply N.eqb_eq in H2. auto.
Qed.

Lemma find_key_in : forall k xs x, NoDup (map key xs) -> In x xs -> key x = k ->
  find (fun x => N.eqb (key x) k) xs = Some x.
Proof.
  induction xs as [|y xs IH]; simpl; intros x Hn Hin E; [contradiction|].
  inversion Hn as [|? ? Hy Hl]; subst.
  destruct Hin as [<-|Hin].
  - now rewrite N.eqb_refl.
  - destruct (N.eqb (key y) (key x)) eqn:E2.
    + apply N.eqb_eq in E2. exfalso. apply Hy. rewrite E2. now apply in_map.
    + auto.
Qed.
End FoldPut.

(* ---------------------------------------------------------------- resolve_type *)
Lemma resolve_known : forall dn t,
  forallb (fun n => N.eqb n self_name || mem n dn) (ty_names t) = true -> resolve dn t = t.
Proof.
  induction t; simpl; intros H; auto.
  - rewrite andb_true_r in H. now rewrite H.
  - now rewrite IHt.
  - rewrite forallb_app in H. apply andb_true_iff in H as [H1 H2]. now rewrite IHt1, IHt2.
Qed.

Lemma resolve_known_incl : forall dn dn' t,
  (forall n, In n dn -> In n dn') ->
  forallb (fun n => N.eqb n self_name || mem n dn) (ty_names t) = true -> resolve dn' t = t.
Proof.
  intros dn dn' t Hi H. apply resolve_known. rewrite forallb_forall in *. intros n Hn.
  specialize (H n Hn). apply orb_true_iff in H as [H|H]; apply orb_true_iff; auto.
  right. apply In_mem. apply Hi. now apply mem_In.
Qed.

Lemma map_resolve_known : forall dn ts,
  forallb (fun t => forallb (fun n => N.eqb n self_name || mem n dn) (ty_names t)) ts = true ->
  map (resolve dn) ts = ts.
Proof.
  induction ts as [|t ts IH]; simpl; intros H; auto.
  apply andb_true_iff in H as [H1 H2]. now rewrite resolve_known, IH.
Qed.

Lemma res_sig_known : forall dn s,
  forallb (fun t => forallb (fun n => N.eqb n self_name || mem n dn) (ty_names t)) (sig_tys s) = true ->
  res_sig dn s = s.
Proof.
  intros dn [r a ps rt]. unfold sig_tys, res_sig. simpl. intros H.
  apply andb_true_iff in H as [H1 H2]. now rewrite resolve_known, map_resolve_known.
Qed.

(* ---------------------------------------------------------------- signatures *)
Lemma recv_eqb_eq : forall a b, recv_eqb a b = true -> a = b.
Proof. destruct a, b; simpl; intros H; auto; discriminate. Qed.

Lemma compat_all_refl : forall l, compat_all l l = true.
Proof. induction l; simpl; auto. now rewrite compat_refl. Qed.

Lemma compat_all_ground_eq : forall a b,
  forallb ground a = true -> forallb ground b = true -> compat_all a b = true -> a = b.
Proof.
  induction a as [|x a IH]; destruct b as [|y b]; simpl; intros Ha Hb H; try discriminate; auto.
  apply andb_true_iff in Ha as [? ?]. apply andb_true_iff in Hb as [? ?]. apply andb_true_iff in H as [? ?].
  f_equal; auto. now apply compat_ground_eq.
Qed.

Lemma sig_compat_refl : forall s, sig_compat s s = true.
Proof.
  intros [r a ps rt]. unfold sig_compat. simpl.
  rewrite compat_all_refl, compat_refl, eqb_reflx. destruct r; auto.
Qed.

Lemma sig_compat_ground_eq : forall s s',
  forallb ground (sig_tys s) = true -> forallb ground (sig_tys s') = true -> sig_compat s s' = true -> s = s'.
Proof.
  intros [r a ps rt] [r' a' ps' rt']. unfold sig_compat, sig_tys. simpl. intros H H' Hc.
  apply andb_true_iff in H as [? ?]. apply andb_true_iff in H' as [? ?].
  apply andb_true_iff in Hc as [Hc Hr]. apply andb_true_iff in Hc as [Hc Hp]. apply andb_true_iff in Hc as [Hc Ha].
  apply recv_eqb_eq in Hc. apply eqb_prop in Ha. subst. f_equal.
  - now apply compat_all_ground_eq.
  - now apply compat_ground_eq.
Qed.

(* ---------------------------------------------------------------- the first pass *)
Definition fields_match (S : fld -> Prop) (fm : fmap) : Prop :=
  NoDup (keys fm) /\
  forall k t b, assoc k fm = Some (t, b) <-> exists f, S f /\ fd_name f = k /\ fd_ty f = t /\ fd_default f = b.

Definition meths_match (S : meth -> Prop) (mm : mmap) : Prop :=
  NoDup (keys mm) /\
  forall k sg b, assoc k mm = Some (sg, b) <-> exists m, S m /\ me_name m = k /\ me_sig m = sg /\ me_body m = b.

Lemma fields_match_ext : forall S S' fm, (forall f, S f <-> S' f) -> fields_match S fm -> fields_match S' fm.
Proof.
  intros S S' fm He [Hn H]. split; auto. intros k t b. rewrite H. split; intros (f & Hf & R); exists f; split; auto; now apply He.
Qed.

Lemma meths_match_ext : forall S S' mm, (forall m, S m <-> S' m) -> meths_match S mm -> meths_match S' mm.
Proof.
  intros S S' mm He [Hn H]. split; auto. intros k t b. rewrite H. split; intros (f & Hf & R); exists f; split; auto; now apply He.
Qed.

Lemma fields_match_nil : fields_match (fun _ => False) [].
Proof. split; [constructor|]. intros k t b. simpl. split; [discriminate|]. intros (f & [] & _). Qed.

Lemma meths_match_nil : meths_match (fun _ => False) [].
Proof. split; [constructor|]. intros k t b. simpl. split; [discriminate|]. intros (f & [] & _). Qed.

Lemma collect_fields_match : forall dn fs base S0,
  NoDup (map fd_name fs) -> (forall f, In f fs -> resolve dn (fd_ty f) = fd_ty f) ->
  fields_match S0 base ->
  fields_match (fun f => In f fs \/ (S0 f /\ ~ In (fd_name f) (map fd_name fs))) (collect_fields dn fs base).
Proof.
  intros dn fs base S0 Hn Hr [Hb H0].
  change (collect_fields dn fs base) with (fold_put fld (ty * bool) fd_name (fun f => (resolve dn (fd_ty f), fd_default f)) fs base).
  split; [now apply fold_put_nodup|].
  intros k t b. rewrite fold_put_spec by auto.
  destruct (find (fun x => N.eqb (fd_name x) k) fs) as [x|] eqn:E.
  - apply find_key_some in E as [Hin Hk]. rewrite (Hr x Hin). split.
    + intros Hq. inversion Hq; subst. exists x. auto.
    + intros (f & [Hf|[_ Hf]] & Hk' & Ht & Hd).
      * assert (f = x) by (apply (NoDup_map_inj _ fd_name fs); auto; congruence). subst. reflexivity.
      * exfalso. apply Hf. rewrite Hk', <- Hk. now apply in_map.
  - assert (Hno : ~ In k (map fd_name fs)).
    { intros Hin. apply in_map_iff in Hin as (x & Hx & Hin). apply (find_none _ _ E) in Hin. rewrite Hx, N.eqb_refl in Hin. discriminate. }
    rewrite H0. split.
    + intros (f & Hf & Hk & R). exists f. split; auto. right. split; auto. now rewrite Hk.
    + intros (f & [Hf|[Hf _]] & Hk & R).
      * exfalso. apply Hno. rewrite <- Hk. now apply in_map.
      * exists f. auto.
Qed.

Lemma collect_methods_match : forall dn ms base S0,
  NoDup (map me_name ms) -> (forall m, In m ms -> res_sig dn (me_sig m) = me_sig m) ->
  meths_match S0 base ->
  meths_match (fun m => In m ms \/ (S0 m /\ ~ In (me_name m) (map me_name ms))) (collect_methods dn ms base).
Proof.
  intros dn ms base S0 Hn Hr [Hb H0].
  change (collect_methods dn ms base) with (fold_put meth (msig * bool) me_name (fun m => (res_sig dn (me_sig m), me_body m)) ms base).
  split; [now apply fold_put_nodup|].
  intros k t b. rewrite fold_put_spec by auto.
  destruct (find (fun x => N.eqb (me_name x) k) ms) as [x|] eqn:E.
  - apply find_key_some in E as [Hin Hk]. rewrite (Hr x Hin). split.
    + intros Hq. inversion Hq; subst. exists x. auto.
    + intros (f & [Hf|[_ Hf]] & Hk' & Ht & Hd).
      * assert (f = x) by (apply (NoDup_map_inj _ me_name ms); auto; congruence). subst. reflexivity.
      * exfalso. apply Hf. rewrite Hk', <- Hk. now apply in_map.
  - assert (Hno : ~ In k (map me_name ms)).
    { intros Hin. apply in_map_iff in Hin as (x & Hx & Hin). apply (find_none _ _ E) in Hin. rewrite Hx, N.eqb_refl in Hin. discriminate. }
    rewrite H0. split.
    + intros (f & Hf & Hk & R). exists f. split; auto. right. split; auto. now rewrite Hk.
    + intros (f & [Hf|[Hf _]] & Hk & R).
      * exfalso. apply Hno. rewrite <- Hk. now apply in_map.
      * exists f. auto.
Qed.

Lemma collect_reqs_spec : forall dn rqs seen,
  NoDup (map rq_name rqs) -> (forall r, In r rqs -> ~ In (rq_name r) seen) ->
  collect_reqs dn seen rqs = map (fun r => (rq_name r, resolve dn (rq_ty r))) rqs.
Proof.
  induction rqs as [|r rqs IH]; simpl; intros seen Hn Hs; auto.
  inversion Hn as [|? ? Hx Hl]; subst.
  rewrite (notin_mem_false _ _ (Hs r (or_introl eq_refl))). f_equal. apply IH; auto.
  intros r' Hr' [E|Hin].
  - apply Hx. rewrite E. now apply in_map.
  - apply (Hs r'); auto.
Qed.

(* ---- the documented member relations, unfolded once under unique declaration names *)
Lemma decl_unique : forall P d d', NoDup (map dname P) -> In d P -> In d' P -> dname d = dname d' -> d = d'.
Proof. intros P d d' Hn Hd Hd' E. now apply (NoDup_map_inj _ dname P). Qed.

Lemma class_field_unfold : forall P i n ext ads fs ms f,
  NoDup (map dname P) -> In (DClass i n ext ads fs ms) P ->
  (class_field P n f <-> In f fs \/ (exists p, ext = Some p /\ class_field P p f /\ ~ In (fd_name f) (map fd_name fs))).
Proof.
  intros P i n ext ads fs ms f Hn Hd. split.
  - intros H. inversion H as [i0 n0 ext0 ads0 fs0 ms0 f0 Hd0 Hf|i0 n0 p ads0 fs0 ms0 f0 Hd0 Hp Hno]; subst.
    + assert (E := decl_unique _ _ _ Hn Hd Hd0 eq_refl). inversion E; subst. now left.
    + assert (E := decl_unique _ _ _ Hn Hd Hd0 eq_refl). inversion E; subst. right. exists p. auto.
  - intros [Hf|(p & -> & Hp & Hno)].
    + eapply CF_own; eauto.
    + eapply CF_inh; eauto.
Qed.

Lemma class_meth_unfold : forall P i n ext ads fs ms m,
  NoDup (map dname P) -> In (DClass i n ext ads fs ms) P ->
  (class_meth P n m <-> In m ms \/ (exists p, ext = Some p /\ class_meth P p m /\ ~ In (me_name m) (map me_name ms))).
Proof.
  intros P i n ext ads fs ms m Hn Hd. split.
  - intros H. inversion H as [i0 n0 ext0 ads0 fs0 ms0 f0 Hd0 Hf|i0 n0 p ads0 fs0 ms0 f0 Hd0 Hp Hno]; subst.
    + assert (E := decl_unique _ _ _ Hn Hd Hd0 eq_refl). inversion E; subst. now left.
    + assert (E := decl_unique _ _ _ Hn Hd Hd0 eq_refl). inversion E; subst. right. exists p. auto.
  - intros [Hf|(p & -> & Hp & Hno)].
    + eapply CM_own; eauto.
    + eapply CM_inh; eauto.
Qed.

Definition no_class (P : list decl) (p : name) : Prop := forall d, In d P -> dname d = p -> is_class d = false.

Lemma class_field_no_class : forall P p f, no_class P p -> ~ class_field P p f.
Proof.
  intros P p f Hno H. inversion H as [i n ext ads fs ms f0 Hd _|i n q ads fs ms f0 Hd _ _]; subst;
    specialize (Hno _ Hd eq_refl); discriminate.
Qed.

Lemma class_meth_no_class : forall P p m, no_class P p -> ~ class_meth P p m.
Proof.
  intros P p f Hno H. inversion H as [i n ext ads fs ms f0 Hd _|i n q ads fs ms f0 Hd _ _]; subst;
    specialize (Hno _ Hd eq_refl); discriminate.
Qed.

(* ---- what the table holds for a declaration *)
Definition good (P : list decl) (d : decl) (s : sym) : Prop :=
  match d with
  | DTrait _ _ rqs ms =>
      exists mm, s = SyTrait (map (fun r => (rq_name r, rq_ty r)) rqs) mm /\ meths_match (fun m => In m ms) mm
  | DModel _ _ _ fs ms =>
      exists fm mm, s = SyModel fm mm /\ fields_match (fun f => In f fs) fm /\ meths_match (fun m => In m ms) mm
  | DClass _ n ext _ _ _ =>
      exists fm mm, s = SyClass ext fm mm /\ fields_match (class_field P n) fm /\ meths_match (class_meth P n) mm
  | DEnum _ _ | DFun _ _ _ => s = SyOther
  end.

Definition inv (P pre : list decl) (T : table) : Prop :=
  keys T = map dname (rev pre) /\
  forall d, In d pre -> exists s, assoc (dname d) T = Some s /\ good P d s.

Lemma collect_decl_cons : forall T d, exists s, collect_decl T d = (dname d, s) :: T.
Proof. intros T d. destruct d; simpl; eexists; reflexivity. Qed.

Definition ext_ok (P pre : list decl) (d : decl) : Prop :=
  forall p, ext_of d = Some p ->
    (exists dp, In dp pre /\ dname dp = p /\ is_class dp = true) \/ no_class P p.

Lemma names_known_split : forall seen d,
  names_known seen d = true ->
  forall t, In t (decl_tys d) -> forallb (fun n => N.eqb n self_name || mem n seen) (ty_names t) = true.
Proof. unfold names_known. intros seen d H t Ht. rewrite forallb_forall in H. auto. Qed.

Lemma sig_known : forall seen (ms : list meth) m,
  (forall t, In t (flat_map (fun m => sig_tys (me_sig m)) ms) ->
     forallb (fun n => N.eqb n self_name || mem n seen) (ty_names t) = true) ->
  In m ms -> res_sig seen (me_sig m) = me_sig m.
Proof.
  intros seen ms m H Hin. apply res_sig_known. apply forallb_forall. intros t Ht. apply H.
  apply in_flat_map. exists m. auto.
Qed.

Lemma wf_decl_split : forall d, wf_decl d = true ->
  forallb ground (decl_tys d) = true /\ NoDup (map fd_name (decl_fields d)) /\
  NoDup (map me_name (decl_meths d)) /\ NoDup (map rq_name (decl_reqs d)) /\
  forallb (fun c => forallb (fun a => ground (ar_ty a)) (c_args c)) (calls d) = true.
Proof.
  unfold wf_decl. intros d H. repeat (apply andb_true_iff in H as [H ?]).
  repeat split; auto using nodupb_NoDup.
Qed.

Lemma inv_lookup_class : forall P pre T p s,
  inv P pre T -> incl pre P -> assoc p T = Some s ->
  exists dp, In dp pre /\ dname dp = p /\ good P dp s.
Proof.
  intros P pre T p s [Hk Hg] Hi Ha.
  assert (Hin : In p (map dname (rev pre))) by (rewrite <- Hk; eapply assoc_some_in; eauto).
  apply in_map_iff in Hin as (dp & Hn & Hin). apply in_rev in Hin.
  destruct (Hg dp Hin) as (s' & Ha' & Hgood). rewrite Hn in Ha'. rewrite Ha in Ha'. inversion Ha'; subst.
  exists dp. auto.
Qed.

Lemma inherit_match : forall P pre T d,
  NoDup (map dname P) -> incl pre P -> inv P pre T -> ext_ok P pre d ->
  forall p, ext_of d = Some p ->
  fields_match (class_field P p) (fst (inherit T (Some p))) /\ meths_match (class_meth P p) (snd (inherit T (Some p))).
Proof.
  intros P pre T d Hn Hi Hinv Hok p Hp.
  destruct (Hok p Hp) as [(dp & Hdp & Hname & Hcl)|Hno].
  - destruct Hinv as [Hk Hg]. destruct (Hg dp Hdp) as (s & Ha & Hgood). rewrite Hname in Ha.
    destruct dp; try discriminate. simpl in Hgood, Hname. destruct Hgood as (fm & mm & -> & Hf & Hm). subst n.
    simpl. rewrite Ha. simpl. auto.
  - assert (Hnil : inherit T (Some p) = ([], [])).
    { simpl. destruct (assoc p T) as [s|] eqn:Ha; auto. destruct s; auto.
      destruct (inv_lookup_class _ _ _ _ _ Hinv Hi Ha) as (dp & Hdp & Hname & Hgood).
      specialize (Hno dp (Hi _ Hdp) Hname).
      destruct dp; simpl in Hgood; try discriminate.
      - destruct Hgood as (? & ? & _). discriminate.
      - destruct Hgood as (? & ? & ? & _). discriminate. }
    rewrite Hnil. simpl. split.
    + eapply fields_match_ext; [|apply fields_match_nil]. intros f. split; [intros []|]. apply class_field_no_class; auto.
    + eapply meths_match_ext; [|apply meths_match_nil]. intros f. split; [intros []|]. apply class_meth_no_class; auto.
Qed.

Lemma inv_step : forall P pre d T,
  NoDup (map dname P) -> incl pre P -> In d P ->
  wf_decl d = true -> names_known (keys T) d = true ->
  ~ In (dname d) (map dname pre) -> ext_ok P pre d ->
  inv P pre T -> inv P (pre ++ [d]) (collect_decl T d).
Proof.
  intros P pre d T Hn Hi Hd Hwf Hkn Hfresh Hok Hinv.
  destruct (wf_decl_split _ Hwf) as (Hgr & Hnf & Hnm & Hnr & _).
  assert (Hty := names_known_split _ _ Hkn).
  destruct (collect_decl_cons T d) as (s & Hs).
  split.
  - rewrite Hs. simpl. rewrite rev_app_distr. simpl. f_equal. apply Hinv.
  - intros d0 Hd0. apply in_app_or in Hd0 as [Hd0|[<-|[]]].
    + destruct Hinv as [_ Hg]. destruct (Hg d0 Hd0) as (s0 & Ha & Hgood). exists s0. split; auto.
      rewrite Hs. simpl. destruct (N.eqb (dname d0) (dname d)) eqn:E; auto.
      apply N.eqb_eq in E. exfalso. apply Hfresh. rewrite <- E. now apply in_map.
    + exists s. split; [rewrite Hs; simpl; now rewrite N.eqb_refl|].
      destruct d as [i n rqs ms|i n ads fs ms|i n ext ads fs ms|i n|i n cs]; simpl in Hs; inversion Hs; subst s; simpl; auto.
      * (* trait *)
        simpl in Hty, Hnm, Hnr.
        exists (collect_methods (keys T) ms []). split.
        -- f_equal. unfold keys. rewrite collect_reqs_spec; auto. apply map_ext_in. intros r Hr. f_equal.
           apply resolve_known. apply Hty. apply in_or_app. left. now apply in_map.
        -- eapply meths_match_ext; [|apply collect_methods_match; [exact Hnm| |apply meths_match_nil]].
           ++ intros m. split; [intros [H|[[] _]]; auto|auto].
           ++ intros m Hm. apply (sig_known _ ms); auto. intros t Ht. apply Hty. apply in_or_app. now right.
      * (* model *)
        simpl in Hty, Hnm, Hnf.
        exists (collect_fields (keys T) fs []), (collect_methods (keys T) ms []). split; [reflexivity|]. split.
        -- eapply fields_match_ext; [|apply collect_fields_match; [exact Hnf| |apply fields_match_nil]].
           ++ intros m. split; [intros [H|[[] _]]; auto|auto].
           ++ intros f Hf. apply resolve_known. apply Hty. apply in_or_app. left. now apply in_map.
        -- eapply meths_match_ext; [|apply collect_methods_match; [exact Hnm| |apply meths_match_nil]].
           ++ intros m. split; [intros [H|[[] _]]; auto|auto].
           ++ intros m Hm. apply (sig_known _ ms); auto. intros t Ht. apply Hty. apply in_or_app. now right.
      * (* class *)
        simpl in Hty, Hnm, Hnf.
        exists (collect_fields (keys T) fs (fst (inherit T ext))), (collect_methods (keys T) ms (snd (inherit T ext))).
        split; [reflexivity|].
        assert (Hbase : exists S0 S1, fields_match S0 (fst (inherit T ext)) /\ meths_match S1 (snd (inherit T ext)) /\
                  (forall f, S0 f <-> exists p, ext = Some p /\ class_field P p f) /\
                  (forall m, S1 m <-> exists p, ext = Some p /\ class_meth P p m)).
        { destruct ext as [p|].
          - destruct (inherit_match P pre T _ Hn Hi Hinv Hok p eq_refl) as [Hf Hm].
            exists (class_field P p), (class_meth P p).
            split; [exact Hf|]. split; [exact Hm|]. split; intros x; split.
            + intros H. exists p. auto.
            + intros (q & E & H). inversion E; subst. auto.
            + intros H. exists p. auto.
            + intros (q & E & H). inversion E; subst. auto.
          - exists (fun _ => False), (fun _ => False). simpl.
            split; [apply fields_match_nil|]. split; [apply meths_match_nil|]. split; intros x; split.
            + intros [].
            + intros (q & E & _). discriminate.
            + intros [].
            + intros (q & E & _). discriminate. }
        destruct Hbase as (S0 & S1 & Hf0 & Hm0 & HS0 & HS1). split.
        -- eapply fields_match_ext; [|apply collect_fields_match; [exact Hnf| |exact Hf0]].
           ++ intros f. rewrite (class_field_unfold P i n ext ads fs ms f Hn Hd). rewrite HS0.
              split; intros [H|H]; auto; right.
              ** destruct H as [(p & E & H) Hno]. exists p. auto.
              ** destruct H as (p & E & H & Hno). split; auto. exists p. auto.
           ++ intros f Hf. apply resolve_known. apply Hty. apply in_or_app. left. now apply in_map.
        -- eapply meths_match_ext; [|apply collect_methods_match; [exact Hnm| |exact Hm0]].
           ++ intros m. rewrite (class_meth_unfold P i n ext ads fs ms m Hn Hd). rewrite HS1.
              split; intros [H|H]; auto; right.
              ** destruct H as [(p & E & H) Hno]. exists p. auto.
              ** destruct H as (p & E & H & Hno). split; auto. exists p. auto.
           ++ intros m Hm. apply (sig_known _ ms); auto. intros t Ht. apply Hty. apply in_or_app. now right.
Qed.

(* ---- the whole first pass *)
Lemma keys_collect_decl : forall T d, keys (collect_decl T d) = dname d :: keys T.
Proof. intros T d. destruct (collect_decl_cons T d) as (s & ->). reflexivity. Qed.

Lemma declared_as_true : forall k P n,
  declared_as k P n = true -> exists d, In d P /\ dname d = n /\ k d = true.
Proof.
  unfold declared_as. intros k P n H. apply existsb_exists in H as (d & Hd & H).
  apply andb_true_iff in H as [H1 H2]. apply N.eqb_eq in H1. eauto.
Qed.

Lemma declared_as_false : forall k P n,
  declared_as k P n = false -> forall d, In d P -> dname d = n -> k d = false.
Proof.
  unfold declared_as. intros k P n H d Hd Hn.
  destruct (k d) eqn:E; auto.
  assert (existsb (fun d0 => N.eqb (dname d0) n && k d0) P = true).
  { apply existsb_exists. exists d. split; auto. rewrite Hn, N.eqb_refl, E. reflexivity. }
  congruence.
Qed.

Lemma inv_fold : forall P ds pre T,
  P = pre ++ ds -> NoDup (map dname P) -> forallb wf_decl P = true ->
  types_ordered (keys T) ds = true -> extends_ordered P (rev pre) ds = true ->
  inv P pre T -> inv P P (collect_all ds T).
Proof.
  intros P ds. induction ds as [|d r IH]; intros pre T HP Hn Hwf Hty Hex Hinv.
  - rewrite app_nil_r in HP. subst. exact Hinv.
  - simpl in Hty, Hex. apply andb_true_iff in Hty as [Hty1 Hty2]. apply andb_true_iff in Hex as [Hex1 Hex2].
    simpl. apply (IH (pre ++ [d])).
    + rewrite <- app_assoc. exact HP.
    + exact Hn.
    + exact Hwf.
    + rewrite keys_collect_decl. exact Hty2.
    + rewrite rev_app_distr. exact Hex2.
    + assert (Hd : In d P) by (subst P; apply in_or_app; right; now left).
      assert (Hi : incl pre P) by (subst P; intros x Hx; apply in_or_app; now left).
      apply inv_step; auto.
      * rewrite forallb_forall in Hwf. auto.
      * subst P. rewrite map_app in Hn. simpl in Hn. apply NoDup_remove_2 in Hn.
        intros Hin. apply Hn. apply in_or_app. now left.
      * intros p Hp. rewrite Hp in Hex1. apply orb_true_iff in Hex1 as [H|H].
        -- left. apply declared_as_true in H as (dp & Hdp & Hname & Hc). exists dp. split; auto. now apply in_rev.
        -- right. apply negb_true_iff in H. intros d0 Hd0 Hn0. eapply declared_as_false; eauto.
Qed.

Definition wfP (P : list decl) : Prop :=
  wf_basic P = true /\ types_ordered [] P = true /\ extends_ordered P [] P = true.

Lemma wf_basic_split : forall P, wf_basic P = true -> NoDup (map dname P) /\ forallb wf_decl P = true.
Proof. unfold wf_basic. intros P H. apply andb_true_iff in H as [H1 H2]. split; auto using nodupb_NoDup. Qed.

Lemma inv_all : forall P, wfP P -> inv P P (collect_all P []).
Proof.
  intros P (Hb & Ht & He). destruct (wf_basic_split _ Hb) as [Hn Hwf].
  apply (inv_fold P P [] []); auto.
  split; [reflexivity|]. intros d [].
Qed.

Lemma table_none : forall P T n, inv P P T -> (assoc n T = None <-> ~ In n (map dname P)).
Proof.
  intros P T n [Hk _]. rewrite assoc_none_notin, Hk, map_rev. split; intros H Hin; apply H.
  - now apply -> in_rev.
  - now apply in_rev.
Qed.

Lemma table_good : forall P T d, inv P P T -> In d P -> exists s, assoc (dname d) T = Some s /\ good P d s.
Proof. intros P T d [_ H] Hd. auto. Qed.

Lemma declared_false : forall P n, declared P n = false -> ~ In n (map dname P).
Proof. unfold declared. intros. now apply mem_false_notin. Qed.

Lemma declared_true : forall P n, declared P n = true -> In n (map dname P).
Proof. unfold declared. intros. now apply mem_In. Qed.

(* every type written in a declaration of an ordered program resolves to itself in the final table *)
Lemma types_ordered_known : forall ds seen d,
  types_ordered seen ds = true -> In d ds ->
  forall t, In t (decl_tys d) ->
  forallb (fun n => N.eqb n self_name || mem n (rev (map dname ds) ++ seen)) (ty_names t) = true.
Proof.
  induction ds as [|d0 r IH]; simpl; intros seen d H Hd t Ht; [contradiction|].
  apply andb_true_iff in H as [H1 H2]. destruct Hd as [<-|Hd].
  - assert (H := names_known_split _ _ H1 t Ht). rewrite forallb_forall in *. intros n Hn.
    specialize (H n Hn). apply orb_true_iff in H as [H|H]; apply orb_true_iff; auto.
    right. apply In_mem. apply in_or_app. right. now apply mem_In.
  - assert (H := IH _ _ H2 Hd t Ht). rewrite forallb_forall in *. intros n Hn.
    specialize (H n Hn). apply orb_true_iff in H as [H|H]; apply orb_true_iff; auto.
    right. apply In_mem. apply mem_In in H. rewrite <- app_assoc. simpl. exact H.
Qed.

Lemma resolve_final : forall P T d t,
  inv P P T -> types_ordered [] P = true -> In d P -> In t (decl_tys d) -> resolve (map fst T) t = t.
Proof.
  intros P T d t [Hk _] Ho Hd Ht. apply resolve_known.
  assert (H := types_ordered_known _ _ _ Ho Hd t Ht). rewrite app_nil_r in H.
  change (map fst T) with (keys T). rewrite Hk, map_rev. exact H.
Qed.

(* ---- members come from declarations *)
Lemma class_field_decl : forall P n f, class_field P n f ->
  (exists i ext ads fs ms, In (DClass i n ext ads fs ms) P) /\ exists d, In d P /\ is_class d = true /\ In f (decl_fields d).
Proof.
  induction 1 as [i n ext ads fs ms f Hd Hf|i n p ads fs ms f Hd Hp IH Hno].
  - split; [eauto 8|]. exists (DClass i n ext ads fs ms). auto.
  - split; [eauto 8|]. apply IH.
Qed.

Lemma class_meth_decl : forall P n m, class_meth P n m ->
  (exists i ext ads fs ms, In (DClass i n ext ads fs ms) P) /\ exists d, In d P /\ is_class d = true /\ In m (decl_meths d).
Proof.
  induction 1 as [i n ext ads fs ms f Hd Hf|i n p ads fs ms f Hd Hp IH Hno].
  - split; [eauto 8|]. exists (DClass i n ext ads fs ms). auto.
  - split; [eauto 8|]. apply IH.
Qed.

Lemma field_ground : forall P d f, forallb wf_decl P = true -> In d P -> In f (decl_fields d) -> ground (fd_ty f) = true.
Proof.
  intros P d f Hwf Hd Hf. rewrite forallb_forall in Hwf. destruct (wf_decl_split _ (Hwf d Hd)) as (Hg & _).
  rewrite forallb_forall in Hg. apply Hg. destruct d; simpl in *; try contradiction; apply in_or_app; left; now apply in_map.
Qed.

Lemma meth_ground : forall P d m, forallb wf_decl P = true -> In d P -> In m (decl_meths d) ->
  forallb ground (sig_tys (me_sig m)) = true.
Proof.
  intros P d m Hwf Hd Hm. rewrite forallb_forall in Hwf. destruct (wf_decl_split _ (Hwf d Hd)) as (Hg & _).
  rewrite forallb_forall in *. intros t Ht. apply Hg.
  destruct d; simpl in *; try contradiction; apply in_or_app; right; apply in_flat_map; eauto.
Qed.

Lemma req_ground : forall P i n rqs ms r, forallb wf_decl P = true -> In (DTrait i n rqs ms) P -> In r rqs -> ground (rq_ty r) = true.
Proof.
  intros P i n rqs ms r Hwf Hd Hr. rewrite forallb_forall in Hwf. destruct (wf_decl_split _ (Hwf _ Hd)) as (Hg & _).
  rewrite forallb_forall in Hg. apply Hg. simpl. apply in_or_app. left. now apply in_map.
Qed.

Lemma type_field_model : forall P i n ads fs ms f,
  NoDup (map dname P) -> In (DModel i n ads fs ms) P -> (type_field P n f <-> In f fs).
Proof.
  intros P i n ads fs ms f Hn Hd. split.
  - intros [(i' & ads' & fs' & ms' & Hd' & Hf)|H].
    + assert (E := decl_unique _ _ _ Hn Hd Hd' eq_refl). inversion E; subst. auto.
    + apply class_field_decl in H as [(i' & e' & a' & f' & m' & Hd') _].
      assert (E := decl_unique _ _ _ Hn Hd Hd' eq_refl). discriminate.
  - intros Hf. left. eauto 8.
Qed.

Lemma type_meth_model : forall P i n ads fs ms m,
  NoDup (map dname P) -> In (DModel i n ads fs ms) P -> (type_meth P n m <-> In m ms).
Proof.
  intros P i n ads fs ms f Hn Hd. split.
  - intros [(i' & ads' & fs' & ms' & Hd' & Hf)|H].
    + assert (E := decl_unique _ _ _ Hn Hd Hd' eq_refl). inversion E; subst. auto.
    + apply class_meth_decl in H as [(i' & e' & a' & f' & m' & Hd') _].
      assert (E := decl_unique _ _ _ Hn Hd Hd' eq_refl). discriminate.
  - intros Hf. left. eauto 8.
Qed.

Lemma type_field_class : forall P i n ext ads fs ms f,
  NoDup (map dname P) -> In (DClass i n ext ads fs ms) P -> (type_field P n f <-> class_field P n f).
Proof.
  intros P i n ext ads fs ms f Hn Hd. split; [|now right].
  intros [(i' & ads' & fs' & ms' & Hd' & Hf)|H]; auto.
  assert (E := decl_unique _ _ _ Hn Hd Hd' eq_refl). discriminate.
Qed.

Lemma type_meth_class : forall P i n ext ads fs ms m,
  NoDup (map dname P) -> In (DClass i n ext ads fs ms) P -> (type_meth P n m <-> class_meth P n m).
Proof.
  intros P i n ext ads fs ms f Hn Hd. split; [|now right].
  intros [(i' & ads' & fs' & ms' & Hd' & Hf)|H]; auto.
  assert (E := decl_unique _ _ _ Hn Hd Hd' eq_refl). discriminate.
Qed.

(* ---------------------------------------------------------------- the second pass *)
Lemma dev_if_nil : forall b e, dev_if b e = [] <-> b = false.
Proof. intros [|] e; simpl; split; intros H; auto; discriminate. Qed.

Lemma kinds_ok_decl : forall P d, kinds_ok P = true -> In d P ->
  (forall a, In a (adoptions d) -> declared P (snd a) = false \/ declared_as is_trait P (snd a) = true) /\
  (forall p, ext_of d = Some p -> declared P p = false \/ declared_as is_class P p = true) /\
  (forall c, In c (calls d) -> declared P (c_callee c) = false \/ declared_as is_ctor P (c_callee c) = true).
Proof.
  unfold kinds_ok. intros P d H Hd. rewrite forallb_forall in H. specialize (H d Hd).
  apply andb_true_iff in H as [H H3]. apply andb_true_iff in H as [H1 H2].
  rewrite forallb_forall in H1, H3. repeat split.
  - intros a Ha. specialize (H1 a Ha). apply orb_true_iff in H1 as [H1|H1]; auto. left. now apply negb_true_iff.
  - intros p Hp. rewrite Hp in H2. apply orb_true_iff in H2 as [H2|H2]; auto. left. now apply negb_true_iff.
  - intros c Hc. specialize (H3 c Hc). apply orb_true_iff in H3 as [H3|H3]; auto. left. now apply negb_true_iff.
Qed.

Definition trait_entry (P : list decl) (T : table) (tn : name) : Prop :=
  exists i rqs tms mm, In (DTrait i tn rqs tms) P /\
    assoc tn T = Some (SyTrait (map (fun r => (rq_name r, rq_ty r)) rqs) mm) /\ meths_match (fun m => In m tms) mm.

Lemma adoption_lookup : forall P T d a,
  inv P P T -> kinds_ok P = true -> In d P -> In a (adoptions d) ->
  (assoc (snd a) T = None /\ ~ In (snd a) (map dname P)) \/ trait_entry P T (snd a).
Proof.
  intros P T d a Hinv Hk Hd Ha. destruct (kinds_ok_decl _ _ Hk Hd) as (H1 & _ & _).
  destruct (H1 a Ha) as [H|H].
  - left. apply declared_false in H. split; auto. now apply (table_none P T).
  - right. apply declared_as_true in H as (dt & Hdt & Hn & Ht). destruct dt; try discriminate.
    simpl in Hn. subst n. destruct (table_good _ _ _ Hinv Hdt) as (s & Ha' & Hg). simpl in Ha', Hg.
    destruct Hg as (mm & -> & Hm). exists i, rqs, ms, mm. auto.
Qed.

Lemma meth_events_nil : forall ai found tms mm,
  meths_match (fun m => In m tms) mm ->
  (meth_events ai found mm = [] <->
   forall m, In m tms -> me_body m = false ->
     exists fm, found (me_name m) = Some fm /\ sig_compat (me_sig m) (fst fm) = true).
Proof.
  intros ai found tms mm [Hn Hm]. unfold meth_events. rewrite flat_map_nil_iff. split.
  - intros H m Hin Hb.
    assert (Ha : assoc (me_name m) mm = Some (me_sig m, false)) by (apply Hm; exists m; auto).
    apply assoc_In in Ha. specialize (H _ Ha). simpl in H.
    destruct (found (me_name m)) as [fm|]; [|discriminate].
    exists fm. split; auto. apply dev_if_nil in H. now apply negb_false_iff.
  - intros H [k [sg b]] Hin. simpl. destruct b; auto.
    apply in_assoc_nodup in Hin; auto. apply Hm in Hin as (m & Hmin & Hk & Hs & Hb).
    destruct (H m Hmin Hb) as (fm & Hf & Hc). rewrite Hk in Hf. rewrite Hf. subst sg.
    apply dev_if_nil. now rewrite Hc.
Qed.

Lemma req_events_class_nil : forall cfs ai rqs,
  req_events_class cfs ai (map (fun r => (rq_name r, rq_ty r)) rqs) = [] <->
  forall r, In r rqs -> exists ft, assoc (rq_name r) cfs = Some ft /\ compat (fst ft) (rq_ty r) = true.
Proof.
  intros cfs ai rqs. unfold req_events_class. rewrite flat_map_nil_iff. split.
  - intros H r Hr. specialize (H (rq_name r, rq_ty r)). simpl in H.
    destruct (assoc (rq_name r) cfs) as [ft|].
    + exists ft. split; auto. assert (H' := H (in_map _ _ _ Hr)). apply dev_if_nil in H'. now apply negb_false_iff.
    + specialize (H (in_map _ _ _ Hr)). discriminate.
  - intros H x Hx. apply in_map_iff in Hx as (r & <- & Hr). simpl.
    destruct (H r Hr) as (ft & -> & Hc). apply dev_if_nil. now rewrite Hc.
Qed.

Lemma req_events_model_nil : forall alln fs ai rqs,
  req_events_model alln fs ai (map (fun r => (rq_name r, rq_ty r)) rqs) = [] <->
  forall r, In r rqs -> exists f, find (fun f => N.eqb (fd_name f) (rq_name r)) fs = Some f /\
                                  compat (resolve alln (fd_ty f)) (rq_ty r) = true.
Proof.
  intros alln fs ai rqs. unfold req_events_model. rewrite flat_map_nil_iff. split.
  - intros H r Hr. specialize (H (rq_name r, rq_ty r) (in_map _ _ _ Hr)). simpl in H.
    destruct (find _ fs) as [f|]; [|discriminate].
    exists f. split; auto. apply dev_if_nil in H. now apply negb_false_iff.
  - intros H x Hx. apply in_map_iff in Hx as (r & <- & Hr). simpl.
    destruct (H r Hr) as (f & -> & Hc). apply dev_if_nil. now rewrite Hc.
Qed.

Record strictP (P : list decl) : Prop := {
  sp_wf : wfP P; sp_kinds : kinds_ok P = true; sp_bodies : bodies_ok P = true }.

Lemma strict_strictP : forall p, strict p = true -> strictP (all_decls p).
Proof.
  unfold strict. intros p H. cbv zeta in H.
  apply andb_true_iff in H as [H H5]. apply andb_true_iff in H as [H H4].
  apply andb_true_iff in H as [H H3]. apply andb_true_iff in H as [H1 H2].
  constructor; auto. split; auto.
Qed.

Lemma bodies_ok_meth : forall P d m, bodies_ok P = true -> In d P -> is_ctor d = true -> In m (decl_meths d) -> me_body m = true.
Proof.
  unfold bodies_ok. intros P d m H Hd Hc Hm. rewrite forallb_forall in H. specialize (H d Hd).
  rewrite Hc in H. simpl in H. rewrite forallb_forall in H. auto.
Qed.

Lemma is_class_ctor : forall d, is_class d = true -> is_ctor d = true.
Proof. destruct d; simpl; auto. Qed.

(* -- a class adopting a trait -- *)
Lemma adopt_class_iff : forall P T i n ext ads fs ms a,
  strictP P -> inv P P T -> In (DClass i n ext ads fs ms) P -> In a ads ->
  (adopt_class T n a = [] <-> conforms_adoption P n (snd a)).
Proof.
  intros P T i n ext ads fs ms a [(Hb & Hto & Heo) Hk Hbo] Hinv Hd Ha.
  destruct (wf_basic_split _ Hb) as [Hn Hwf].
  destruct (table_good _ _ _ Hinv Hd) as (s & Has & Hg). simpl in Has, Hg.
  destruct Hg as (fm & mm & -> & Hfm & Hmm).
  assert (Hci : class_info T n = (fm, mm)) by (unfold class_info; now rewrite Has).
  unfold adopt_class. rewrite Hci. simpl.
  destruct (adoption_lookup P T _ a Hinv Hk Hd Ha) as [[Hnone Hnot]|(ti & rqs & tms & tmm & Hdt & Hat & Htm)].
  - rewrite Hnone. split; [discriminate|].
    intros (ti & rqs & tms & Hdt & _). exfalso. apply Hnot. apply (in_map dname) in Hdt. exact Hdt.
  - rewrite Hat. split.
    + intros H. apply app_eq_nil in H as [Hr Hm].
      rewrite req_events_class_nil in Hr. rewrite (meth_events_nil _ _ tms) in Hm by exact Htm.
      exists ti, rqs, tms. split; [exact Hdt|]. split.
      * intros r Hr0. destruct (Hr r Hr0) as ([t b] & Haf & Hc). simpl in Hc.
        apply (proj2 Hfm) in Haf as (f & Hcf & Hname & Hty & _).
        exists f. split; [now right|]. split; auto.
        destruct (class_field_decl _ _ _ Hcf) as (_ & d' & Hd' & _ & Hf').
        apply compat_ground_eq; subst t; auto.
        -- eapply field_ground; eauto.
        -- eapply req_ground; eauto.
      * intros m Hm0 Hbody. destruct (Hm m Hm0 Hbody) as ([sg b] & Haf & Hc). simpl in Hc.
        apply (proj2 Hmm) in Haf as (m' & Hcm & Hname & Hsig & Hb').
        exists m'. split; [now right|]. split; auto.
        destruct (class_meth_decl _ _ _ Hcm) as (_ & d' & Hd' & Hcl & Hm').
        split.
        -- subst sg. symmetry. apply sig_compat_ground_eq; auto.
           ++ apply (meth_ground P (DTrait ti (snd a) rqs tms)); auto.
           ++ eapply meth_ground; eauto.
        -- eapply bodies_ok_meth; eauto. now apply is_class_ctor.
    + intros (ti' & rqs' & tms' & Hdt' & Hreq & Hmeth).
      assert (E := decl_unique _ _ _ Hn Hdt Hdt' eq_refl). inversion E; subst ti' rqs' tms'. clear E.
      apply app_nil_intro.
      * apply req_events_class_nil. intros r Hr0. destruct (Hreq r Hr0) as (f & Htf & Hname & Hty).
        apply (type_field_class P i n ext ads fs ms f Hn Hd) in Htf.
        exists (fd_ty f, fd_default f). split.
        -- apply (proj2 Hfm). exists f. auto.
        -- simpl. rewrite Hty. apply compat_refl.
      * apply (meth_events_nil _ _ tms); [exact Htm|]. intros m Hm0 Hbody.
        destruct (Hmeth m Hm0 Hbody) as (m' & Htm' & Hname & Hsig & Hb').
        apply (type_meth_class P i n ext ads fs ms m' Hn Hd) in Htm'.
        exists (me_sig m', me_body m'). split.
        -- apply (proj2 Hmm). exists m'. auto.
        -- simpl. rewrite Hsig. apply sig_compat_refl.
Qed.

(* -- a model adopting a trait -- *)
Lemma adopt_model_iff : forall P T i n ads fs ms a,
  strictP P -> inv P P T -> In (DModel i n ads fs ms) P -> In a ads ->
  (adopt_model T n fs ms a = [] <-> conforms_adoption P n (snd a)).
Proof.
  intros P T i n ads fs ms a [(Hb & Hto & Heo) Hk Hbo] Hinv Hd Ha.
  destruct (wf_basic_split _ Hb) as [Hn Hwf].
  destruct (table_good _ _ _ Hinv Hd) as (s & Has & Hg). simpl in Has, Hg.
  destruct Hg as (fm & mm & -> & Hfm & Hmm).
  assert (Hwd : wf_decl (DModel i n ads fs ms) = true) by (rewrite forallb_forall in Hwf; auto).
  destruct (wf_decl_split _ Hwd) as (_ & Hnf & Hnm & _). simpl in Hnf, Hnm.
  assert (Hres : forall f, In f fs -> resolve (map fst T) (fd_ty f) = fd_ty f).
  { intros f Hf. apply (resolve_final P T (DModel i n ads fs ms)); auto. simpl. apply in_or_app. left. now apply in_map. }
  unfold adopt_model.
  destruct (adoption_lookup P T _ a Hinv Hk Hd Ha) as [[Hnone Hnot]|(ti & rqs & tms & tmm & Hdt & Hat & Htm)].
  - rewrite Hnone. split; [discriminate|].
    intros (ti & rqs & tms & Hdt & _). exfalso. apply Hnot. apply (in_map dname) in Hdt. exact Hdt.
  - rewrite Hat, Has. split.
    + intros H. apply app_eq_nil in H as [Hr Hm].
      rewrite req_events_model_nil in Hr. rewrite (meth_events_nil _ _ tms) in Hm by exact Htm.
      exists ti, rqs, tms. split; [exact Hdt|]. split.
      * intros r Hr0. destruct (Hr r Hr0) as (f & Hfind & Hc).
        apply find_key_some in Hfind as [Hf Hname]. rewrite (Hres f Hf) in Hc.
        exists f. split; [left; eauto 8|]. split; auto.
        apply compat_ground_eq; auto.
        -- apply (field_ground P (DModel i n ads fs ms)); auto.
        -- eapply req_ground; eauto.
      * intros m Hm0 Hbody. destruct (Hm m Hm0 Hbody) as ([sg b] & Haf & Hc). simpl in Hc.
        apply (proj2 Hmm) in Haf as (m' & Hcm & Hname & Hsig & Hb').
        exists m'. split; [left; eauto 8|]. split; auto. split.
        -- subst sg. symmetry. apply sig_compat_ground_eq; auto.
           ++ apply (meth_ground P (DTrait ti (snd a) rqs tms)); auto.
           ++ apply (meth_ground P (DModel i n ads fs ms)); auto.
        -- apply (bodies_ok_meth P (DModel i n ads fs ms)); auto.
    + intros (ti' & rqs' & tms' & Hdt' & Hreq & Hmeth).
      assert (E := decl_unique _ _ _ Hn Hdt Hdt' eq_refl). inversion E; subst ti' rqs' tms'. clear E.
      apply app_nil_intro.
      * apply req_events_model_nil. intros r Hr0. destruct (Hreq r Hr0) as (f & Htf & Hname & Hty).
        apply (type_field_model P i n ads fs ms f Hn Hd) in Htf.
        exists f. split.
        -- apply find_key_in; auto.
        -- rewrite (Hres f Htf), Hty. apply compat_refl.
      * apply (meth_events_nil _ _ tms); [exact Htm|]. intros m Hm0 Hbody.
        destruct (Hmeth m Hm0 Hbody) as (m' & Htm' & Hname & Hsig & Hb').
        apply (type_meth_model P i n ads fs ms m' Hn Hd) in Htm'.
        exists (me_sig m', me_body m'). split.
        -- apply (proj2 Hmm). exists m'. auto.
        -- simpl. rewrite Hsig. apply sig_compat_refl.
Qed.

(* -- where the events of an adoption are located -- *)
Lemma dev_if_in : forall b e x, In x (dev_if b e) -> x = e.
Proof. intros [|] e x; simpl; intros H; [destruct H as [<-|[]]; auto|contradiction]. Qed.

Lemma meth_events_at : forall ai found tms e, In e (meth_events ai found tms) -> snd e = ai.
Proof.
  unfold meth_events. intros ai found tms e H. apply in_flat_map in H as ([k [sg b]] & _ & H). simpl in H.
  destruct b; [contradiction|]. destruct (found k).
  - apply dev_if_in in H. now subst.
  - destruct H as [<-|[]]. reflexivity.
Qed.

Lemma meth_events_names_at : forall ai own tms e, In e (meth_events_names ai own tms) -> snd e = ai.
Proof.
  unfold meth_events_names. intros ai own tms e H. apply in_flat_map in H as ([k [sg b]] & _ & H). simpl in H.
  destruct b; [contradiction|]. apply dev_if_in in H. now subst.
Qed.

Lemma adopt_model_at : forall T n fs ms a e,
  In e (adopt_model T n fs ms a) -> snd e = fst a \/ exists f, In f fs /\ snd e = fd_tid f.
Proof.
  unfold adopt_model. intros T n fs ms a e H.
  destruct (assoc (snd a) T) as [[rqs tms| | |]|]; try contradiction.
  - apply in_app_or in H as [H|H].
    + unfold req_events_model in H. apply in_flat_map in H as (r & _ & H).
      destruct (find _ fs) as [f|] eqn:E.
      * apply dev_if_in in H. subst e. right. exists f. split; auto. now apply find_some in E.
      * destruct H as [<-|[]]. now left.
    + left. destruct (assoc n T) as [[| | |]|]; try (eapply meth_events_names_at; eassumption).
      eapply meth_events_at; eassumption.
  - destruct H as [<-|[]]. now left.
Qed.

Lemma adopt_class_at : forall T n a e, In e (adopt_class T n a) -> snd e = fst a.
Proof.
  unfold adopt_class. intros T n a e H.
  destruct (assoc (snd a) T) as [[rqs tms| | |]|]; try contradiction.
  - apply in_app_or in H as [H|H].
    + unfold req_events_class in H. apply in_flat_map in H as (r & _ & H).
      destruct (assoc (fst r) _).
      * apply dev_if_in in H. now subst.
      * destruct H as [<-|[]]. reflexivity.
    + eapply meth_events_at; eassumption.
  - destruct H as [<-|[]]. reflexivity.
Qed.

(* -- constructor calls -- *)
Lemma type_field_decl : forall P n f, type_field P n f -> exists d, In d P /\ In f (decl_fields d).
Proof.
  intros P n f [(i & ads & fs & ms & Hd & Hf)|H].
  - exists (DModel i n ads fs ms). auto.
  - apply class_field_decl in H as (_ & d & Hd & _ & Hf). eauto.
Qed.

Lemma ctor_table : forall P T d,
  inv P P T -> NoDup (map dname P) -> In d P -> is_ctor d = true ->
  exists s fm, assoc (dname d) T = Some s /\ ctor_fields T (dname d) = Some fm /\ fields_match (type_field P (dname d)) fm.
Proof.
  intros P T d Hinv Hn Hd Hc. destruct (table_good _ _ _ Hinv Hd) as (s & Ha & Hg).
  destruct d as [| i n ads fs ms | i n ext ads fs ms | |]; try discriminate; simpl in *.
  - destruct Hg as (fm & mm & -> & Hf & _). exists (SyModel fm mm), fm. unfold ctor_fields. rewrite Ha.
    split; [reflexivity|]. split; [reflexivity|].
    eapply fields_match_ext; [|exact Hf]. intros f. symmetry. now apply (type_field_model P i n ads fs ms).
  - destruct Hg as (fm & mm & -> & Hf & _). exists (SyClass ext fm mm), fm. unfold ctor_fields. rewrite Ha.
    split; [reflexivity|]. split; [reflexivity|].
    eapply fields_match_ext; [|exact Hf]. intros f. symmetry. now apply (type_field_class P i n ext ads fs ms).
Qed.

Lemma is_pos_false : forall a, is_pos a = false -> exists n, ar_name a = Some n.
Proof. unfold is_pos. intros a H. destruct (ar_name a); [eauto|discriminate]. Qed.

Lemma args_events_nil : forall fm xs prov,
  (forall a, In a xs -> is_pos a = false) ->
  (args_events fm prov xs = [] <->
   NoDup (arg_names xs) /\ (forall n, In n (arg_names xs) -> ~ In n prov) /\
   forall a, In a xs -> exists n ft, ar_name a = Some n /\ assoc n fm = Some ft /\ compat (ar_ty a) (fst ft) = true).
Proof.
  intros fm. induction xs as [|a r IH]; intros prov Hpos.
  - simpl. split; auto. intros _. split; [constructor|]. split; intros ? [].
  - destruct (is_pos_false a (Hpos a (or_introl eq_refl))) as (n & Hn).
    assert (Hpos' : forall a0, In a0 r -> is_pos a0 = false) by (intros; apply Hpos; now right).
    simpl. rewrite Hn. split.
    + intros H. destruct (mem n prov) eqn:Em; [discriminate|].
      destruct (assoc n fm) as [ft|] eqn:Ea; [|discriminate].
      apply app_eq_nil in H as [H1 H2]. apply dev_if_nil in H1. apply negb_false_iff in H1.
      apply (IH (n :: prov) Hpos') in H2 as (Hnd & Hfresh & Hall).
      split; [|split].
      * constructor; auto. intros Hin. apply (Hfresh n Hin). now left.
      * intros n' [<-|Hin]; [now apply mem_false_notin|]. intros Hp. apply (Hfresh n' Hin). now right.
      * intros a0 [<-|Hin]; [exists n, ft; auto|auto].
    + intros (Hnd & Hfresh & Hall). inversion Hnd as [|? ? Hx Hl]; subst.
      rewrite (notin_mem_false _ _ (Hfresh n (or_introl eq_refl))).
      destruct (Hall a (or_introl eq_refl)) as (n0 & ft & E & Ha & Hc). rewrite Hn in E. inversion E; subst n0.
      rewrite Ha, Hc. simpl. apply (IH (n :: prov) Hpos'). split; [auto|]. split.
      * intros n' Hin [<-|Hp]; [contradiction|]. apply (Hfresh n'); auto. now right.
      * intros a0 Hin. apply Hall. now right.
Qed.

Lemma missing_events_nil : forall i (fm : fmap) prov, NoDup (keys fm) ->
  (missing_events i fm prov = [] <-> forall k t, assoc k fm = Some (t, false) -> In k prov).
Proof.
  intros i fm prov Hn. unfold missing_events. rewrite flat_map_nil_iff. split.
  - intros H k t Ha. apply assoc_In in Ha. specialize (H _ Ha). simpl in H. apply dev_if_nil in H.
    apply negb_false_iff in H. now apply mem_In.
  - intros H [k [t b]] Hin. simpl. apply dev_if_nil. destruct b; auto. simpl.
    apply in_assoc_nodup in Hin; auto. apply H in Hin. now rewrite (In_mem _ _ Hin).
Qed.

Lemma existsb_false_forall : forall A (f : A -> bool) l, existsb f l = false -> forall x, In x l -> f x = false.
Proof.
  intros A f l H x Hx. destruct (f x) eqn:E; auto.
  assert (existsb f l = true) by (apply existsb_exists; eauto). congruence.
Qed.

Lemma arg_ground : forall P d c a, forallb wf_decl P = true -> In d P -> In c (calls d) -> In a (c_args c) -> ground (ar_ty a) = true.
Proof.
  intros P d c a Hwf Hd Hc Ha. rewrite forallb_forall in Hwf. destruct (wf_decl_split _ (Hwf d Hd)) as (_ & _ & _ & _ & H).
  rewrite forallb_forall in H. specialize (H c Hc). rewrite forallb_forall in H. auto.
Qed.

Lemma call_iff : forall P T d c,
  strictP P -> inv P P T -> In d P -> In c (calls d) ->
  (call_events T c = [] <-> conforms_ctor P c).
Proof.
  intros P T d c [(Hb & Hto & Heo) Hk Hbo] Hinv Hd Hc.
  destruct (wf_basic_split _ Hb) as [Hn Hwf].
  destruct (kinds_ok_decl _ _ Hk Hd) as (_ & _ & H3). unfold call_events.
  destruct (H3 c Hc) as [H|H].
  - apply declared_false in H. rewrite (proj2 (table_none P T _ Hinv) H). split; [discriminate|].
    intros ([(i & ads & fs & ms & Hdc)|(i & ext & ads & fs & ms & Hdc)] & _); exfalso; apply H;
      apply (in_map dname) in Hdc; exact Hdc.
  - apply declared_as_true in H as (dc & Hdc & Hname & Hct).
    destruct (ctor_table P T dc Hinv Hn Hdc Hct) as (s & fm & Has & Hcf & Hfm). rewrite Hname in *.
    rewrite Has, Hcf.
    assert (Hcons : constructible P (c_callee c)).
    { destruct dc; try discriminate; simpl in Hname; subst n; [left|right]; eauto 8. }
    split.
    + intros H. destruct (existsb is_pos (c_args c)) eqn:Ep; [discriminate|].
      assert (Hpos := existsb_false_forall _ _ _ Ep).
      apply app_eq_nil in H as [H1 H2].
      apply (args_events_nil fm _ [] Hpos) in H1 as (Hnd & _ & Hall).
      assert (H2' := proj1 (missing_events_nil (c_id c) fm (arg_names (c_args c)) (proj1 Hfm)) H2).
      split; [exact Hcons|]. split; [|split; [exact Hnd|]].
      * intros a Ha. destruct (Hall a Ha) as (n & [t b] & Hna & Haf & Hcm). simpl in Hcm.
        apply (proj2 Hfm) in Haf as (f & Htf & Hfn & Hft & _).
        exists f. split; auto. split; [now rewrite Hfn|].
        destruct (type_field_decl _ _ _ Htf) as (d' & Hd' & Hf').
        symmetry. subst t. apply compat_ground_eq; auto.
        -- apply (arg_ground P d c a); auto.
        -- apply (field_ground P d' f); auto.
      * intros f Htf Hdef. apply (H2' (fd_name f) (fd_ty f)). apply (proj2 Hfm). exists f. auto.
    + intros (_ & Hall & Hnd & Hmiss).
      assert (Hpos : forall a, In a (c_args c) -> is_pos a = false).
      { intros a Ha. destruct (Hall a Ha) as (f & _ & E & _). unfold is_pos. now rewrite E. }
      assert (Ep : existsb is_pos (c_args c) = false).
      { destruct (existsb is_pos (c_args c)) eqn:E; auto. apply existsb_exists in E as (a & Ha & E).
        rewrite (Hpos a Ha) in E. discriminate. }
      rewrite Ep. apply app_nil_intro.
      * apply (args_events_nil fm _ [] Hpos). split; [exact Hnd|]. split; [intros n _ []|].
        intros a Ha. destruct (Hall a Ha) as (f & Htf & E & Hty).
        exists (fd_name f), (fd_ty f, fd_default f). split; auto. split.
        -- apply (proj2 Hfm). exists f. auto.
        -- simpl. rewrite Hty. apply compat_refl.
      * apply (proj2 (missing_events_nil (c_id c) fm (arg_names (c_args c)) (proj1 Hfm))). intros k t Ha.
        apply (proj2 Hfm) in Ha as (f & Htf & Hfn & _ & Hdef). rewrite <- Hfn. auto.
Qed.

Lemma args_events_at : forall fm xs prov e, In e (args_events fm prov xs) -> In (snd e) (map ar_id xs).
Proof.
  intros fm. induction xs as [|a r IH]; simpl; intros prov e H; [contradiction|].
  destruct (ar_name a) as [n|]; [|right; eauto].
  destruct (mem n prov).
  - destruct H as [<-|H]; [now left|right; eauto].
  - destruct (assoc n fm).
    + apply in_app_or in H as [H|H]; [apply dev_if_in in H; subst; now left|right; eauto].
    + destruct H as [<-|H]; [now left|right; eauto].
Qed.

Lemma call_events_at : forall T c e, In e (call_events T c) -> In (snd e) (call_ids c).
Proof.
  unfold call_events, call_ids. intros T c e H.
  destruct (assoc (c_callee c) T).
  - destruct (ctor_fields T (c_callee c)) as [fm|]; [|contradiction].
    destruct (existsb is_pos (c_args c)).
    + destruct H as [<-|[]]. now left.
    + apply in_app_or in H as [H|H].
      * right. right. eapply args_events_at; eauto.
      * unfold missing_events in H. apply in_flat_map in H as (f & _ & H). apply dev_if_in in H. subst. now left.
  - destruct H as [<-|[]]. right. now left.
Qed.

(* ---------------------------------------------------------------- extends_chain_reaches *)
Lemma chain_fuel_general : forall T k seen cur tgt,
  NoDup seen -> incl seen (keys T) -> length T + 2 <= k + length seen ->
  chain_reaches T k seen cur tgt <> None.
Proof.
  intros T. induction k as [|k IH]; intros seen cur tgt Hn Hi Hl.
  - exfalso. assert (H := NoDup_incl_length Hn Hi). unfold keys in H. rewrite map_length in H. simpl in Hl. lia.
  - simpl. destruct (N.eqb cur tgt); [discriminate|]. destruct (mem cur seen) eqn:Em; [discriminate|].
    destruct (assoc cur T) as [s|] eqn:Ea; [|discriminate].
    destruct s as [| |[p|] f m|]; try discriminate.
    apply IH.
    + constructor; auto. now apply mem_false_notin.
    + intros x [<-|Hx]; auto. eapply assoc_some_in; eauto.
    + simpl. lia.
Qed.

Lemma chain_fuel_suffices : forall T b c, chain_reaches T (chain_fuel T) [] b c <> None.
Proof.
  intros T b c. apply chain_fuel_general; [constructor|intros x []|]. unfold chain_fuel. simpl. lia.
Qed.

(* in an ordered program the chain never comes back: every link of the table goes to an EARLIER entry *)
Fixpoint tord (P : list decl) (T : table) : Prop :=
  match T with
  | [] => True
  | (n, s) :: T' =>
      (forall p f m, s = SyClass (Some p) f m -> In p (keys T') \/ no_class P p) /\ tord P T'
  end.

Lemma collect_decl_ext : forall T d, exists s,
  collect_decl T d = (dname d, s) :: T /\ forall p f m, s = SyClass (Some p) f m -> ext_of d = Some p.
Proof.
  intros T d. destruct d; simpl; eexists; (split; [reflexivity|]); intros p f m E; try discriminate.
  inversion E; subst. reflexivity.
Qed.

Lemma tord_fold : forall P ds pre T,
  keys T = map dname (rev pre) -> extends_ordered P (rev pre) ds = true -> tord P T -> tord P (collect_all ds T).
Proof.
  intros P. induction ds as [|d r IH]; intros pre T Hk He Ht; [exact Ht|].
  simpl in He. apply andb_true_iff in He as [He1 He2]. simpl.
  destruct (collect_decl_ext T d) as (s & Hs & Hext).
  apply (IH (pre ++ [d])).
  - rewrite Hs. simpl. rewrite rev_app_distr. simpl. now rewrite Hk.
  - rewrite rev_app_distr. exact He2.
  - rewrite Hs. simpl. split; auto. intros p f m E. rewrite (Hext p f m E) in He1.
    apply orb_true_iff in He1 as [H|H].
    + left. apply declared_as_true in H as (dp & Hdp & Hname & _). rewrite Hk, <- Hname. now apply in_map.
    + right. apply negb_true_iff in H. intros d0 Hd0 Hn0. eapply declared_as_false; eauto.
Qed.

Lemma tord_app : forall P T1 T2, tord P (T1 ++ T2) -> tord P T2.
Proof. induction T1 as [|[n s] T1 IH]; simpl; intros T2 H; auto. apply IH. apply H. Qed.

Lemma assoc_app_notin : forall A k (m1 m2 : list (name * A)), ~ In k (keys m1) -> assoc k (m1 ++ m2) = assoc k m2.
Proof.
  induction m1 as [|[k' v] m1 IH]; simpl; intros m2 H; auto.
  destruct (N.eqb k k') eqn:E.
  - apply N.eqb_eq in E. subst. exfalso. apply H. now left.
  - apply IH. intros Hin. apply H. now right.
Qed.

Lemma keys_app : forall A (m1 m2 : list (name * A)), keys (m1 ++ m2) = keys m1 ++ keys m2.
Proof. intros. unfold keys. apply map_app. Qed.

Lemma chain_never_back : forall P T tgt,
  NoDup (keys T) ->
  (forall p e f m, no_class P p -> assoc p T <> Some (SyClass e f m)) ->
  ~ no_class P tgt ->
  forall T2 T1, T = T1 ++ T2 -> tord P T2 -> In tgt (keys T1) ->
  forall cur, In cur (keys T2) -> forall k seen, chain_reaches T k seen cur tgt <> Some true.
Proof.
  intros P T tgt Hn Hnc Htgt. induction T2 as [|[n s] T2 IH]; intros T1 HT Ht Hin cur Hcur k seen; [contradiction|].
  assert (HT' : T = (T1 ++ [(n, s)]) ++ T2) by (rewrite <- app_assoc; exact HT).
  assert (Hin' : In tgt (keys (T1 ++ [(n, s)]))) by (rewrite keys_app; apply in_or_app; now left).
  simpl in Ht. destruct Ht as [Hlink Ht].
  assert (Hdisj : forall x, In x (keys T1) -> In x (keys ((n, s) :: T2)) -> False).
  { intros x H1 H2. rewrite HT, keys_app in Hn. revert H1 H2. clear - Hn.
    induction (keys T1) as [|y l IHl]; simpl in *; intros H1 H2; [contradiction|].
    inversion Hn as [|? ? Hy Hl]; subst. destruct H1 as [<-|H1].
    - apply Hy. apply in_or_app. now right.
    - now apply IHl. }
  destruct Hcur as [Hc|Hc]; [|now apply (IH _ HT' Ht Hin')].
  simpl in Hc. subst cur. destruct k as [|k]; [discriminate|]. simpl.
  destruct (N.eqb n tgt) eqn:E.
  { apply N.eqb_eq in E. subst. exfalso. apply (Hdisj tgt); auto. now left. }
  destruct (mem n seen); [discriminate|].
  assert (Ha : assoc n T = Some s).
  { rewrite HT. rewrite assoc_app_notin.
    - simpl. now rewrite N.eqb_refl.
    - intros H. apply (Hdisj n); auto. now left. }
  rewrite Ha. destruct s as [| |[p|] f m|]; try discriminate.
  destruct (Hlink p f m eq_refl) as [Hp|Hp].
  - now apply (IH _ HT' Ht Hin').
  - destruct k as [|k]; [discriminate|]. simpl.
    destruct (N.eqb p tgt) eqn:E2.
    { apply N.eqb_eq in E2. subst. contradiction. }
    match goal with |- (if ?c then _ else _) <> _ => destruct c end; [discriminate|].
    destruct (assoc p T) as [[| |e f' m'|]|] eqn:Ep; try discriminate.
    exfalso. exact (Hnc p e f' m' Hp Ep).
Qed.

(* ---------------------------------------------------------------- whole programs *)
Lemma tord_all : forall P, extends_ordered P [] P = true -> tord P (collect_all P []).
Proof. intros P H. apply (tord_fold P P [] []); simpl; auto. Qed.

Lemma table_keys_nodup : forall P T, inv P P T -> NoDup (map dname P) -> NoDup (keys T).
Proof. intros P T [Hk _] Hn. rewrite Hk, map_rev. now apply NoDup_rev. Qed.

Lemma table_no_class : forall P T p e f m, inv P P T -> no_class P p -> assoc p T <> Some (SyClass e f m).
Proof.
  intros P T p e f m Hinv Hno Ha.
  destruct (inv_lookup_class P P T p _ Hinv (incl_refl _) Ha) as (dp & Hdp & Hname & Hg).
  specialize (Hno dp Hdp Hname). destruct dp; simpl in *; try discriminate.
  - destruct Hg as (? & ? & _). discriminate.
  - destruct Hg as (? & ? & ? & _). discriminate.
Qed.

Lemma extends_events_ok : forall P i n ext ads fs ms,
  strictP P -> In (DClass i n ext ads fs ms) P -> conforms_extends P ext ->
  extends_events (collect_all P []) n ext = [].
Proof.
  intros P i n ext ads fs ms HS Hd Hc. assert (Hw := sp_wf _ HS). destruct Hw as (Hb & Hto & Heo).
  destruct (wf_basic_split _ Hb) as [Hn Hwf]. assert (Hinv := inv_all P (sp_wf _ HS)).
  set (T := collect_all P []) in *.
  destruct ext as [b|]; [|reflexivity]. simpl in Hc. destruct Hc as (bi & be & bads & bfs & bms & Hdb).
  unfold extends_events.
  destruct (table_good _ _ _ Hinv Hdb) as (sb & Hab & _). simpl in Hab. rewrite Hab.
  destruct (table_good _ _ _ Hinv Hd) as (s & Ha & Hg). simpl in Ha, Hg. destruct Hg as (fm & mm & -> & _).
  assert (Hin := assoc_In _ _ _ _ Ha). apply in_split in Hin as (T1 & T2 & HT).
  assert (Ht : tord P T) by (apply tord_all; auto).
  rewrite HT in Ht. apply tord_app in Ht. destruct Ht as [Hlink Ht].
  destruct (Hlink b fm mm eq_refl) as [Hbk|Hno].
  - assert (Hnb : chain_reaches T (chain_fuel T) [] b n <> Some true).
    { apply (chain_never_back P T n (table_keys_nodup _ _ Hinv Hn)) with (T2 := T2) (T1 := T1 ++ [(n, SyClass (Some b) fm mm)]); auto.
      - intros p e f m. apply table_no_class; auto.
      - intros Hno. specialize (Hno _ Hd eq_refl). discriminate.
      - rewrite <- app_assoc. exact HT.
      - rewrite keys_app. apply in_or_app. right. now left. }
    destruct (chain_reaches T (chain_fuel T) [] b n) as [[|]|]; auto. contradiction.
  - specialize (Hno _ Hdb eq_refl). discriminate.
Qed.

Lemma in_main_all : forall p d, In d (dp_main p) -> In d (all_decls p).
Proof. intros p d H. unfold all_decls. apply in_or_app. now right. Qed.

Lemma adoption_events_iff : forall p d a,
  strict p = true -> In d (all_decls p) -> In a (adoptions d) ->
  (adoption_events (table_of p) d a = [] <-> conforms_adoption (all_decls p) (dname d) (snd a)).
Proof.
  intros p d a Hs Hd Ha. assert (HS := strict_strictP _ Hs). assert (Hinv := inv_all _ (sp_wf _ HS)).
  destruct d; simpl in Ha; try contradiction; simpl.
  - eapply adopt_model_iff; eauto.
  - eapply adopt_class_iff; eauto.
Qed.

Lemma adoption_events_in : forall p d a e,
  In d (dp_main p) -> In a (adoptions d) -> In e (adoption_events (table_of p) d a) -> In e (dcheck p).
Proof.
  intros p d a e Hd Ha He. unfold dcheck. apply in_flat_map. exists d. split; auto.
  destruct d; simpl in *; try contradiction.
  - apply in_flat_map. eauto.
  - apply in_or_app. right. apply in_flat_map. eauto.
Qed.

Lemma adoption_events_at : forall T d a e,
  In a (adoptions d) -> In e (adoption_events T d a) -> In (snd e) (decl_ids d).
Proof.
  intros T d a e Ha He. destruct d; simpl in *; try contradiction.
  - right. apply adopt_model_at in He as [->|(f & Hf & ->)].
    + apply in_or_app. left. now apply in_map.
    + apply in_or_app. right. apply in_or_app. left. apply in_flat_map. exists f. split; auto. right. now left.
  - right. apply adopt_class_at in He. rewrite He. apply in_or_app. left. now apply in_map.
Qed.

Lemma adoption_sound : forall p d a,
  strict p = true -> In d (dp_main p) -> In a (adoptions d) ->
  violates_adoption (all_decls p) (dname d) (snd a) ->
  exists e, In e (adoption_events (table_of p) d a) /\ In e (dcheck p) /\ In (snd e) (decl_ids d).
Proof.
  intros p d a Hs Hd Ha Hv.
  destruct (adoption_events (table_of p) d a) as [|e l] eqn:E.
  - exfalso. apply Hv. apply (adoption_events_iff p d a Hs (in_main_all _ _ Hd) Ha). exact E.
  - exists e. split; [now left|]. split.
    + apply (adoption_events_in p d a); auto. rewrite E. now left.
    + apply (adoption_events_at (table_of p) d a); auto. rewrite E. now left.
Qed.

Lemma call_in : forall p d c e,
  In d (dp_main p) -> In c (calls d) -> In e (call_events (table_of p) c) -> In e (dcheck p).
Proof.
  intros p d c e Hd Hc He. unfold dcheck. apply in_flat_map. exists d. split; auto.
  destruct d; simpl in *; try contradiction. apply in_flat_map. eauto.
Qed.

Lemma call_ids_in_decl : forall d c x, In c (calls d) -> In x (call_ids c) -> In x (decl_ids d).
Proof.
  intros d c x Hc Hx. destruct d; simpl in *; try contradiction. right. apply in_flat_map. eauto.
Qed.

Lemma ctor_iff : forall p d c,
  strict p = true -> In d (all_decls p) -> In c (calls d) ->
  (call_events (table_of p) c = [] <-> conforms_ctor (all_decls p) c).
Proof.
  intros p d c Hs Hd Hc. assert (HS := strict_strictP _ Hs). assert (Hinv := inv_all _ (sp_wf _ HS)).
  eapply call_iff; eauto.
Qed.

Lemma ctor_sound : forall p d c,
  strict p = true -> In d (dp_main p) -> In c (calls d) -> violates_ctor (all_decls p) c ->
  exists e, In e (call_events (table_of p) c) /\ In e (dcheck p) /\ In (snd e) (call_ids c) /\ In (snd e) (decl_ids d).
Proof.
  intros p d c Hs Hd Hc Hv.
  destruct (call_events (table_of p) c) as [|e l] eqn:E.
  - exfalso. apply Hv. apply (ctor_iff p d c Hs (in_main_all _ _ Hd) Hc). exact E.
  - assert (He : In e (call_events (table_of p) c)) by (rewrite E; now left).
    exists e. split; [now left|]. split; [eapply call_in; eauto|].
    assert (Hid := call_events_at _ _ _ He). split; auto. eapply call_ids_in_decl; eauto.
Qed.

Lemma extends_sound : forall p d,
  strict p = true -> In d (dp_main p) -> ~ conforms_extends (all_decls p) (ext_of d) ->
  In (DUnknown, 0%N) (dcheck p).
Proof.
  intros p d Hs Hd Hv. assert (HS := strict_strictP _ Hs). assert (Hinv := inv_all _ (sp_wf _ HS)).
  assert (Hd' := in_main_all _ _ Hd).
  destruct (kinds_ok_decl _ _ (sp_kinds _ HS) Hd') as (_ & H2 & _).
  destruct d as [| |i n [b|] ads fs ms| |]; simpl in Hv; try (exfalso; apply Hv; exact I).
  destruct (H2 b eq_refl) as [H|H].
  - apply declared_false in H. apply (table_none _ _ _ Hinv) in H.
    unfold dcheck. apply in_flat_map. exists (DClass i n (Some b) ads fs ms). split; auto.
    simpl. apply in_or_app. left. unfold table_of. rewrite H. now left.
  - exfalso. apply Hv. apply declared_as_true in H as (db & Hdb & Hname & Hc).
    destruct db; try discriminate. simpl in Hname. subst. eauto 8.
Qed.

Lemma conforming_accepted : forall p,
  strict p = true ->
  (forall d a, In d (dp_main p) -> In a (adoptions d) -> conforms_adoption (all_decls p) (dname d) (snd a)) ->
  (forall d c, In d (dp_main p) -> In c (calls d) -> conforms_ctor (all_decls p) c) ->
  (forall d, In d (dp_main p) -> conforms_extends (all_decls p) (ext_of d)) ->
  dcheck p = [].
Proof.
  intros p Hs Had Hct Hex. assert (HS := strict_strictP _ Hs).
  unfold dcheck. apply flat_map_nil_iff. intros d Hd. assert (Hd' := in_main_all _ _ Hd).
  destruct d as [i n rqs ms|i n ads fs ms|i n ext ads fs ms|i n|i n cs]; simpl; auto.
  - apply flat_map_nil_iff. intros a Ha.
    apply (adoption_events_iff p (DModel i n ads fs ms) a Hs Hd' Ha). now apply Had.
  - apply app_nil_intro.
    + unfold table_of. eapply extends_events_ok; eauto. apply (Hex _ Hd).
    + apply flat_map_nil_iff. intros a Ha.
      apply (adoption_events_iff p (DClass i n ext ads fs ms) a Hs Hd' Ha). now apply Had.
  - apply flat_map_nil_iff. intros c Hc. apply (ctor_iff p (DFun i n cs) c Hs Hd' Hc). eapply Hct; eauto.
Qed.

Lemma accepted_conforms : forall p,
  strict p = true -> dcheck p = [] ->
  (forall d a, In d (dp_main p) -> In a (adoptions d) -> conforms_adoption (all_decls p) (dname d) (snd a)) /\
  (forall d c, In d (dp_main p) -> In c (calls d) -> conforms_ctor (all_decls p) c).
Proof.
  intros p Hs H0. split.
  - intros d a Hd Ha. apply (adoption_events_iff p d a Hs (in_main_all _ _ Hd) Ha).
    destruct (adoption_events (table_of p) d a) as [|e l] eqn:E; auto.
    assert (In e (dcheck p)) by (apply (adoption_events_in p d a); auto; rewrite E; now left).
    rewrite H0 in H. contradiction.
  - intros d c Hd Hc. apply (ctor_iff p d c Hs (in_main_all _ _ Hd) Hc).
    destruct (call_events (table_of p) c) as [|e l] eqn:E; auto.
    assert (In e (dcheck p)) by (apply (call_in p d c); auto; rewrite E; now left).
    rewrite H0 in H. contradiction.
Qed.

(* ---------------------------------------------------------------- witnesses (all replayed on /repo) *)
Open Scope N_scope.

Definition sig_self_int : msig := {| ms_recv := RSelf; ms_async := false; ms_params := []; ms_ret := TInt |}.

Ltac in_cases H := simpl in H; repeat (destruct H as [H|H]; [try discriminate|]); try contradiction.

(* @requires(a1: M2) trait T1: pass   model M2: a2: int   class C3 with T1: a1: int *)
Definition w_fwdref : dprogram := {| dp_deps := []; dp_main :=
  [ DTrait 1 1 [Build_req 1 (TNamed 102)] [];
    DModel 2 102 [] [Build_fld 3 4 2 TInt false] [];
    DClass 5 203 None [(6, 1)] [Build_fld 7 8 1 TInt false] [] ] |}.

Lemma w_fwdref_refutes :
  dcheck w_fwdref = [] /\ violates_adoption (all_decls w_fwdref) 203 1 /\
  class_flags w_fwdref = [true; false; true; true; true].
Proof.
  split; [vm_compute; reflexivity|]. split; [|vm_compute; reflexivity].
  intros (i & rqs & tms & Hin & Hreq & _). in_cases Hin; inversion Hin; subst.
  destruct (Hreq _ (or_introl eq_refl)) as (f & Htf & _ & Hty). simpl in Hty.
  destruct Htf as [(i' & ads & fs & ms & Hd & Hf)|Hcf].
  - in_cases Hd; inversion Hd.
  - inversion Hcf as [i0 n0 e0 a0 fs0 ms0 f0 Hd Hf|i0 n0 p0 a0 fs0 ms0 f0 Hd _ _]; subst.
    + in_cases Hd; inversion Hd; subst; in_cases Hf; subst f; discriminate.
    + in_cases Hd; inversion Hd.
Qed.

(* model M1: a1: M2   model M2: a2: int   def fn1(): w1 = M1(a1=1) *)
Definition w_fwdfield : dprogram := {| dp_deps := []; dp_main :=
  [ DModel 1 101 [] [Build_fld 2 3 1 (TNamed 102) false] [];
    DModel 4 102 [] [Build_fld 5 6 2 TInt false] [];
    DFun 7 401 [Build_call 8 9 101 [Build_arg (Some 1) 10 TInt]] ] |}.

Lemma w_fwdfield_refutes :
  dcheck w_fwdfield = [] /\ violates_ctor (all_decls w_fwdfield) (Build_call 8 9 101 [Build_arg (Some 1) 10 TInt]) /\
  class_flags w_fwdfield = [true; false; true; true; true].
Proof.
  split; [vm_compute; reflexivity|]. split; [|vm_compute; reflexivity].
  intros (_ & Hall & _). destruct (Hall _ (or_introl eq_refl)) as (f & Htf & _ & Hty). simpl in Hty.
  destruct Htf as [(i' & ads & fs & ms & Hd & Hf)|Hcf].
  - in_cases Hd; inversion Hd; subst; in_cases Hf; subst f; discriminate.
  - inversion Hcf as [i0 n0 e0 a0 fs0 ms0 f0 Hd Hf|i0 n0 p0 a0 fs0 ms0 f0 Hd _ _]; subst; in_cases Hd.
Qed.

(* class C3 extends C4: a2: int   class C4: a1: int   def fn1(): w1 = C3(a2=2)   — a1 is missing *)
Definition w_fwdext_decls (c : call) : dprogram := {| dp_deps := []; dp_main :=
  [ DClass 1 203 (Some 204) [] [Build_fld 2 3 2 TInt false] [];
    DClass 4 204 None [] [Build_fld 5 6 1 TInt false] [];
    DFun 7 401 [c] ] |}.
Definition c_fwdext_missing : call := Build_call 8 9 203 [Build_arg (Some 2) 10 TInt].
Definition c_fwdext_full : call := Build_call 8 9 203 [Build_arg (Some 1) 11 TInt; Build_arg (Some 2) 10 TInt].

Lemma w_fwdext_refutes :
  dcheck (w_fwdext_decls c_fwdext_missing) = [] /\
  violates_ctor (all_decls (w_fwdext_decls c_fwdext_missing)) c_fwdext_missing /\
  class_flags (w_fwdext_decls c_fwdext_missing) = [true; true; false; true; true].
Proof.
  split; [vm_compute; reflexivity|]. split; [|vm_compute; reflexivity].
  intros (_ & _ & _ & Hmiss).
  assert (H : In 1 (arg_names (c_args c_fwdext_missing))).
  { apply (Hmiss (Build_fld 5 6 1 TInt false)); [|reflexivity]. right.
    apply (CF_inh _ 1 203 204 [] [Build_fld 2 3 2 TInt false] []).
    - simpl. now left.
    - apply (CF_own _ 4 204 None [] [Build_fld 5 6 1 TInt false] []); simpl; auto.
    - simpl. intros [H|[]]. discriminate. }
  in_cases H.
Qed.

(* the same declarations with the complete call C3(a1=1, a2=2): conforming, and rejected ("no field a1") *)
Lemma w_fwdext_false_rejection :
  conforms_ctor (all_decls (w_fwdext_decls c_fwdext_full)) c_fwdext_full /\
  dcheck (w_fwdext_decls c_fwdext_full) = [(DNoField, 11)].
Proof.
  split; [|vm_compute; reflexivity].
  assert (Hown : class_field (all_decls (w_fwdext_decls c_fwdext_full)) 203 (Build_fld 2 3 2 TInt false)).
  { apply (CF_own _ 1 203 (Some 204) [] [Build_fld 2 3 2 TInt false] []); simpl; auto. }
  assert (Hinh : class_field (all_decls (w_fwdext_decls c_fwdext_full)) 203 (Build_fld 5 6 1 TInt false)).
  { apply (CF_inh _ 1 203 204 [] [Build_fld 2 3 2 TInt false] []).
    - simpl. now left.
    - apply (CF_own _ 4 204 None [] [Build_fld 5 6 1 TInt false] []); simpl; auto.
    - simpl. intros [H|[]]. discriminate. }
  split; [right; exists 1, (Some 204), [], [Build_fld 2 3 2 TInt false], []; simpl; now left|].
  split; [|split].
  - intros a Ha. in_cases Ha; subst a.
    + exists (Build_fld 5 6 1 TInt false). split; [now right|]. auto.
    + exists (Build_fld 2 3 2 TInt false). split; [now right|]. auto.
  - simpl. repeat constructor; simpl; intuition discriminate.
  - intros f Htf _. destruct Htf as [(i' & ads & fs & ms & Hd & Hf)|Hcf]; [in_cases Hd|].
    inversion Hcf as [i0 n0 e0 a0 fs0 ms0 f0 Hd Hf|i0 n0 p0 a0 fs0 ms0 f0 Hd Hp _]; subst.
    + in_cases Hd; inversion Hd; subst; in_cases Hf; subst f; simpl; auto.
    + in_cases Hd. inversion Hd; subst.
      inversion Hp as [i1 n1 e1 a1 fs1 ms1 f1 Hd1 Hf1|i1 n1 p1 a1 fs1 ms1 f1 Hd1 _ _]; subst.
      * in_cases Hd1; inversion Hd1; subst; in_cases Hf1; subst f; simpl; auto.
      * in_cases Hd1; inversion Hd1.
Qed.

(* model M2: a1: int   model M1 with M2: a1: int *)
Definition w_kind : dprogram := {| dp_deps := []; dp_main :=
  [ DModel 1 102 [] [Build_fld 2 3 1 TInt false] [];
    DModel 4 101 [(5, 102)] [Build_fld 6 7 1 TInt false] [] ] |}.

Lemma w_kind_refutes :
  dcheck w_kind = [] /\ violates_adoption (all_decls w_kind) 101 102 /\
  class_flags w_kind = [true; true; true; false; true].
Proof.
  split; [vm_compute; reflexivity|]. split; [|vm_compute; reflexivity].
  intros (i & rqs & tms & Hin & _). in_cases Hin.
Qed.

(* trait T1: def m1(self) -> int: ...   class C1 with T1: a1: int; def m1(self) -> int: ... *)
Definition w_abstract : dprogram := {| dp_deps := []; dp_main :=
  [ DTrait 1 1 [] [Build_meth 2 1 sig_self_int false];
    DClass 3 201 None [(4, 1)] [Build_fld 5 6 1 TInt false] [Build_meth 7 1 sig_self_int false] ] |}.

Lemma w_abstract_refutes :
  dcheck w_abstract = [] /\ violates_adoption (all_decls w_abstract) 201 1 /\
  class_flags w_abstract = [true; true; true; true; false].
Proof.
  split; [vm_compute; reflexivity|]. split; [|vm_compute; reflexivity].
  intros (i & rqs & tms & Hin & _ & Hm). in_cases Hin; inversion Hin; subst.
  destruct (Hm _ (or_introl eq_refl) eq_refl) as (m' & Htm & _ & _ & Hb).
  destruct Htm as [(i' & ads & fs & ms & Hd & Hf)|Hcm].
  - in_cases Hd.
  - inversion Hcm as [i0 n0 e0 a0 fs0 ms0 f0 Hd Hf|i0 n0 p0 a0 fs0 ms0 f0 Hd _ _]; subst.
    + in_cases Hd; inversion Hd; subst; in_cases Hf; subst m'; discriminate.
    + in_cases Hd; inversion Hd.
Qed.

(* class C2 extends X9: a1: int — strict; rejected, but the only diagnostic is at span 0..0 *)
Definition w_unlocated : dprogram := {| dp_deps := []; dp_main :=
  [ DClass 1 202 (Some 509) [] [Build_fld 2 3 1 TInt false] [] ] |}.

Lemma w_unlocated_refutes :
  strict w_unlocated = true /\ ~ conforms_extends (all_decls w_unlocated) (Some 509) /\
  dcheck w_unlocated = [(DUnknown, 0)] /\
  forall e d, In e (dcheck w_unlocated) -> In d (dp_main w_unlocated) -> ~ In (snd e) (decl_ids d).
Proof.
  split; [vm_compute; reflexivity|]. split; [|split; [vm_compute; reflexivity|]].
  - intros (i & e & ads & fs & ms & Hin). in_cases Hin.
  - intros e d He Hd. in_cases He. subst e. in_cases Hd. subst d. simpl. intros H. in_cases H.
Qed.

(* non-vacuity: a strict program in which everything conforms, and a strict one with a violation *)
Definition nv_decls (c1_meths : list meth) : dprogram := {| dp_deps := [DEnum 1 301]; dp_main :=
  [ DTrait 2 1 [Build_req 1 TInt] [Build_meth 3 1 sig_self_int false; Build_meth 4 2 sig_self_int true];
    DClass 5 201 None [] [Build_fld 6 7 1 TInt false] c1_meths;
    DClass 9 202 (Some 201) [(10, 1)] [Build_fld 11 12 2 TStr false] [];
    DModel 13 101 [(14, 1); (15, 1)] [Build_fld 16 17 1 TInt true] [Build_meth 18 1 sig_self_int true];
    DFun 19 401 [Build_call 20 21 202 [Build_arg (Some 2) 22 TStr; Build_arg (Some 1) 23 TInt]; Build_call 24 25 101 []] ] |}.

Definition nv_ok := nv_decls [Build_meth 8 1 sig_self_int true].
Definition nv_bad := nv_decls [].
