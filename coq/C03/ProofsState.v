(* C03/ProofsState.v — the verdict on a function does not depend on the bodies of the other
   functions (the walker model carries no state across declarations), and the name-keyed
   `mutable_bindings` mutant does *)
From Coq Require Import ZArith List Bool Lia.
From Verif Require Import C03.Model C03.ProofsBase C03.ProofsStmt C03.Witness.
Import ListNotations.
Open Scope N_scope.

(* the events of a function are determined by the declared types / signatures and its own body *)
Theorem fn_verdict_independent : forall fx deps p p' f,
  p_enums p = p_enums p' -> p_models p = p_models p' ->
  map fsig (p_funs p) = map fsig (p_funs p') ->
  check_fn fx (genv_of deps p) f = check_fn fx (genv_of deps p') f.
Proof.
  intros fx deps p p' f He Hm Hs. unfold genv_of. rewrite He, Hm, Hs. reflexivity.
Qed.

(* ... and a module's events are the concatenation of its functions' events, in order *)
Theorem prog_events_decompose : forall fx G p fs1 f fs2,
  events_prog fx G (with_funs p (fs1 ++ f :: fs2)) =
  events_prog fx G (with_funs p fs1) ++ check_fn fx G f ++ events_prog fx G (with_funs p fs2).
Proof.
  intros. unfold events_prog, with_funs. simpl. rewrite flat_map_app. simpl. reflexivity.
Qed.

(* def f1() -> None: mut v1 = 1          def f2(v1: int) -> None: v1 += 1 *)
Definition f_mutdecl : fdecl := mkfn 1 [] TUnit (BCons (SAssign 1 BMut 1 None (ELit 2 (LInt 1))) BNil).
Definition f_plain : fdecl := mkfn 1 [] TUnit (BCons (SAssign 1 BLet 1 None (ELit 2 (LInt 1))) BNil).
Definition f_bump : fdecl := mkfn 2 [(1, TInt)] TUnit (BCons (SCompound 3 1 Add (ELit 4 (LInt 1))) BNil).
Definition w_mutname : program := prog1 [] [f_mutdecl; f_bump].
Definition w_mutname' : program := prog1 [] [f_plain; f_bump].

(* the mutant accepts an ill-typed program the faithful model rejects with a located diagnostic,
   and its verdict on f_bump changes when only the BODY of the function before it changes *)
Theorem mutname_mutant_refuted :
  ~ ok (single w_mutname) /\
  In (KImmutable, 3) (check real (single w_mutname)) /\
  mutant_events real w_mutname = [] /\
  map fsig (p_funs w_mutname) = map fsig (p_funs w_mutname') /\
  In (KImmutable, 3) (mutant_events real w_mutname').
Proof.
  split; [intros H; crush|]. split; [vm_compute; auto|]. split; [reflexivity|]. split; [reflexivity|].
  vm_compute; auto.
Qed.

(* within a body: only binding statements change what the walker knows; every other statement
   (expression statements, compound assignments, if / while / for / match with all their nested
   blocks, return) leaves the scope chain exactly as it found it *)
Theorem scopes_only_by_bindings : forall fx G R S s,
  (forall i k x a e, s <> SAssign i k x a e) -> fst (check_stmt fx G R S s) = S.
Proof.
  intros fx G R S s H. destruct s.
  - exfalso. eapply H; eauto.
  - rewrite cs_compound. destruct (lookup S x) as [[tx m]|]; [destruct (check_expr fx G R S e)|]; reflexivity.
  - rewrite cs_if. reflexivity.
  - rewrite cs_while. reflexivity.
  - rewrite cs_for. destruct (check_expr fx G R S e). reflexivity.
  - rewrite cs_return. destruct oe; [destruct (check_expr fx G R S e)|]; reflexivity.
  - rewrite cs_expr. reflexivity.
  - rewrite cs_match. destruct (check_expr fx G R S e). reflexivity.
Qed.

(* hence the events raised for the statements that FOLLOW do not depend on it *)
Theorem non_binding_no_interference : forall fx G R S s b,
  (forall i k x a e, s <> SAssign i k x a e) ->
  check_block fx G R S (BCons s b) = snd (check_stmt fx G R S s) ++ check_block fx G R S b.
Proof.
  intros fx G R S s b H. rewrite cb_cons. assert (E := scopes_only_by_bindings fx G R S s H).
  destruct (check_stmt fx G R S s) as [S' ev]. simpl in *. subst. reflexivity.
Qed.
