(* C03/ProofsState.v — the verdict on a function does not depend on the bodies of the other
   functions (the walker model carries no state across declarations), and the name-keyed
   `mutable_bindings` mutant does *)
From Coq Require Import ZArith List Bool Lia.
From Verif Require Import C03.Model C03.ProofsBase C03.Witness.
Import ListNotations.
Open Scope N_scope.

(* the events of a function are determined by the declared types / signatures and its own body *)
Theorem fn_verdict_independent : forall fx deps p p' f,
  p_enums p = p_enums p' -> p_models p = p_models p' ->
  map fsig (p_funs p) = map fsig (p_funs p') ->
  check_fn fx (genv_of deps p) f = check_fn fx (genv_of deps p') f.
Proof.
  intros fx deps p p' f He Hm Hs. unfold genv_of. rewrite He, Hm, Hs. reflexivity.
Qed.

(* ... and a module's events are the concatenation of its functions' events, in order *)
Theorem prog_events_decompose : forall fx G p fs1 f fs2,
  events_prog fx G (with_funs p (fs1 ++ f :: fs2)) =
  events_prog fx G (with_funs p fs1) ++ check_fn fx G f ++ events_prog fx G (with_funs p fs2).
Proof.
  intros. unfold events_prog, with_funs. simpl. rewrite flat_map_app. simpl. reflexivity.
Qed.

(* def f1() -> None: mut v1 = 1          def f2(v1: int) -> None: v1 += 1 *)
Definition f_mutdecl : fdecl := mkfn 1 [] TUnit (BCons (SAssign 1 BMut 1 None (ELit 2 (LInt 1))) BNil).
Definition f_plain : fdecl := mkfn 1 [] TUnit (BCons (SAssign 1 BLet 1 None (ELit 2 (LInt 1))) BNil).
Definition f_bump : fdecl := mkfn 2 [(1, TInt)] TUnit (BCons (SCompound 3 1 Add (ELit 4 (LInt 1))) BNil).
Definition w_mutname : program := prog1 [] [f_mutdecl; f_bump].
Definition w_mutname' : program := prog1 [] [f_plain; f_bump].

(* the mutant accepts an ill-typed program the faithful model rejects with a located diagnostic,
   and its verdict on f_bump changes when only the BODY of the function before it changes *)
Theorem mutname_mutant_refuted :
  ~ ok (single w_mutname) /\
  In (KImmutable, 3) (check real (single w_mutname)) /\
  mutant_events real w_mutname = [] /\
  map fsig (p_funs w_mutname) = map fsig (p_funs w_mutname') /\
  In (KImmutable, 3) (mutant_events real w_mutname').
Proof.
  split; [intros H; crush|]. split; [vm_compute; auto|]. split; [reflexivity|]. split; [reflexivity|].
  vm_compute; auto.
Qed.
