(* C03/PropsDecls.v — the DECLARATION-level property theorems of C03, and nothing else.
   dcheck p              the faithful model of what the real checker reports for trait adoption
                         (`with T1, T2` on models and classes), `extends`, constructor calls
                         (C03/Decls.v; tied to /repo on every run)
   conforms_adoption     the documented rule: the adopted name is a trait of the program, every
   conforms_ctor         @requires field exists (own / inherited) with that type, every method without
   conforms_extends      a body is implemented (own / inherited) with that signature; T(f=e,..) names
                         each field once, with a value of its type, and all fields without default
   strict p              boolean: unique declaration / member names, ground types (true of all source
                         text), and the complement of the four known classes below
   Known_C03_fwdref      a type name is used before its declaration         (forward-type-unchecked)
   Known_C03_fwdext      `extends` a class declared later                   (forward-extends-ignored)
   Known_C03_kind        `with X` / `extends X` / `X(..)`, X declared but of another kind (adoption-kind-unchecked)
   Known_C03_abstract    a model / class method whose body is `...`         (abstract-impl-accepted) *)
From Coq Require Import ZArith List Bool.
From Verif Require Import C03.Ast C03.Checker C03.Decls C03.ProofsDecls.
Import ListNotations.
Open Scope N_scope.

(* hypotheses are satisfiable: a strict program (dependency module + trait with @requires, a required
   and a default method + class chain with an inherited implementation + model adopting the trait
   twice + constructor calls) in which everything conforms and which is accepted; and the same
   program without the inherited implementation: still strict, violating, rejected *)
Example C03_decls_nonvacuous :
  strict nv_ok = true /\ dcheck nv_ok = [] /\
  conforms_adoption (all_decls nv_ok) 202 1 /\
  strict nv_bad = true /\ violates_adoption (all_decls nv_bad) 202 1 /\ dcheck nv_bad = [(DMissingMethod, 10)].
Proof.
  assert (Hs : strict nv_ok = true) by (vm_compute; reflexivity).
  assert (H0 : dcheck nv_ok = []) by (vm_compute; reflexivity).
  assert (Hs' : strict nv_bad = true) by (vm_compute; reflexivity).
  split; [exact Hs|]. split; [exact H0|]. split.
  - apply (proj1 (accepted_conforms nv_ok Hs H0) (DClass 9 202 (Some 201) [(10, 1)] [Build_fld 11 12 2 TStr false] []) (10, 1));
      simpl; auto.
  - split; [exact Hs'|]. split; [|vm_compute; reflexivity].
    intros Hc.
    assert (Hin : In (DClass 9 202 (Some 201) [(10, 1)] [Build_fld 11 12 2 TStr false] []) (all_decls nv_bad))
      by (simpl; auto).
    apply (adoption_events_iff nv_bad _ (10, 1) Hs' Hin (or_introl eq_refl)) in Hc.
    vm_compute in Hc. discriminate.
Qed.

(* D1  soundness, adoption: in a strict program, a `with T` that violates the documented rule (T not
       a trait; a @requires field missing or of another type; a required method missing, with
       another signature or without a body — own or inherited members counted) makes the checker
       model report an event for that very `with` item, located inside the adopting declaration *)
Theorem C03_adoption_sound : forall p d a,
  strict p = true -> In d (dp_main p) -> In a (adoptions d) ->
  violates_adoption (all_decls p) (dname d) (snd a) ->
  exists e, In e (adoption_events (table_of p) d a) /\ In e (dcheck p) /\ In (snd e) (decl_ids d).
Proof. exact adoption_sound. Qed.
Print Assumptions C03_adoption_sound.

(* D2  no false rejection, adoption: the events of a `with` item are empty EXACTLY when it conforms *)
Theorem C03_adoption_exact : forall p d a,
  strict p = true -> In d (all_decls p) -> In a (adoptions d) ->
  (adoption_events (table_of p) d a = [] <-> conforms_adoption (all_decls p) (dname d) (snd a)).
Proof. exact adoption_events_iff. Qed.
Print Assumptions C03_adoption_exact.

(* D3  soundness, constructor calls: a call T(...) with a missing, duplicate or unknown field, a
       positional argument, a value of another type, or an undeclared T is reported, inside the call *)
Theorem C03_ctor_sound : forall p d c,
  strict p = true -> In d (dp_main p) -> In c (calls d) -> violates_ctor (all_decls p) c ->
  exists e, In e (call_events (table_of p) c) /\ In e (dcheck p) /\
            In (snd e) (call_ids c) /\ In (snd e) (decl_ids d).
Proof. exact ctor_sound. Qed.
Print Assumptions C03_ctor_sound.

(* D4  no false rejection, constructor calls *)
Theorem C03_ctor_exact : forall p d c,
  strict p = true -> In d (all_decls p) -> In c (calls d) ->
  (call_events (table_of p) c = [] <-> conforms_ctor (all_decls p) c).
Proof. exact ctor_iff. Qed.
Print Assumptions C03_ctor_exact.

(* D5  `extends` of a name that is not a class of the program is reported ... *)
Theorem C03_extends_sound : forall p d,
  strict p = true -> In d (dp_main p) -> ~ conforms_extends (all_decls p) (ext_of d) ->
  In (DUnknown, 0) (dcheck p).
Proof. exact extends_sound. Qed.
Print Assumptions C03_extends_sound.

(* D5r ... but NOT inside the declaration: the diagnostic carries Span::default() *)
Theorem C03_extends_unlocated_refuted :
  exists p, strict p = true /\ (exists d, In d (dp_main p) /\ ~ conforms_extends (all_decls p) (ext_of d)) /\
            dcheck p <> [] /\
            forall e d, In e (dcheck p) -> In d (dp_main p) -> ~ In (snd e) (decl_ids d).
Proof.
  exists w_unlocated. destruct w_unlocated_refutes as (Hs & Hv & H0 & Hl).
  split; [exact Hs|]. split; [|split; [rewrite H0; discriminate|exact Hl]].
  eexists. split; [left; reflexivity|exact Hv].
Qed.
Print Assumptions C03_extends_unlocated_refuted.

(* D6  whole programs, both directions: a strict program in which every adoption, constructor call
       and `extends` of the main module conforms is accepted (in particular no "cyclic extends"
       report: the chain of an ordered program never comes back) ... *)
Theorem C03_conforming_accepted : forall p,
  strict p = true ->
  (forall d a, In d (dp_main p) -> In a (adoptions d) -> conforms_adoption (all_decls p) (dname d) (snd a)) ->
  (forall d c, In d (dp_main p) -> In c (calls d) -> conforms_ctor (all_decls p) c) ->
  (forall d, In d (dp_main p) -> conforms_extends (all_decls p) (ext_of d)) ->
  dcheck p = [].
Proof. exact conforming_accepted. Qed.
Print Assumptions C03_conforming_accepted.

(* ... and an accepted strict program violates none of the rules *)
Theorem C03_accepted_conforms : forall p,
  strict p = true -> dcheck p = [] ->
  (forall d a, In d (dp_main p) -> In a (adoptions d) -> conforms_adoption (all_decls p) (dname d) (snd a)) /\
  (forall d c, In d (dp_main p) -> In c (calls d) -> conforms_ctor (all_decls p) c).
Proof. exact accepted_conforms. Qed.
Print Assumptions C03_accepted_conforms.

(* D7  the fuel given to the model of extends_chain_reaches always suffices *)
Theorem C03_chain_fuel_suffices : forall T b c, chain_reaches T (chain_fuel T) [] b c <> None.
Proof. exact chain_fuel_suffices. Qed.
Print Assumptions C03_chain_fuel_suffices.

(* D8  [strict] is exactly well-formed source outside the four known classes *)
Theorem C03_strict_complement : forall p,
  strict p = true <->
  wf_basic (all_decls p) = true /\ ~ Known_C03_fwdref p /\ ~ Known_C03_fwdext p /\ ~ Known_C03_kind p /\ ~ Known_C03_abstract p.
Proof.
  intros p. unfold strict, Known_C03_fwdref, Known_C03_fwdext, Known_C03_kind, Known_C03_abstract. cbv zeta.
  repeat rewrite andb_true_iff. repeat rewrite not_false_iff_true. tauto.
Qed.
Print Assumptions C03_strict_complement.

(* R1..R4  the faithful model refutes the rule in each class: well-formed source, only that class flag
   off, a violation, and NO event at all (every witness is replayed on /repo by the check) *)
Theorem C03_fwdref_adoption_refuted :
  exists p n t, dcheck p = [] /\ violates_adoption (all_decls p) n t /\ Known_C03_fwdref p /\
                class_flags p = [true; false; true; true; true].
Proof. exists w_fwdref, 203, 1. destruct w_fwdref_refutes as (a & b & c). repeat split; auto; vm_compute; reflexivity. Qed.
Print Assumptions C03_fwdref_adoption_refuted.

Theorem C03_fwdref_ctor_refuted :
  exists p c, dcheck p = [] /\ violates_ctor (all_decls p) c /\ Known_C03_fwdref p /\
              class_flags p = [true; false; true; true; true].
Proof. exists w_fwdfield. eexists. destruct w_fwdfield_refutes as (a & b & c). repeat split; eauto; vm_compute; reflexivity. Qed.
Print Assumptions C03_fwdref_ctor_refuted.

Theorem C03_fwdext_ctor_refuted :
  exists p c, dcheck p = [] /\ violates_ctor (all_decls p) c /\ Known_C03_fwdext p /\
              class_flags p = [true; true; false; true; true].
Proof. exists (w_fwdext_decls c_fwdext_missing), c_fwdext_missing. destruct w_fwdext_refutes as (a & b & c). repeat split; auto; vm_compute; reflexivity. Qed.
Print Assumptions C03_fwdext_ctor_refuted.

(* the same class also REJECTS a conforming call (false rejection) *)
Theorem C03_fwdext_false_rejection_refuted :
  exists p c, conforms_ctor (all_decls p) c /\ In c (flat_map calls (dp_main p)) /\ dcheck p <> [] /\ Known_C03_fwdext p.
Proof.
  exists (w_fwdext_decls c_fwdext_full), c_fwdext_full. destruct w_fwdext_false_rejection as (a & b).
  split; [exact a|]. split; [simpl; auto|]. split; [rewrite b; discriminate|vm_compute; reflexivity].
Qed.
Print Assumptions C03_fwdext_false_rejection_refuted.

Theorem C03_kind_refuted :
  exists p n t, dcheck p = [] /\ violates_adoption (all_decls p) n t /\ Known_C03_kind p /\
                class_flags p = [true; true; true; false; true].
Proof. exists w_kind, 101, 102. destruct w_kind_refutes as (a & b & c). repeat split; auto; vm_compute; reflexivity. Qed.
Print Assumptions C03_kind_refuted.

Theorem C03_abstract_refuted :
  exists p n t, dcheck p = [] /\ violates_adoption (all_decls p) n t /\ Known_C03_abstract p /\
                class_flags p = [true; true; true; true; false].
Proof. exists w_abstract, 201, 1. destruct w_abstract_refutes as (a & b & c). repeat split; auto; vm_compute; reflexivity. Qed.
Print Assumptions C03_abstract_refuted.
