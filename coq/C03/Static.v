(* C03/Static.v — the DOCUMENTED static rules of the fragment as an inductive judgement.
   Sources (workspaces/docs-site/docs): RFC 000 §1.1 (type mismatches fail at compile time),
   §1.2/§4.1 (immutable by default, `mut` for reassignment, LHS type = RHS type), §1.4/§4.2/§4.5
   (`?` needs a Result operand and an enclosing function returning Result[_, E] with the same E),
   §1.9 + explanation/enums.md (match is exhaustive; `_` covers the rest; guards are conditions),
   explanation/scopes_and_name_resolution.md (block scopes for if/elif/else/while/for bodies;
   `let`/`mut` always introduce a new binding in the current scope; plain `x = e` is a
   reassignment if x exists in ANY enclosing scope and then needs `mut`, otherwise a new immutable
   binding), tutorials/book/10 (constructors take keyword arguments matching the declared fields),
   reference/numeric_semantics.md (arithmetic is defined on numeric operands), how-to/error_messages.md
   (conditions are bool).  Nothing here is taken from the checker.  Types in judgements are
   ground (no TUnk): `None`, `Ok(e)`, `Err(e)` may take any ground instance.
   Only neutral table/scope helpers (assoc, lookup, define, ground, pat_binds) are shared with
   Checker.v. *)
From Coq Require Import ZArith List Bool.
From Verif Require Import C03.Ast C03.Checker.
Import ListNotations.

Fixpoint arg_names (xs : args) : list name :=
  match xs with
  | ANil => []
  | ACons (Some n) _ r => n :: arg_names r
  | ACons None _ r => arg_names r
  end.

Section Rules.
Variable G : genv.
Variable R : ty.      (* declared return type of the enclosing function *)

Inductive has_type (S : scopes) : expr -> ty -> Prop :=
| T_Int : forall i z, has_type S (ELit i (LInt z)) TInt
| T_Bool : forall i b, has_type S (ELit i (LBool b)) TBool
| T_Str : forall i s, has_type S (ELit i (LStr s)) TStr
| T_None : forall i t, ground t = true -> has_type S (ELit i LNone) (TOpt t)
| T_Var : forall i x t m, lookup S x = Some (t, m) -> has_type S (EVar i x) t
| T_Neg : forall i a, has_type S a TInt -> has_type S (EUn i Neg a) TInt
| T_Not : forall i a, has_type S a TBool -> has_type S (EUn i Not a) TBool
| T_Arith : forall i op a b, has_type S a TInt -> has_type S b TInt -> has_type S (EBin i (BArith op) a b) TInt
| T_Concat : forall i a b, has_type S a TStr -> has_type S b TStr -> has_type S (EBin i (BArith Add) a b) TStr
| T_Cmp : forall i a b t, has_type S a t -> has_type S b t -> has_type S (EBin i BCmp a b) TBool
| T_Logic : forall i a b ta tb, has_type S a ta -> has_type S b tb -> has_type S (EBin i BLogic a b) TBool
| T_Call : forall i ci f xs ps r,
    assoc f (g_funs G) = Some (ps, r) -> args_typed S xs ps -> has_type S (ECall i ci f xs) r
| T_Print : forall i xs, args_any S xs -> has_type S (EPrint i xs) TUnit
| T_Ctor : forall i ci m xs flds,
    assoc m (g_models G) = Some flds ->
    fields_typed S flds xs ->
    NoDup (arg_names xs) ->
    (forall f, In f (map fst flds) -> In f (arg_names xs)) ->
    has_type S (ECtor i ci m xs) (TNamed m)
| T_Variant : forall i bi en v vs,
    assoc en (g_enums G) = Some vs -> In v vs -> has_type S (EVariant i bi en v) (TNamed en)
| T_Field : forall i a fld m flds t,
    has_type S a (TNamed m) -> assoc m (g_models G) = Some flds -> assoc fld flds = Some t ->
    has_type S (EField i a fld) t
| T_Try : forall i a t e t',
    has_type S a (TRes t e) -> R = TRes t' e -> has_type S (ETry i a) t
| T_Some : forall i a t, has_type S a t -> has_type S (ESome i a) (TOpt t)
| T_Ok : forall i a t e, has_type S a t -> ground e = true -> has_type S (EOk i a) (TRes t e)
| T_Err : forall i a t e, has_type S a e -> ground t = true -> has_type S (EErr i a) (TRes t e)
with args_typed (S : scopes) : args -> list ty -> Prop :=
| AT_nil : args_typed S ANil []
| AT_cons : forall a r p ps, has_type S a p -> args_typed S r ps -> args_typed S (ACons None a r) (p :: ps)
with args_any (S : scopes) : args -> Prop :=
| AA_nil : args_any S ANil
| AA_cons : forall nm a r t, has_type S a t -> args_any S r -> args_any S (ACons nm a r)
with fields_typed (S : scopes) : list (name * ty) -> args -> Prop :=
| FT_nil : forall flds, fields_typed S flds ANil
| FT_cons : forall flds n a r t,
    assoc n flds = Some t -> has_type S a t -> fields_typed S flds r ->
    fields_typed S flds (ACons (Some n) a r).

(* a constructor pattern must belong to the subject's type *)
Definition pat_ok (t : ty) (p : pat) : Prop :=
  match p, t with
  | PWild, _ => True
  | PVariant en v, TNamed n => en = n /\ exists vs, assoc n (g_enums G) = Some vs /\ In v vs
  | PSome _, TOpt _ | PNone, TOpt _ | POk _, TRes _ _ | PErr _, TRes _ _ => True
  | _, _ => False
  end.

(* every variant of an enum / Option / Result subject is handled, or there is a wildcard *)
Definition covers (t : ty) (ps : list pat) : Prop :=
  In PWild ps \/
  match t with
  | TNamed n =>
      match assoc n (g_enums G) with
      | Some vs => forall v, In v vs -> In (PVariant n v) ps
      | None => True
      end
  | TOpt _ => (exists b, In (PSome b) ps) /\ In PNone ps
  | TRes _ _ => (exists b, In (POk b) ps) /\ (exists b, In (PErr b) ps)
  | _ => True
  end.

Inductive stmt_ok : scopes -> stmt -> scopes -> Prop :=
| S_New : forall S i k x ann e t,
    (k = BPlain -> lookup S x = None) ->
    has_type S e t -> ground t = true ->
    (forall a, ann = Some a -> a = t) ->
    stmt_ok S (SAssign i k x ann e) (define S x (t, is_mut k))
| S_Reassign : forall S i x e t,
    lookup S x = Some (t, true) -> has_type S e t ->
    stmt_ok S (SAssign i BPlain x None e) S
| S_CompoundInt : forall S i x o e,
    lookup S x = Some (TInt, true) -> has_type S e TInt -> stmt_ok S (SCompound i x o e) S
| S_CompoundStr : forall S i x e,
    lookup S x = Some (TStr, true) -> has_type S e TStr -> stmt_ok S (SCompound i x Add e) S
| S_If : forall S i c th el els,
    has_type S c TBool -> block_ok ([] :: S) th -> elifs_ok S el -> oblock_ok S els ->
    stmt_ok S (SIf i c th el els) S
| S_While : forall S i c b,
    has_type S c TBool -> block_ok ([] :: S) b -> stmt_ok S (SWhile i c b) S
| S_For : forall S i x e t b,
    has_type S e t -> block_ok ([(x, (TInt, false))] :: S) b -> stmt_ok S (SFor i x e b) S
| S_Return : forall S i e, has_type S e R -> stmt_ok S (SReturn i (Some e)) S
| S_ReturnUnit : forall S i, R = TUnit -> stmt_ok S (SReturn i None) S
| S_Expr : forall S i e t, has_type S e t -> stmt_ok S (SExpr i e) S
| S_Match : forall S i mi e t ar,
    has_type S e t -> ground t = true -> arms_ok S t ar -> covers t (arms_pats ar) ->
    stmt_ok S (SMatch i mi e ar) S
with block_ok : scopes -> block -> Prop :=
| B_nil : forall S, block_ok S BNil
| B_cons : forall S S' s b, stmt_ok S s S' -> block_ok S' b -> block_ok S (BCons s b)
with elifs_ok : scopes -> elifs -> Prop :=
| L_nil : forall S, elifs_ok S LNil
| L_cons : forall S c b r,
    has_type S c TBool -> block_ok ([] :: S) b -> elifs_ok S r -> elifs_ok S (LCons c b r)
with oblock_ok : scopes -> oblock -> Prop :=
| O_none : forall S, oblock_ok S ONone
| O_some : forall S b, block_ok ([] :: S) b -> oblock_ok S (OSome b)
with arms_ok : scopes -> ty -> arms -> Prop :=
| M_nil : forall S t, arms_ok S t MNil
| M_cons : forall S t pi p g b r,
    pat_ok t p ->
    (forall ge, g = Some ge -> has_type (pat_binds t p :: S) ge TBool) ->
    block_ok (pat_binds t p :: S) b ->
    arms_ok S t r ->
    arms_ok S t (MCons pi p g b r).

End Rules.

Definition fn_ok (G : genv) (f : fdecl) : Prop :=
  block_ok G (f_ret f) [param_scope f] (f_body f).

Definition prog_ok (G : genv) (p : program) : Prop := Forall (fn_ok G) (p_funs p).

Fixpoint deps_ok (before : list program) (ds : list program) : Prop :=
  match ds with
  | [] => True
  | d :: r => prog_ok (genv_of before d) d /\ deps_ok (before ++ [d]) r
  end.

(* a project is well typed when every module is *)
Definition ok (pj : project) : Prop :=
  deps_ok [] (pj_deps pj) /\ prog_ok (genv_of (pj_deps pj) (pj_main pj)) (pj_main pj).

(* declared types are ground (always true of source text: `?` cannot be written) *)
Definition genv_ground (G : genv) : Prop :=
  (forall f ps r, In (f, (ps, r)) (g_funs G) -> forallb ground ps = true /\ ground r = true) /\
  (forall m flds fld t, In (m, flds) (g_models G) -> In (fld, t) flds -> ground t = true).

Definition fn_ground (f : fdecl) : Prop :=
  forallb ground (map snd (f_params f)) = true /\ ground (f_ret f) = true.

Definition prog_ground (G : genv) (p : program) : Prop := genv_ground G /\ Forall fn_ground (p_funs p).

Fixpoint deps_ground (before : list program) (ds : list program) : Prop :=
  match ds with
  | [] => True
  | d :: r => prog_ground (genv_of before d) d /\ deps_ground (before ++ [d]) r
  end.

Definition WfDecls (pj : project) : Prop :=
  deps_ground [] (pj_deps pj) /\ prog_ground (genv_of (pj_deps pj) (pj_main pj)) (pj_main pj).
