(* C03/Checker.v — executable model of the traversal in
   src/frontend/typechecker/{check_decl.rs,check_stmt.rs,check_expr/*.rs} and symbols.rs for the
   MiniIncan fragment, arm by arm.  The record [fixes] switches on the small patches proposed
   for each finding; the FAITHFUL model of the current code is [real] (fx_elif and fx_guard on
   since the two repairs, everything else off): an arm the real walker lacks (argument/parameter
   comparison, `?` outside a Result function, ...) is lacking in it.
   Events are (kind, span id).  [KGhost] events are NOT diagnostics: they mark the places where
   the checker's permissive handling of ResolvedType::Unknown is exercised (a binding whose
   inferred type is not fully determined, field access on an Unknown receiver, ...); programs
   producing one are outside the fragment the theorems speak about ([Determined]). *)
From Coq Require Import ZArith List Bool.
From Verif Require Import C03.Ast.
Import ListNotations.

Inductive kind :=
| KUnknown        (* Unknown symbol *)
| KMismatch       (* Type mismatch *)
| KFieldMismatch  (* Cannot assign 'T' to field *)
| KImmutable      (* Cannot mutate - variable is immutable *)
| KTryNonResult   (* Cannot use '?' on type *)
| KTryErrType     (* Cannot use '?' here: function returns Result[_, E] but ... *)
| KNonExhaustive  (* Non-exhaustive match *)
| KMissingField   (* Missing required field when constructing *)
| KDupField       (* Duplicate constructor argument *)
| KNoField        (* Type has no field *)
| KPositional     (* positional constructor arguments not supported *)
| KArg            (* fix only: argument count/type does not match the parameters *)
| KTryFn          (* fix only: '?' in a function that does not return Result *)
| KPattern        (* fix only: pattern does not belong to the subject's type *)
| KGhost.         (* not a diagnostic, see above *)

Definition event := (kind * id)%type.

Definition is_ghost (e : event) : bool := match fst e with KGhost => true | _ => false end.
Definition is_err (e : event) : bool := negb (is_ghost e).

Record fixes := {
  fx_elif : bool;   (* visit elif conditions and bodies in check_if_stmt *)
  fx_guard : bool;  (* check match-arm guards (bool, in the arm scope) *)
  fx_outer : bool;  (* plain `x = e`: look the name up in ALL enclosing scopes (lookup, not lookup_local) *)
  fx_args : bool;   (* compare call arguments with the callee's parameters *)
  fx_tryfn : bool;  (* `?` requires the enclosing function to return Result *)
  fx_arith : bool;  (* arithmetic / compound assignment: the non-numeric partner must be Unknown *)
  fx_pat : bool;    (* constructor patterns must belong to the subject's type *)
  fx_deps : bool    (* check the bodies of dependency modules too *)
}.

(* the current walker: elif branches and match guards are visited since the repairs
   "type-check the conditions and bodies of elif branches" and "type-check match-arm guards" *)
Definition real : fixes := Build_fixes true true false false false false false false.
(* the walker before those two repairs (kept for the regression witnesses) *)
Definition unrepaired : fixes := Build_fixes false false false false false false false false.
Definition fixed : fixes := Build_fixes true true true true true true true true.

(* ---- types ---- *)
Fixpoint ty_eqb (a b : ty) : bool :=
  match a, b with
  | TInt, TInt | TBool, TBool | TStr, TStr | TUnit, TUnit | TUnk, TUnk => true
  | TNamed x, TNamed y => N.eqb x y
  | TOpt x, TOpt y => ty_eqb x y
  | TRes x1 x2, TRes y1 y2 => ty_eqb x1 y1 && ty_eqb x2 y2
  | _, _ => false
  end.

Fixpoint ground (t : ty) : bool :=
  match t with
  | TUnk => false
  | TOpt a => ground a
  | TRes a b => ground a && ground b
  | _ => true
  end.

(* TypeChecker::types_compatible(actual, expected) on the fragment's types *)
Fixpoint compat (a b : ty) : bool :=
  match a, b with
  | TUnk, _ => true
  | _, TUnk => true
  | TOpt x, TOpt y => compat x y
  | TRes x1 x2, TRes y1 y2 => compat x1 y1 && compat x2 y2
  | _, _ => ty_eqb a b
  end.

Definition is_int (t : ty) : bool := match t with TInt => true | _ => false end.
Definition is_str (t : ty) : bool := match t with TStr => true | _ => false end.
Definition is_unk (t : ty) : bool := match t with TUnk => true | _ => false end.

(* ---- tables ---- *)
Fixpoint assoc {A} (n : name) (l : list (name * A)) : option A :=
  match l with
  | [] => None
  | (k, v) :: r => if N.eqb n k then Some v else assoc n r
  end.

Definition mem (n : name) (l : list name) : bool := existsb (N.eqb n) l.

Record genv := {
  g_funs : list (name * (list ty * ty));
  g_models : list (name * list (name * ty));
  g_enums : list (name * list name)
}.

(* ---- symbols.rs: scope chain; a scope is the HashMap of the names defined in it ---- *)
Definition scope := list (name * (ty * bool)).      (* name -> (type, is_mutable); latest first *)
Definition scopes := list scope.                    (* innermost first *)

Definition lookup_local (S : scopes) (x : name) : option (ty * bool) :=
  match S with [] => None | sc :: _ => assoc x sc end.

Fixpoint lookup (S : scopes) (x : name) : option (ty * bool) :=
  match S with
  | [] => None
  | sc :: r => match assoc x sc with Some v => Some v | None => lookup r x end
  end.

Definition define (S : scopes) (x : name) (v : ty * bool) : scopes :=
  match S with [] => [[(x, v)]] | sc :: r => ((x, v) :: sc) :: r end.

(* per-argument result of check_call_args: (keyword, span of the value, its type, its events) *)
Definition argres := (option name * id * ty * list event)%type.

Definition ev_if (b : bool) (e : event) : list event := if b then [e] else [].

Section Chk.
Variable fx : fixes.
Variable G : genv.
Variable R : ty.          (* declared return type of the enclosing function *)

(* TypeChecker::current_return_error_type *)
Definition cur_err : option ty := match R with TRes _ e => Some e | _ => None end.

(* check_expr/ops.rs check_binary *)
Definition bin_ty (i : id) (o : binop) (ta tb : ty) : ty * list event :=
  match o with
  | BArith op =>
      let str_case :=
        match op with
        | Add => if is_str ta && is_str tb then Some (TStr, [])
                 else if is_str ta || is_str tb then Some (TUnk, [(KMismatch, i)]) else None
        | _ => None
        end in
      match str_case with
      | Some r => r
      | None =>
          if is_int ta && is_int tb then (TInt, [])
          else if is_int ta then
            (if fx_arith fx && negb (is_unk tb) then (TUnk, [(KMismatch, i)]) else (TInt, []))
          else if is_int tb then
            (if fx_arith fx && negb (is_unk ta) then (TUnk, [(KMismatch, i)]) else (TInt, []))
          else (TUnk, [(KMismatch, i)])
      end
  | BCmp => (TBool, ev_if (negb (compat ta tb)) (KMismatch, i))
  | BLogic => (TBool, [])
  end.

(* fix only: compare arguments with parameters *)
Fixpoint args_events (i : id) (ps : list ty) (rs : list argres) : list event :=
  match ps, rs with
  | [], [] => []
  | p :: ps', (None, ai, t, _) :: rs' => ev_if (negb (compat t p)) (KArg, ai) ++ args_events i ps' rs'
  | _, _ => [(KArg, i)]
  end.

(* calls.rs check_model_or_class_constructor_call, after check_call_args *)
Fixpoint ctor_loop (flds : list (name * ty)) (rs : list argres) (provided : list name) : list event * list name :=
  match rs with
  | [] => ([], provided)
  | (None, _, _, _) :: r => ctor_loop flds r provided
  | (Some n, ai, t, ev) :: r =>
      if mem n provided then
        let (e, p) := ctor_loop flds r provided in ((KDupField, ai) :: e, p)
      else
        match assoc n flds with
        | None => let (e, p) := ctor_loop flds r (n :: provided) in ((KNoField, ai) :: e, p)
        | Some ft =>
            let (e, p) := ctor_loop flds r (n :: provided) in
            (ev ++ ev_if (negb (compat t ft)) (KFieldMismatch, ai) ++ e, p)
        end
  end.

Definition is_positional (r : argres) : bool := match r with (None, _, _, _) => true | _ => false end.

Definition ctor_events (i : id) (flds : list (name * ty)) (rs : list argres) : list event :=
  if existsb is_positional rs then [(KPositional, i)]
  else
    let (e, provided) := ctor_loop flds rs [] in
    e ++ flat_map (fun f => ev_if (negb (mem (fst f) provided)) (KMissingField, i)) flds.

Definition args_evs (rs : list argres) : list event := flat_map (fun r => snd r) rs.

(* access.rs check_field on an already computed receiver type *)
Definition field_ty (i : id) (t : ty) (fld : name) : ty * list event :=
  match t with
  | TUnk => (TUnk, [(KGhost, i)])
  | TNamed m =>
      match assoc m (g_models G) with
      | Some flds =>
          match assoc fld flds with
          | Some ft => (ft, [])
          | None => (TUnk, [(KNoField, i)])
          end
      | None =>
          match assoc m (g_enums G) with
          | Some vs => if mem fld vs then (TNamed m, [(KGhost, i)]) else (TUnk, [(KNoField, i)])
          | None => (TUnk, [(KNoField, i)])
          end
      end
  | _ => (TUnk, [(KNoField, i)])
  end.

Fixpoint check_expr (S : scopes) (e : expr) : ty * list event :=
  match e with
  | ELit _ (LInt _) => (TInt, [])
  | ELit _ (LBool _) => (TBool, [])
  | ELit _ (LStr _) => (TStr, [])
  | ELit _ LNone => (TOpt TUnk, [])
  | EVar i x =>
      match lookup S x with
      | Some (t, _) => (t, [])
      | None => (TUnk, [(KUnknown, i)])
      end
  | EUn i Neg a =>
      let (t, ev) := check_expr S a in
      if compat t TInt then (TInt, ev) else (TUnk, ev ++ [(KMismatch, i)])
  | EUn i Not a =>
      let (t, ev) := check_expr S a in
      (TBool, ev ++ ev_if (negb (compat t TBool)) (KMismatch, i))
  | EBin i o a b =>
      let (ta, ea) := check_expr S a in
      let (tb, eb) := check_expr S b in
      let (t, e3) := bin_ty i o ta tb in
      (t, ea ++ eb ++ e3)
  | ECall i ci f xs =>
      let rs := check_args S xs in
      match assoc f (g_funs G) with
      | None => (TUnk, (KUnknown, ci) :: args_evs rs)
      | Some (ps, r) => (r, args_evs rs ++ (if fx_args fx then args_events i ps rs else []))
      end
  | EPrint _ xs => (TUnit, args_evs (check_args S xs))
  | ECtor i ci m xs =>
      let rs := check_args S xs in
      match assoc m (g_models G) with
      | None => (TUnk, (KUnknown, ci) :: args_evs rs)
      | Some flds => (TNamed m, args_evs rs ++ ctor_events i flds rs)
      end
  | EVariant i bi en v =>
      match assoc en (g_enums G) with
      | None => (TUnk, [(KUnknown, bi)])
      | Some vs => if mem v vs then (TNamed en, []) else (TUnk, [(KNoField, i)])
      end
  | EField i a fld =>
      let (t, ev) := check_expr S a in
      let (t', e2) := field_ty i t fld in
      (t', ev ++ e2)
  | ETry i a =>
      let (t, ev) := check_expr S a in
      match t with
      | TRes ok er =>
          (ok, ev ++ match cur_err with
                     | Some ee => ev_if (negb (compat er ee)) (KTryErrType, i)
                     | None => ev_if (fx_tryfn fx) (KTryFn, i)
                     end)
      | _ => (TUnk, ev ++ [(KTryNonResult, i)])
      end
  | ESome _ a => let (t, ev) := check_expr S a in (TOpt t, ev)
  | EOk _ a =>
      let (t, ev) := check_expr S a in
      (TRes t (match cur_err with Some ee => ee | None => TUnk end), ev)
  | EErr _ a => let (t, ev) := check_expr S a in (TRes TUnk t, ev)
  end
with check_args (S : scopes) (xs : args) : list argres :=
  match xs with
  | ANil => []
  | ACons nm a r => let (t, ev) := check_expr S a in (nm, eid a, t, ev) :: check_args S r
  end.

(* ---- match_.rs ---- *)
Inductive cov := CVar (v : name) | CSome | CNone | COk | CErr.

Definition cov_eqb (a b : cov) : bool :=
  match a, b with
  | CVar x, CVar y => N.eqb x y
  | CSome, CSome | CNone, CNone | COk, COk | CErr, CErr => true
  | _, _ => false
  end.

Definition is_opt (t : ty) : bool := match t with TOpt _ => true | _ => false end.

(* what check_match_exhaustiveness inserts into `covered` for one arm (guards are ignored) *)
Definition pat_cov (t : ty) (p : pat) : list cov :=
  match p with
  | PWild => []
  | PVariant _ v => [CVar v]
  | PSome _ => [CSome]
  | PNone => if is_opt t then [CNone] else []
  | POk _ => [COk]
  | PErr _ => [CErr]
  end.

Definition is_wild (p : pat) : bool := match p with PWild => true | _ => false end.

Fixpoint arms_pats (ar : arms) : list pat :=
  match ar with MNil => [] | MCons _ p _ _ r => p :: arms_pats r end.

Definition required (t : ty) : option (list cov) :=
  match t with
  | TNamed n => match assoc n (g_enums G) with Some vs => Some (map CVar vs) | None => None end
  | TRes _ _ => Some [COk; CErr]
  | TOpt _ => Some [CSome; CNone]
  | _ => None
  end.

Definition exhaustive (t : ty) (ps : list pat) : bool :=
  match required t with
  | None => true
  | Some req =>
      existsb is_wild ps ||
      forallb (fun c => existsb (cov_eqb c) (flat_map (pat_cov t) ps)) req
  end.

(* check_pattern: the bindings a pattern defines in the arm's scope *)
Definition pat_binds (t : ty) (p : pat) : scope :=
  match p with
  | PSome (Some x) => [(x, (match t with TOpt a => a | _ => TUnk end, false))]
  | POk (Some x) => [(x, (match t with TRes a _ => a | _ => TUnk end, false))]
  | PErr (Some x) => [(x, (match t with TRes _ b => b | _ => TUnk end, false))]
  | _ => []
  end.

(* fix only: does the pattern belong to the subject's type? *)
Definition pat_fits (t : ty) (p : pat) : bool :=
  match p, t with
  | PWild, _ => true
  | _, TUnk => true
  | PVariant en v, TNamed n =>
      N.eqb en n && match assoc n (g_enums G) with Some vs => mem v vs | None => false end
  | PSome _, TOpt _ | PNone, TOpt _ | POk _, TRes _ _ | PErr _, TRes _ _ => true
  | _, _ => false
  end.

Definition scope_ground (sc : scope) : bool := forallb (fun b => ground (fst (snd b))) sc.

(* compound assignment typing (check_stmt.rs, Statement::CompoundAssignment) *)
Definition compound_events (o : arith) (tx te : ty) (ei : id) : list event :=
  if is_int tx && is_int te then []
  else if fx_arith fx then
    (match o with
     | Add => if is_str tx && is_str te then [] else
              if (is_int tx || is_str tx) && is_unk te then [] else [(KMismatch, ei)]
     | _ => if is_int tx && is_unk te then [] else [(KMismatch, ei)]
     end)
  else ev_if (negb (compat te tx)) (KMismatch, ei).

Definition is_plain (k : bkind) : bool := match k with BPlain => true | _ => false end.
Definition is_mut (k : bkind) : bool := match k with BMut => true | _ => false end.
Definition is_some {A} (o : option A) : bool := match o with Some _ => true | None => false end.

Definition cond_events (S : scopes) (c : expr) : list event :=
  let (t, ev) := check_expr S c in ev ++ ev_if (negb (compat t TBool)) (KMismatch, eid c).

Fixpoint check_stmt (S : scopes) (s : stmt) : scopes * list event :=
  match s with
  | SAssign i k x ann e =>
      let (t, ev) := check_expr S e in
      let found := if is_plain k && fx_outer fx then lookup S x else lookup_local S x in
      match found with
      | Some (tx, m) =>
          (S, ev ++ ev_if (negb m) (KImmutable, i) ++ ev_if (negb (compat t tx)) (KMismatch, eid e)
                 ++ ev_if (negb (is_plain k) || is_some ann) (KGhost, i))
      | None =>
          match ann with
          | Some a => (define S x (a, is_mut k), ev ++ ev_if (negb (compat t a)) (KMismatch, eid e)
                                                     ++ ev_if (negb (ground a)) (KGhost, i))
          | None => (define S x (t, is_mut k), ev ++ ev_if (negb (ground t)) (KGhost, i))
          end
      end
  | SCompound i x o e =>
      match lookup S x with
      | Some (tx, m) =>
          let (te, ev) := check_expr S e in
          (S, ev_if (negb m) (KImmutable, i) ++ ev ++ compound_events o tx te (eid e))
      | None => (S, [(KUnknown, i)])
      end
  | SIf _ c th el els =>
      (S, cond_events S c ++ check_block ([] :: S) th
          ++ (if fx_elif fx then check_elifs S el else [])
          ++ check_oblock S els)
  | SWhile _ c b => (S, cond_events S c ++ check_block ([] :: S) b)
  | SFor _ x e b =>
      let (_, ev) := check_expr S e in
      (S, ev ++ check_block ([(x, (TInt, false))] :: S) b)
  | SReturn i oe =>
      let (t, ev) := match oe with Some e => check_expr S e | None => (TUnit, []) end in
      (S, ev ++ ev_if (negb (compat t R)) (KMismatch, i))
  | SExpr _ e => (S, snd (check_expr S e))
  | SMatch _ mi e ar =>
      let (t, ev) := check_expr S e in
      (S, ev ++ ev_if (negb (ground t)) (KGhost, mi)
             ++ ev_if (negb (exhaustive t (arms_pats ar))) (KNonExhaustive, mi)
             ++ check_arms S t ar)
  end
with check_block (S : scopes) (b : block) : list event :=
  match b with
  | BNil => []
  | BCons s r => let (S', ev) := check_stmt S s in ev ++ check_block S' r
  end
with check_elifs (S : scopes) (l : elifs) : list event :=
  match l with
  | LNil => []
  | LCons c b r => cond_events S c ++ check_block ([] :: S) b ++ check_elifs S r
  end
with check_oblock (S : scopes) (o : oblock) : list event :=
  match o with
  | ONone => []
  | OSome b => check_block ([] :: S) b
  end
with check_arms (S : scopes) (t : ty) (ar : arms) : list event :=
  match ar with
  | MNil => []
  | MCons pi p g b r =>
      let sc := pat_binds t p in
      ev_if (negb (scope_ground sc)) (KGhost, pi)
      ++ ev_if (fx_pat fx && negb (pat_fits t p)) (KPattern, pi)
      ++ (match g with
          | Some ge => if fx_guard fx then cond_events (sc :: S) ge else []
          | None => []
          end)
      ++ check_block (sc :: S) b
      ++ check_arms S t r
  end.

End Chk.

(* ---- declarations (collect.rs first pass, check_decl.rs check_function) ---- *)
Definition fsig (f : fdecl) : name * (list ty * ty) := (f_name f, (map snd (f_params f), f_ret f)).

Definition genv_of (deps : list program) (p : program) : genv :=
  {| g_funs := flat_map (fun d => map fsig (p_funs d)) deps ++ map fsig (p_funs p);
     g_models := flat_map p_models deps ++ p_models p;
     g_enums := flat_map p_enums deps ++ p_enums p |}.

Definition param_scope (f : fdecl) : scope := rev (map (fun q => (fst q, (snd q, false))) (f_params f)).

Definition check_fn (fx : fixes) (G : genv) (f : fdecl) : list event :=
  check_block fx G (f_ret f) [param_scope f] (f_body f).

Definition events_prog (fx : fixes) (G : genv) (p : program) : list event :=
  flat_map (check_fn fx G) (p_funs p).

(* cli::check_file: dependencies are only collected (import_module), the main module is checked *)
Fixpoint deps_events (fx : fixes) (before : list program) (ds : list program) : list event :=
  match ds with
  | [] => []
  | d :: r => events_prog fx (genv_of before d) d ++ deps_events fx (before ++ [d]) r
  end.

Definition events (fx : fixes) (pj : project) : list event :=
  (if fx_deps fx then deps_events fx [] (pj_deps pj) else [])
  ++ events_prog fx (genv_of (pj_deps pj) (pj_main pj)) (pj_main pj).

(* the diagnostics the checker reports *)
Definition check (fx : fixes) (pj : project) : list event := filter is_err (events fx pj).

(* the fragment: no ghost event anywhere along the complete traversal *)
Definition Determined (pj : project) : Prop := filter is_ghost (events fixed pj) = [].

Definition single (p : program) : project := {| pj_deps := []; pj_main := p |}.
