(* C03/Decls.v — definitions only: the DECLARATION-level rules of C03.
   (1) an executable model, arm by arm, of what the real checker does with trait declarations,
       `with T1, T2` adoptions on models and classes, `extends` chains and constructor calls:
       collect.rs (first pass: collect_trait / collect_model / collect_class / inherit_from_parent /
       collect_fields / collect_methods / extract_requires, symbols.rs resolve_type),
       check_decl.rs (second pass: check_model / check_class / check_trait_conformance(_model) /
       method_sigs_compatible / extends_chain_reaches) and check_expr/calls.rs
       (check_model_or_class_constructor_call);
   (2) the DOCUMENTED rules, written without reference to the implementation (RFC 000 §1.5, §4.4
       "X must satisfy all trait requirements; missing required methods -> compile error",
       reference/derives_and_traits.md "@requires: the adopter must provide all required fields with
       compatible types", tutorials/book/11 "`...` = implementers must provide this",
       explanation/models_and_classes.md "class supports single inheritance (`extends`)", book ch.10
       constructors take one keyword argument per declared field);
   (3) boolean well-formedness predicates and the known-finding classes;
   (4) [drender] for the correspondence run.

   Types are Ast.ty; `Self` is the reserved name [self_name].  The real symbol table is ONE name
   space (traits, models, classes, enums, functions): [table], latest definition first.
   HashMap-valued tables (fields, methods) are association lists with unique keys ([put]).
   Events are (kind, span id); id 0 is Span::default() (the span the real checker uses for the
   diagnostics about `extends`). *)
From Coq Require Import ZArith List Bool.
From Verif Require Import C03.Ast C03.Checker.
Import ListNotations.

Definition self_name : name := 0%N.

Inductive recv := RNone | RSelf | RMut.

Record msig := { ms_recv : recv; ms_async : bool; ms_params : list ty; ms_ret : ty }.
Record meth := { me_id : id; me_name : name; me_sig : msig; me_body : bool }.
Record fld := { fd_id : id; fd_tid : id; fd_name : name; fd_ty : ty; fd_default : bool }.
Record req := { rq_name : name; rq_ty : ty }.
Definition adoption := (id * name)%type.            (* span of the trait reference, trait name *)

(* a constructor-call argument: keyword (or positional), span of the value, type of the value
   (values are literals) *)
Record arg := { ar_name : option name; ar_id : id; ar_ty : ty }.
Record call := { c_id : id; c_callee_id : id; c_callee : name; c_args : list arg }.

Inductive decl :=
| DTrait (i : id) (n : name) (rqs : list req) (ms : list meth)
| DModel (i : id) (n : name) (ads : list adoption) (fs : list fld) (ms : list meth)
| DClass (i : id) (n : name) (ext : option name) (ads : list adoption) (fs : list fld) (ms : list meth)
| DEnum (i : id) (n : name)                          (* any other declaration that occupies a name *)
| DFun (i : id) (n : name) (cs : list call).         (* def n() -> None: one statement per call *)

Record dprogram := { dp_deps : list decl; dp_main : list decl }.

Definition all_decls (p : dprogram) : list decl := dp_deps p ++ dp_main p.

Definition dname (d : decl) : name :=
  match d with
  | DTrait _ n _ _ | DModel _ n _ _ _ | DClass _ n _ _ _ _ | DEnum _ n | DFun _ n _ => n
  end.

Definition adoptions (d : decl) : list adoption :=
  match d with DModel _ _ ads _ _ | DClass _ _ _ ads _ _ => ads | _ => [] end.

Definition calls (d : decl) : list call := match d with DFun _ _ cs => cs | _ => [] end.

(* ---- ids of a declaration ("the location lies inside the construct") ---- *)
Definition call_ids (c : call) : list id := c_id c :: c_callee_id c :: map ar_id (c_args c).

Definition decl_ids (d : decl) : list id :=
  match d with
  | DTrait i _ _ ms => i :: map me_id ms
  | DModel i _ ads fs ms | DClass i _ _ ads fs ms =>
      i :: map fst ads ++ flat_map (fun f => [fd_id f; fd_tid f]) fs ++ map me_id ms
  | DEnum i _ => [i]
  | DFun i _ cs => i :: flat_map call_ids cs
  end.

(* ================================================================================================
   (1) the model of the real checker
   ================================================================================================ *)
Inductive dkind :=
| DUnknown        (* Unknown symbol (adopted trait, base class, constructor name) *)
| DCyclic         (* Class inherits from itself (cyclic `extends`) *)
| DNoField        (* Type 'X' has no field 'f': missing @requires field / unknown constructor argument *)
| DMismatch       (* Type mismatch: a model's field has another type than @requires asks for *)
| DReqType        (* Trait requires field .. to have type ..: the same for a class *)
| DMissingMethod  (* Trait requires method .. to be implemented *)
| DSignature      (* Trait requires X::m to match its signature *)
| DPositional     (* Positional constructor arguments are not supported *)
| DDupArg         (* Duplicate constructor argument *)
| DFieldType      (* Cannot assign 'T' to field *)
| DMissingArg.    (* Missing required field when constructing *)

Definition devent := (dkind * id)%type.

Definition dev_if (b : bool) (e : devent) : list devent := if b then [e] else [].

Definition fmap := list (name * (ty * bool)).       (* field  -> (resolved type, has_default) *)
Definition mmap := list (name * (msig * bool)).     (* method -> (resolved signature, has_body) *)

Inductive sym :=
| SyTrait (rqs : list (name * ty)) (ms : mmap)
| SyModel (fs : fmap) (ms : mmap)
| SyClass (ext : option name) (fs : fmap) (ms : mmap)
| SyOther.

Definition table := list (name * sym).               (* latest definition first *)

(* HashMap::insert *)
Definition put {A} (k : name) (v : A) (m : list (name * A)) : list (name * A) :=
  (k, v) :: filter (fun e => negb (N.eqb (fst e) k)) m.

(* symbols.rs resolve_type at a moment when the names [dn] are defined: a name that is not (yet)
   defined becomes a TypeVar, which types_compatible accepts against everything = TUnk *)
Fixpoint resolve (dn : list name) (t : ty) : ty :=
  match t with
  | TNamed n => if N.eqb n self_name || mem n dn then TNamed n else TUnk
  | TOpt a => TOpt (resolve dn a)
  | TRes a b => TRes (resolve dn a) (resolve dn b)
  | _ => t
  end.

Definition res_sig (dn : list name) (s : msig) : msig :=
  {| ms_recv := ms_recv s; ms_async := ms_async s;
     ms_params := map (resolve dn) (ms_params s); ms_ret := resolve dn (ms_ret s) |}.

(* collect.rs collect_methods / collect_fields: `.collect()` into a HashMap, then `extend` over the
   inherited map: a later entry replaces an earlier one *)
Definition collect_methods (dn : list name) (ms : list meth) (base : mmap) : mmap :=
  fold_left (fun m me => put (me_name me) (res_sig dn (me_sig me), me_body me) m) ms base.

Definition collect_fields (dn : list name) (fs : list fld) (base : fmap) : fmap :=
  fold_left (fun m f => put (fd_name f) (resolve dn (fd_ty f), fd_default f) m) fs base.

(* extract_requires: a Vec; a repeated name is dropped (and reported — the report is not modelled,
   [wf_decl] excludes repeated @requires names) *)
Fixpoint collect_reqs (dn : list name) (seen : list name) (rqs : list req) : list (name * ty) :=
  match rqs with
  | [] => []
  | r :: rest =>
      if mem (rq_name r) seen then collect_reqs dn seen rest
      else (rq_name r, resolve dn (rq_ty r)) :: collect_reqs dn (rq_name r :: seen) rest
  end.

(* inherit_from_parent: only a parent that is ALREADY in the table, as a class, gives anything *)
Definition inherit (T : table) (ext : option name) : fmap * mmap :=
  match ext with
  | Some p => match assoc p T with Some (SyClass _ fs ms) => (fs, ms) | _ => ([], []) end
  | None => ([], [])
  end.

Definition collect_decl (T : table) (d : decl) : table :=
  let dn := map fst T in
  match d with
  | DTrait _ n rqs ms => (n, SyTrait (collect_reqs dn [] rqs) (collect_methods dn ms [])) :: T
  | DModel _ n _ fs ms => (n, SyModel (collect_fields dn fs []) (collect_methods dn ms [])) :: T
  | DClass _ n ext _ fs ms =>
      (n, SyClass ext (collect_fields dn fs (fst (inherit T ext))) (collect_methods dn ms (snd (inherit T ext)))) :: T
  | DEnum _ n | DFun _ n _ => (n, SyOther) :: T
  end.

Definition collect_all (ds : list decl) (T : table) : table := fold_left collect_decl ds T.

(* ---- second pass ---- *)
Definition recv_eqb (a b : recv) : bool :=
  match a, b with RNone, RNone | RSelf, RSelf | RMut, RMut => true | _, _ => false end.

Fixpoint compat_all (a b : list ty) : bool :=
  match a, b with
  | [], [] => true
  | x :: a', y :: b' => compat x y && compat_all a' b'
  | _, _ => false
  end.

(* check_decl.rs method_sigs_compatible *)
Definition sig_compat (e f : msig) : bool :=
  recv_eqb (ms_recv e) (ms_recv f) && Bool.eqb (ms_async e) (ms_async f)
  && compat_all (ms_params e) (ms_params f) && compat (ms_ret e) (ms_ret f).

(* the loop over the trait's methods without a body *)
Definition meth_events (ai : id) (found : name -> option (msig * bool)) (tms : mmap) : list devent :=
  flat_map (fun e : name * (msig * bool) =>
    if snd (snd e) then []
    else match found (fst e) with
         | None => [(DMissingMethod, ai)]
         | Some fm => dev_if (negb (sig_compat (fst (snd e)) (fst fm))) (DSignature, ai)
         end) tms.

(* check_trait_conformance_model: fallback arm (the model's name is not a Model symbol): names only *)
Definition meth_events_names (ai : id) (own : list name) (tms : mmap) : list devent :=
  flat_map (fun e : name * (msig * bool) => if snd (snd e) then [] else dev_if (negb (mem (fst e) own)) (DMissingMethod, ai)) tms.

Definition req_events_model (alln : list name) (fs : list fld) (ai : id) (rqs : list (name * ty)) : list devent :=
  flat_map (fun r : name * ty =>
    match find (fun f => N.eqb (fd_name f) (fst r)) fs with
    | None => [(DNoField, ai)]
    | Some f => dev_if (negb (compat (resolve alln (fd_ty f)) (snd r))) (DMismatch, fd_tid f)
    end) rqs.

Definition req_events_class (cfs : fmap) (ai : id) (rqs : list (name * ty)) : list devent :=
  flat_map (fun r : name * ty =>
    match assoc (fst r) cfs with
    | None => [(DNoField, ai)]
    | Some ft => dev_if (negb (compat (fst ft) (snd r))) (DReqType, ai)
    end) rqs.

(* check_model: one `with` item *)
Definition adopt_model (T : table) (mname : name) (fs : list fld) (ms : list meth) (a : adoption) : list devent :=
  match assoc (snd a) T with
  | None => [(DUnknown, fst a)]
  | Some (SyTrait rqs tms) =>
      req_events_model (map fst T) fs (fst a) rqs
      ++ match assoc mname T with
         | Some (SyModel _ mms) => meth_events (fst a) (fun m => assoc m mms) tms
         | _ => meth_events_names (fst a) (map me_name ms) tms
         end
  | Some _ => []                                   (* a name that is not a trait: nothing is checked *)
  end.

(* check_class: one `with` item; class_info = None makes every lookup fail *)
Definition class_info (T : table) (cname : name) : fmap * mmap :=
  match assoc cname T with Some (SyClass _ f m) => (f, m) | _ => ([], []) end.

Definition adopt_class (T : table) (cname : name) (a : adoption) : list devent :=
  match assoc (snd a) T with
  | None => [(DUnknown, fst a)]
  | Some (SyTrait rqs tms) =>
      req_events_class (fst (class_info T cname)) (fst a) rqs
      ++ meth_events (fst a) (fun m => assoc m (snd (class_info T cname))) tms
  | Some _ => []
  end.

(* extends_chain_reaches; [None] = out of fuel ([chain_fuel_suffices] in ProofsDecls.v) *)
Fixpoint chain_reaches (T : table) (fuel : nat) (seen : list name) (cur target : name) : option bool :=
  match fuel with
  | O => None
  | S k =>
      if N.eqb cur target then Some true
      else if mem cur seen then Some false
      else match assoc cur T with
           | Some (SyClass (Some p) _ _) => chain_reaches T k (cur :: seen) p target
           | _ => Some false
           end
  end.

Definition chain_fuel (T : table) : nat := S (S (length T)).

Definition extends_events (T : table) (cname : name) (ext : option name) : list devent :=
  match ext with
  | None => []
  | Some b =>
      match assoc b T with
      | None => [(DUnknown, 0%N)]
      | Some _ =>
          match chain_reaches T (chain_fuel T) [] b cname with
          | Some true => [(DCyclic, 0%N)]
          | _ => []
          end
      end
  end.

(* calls.rs check_model_or_class_constructor_call *)
Definition is_pos (a : arg) : bool := match ar_name a with None => true | Some _ => false end.

Fixpoint arg_names (xs : list arg) : list name :=
  match xs with
  | [] => []
  | a :: r => match ar_name a with Some n => n :: arg_names r | None => arg_names r end
  end.

Fixpoint args_events (fs : fmap) (provided : list name) (xs : list arg) : list devent :=
  match xs with
  | [] => []
  | a :: r =>
      match ar_name a with
      | None => args_events fs provided r
      | Some n =>
          if mem n provided then (DDupArg, ar_id a) :: args_events fs provided r
          else match assoc n fs with
               | None => (DNoField, ar_id a) :: args_events fs (n :: provided) r
               | Some ft => dev_if (negb (compat (ar_ty a) (fst ft))) (DFieldType, ar_id a)
                            ++ args_events fs (n :: provided) r
               end
      end
  end.

Definition missing_events (i : id) (fs : fmap) (provided : list name) : list devent :=
  flat_map (fun f : name * (ty * bool) => dev_if (negb (snd (snd f)) && negb (mem (fst f) provided)) (DMissingArg, i)) fs.

Definition ctor_fields (T : table) (n : name) : option fmap :=
  match assoc n T with
  | Some (SyModel fs _) => Some fs
  | Some (SyClass _ fs _) => Some fs
  | _ => None
  end.

Definition call_events (T : table) (c : call) : list devent :=
  match assoc (c_callee c) T with
  | None => [(DUnknown, c_callee_id c)]
  | Some _ =>
      match ctor_fields T (c_callee c) with
      | None => []                                 (* a function / trait / enum: an ordinary call *)
      | Some fs =>
          if existsb is_pos (c_args c) then [(DPositional, c_id c)]
          else args_events fs [] (c_args c) ++ missing_events (c_id c) fs (arg_names (c_args c))
      end
  end.

(* the events of ONE `with` item of a declaration *)
Definition adoption_events (T : table) (d : decl) (a : adoption) : list devent :=
  match d with
  | DModel _ n _ fs ms => adopt_model T n fs ms a
  | DClass _ n _ _ _ _ => adopt_class T n a
  | _ => []
  end.

Definition decl_events (T : table) (d : decl) : list devent :=
  match d with
  | DModel _ n ads fs ms => flat_map (adopt_model T n fs ms) ads
  | DClass _ n ext ads _ _ => extends_events T n ext ++ flat_map (adopt_class T n) ads
  | DFun _ _ cs => flat_map (call_events T) cs
  | DTrait _ _ _ _ | DEnum _ _ => []
  end.

(* TypeChecker::check_with_imports: first pass over the dependencies' (public) declarations and the
   main module, second pass over the main module only *)
Definition table_of (p : dprogram) : table := collect_all (all_decls p) [].

Definition dcheck (p : dprogram) : list devent := flat_map (decl_events (table_of p)) (dp_main p).

(* ================================================================================================
   (2) the documented rules
   ================================================================================================ *)
(* members of a class: its own, and those of the class it extends that it does not redeclare *)
Inductive class_field (P : list decl) : name -> fld -> Prop :=
| CF_own : forall i n ext ads fs ms f,
    In (DClass i n ext ads fs ms) P -> In f fs -> class_field P n f
| CF_inh : forall i n p ads fs ms f,
    In (DClass i n (Some p) ads fs ms) P -> class_field P p f ->
    ~ In (fd_name f) (map fd_name fs) -> class_field P n f.

Inductive class_meth (P : list decl) : name -> meth -> Prop :=
| CM_own : forall i n ext ads fs ms m,
    In (DClass i n ext ads fs ms) P -> In m ms -> class_meth P n m
| CM_inh : forall i n p ads fs ms m,
    In (DClass i n (Some p) ads fs ms) P -> class_meth P p m ->
    ~ In (me_name m) (map me_name ms) -> class_meth P n m.

Definition type_field (P : list decl) (n : name) (f : fld) : Prop :=
  (exists i ads fs ms, In (DModel i n ads fs ms) P /\ In f fs) \/ class_field P n f.

Definition type_meth (P : list decl) (n : name) (m : meth) : Prop :=
  (exists i ads fs ms, In (DModel i n ads fs ms) P /\ In m ms) \/ class_meth P n m.

(* the model / class named n satisfies `with tn` *)
Definition conforms_adoption (P : list decl) (n tn : name) : Prop :=
  exists i rqs tms, In (DTrait i tn rqs tms) P /\
    (forall r, In r rqs ->
       exists f, type_field P n f /\ fd_name f = rq_name r /\ fd_ty f = rq_ty r) /\
    (forall m, In m tms -> me_body m = false ->
       exists m', type_meth P n m' /\ me_name m' = me_name m /\ me_sig m' = me_sig m /\ me_body m' = true).

Definition violates_adoption (P : list decl) (n tn : name) : Prop := ~ conforms_adoption P n tn.

Definition constructible (P : list decl) (n : name) : Prop :=
  (exists i ads fs ms, In (DModel i n ads fs ms) P) \/ (exists i ext ads fs ms, In (DClass i n ext ads fs ms) P).

(* T(f1=e1, ...): T is a model or class; every argument is a keyword argument naming a field of T
   (own or inherited) of the value's type; no field is given twice; every field without a default
   is given *)
Definition conforms_ctor (P : list decl) (c : call) : Prop :=
  constructible P (c_callee c) /\
  (forall a, In a (c_args c) ->
     exists f, type_field P (c_callee c) f /\ ar_name a = Some (fd_name f) /\ fd_ty f = ar_ty a) /\
  NoDup (arg_names (c_args c)) /\
  (forall f, type_field P (c_callee c) f -> fd_default f = false -> In (fd_name f) (arg_names (c_args c))).

Definition violates_ctor (P : list decl) (c : call) : Prop := ~ conforms_ctor P c.

(* `extends b`: b is a class of the program (the chain being acyclic is part of [ordered]) *)
Definition conforms_extends (P : list decl) (ext : option name) : Prop :=
  match ext with None => True | Some b => exists i e ads fs ms, In (DClass i b e ads fs ms) P end.

(* ================================================================================================
   (3) well-formedness (boolean) and the known-finding classes
   ================================================================================================ *)
Fixpoint nodupb (l : list name) : bool :=
  match l with [] => true | x :: r => negb (mem x r) && nodupb r end.

Definition sig_tys (s : msig) : list ty := ms_ret s :: ms_params s.

Definition decl_tys (d : decl) : list ty :=
  match d with
  | DTrait _ _ rqs ms => map rq_ty rqs ++ flat_map (fun m => sig_tys (me_sig m)) ms
  | DModel _ _ _ fs ms | DClass _ _ _ _ fs ms => map fd_ty fs ++ flat_map (fun m => sig_tys (me_sig m)) ms
  | _ => []
  end.

Definition decl_fields (d : decl) : list fld :=
  match d with DModel _ _ _ fs _ | DClass _ _ _ _ fs _ => fs | _ => [] end.

Definition decl_meths (d : decl) : list meth :=
  match d with DTrait _ _ _ ms | DModel _ _ _ _ ms | DClass _ _ _ _ _ ms => ms | _ => [] end.

Definition decl_reqs (d : decl) : list req := match d with DTrait _ _ rqs _ => rqs | _ => [] end.

(* true of every source text: a type annotation cannot spell the checker's Unknown; member names of
   one declaration are distinct (the checker does not report a repeated member: out of C03's list) *)
Definition wf_decl (d : decl) : bool :=
  forallb ground (decl_tys d) && nodupb (map fd_name (decl_fields d))
  && nodupb (map me_name (decl_meths d)) && nodupb (map rq_name (decl_reqs d))
  && forallb (fun c => forallb (fun a => ground (ar_ty a)) (c_args c)) (calls d).

Definition is_class (d : decl) : bool := match d with DClass _ _ _ _ _ _ => true | _ => false end.
Definition is_trait (d : decl) : bool := match d with DTrait _ _ _ _ => true | _ => false end.
Definition is_ctor (d : decl) : bool := match d with DModel _ _ _ _ _ | DClass _ _ _ _ _ _ => true | _ => false end.

Definition declared_as (k : decl -> bool) (P : list decl) (n : name) : bool :=
  existsb (fun d => N.eqb (dname d) n && k d) P.

Definition declared (P : list decl) (n : name) : bool := mem n (map dname P).

Definition wf_basic (P : list decl) : bool := nodupb (map dname P) && forallb wf_decl P.

(* -- class FWDREF: a type name used in a declaration is not declared EARLIER in the program
      (resolve_type in the first pass turns it into a TypeVar: never compared) -- *)
Fixpoint ty_names (t : ty) : list name :=
  match t with
  | TNamed n => [n]
  | TOpt a => ty_names a
  | TRes a b => ty_names a ++ ty_names b
  | _ => []
  end.

Definition names_known (seen : list name) (d : decl) : bool :=
  forallb (fun t => forallb (fun n => N.eqb n self_name || mem n seen) (ty_names t)) (decl_tys d).

Fixpoint types_ordered (seen : list name) (ds : list decl) : bool :=
  match ds with
  | [] => true
  | d :: r => names_known seen d && types_ordered (dname d :: seen) r
  end.

(* -- class FWDEXT: `extends p` where p is a class of the program that is declared LATER (or is the
      class itself): inherit_from_parent finds nothing, the inherited members are invisible -- *)
Definition ext_of (d : decl) : option name := match d with DClass _ _ e _ _ _ => e | _ => None end.

Fixpoint extends_ordered (P : list decl) (seen : list decl) (ds : list decl) : bool :=
  match ds with
  | [] => true
  | d :: r =>
      match ext_of d with
      | Some p => declared_as is_class seen p || negb (declared_as is_class P p)
      | None => true
      end && extends_ordered P (d :: seen) r
  end.

(* -- class KIND: `with X` / `extends X` / `X(...)` where X is declared, but not as a trait /
      class / model-or-class: silently accepted (only an UNDECLARED name is reported) -- *)
Definition kinds_ok (P : list decl) : bool :=
  forallb (fun d =>
    forallb (fun a => negb (declared P (snd a)) || declared_as is_trait P (snd a)) (adoptions d)
    && match ext_of d with Some p => negb (declared P p) || declared_as is_class P p | None => true end
    && forallb (fun c => negb (declared P (c_callee c)) || declared_as is_ctor P (c_callee c)) (calls d)) P.

(* -- class ABSTRACT: a model / class method whose body is `...` counts as an implementation -- *)
Definition bodies_ok (P : list decl) : bool :=
  forallb (fun d => negb (is_ctor d) || forallb me_body (decl_meths d)) P.

Definition Known_C03_fwdref (p : dprogram) : Prop := types_ordered [] (all_decls p) = false.
Definition Known_C03_fwdext (p : dprogram) : Prop := extends_ordered (all_decls p) [] (all_decls p) = false.
Definition Known_C03_kind (p : dprogram) : Prop := kinds_ok (all_decls p) = false.
Definition Known_C03_abstract (p : dprogram) : Prop := bodies_ok (all_decls p) = false.

(* the complement of the four classes, for well-formed source *)
Definition strict (p : dprogram) : bool :=
  let P := all_decls p in
  wf_basic P && types_ordered [] P && extends_ordered P [] P && kinds_ok P && bodies_ok P.

Definition class_flags (p : dprogram) : list bool :=
  let P := all_decls p in
  [wf_basic P; types_ordered [] P; extends_ordered P [] P; kinds_ok P; bodies_ok P].

(* ================================================================================================
   (4) rendering for the correspondence run
   ================================================================================================ *)
Definition dkind_code (k : dkind) : Z :=
  match k with
  | DUnknown => 0 | DCyclic => 1 | DNoField => 2 | DMismatch => 3 | DReqType => 4 | DMissingMethod => 5
  | DSignature => 6 | DPositional => 7 | DDupArg => 8 | DFieldType => 9 | DMissingArg => 10
  end%Z.

Definition drender (evs : list devent) : list (Z * Z) :=
  map (fun e => (dkind_code (fst e), Z.of_N (snd e))) evs.

(* which arms of the model a program exercises (recorded by the check as hit counts):
   0 adoption of an undeclared name     1 adoption of a non-trait name      2 adoption of a trait
   3 model: symbol-table arm            4 model: name-only fallback arm     5 class: class_info = None
   6 inherit: parent found              7 inherit: parent not (yet) a class 8 extends: unknown base
   9 extends: cyclic                   10 constructor: unknown name        11 constructor: not a model/class
   12 constructor: positional          13 constructor: keyword loop        14 a type resolved to a TypeVar *)
Definition arm_if (b : bool) (n : Z) : list Z := if b then [n] else [].

Definition adoption_arms (T : table) (d : decl) (a : adoption) : list Z :=
  match assoc (snd a) T with
  | None => [0%Z]
  | Some (SyTrait _ _) =>
      2%Z :: match d with
             | DModel _ n _ _ _ => match assoc n T with Some (SyModel _ _) => [3%Z] | _ => [4%Z] end
             | DClass _ n _ _ _ _ => match assoc n T with Some (SyClass _ _ _) => [] | _ => [5%Z] end
             | _ => []
             end
  | Some _ => [1%Z]
  end.

Definition call_arms (T : table) (c : call) : list Z :=
  match assoc (c_callee c) T with
  | None => [10%Z]
  | Some _ => match ctor_fields T (c_callee c) with
              | None => [11%Z]
              | Some _ => if existsb is_pos (c_args c) then [12%Z] else [13%Z]
              end
  end.

Definition decl_arms (T : table) (d : decl) : list Z :=
  flat_map (adoption_arms T d) (adoptions d)
  ++ match ext_of d with
     | None => []
     | Some b => match assoc b T with
                 | None => [8%Z]
                 | Some _ => match chain_reaches T (chain_fuel T) [] b (dname d) with Some true => [9%Z] | _ => [] end
                 end
     end
  ++ flat_map (call_arms T) (calls d).

Fixpoint collect_arms (T : table) (ds : list decl) : list Z :=
  match ds with
  | [] => []
  | d :: r =>
      match ext_of d with
      | Some p => match assoc p T with Some (SyClass _ _ _) => [6%Z] | _ => [7%Z] end
      | None => []
      end
      ++ arm_if (negb (forallb (fun t => ty_eqb (resolve (map fst T) t) t) (decl_tys d))) 14%Z
      ++ collect_arms (collect_decl T d) r
  end.

Definition arms (p : dprogram) : list Z :=
  collect_arms [] (all_decls p) ++ flat_map (decl_arms (table_of p)) (dp_main p).

Definition run_decls (p : dprogram) : list (Z * Z) * (list bool * list Z) :=
  (drender (dcheck p), (class_flags p, arms p)).
