(* C03/Witness.v — concrete programs on which the FAITHFUL model (all switches off) accepts an
   ill-typed program: one per known class; plus the two regression witnesses of the repaired classes.  Each is also replayed on the real checker by
   checks/c03.py (known_findings.json witnesses are the same programs rendered as Incan). *)
From Coq Require Import ZArith List Bool Lia.
From Verif Require Import C03.Model C03.ProofsBase.
Import ListNotations.
Open Scope N_scope.

Definition mkfn (n : name) (ps : list (name * ty)) (r : ty) (b : block) : fdecl :=
  {| f_name := n; f_params := ps; f_ret := r; f_body := b |}.
Definition prog1 (en : list (name * list name)) (fs : list fdecl) : program :=
  {| p_enums := en; p_models := []; p_funs := fs |}.

(* if true: pass  elif nope: pass *)
Definition w_elif : project := single (prog1 []
  [mkfn 1 [] TUnit (BCons (SIf 1 (ELit 2 (LBool true)) BNil (LCons (EVar 3 9) BNil LNil) ONone) BNil)]).

(* match c: case _ if nope: pass *)
Definition w_guard : project := single (prog1 [(1, [1; 2])]
  [mkfn 1 [(1, TNamed 1)] TUnit
     (BCons (SMatch 1 2 (EVar 3 1) (MCons 4 PWild (Some (EVar 5 9)) BNil MNil)) BNil)]).

(* x = 1; if true: x = 2 *)
Definition w_outer : project := single (prog1 []
  [mkfn 1 [] TUnit
     (BCons (SAssign 1 BPlain 1 None (ELit 2 (LInt 1)))
        (BCons (SIf 3 (ELit 4 (LBool true))
                  (BCons (SAssign 5 BPlain 1 None (ELit 6 (LInt 2))) BNil) LNil ONone) BNil))]).

(* def f(a: int) -> int: return a      f("s") *)
Definition w_args : project := single (prog1 []
  [mkfn 1 [(1, TInt)] TInt (BCons (SReturn 1 (Some (EVar 2 1))) BNil);
   mkfn 2 [] TUnit (BCons (SExpr 3 (ECall 4 5 1 (ACons None (ELit 6 (LStr 1)) ANil))) BNil)]).

(* def h() -> Result[int,int]: return Ok(1)      def k() -> int: return h()? *)
Definition w_tryfn : project := single (prog1 []
  [mkfn 1 [] (TRes TInt TInt) (BCons (SReturn 1 (Some (EOk 2 (ELit 3 (LInt 1))))) BNil);
   mkfn 2 [] TInt (BCons (SReturn 4 (Some (ETry 5 (ECall 6 7 1 ANil)))) BNil)]).

(* println(1 + true) *)
Definition w_arith : project := single (prog1 []
  [mkfn 1 [] TUnit
     (BCons (SExpr 1 (EPrint 2 (ACons None (EBin 3 (BArith Add) (ELit 4 (LInt 1)) (ELit 5 (LBool true))) ANil))) BNil)]).

(* match c: case E1.K9: pass  case _: pass *)
Definition w_pat : project := single (prog1 [(1, [1; 2])]
  [mkfn 1 [(1, TNamed 1)] TUnit
     (BCons (SMatch 1 2 (EVar 3 1) (MCons 4 (PVariant 1 9) None BNil (MCons 5 PWild None BNil MNil))) BNil)]).

(* dependency module: def f() -> int: return "s"      main: def main() -> None: pass *)
Definition w_deps : project :=
  {| pj_deps := [prog1 [] [mkfn 1 [] TInt (BCons (SReturn 1 (Some (ELit 2 (LStr 1)))) BNil)]];
     pj_main := prog1 [] [mkfn 2 [] TUnit BNil] |}.

Ltac inv H := inversion H; subst; clear H.

Ltac dead :=
  match goal with
  | H : lookup _ _ = _ |- _ => vm_compute in H; discriminate H
  | H : assoc _ _ = _ |- _ => vm_compute in H; discriminate H
  | H : ?a = ?b |- _ => discriminate H
  | H : False |- _ => destruct H
  | H : In _ _ |- _ => vm_compute in H; intuition discriminate
  end.

Ltac crush :=
  repeat (try dead; match goal with
  | H : ok _ |- _ => destruct H
  | H : _ /\ _ |- _ => destruct H
  | H : deps_ok _ (pj_deps _) |- _ => unfold w_deps in H; simpl in H
  | H : deps_ok _ (_ :: _) |- _ => simpl in H
  | H : prog_ok _ _ |- _ => unfold prog_ok in H; simpl in H
  | H : Forall _ (_ :: _) |- _ => inv H
  | H : fn_ok _ _ |- _ => unfold fn_ok in H; simpl in H
  | H : block_ok _ _ _ (BCons _ _) |- _ => inv H
  | H : elifs_ok _ _ _ (LCons _ _ _) |- _ => inv H
  | H : oblock_ok _ _ _ (OSome _) |- _ => inv H
  | H : arms_ok _ _ _ _ (MCons _ _ _ _ _) |- _ => inv H
  | H : stmt_ok _ _ _ (SAssign _ _ _ _ _) _ |- _ => inv H
  | H : stmt_ok _ _ _ (SIf _ _ _ _ _) _ |- _ => inv H
  | H : stmt_ok _ _ _ (SCompound _ _ _ _) _ |- _ => inv H
  | H : stmt_ok _ _ _ (SMatch _ _ _ _) _ |- _ => inv H
  | H : stmt_ok _ _ _ (SReturn _ _) _ |- _ => inv H
  | H : stmt_ok _ _ _ (SExpr _ _) _ |- _ => inv H
  | H : has_type _ _ _ (ELit _ _) _ |- _ => inv H
  | H : has_type _ _ _ (EVar _ _) _ |- _ => inv H
  | H : has_type _ _ _ (EBin _ _ _ _) _ |- _ => inv H
  | H : has_type _ _ _ (ECall _ _ _ _) _ |- _ => inv H
  | H : has_type _ _ _ (EPrint _ _) _ |- _ => inv H
  | H : has_type _ _ _ (ETry _ _) _ |- _ => inv H
  | H : args_typed _ _ _ (ACons _ _ _) _ |- _ => inv H
  | H : args_any _ _ _ (ACons _ _ _) |- _ => inv H
  | H : forall ge, Some ?g = Some ge -> _ |- _ => specialize (H g eq_refl)
  | H : ?x = BPlain -> _ |- _ => specialize (H eq_refl)
  | H : lookup _ _ = Some _ |- _ => vm_compute in H; inv H
  | H : assoc _ _ = Some _ |- _ => vm_compute in H; inv H
  | H : pat_ok _ _ _ |- _ => cbv [pat_ok] in H
  | H : Some _ = Some _ |- _ => inv H
  | H : exists _, _ |- _ => destruct H
  end).

Lemma wf_single_nofields : forall en fs,
  Forall fn_ground fs -> WfDecls (single (prog1 en fs)).
Proof.
  intros en fs Hf. split; [exact I|]. split; [|exact Hf]. split.
  - intros f ps r Hin. simpl in Hin. apply in_map_iff in Hin as (fd & E & Hin). inversion E; subst.
    rewrite Forall_forall in Hf. apply (Hf _ Hin).
  - intros m flds fld t [].
Qed.

Ltac wf := apply wf_single_nofields; repeat constructor.

Definition refutes (w : project) : Prop :=
  WfDecls w /\ Determined w /\ check real w = [] /\ ~ ok w.

(* repaired: the current walker rejects it, the walker before the repair accepted it *)
Lemma w_elif_regression : WfDecls w_elif /\ ~ ok w_elif /\ check unrepaired w_elif = [] /\ In (KUnknown, 3) (check real w_elif).
Proof. split; [wf|split; [intros H; crush|split; [reflexivity|vm_compute; auto]]]. Qed.

Lemma w_guard_regression : WfDecls w_guard /\ ~ ok w_guard /\ check unrepaired w_guard = [] /\ In (KUnknown, 5) (check real w_guard).
Proof. split; [wf|split; [intros H; crush|split; [reflexivity|vm_compute; auto]]]. Qed.

Lemma w_outer_refutes : refutes w_outer /\ Known_by with_outer w_outer.
Proof. split; [split; [wf|split; [reflexivity|split; [reflexivity|intros H; crush]]]|split; [reflexivity|vm_compute; discriminate]]. Qed.

Lemma w_args_refutes : refutes w_args /\ Known_by with_args w_args.
Proof. split; [split; [wf|split; [reflexivity|split; [reflexivity|intros H; crush]]]|split; [reflexivity|vm_compute; discriminate]]. Qed.

Lemma w_tryfn_refutes : refutes w_tryfn /\ Known_by with_tryfn w_tryfn.
Proof. split; [split; [wf|split; [reflexivity|split; [reflexivity|intros H; crush]]]|split; [reflexivity|vm_compute; discriminate]]. Qed.

Lemma w_arith_refutes : refutes w_arith /\ Known_by with_arith w_arith.
Proof. split; [split; [wf|split; [reflexivity|split; [reflexivity|intros H; crush]]]|split; [reflexivity|vm_compute; discriminate]]. Qed.

Lemma w_pat_refutes : refutes w_pat /\ Known_by with_pat w_pat.
Proof. split; [split; [wf|split; [reflexivity|split; [reflexivity|intros H; crush]]]|split; [reflexivity|vm_compute; discriminate]]. Qed.

Lemma wf_deps : WfDecls w_deps.
Proof.
  split.
  - simpl. split; [|exact I]. split; [split|].
    + intros f ps r [E|[]]. inversion E; subst. split; reflexivity.
    + intros m flds fld t [].
    + repeat constructor.
  - split; [split|].
    + intros f ps r [E|[E|[]]]; inversion E; subst; split; reflexivity.
    + intros m flds fld t [].
    + repeat constructor.
Qed.

Lemma w_deps_refutes : refutes w_deps /\ Known_by with_deps w_deps.
Proof. split; [split; [exact wf_deps|split; [reflexivity|split; [reflexivity|intros H; crush]]]|split; [reflexivity|vm_compute; discriminate]]. Qed.
