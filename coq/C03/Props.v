(* C03/Props.v — the property theorems for C03, and nothing else.
   Static.ok          the documented static rules (C03/Static.v)
   check real         the faithful model of the current walker (tied to /repo on every run)
   check fixed        the same walker with all proposed patches switched on (elif and guard are already in [real])
   Determined         no value of a not fully inferred type is bound / matched / dereferenced
   WfDecls            declared types are ground (true of every source text) *)
From Coq Require Import ZArith List Bool.
From Verif Require Import C03.Model C03.ProofsBase C03.ProofsExpr C03.ProofsStmt C03.ProofsProg C03.Witness.
Import ListNotations.
Open Scope N_scope.

(* hypotheses are satisfiable by a non-trivial program: def f(a: int) -> int: mut x = a; x += 1; return x *)
Example C03_nonvacuous :
  let pj := single (prog1 [] [mkfn 1 [(1, TInt)] TInt
              (BCons (SAssign 1 BMut 2 None (EVar 2 1))
              (BCons (SCompound 3 2 Add (ELit 4 (LInt 1)))
              (BCons (SReturn 5 (Some (EVar 6 2))) BNil)))]) in
  WfDecls pj /\ Determined pj /\ check real pj = [] /\ ~ Known_C03 pj.
Proof.
  cbv zeta. split; [apply wf_single_nofields; repeat constructor|].
  split; [reflexivity|]. split; [reflexivity|]. intros [_ H]. apply H. reflexivity.
Qed.

(* T1  soundness of the patched walker: whatever it accepts obeys every documented rule *)
Theorem C03_check_sound_fixed : forall pj,
  WfDecls pj -> Determined pj -> check fixed pj = [] -> ok pj.
Proof. exact check_sound_fixed. Qed.
Print Assumptions C03_check_sound_fixed.

(* T2  soundness of the CURRENT walker on the complement of the known classes *)
Theorem C03_check_sound : forall pj,
  WfDecls pj -> Determined pj -> ~ Known_C03 pj -> check real pj = [] -> ok pj.
Proof. exact check_sound_complement. Qed.
Print Assumptions C03_check_sound.

(* T3  located form, induction over contexts: for every way the walker (with any switches fx)
       reaches a statement s' inside a block b — function body, then / elif / else branch, loop
       body, match-arm body, at any depth — every event it raises on s' is reported for b.
       The elif constructor of [reach] needs fx_elif, which [real] has since the repair. *)
Theorem C03_context_propagation : forall fx G R S b S' s',
  reach fx G R S b S' s' ->
  incl (snd (check_stmt fx G R S' s')) (check_block fx G R S b).
Proof. intros fx G R. exact (proj1 (reach_incl_all fx G R)). Qed.
Print Assumptions C03_context_propagation.

(* T4  a statement violating a documented rule, in any context the patched walker reaches, with
       a ground environment at that point, makes the patched walker report an event raised on
       that very statement (an error, or a KGhost mark when the statement is outside Determined) *)
Theorem C03_violation_located_fixed : forall G R S b S' s',
  genv_ground G -> ground R = true -> ground_env S' ->
  reach fixed G R S b S' s' ->
  (~ exists S'', stmt_ok G R S' s' S'') ->
  exists ev, In ev (snd (check_stmt fixed G R S' s')) /\ In ev (check_block fixed G R S b).
Proof.
  intros G R S b S' s' HG HR Hg Hr Hv.
  assert (Hn := violation_detected G R S' s' HG HR Hg Hv).
  destruct (snd (check_stmt fixed G R S' s')) as [|ev l] eqn:E; [congruence|].
  exists ev. split; [now left|]. apply (proj1 (reach_incl_all fixed G R) _ _ _ _ Hr).
  unfold evs. rewrite E. now left.
Qed.
Print Assumptions C03_violation_located_fixed.

(* G1, G2  regression witnesses of the two repaired classes: ill-typed, accepted before the
   repair, rejected now with the diagnostic at the offending name (inside the elif condition /
   the guard) *)
Theorem C03_elif_regression :
  WfDecls w_elif /\ ~ ok w_elif /\ check unrepaired w_elif = [] /\ In (KUnknown, 3) (check real w_elif).
Proof. exact w_elif_regression. Qed.
Print Assumptions C03_elif_regression.

Theorem C03_guard_regression :
  WfDecls w_guard /\ ~ ok w_guard /\ check unrepaired w_guard = [] /\ In (KUnknown, 5) (check real w_guard).
Proof. exact w_guard_regression. Qed.
Print Assumptions C03_guard_regression.

(* R1..R6  the faithful model still refutes soundness: one witness per remaining class (all replayed on /repo) *)
Theorem C03_nested_reassign_refuted : exists pj, WfDecls pj /\ Determined pj /\ check real pj = [] /\ ~ ok pj /\ Known_C03_outer pj.
Proof. exists w_outer. destruct w_outer_refutes as [(a & b & c & d) e]. auto. Qed.
Print Assumptions C03_nested_reassign_refuted.

Theorem C03_deps_refuted : exists pj, WfDecls pj /\ Determined pj /\ check real pj = [] /\ ~ ok pj /\ Known_C03_deps pj.
Proof. exists w_deps. destruct w_deps_refutes as [(a & b & c & d) e]. auto. Qed.
Print Assumptions C03_deps_refuted.

Theorem C03_args_refuted : exists pj, WfDecls pj /\ Determined pj /\ check real pj = [] /\ ~ ok pj /\ Known_C03_args pj.
Proof. exists w_args. destruct w_args_refutes as [(a & b & c & d) e]. auto. Qed.
Print Assumptions C03_args_refuted.

Theorem C03_try_in_nonresult_fn_refuted : exists pj, WfDecls pj /\ Determined pj /\ check real pj = [] /\ ~ ok pj /\ Known_C03_tryfn pj.
Proof. exists w_tryfn. destruct w_tryfn_refutes as [(a & b & c & d) e]. auto. Qed.
Print Assumptions C03_try_in_nonresult_fn_refuted.

Theorem C03_operand_refuted : exists pj, WfDecls pj /\ Determined pj /\ check real pj = [] /\ ~ ok pj /\ Known_C03_arith pj.
Proof. exists w_arith. destruct w_arith_refutes as [(a & b & c & d) e]. auto. Qed.
Print Assumptions C03_operand_refuted.

Theorem C03_pattern_refuted : exists pj, WfDecls pj /\ Determined pj /\ check real pj = [] /\ ~ ok pj /\ Known_C03_pat pj.
Proof. exists w_pat. destruct w_pat_refutes as [(a & b & c & d) e]. auto. Qed.
Print Assumptions C03_pattern_refuted.
