(* C03/Props.v — the property theorems for C03, and nothing else.
   Static.ok          the documented static rules (C03/Static.v)
   check real         the faithful model of the current walker (tied to /repo on every run)
   check fixed        the same walker with all proposed patches switched on (elif and guard are already in [real])
   Determined         no value of a not fully inferred type is bound / matched / dereferenced
   WfDecls            declared types are ground (true of every source text) *)
From Coq Require Import ZArith List Bool.
From Verif Require Import C03.Model C03.ProofsBase C03.ProofsExpr C03.ProofsStmt C03.ProofsProg C03.ProofsMatch C03.ProofsWithin C03.Witness C03.ProofsState.
Import ListNotations.
Open Scope N_scope.

(* hypotheses are satisfiable by a non-trivial program: def f(a: int) -> int: mut x = a; x += 1; return x *)
Example C03_nonvacuous :
  let pj := single (prog1 [] [mkfn 1 [(1, TInt)] TInt
              (BCons (SAssign 1 BMut 2 None (EVar 2 1))
              (BCons (SCompound 3 2 Add (ELit 4 (LInt 1)))
              (BCons (SReturn 5 (Some (EVar 6 2))) BNil)))]) in
  WfDecls pj /\ Determined pj /\ check real pj = [] /\ ~ Known_C03 pj.
Proof.
  cbv zeta. split; [apply wf_single_nofields; repeat constructor|].
  split; [reflexivity|]. split; [reflexivity|]. intros [_ H]. apply H. reflexivity.
Qed.

(* T1  soundness of the patched walker: whatever it accepts obeys every documented rule *)
Theorem C03_check_sound_fixed : forall pj,
  WfDecls pj -> Determined pj -> check fixed pj = [] -> ok pj.
Proof. exact check_sound_fixed. Qed.
Print Assumptions C03_check_sound_fixed.

(* T2  soundness of the CURRENT walker on the complement of the known classes *)
Theorem C03_check_sound : forall pj,
  WfDecls pj -> Determined pj -> ~ Known_C03 pj -> check real pj = [] -> ok pj.
Proof. exact check_sound_complement. Qed.
Print Assumptions C03_check_sound.

(* T3  located form, induction over contexts: for every way the walker (with any switches fx)
       reaches a statement s' inside a block b — function body, then / elif / else branch, loop
       body, match-arm body, at any depth — every event it raises on s' is reported for b.
       The elif constructor of [reach] needs fx_elif, which [real] has since the repair. *)
Theorem C03_context_propagation : forall fx G R S b S' s',
  reach fx G R S b S' s' ->
  incl (snd (check_stmt fx G R S' s')) (check_block fx G R S b).
Proof. intros fx G R. exact (proj1 (reach_incl_all fx G R)). Qed.
Print Assumptions C03_context_propagation.

(* T3b  the span of every event raised for a statement is the id of a node of that statement
        (any switches, any environment): "the location lies inside the offending construct" *)
Theorem C03_events_within : forall fx G R s S e,
  In e (snd (check_stmt fx G R S s)) -> In (snd e) (ids_stmt s).
Proof. exact events_within. Qed.
Print Assumptions C03_events_within.

(* T3c  located form for the CURRENT walker: in every context it reaches (all statement contexts,
        elif included since the repair), each diagnostic it raises on the construct is reported
        for the enclosing block and lies inside the construct *)
Theorem C03_located_real : forall G R S b S' s' e,
  reach real G R S b S' s' -> In e (snd (check_stmt real G R S' s')) ->
  In e (check_block real G R S b) /\ In (snd e) (ids_stmt s').
Proof.
  intros G R S b S' s' e Hr He. split.
  - exact (proj1 (reach_incl_all real G R) _ _ _ _ Hr e He).
  - exact (events_within real G R s' S' e He).
Qed.
Print Assumptions C03_located_real.

(* T4  a statement violating a documented rule, in any context the patched walker reaches, with
       a ground environment at that point, makes the patched walker report an event raised on
       that very statement (an error, or a KGhost mark when the statement is outside Determined),
       whose span id is a node of that statement *)
Theorem C03_violation_located_fixed : forall G R S b S' s',
  genv_ground G -> ground R = true -> ground_env S' ->
  reach fixed G R S b S' s' ->
  (~ exists S'', stmt_ok G R S' s' S'') ->
  exists ev, In ev (snd (check_stmt fixed G R S' s')) /\ In ev (check_block fixed G R S b) /\
             In (snd ev) (ids_stmt s').
Proof.
  intros G R S b S' s' HG HR Hg Hr Hv.
  assert (Hn := violation_detected G R S' s' HG HR Hg Hv).
  destruct (snd (check_stmt fixed G R S' s')) as [|ev l] eqn:E; [congruence|].
  exists ev. split; [now left|]. split.
  - apply (proj1 (reach_incl_all fixed G R) _ _ _ _ Hr). unfold evs. rewrite E. now left.
  - apply (events_within fixed G R s' S'). rewrite E. now left.
Qed.
Print Assumptions C03_violation_located_fixed.

(* T5  match exhaustiveness in the walker model is a function of the SET of arm patterns: adding
       further arms for an already handled variant (other guards / sub-patterns), or reordering
       arms, never changes the verdict; it holds exactly when there is a wildcard arm or every
       variant of the subject is the constructor of some arm *)
Theorem C03_exhaustive_set_invariant : forall G t ps ps',
  (forall p, In p ps <-> In p ps') -> exhaustive G t ps = exhaustive G t ps'.
Proof. exact exhaustive_set. Qed.
Print Assumptions C03_exhaustive_set_invariant.

Theorem C03_exhaustive_spec : forall G t ps,
  exhaustive G t ps = true <->
  match required G t with
  | None => True
  | Some req => In PWild ps \/ forall c, In c req -> exists p, In p ps /\ In c (pat_cov t p)
  end.
Proof. exact exhaustive_spec. Qed.
Print Assumptions C03_exhaustive_spec.

(* M1  a walker that counts constructor arms instead of distinct variants is unsound:
       `case Some(v): .. case Some(_): ..` (no None) passes the count and is not exhaustive *)
Theorem C03_exhaustive_count_mutant_refuted :
  exists t ps, exhaustive_count empty_genv t ps = true /\ exhaustive empty_genv t ps = false /\ ~ covers empty_genv t ps.
Proof. exact exhaustive_count_refuted. Qed.
Print Assumptions C03_exhaustive_count_mutant_refuted.

(* T6  non-interference: the walker model carries no state from one declaration to the next —
       the events of a function depend only on the declared types/signatures and on its own body,
       not on the bodies of the functions checked before it; a module's events are the
       concatenation of its functions' events *)
Theorem C03_fn_verdict_independent : forall fx deps p p' f,
  p_enums p = p_enums p' -> p_models p = p_models p' ->
  map fsig (p_funs p) = map fsig (p_funs p') ->
  check_fn fx (genv_of deps p) f = check_fn fx (genv_of deps p') f.
Proof. exact fn_verdict_independent. Qed.
Print Assumptions C03_fn_verdict_independent.

Theorem C03_prog_events_decompose : forall fx G p fs1 f fs2,
  events_prog fx G (with_funs p (fs1 ++ f :: fs2)) =
  events_prog fx G (with_funs p fs1) ++ check_fn fx G f ++ events_prog fx G (with_funs p fs2).
Proof. exact prog_events_decompose. Qed.
Print Assumptions C03_prog_events_decompose.

(* T6b  inside a body, what the walker knows changes only through binding statements: any other
        statement (expression statement, compound assignment, if / while / for / match with their
        nested scopes, return) hands the scope chain back unchanged, so the events raised for the
        statements after it are the same as if it were not there *)
Theorem C03_scopes_only_by_bindings : forall fx G R S s,
  (forall i k x a e, s <> SAssign i k x a e) -> fst (check_stmt fx G R S s) = S.
Proof. exact scopes_only_by_bindings. Qed.
Print Assumptions C03_scopes_only_by_bindings.

Theorem C03_non_binding_no_interference : forall fx G R S s b,
  (forall i k x a e, s <> SAssign i k x a e) ->
  check_block fx G R S (BCons s b) = snd (check_stmt fx G R S s) ++ check_block fx G R S b.
Proof. exact non_binding_no_interference. Qed.
Print Assumptions C03_non_binding_no_interference.

(* M2  a walker that decides the mutability of `x += e` by a name-keyed, never scoped set of the
       names declared `mut` so far: accepts `def f1(): mut v1 = 1   def f2(v1: int): v1 += 1`
       (ill-typed; the faithful model reports it at the compound assignment) and its verdict on f2
       depends on the body of f1 *)
Theorem C03_mutname_mutant_refuted :
  ~ ok (single w_mutname) /\
  In (KImmutable, 3) (check real (single w_mutname)) /\
  mutant_events real w_mutname = [] /\
  map fsig (p_funs w_mutname) = map fsig (p_funs w_mutname') /\
  In (KImmutable, 3) (mutant_events real w_mutname').
Proof. exact mutname_mutant_refuted. Qed.
Print Assumptions C03_mutname_mutant_refuted.

(* G1, G2  regression witnesses of the two repaired classes: ill-typed, accepted before the
   repair, rejected now with the diagnostic at the offending name (inside the elif condition /
   the guard) *)
Theorem C03_elif_regression :
  WfDecls w_elif /\ ~ ok w_elif /\ check unrepaired w_elif = [] /\ In (KUnknown, 3) (check real w_elif).
Proof. exact w_elif_regression. Qed.
Print Assumptions C03_elif_regression.

Theorem C03_guard_regression :
  WfDecls w_guard /\ ~ ok w_guard /\ check unrepaired w_guard = [] /\ In (KUnknown, 5) (check real w_guard).
Proof. exact w_guard_regression. Qed.
Print Assumptions C03_guard_regression.

(* R1..R6  the faithful model still refutes soundness: one witness per remaining class (all replayed on /repo) *)
Theorem C03_nested_reassign_refuted : exists pj, WfDecls pj /\ Determined pj /\ check real pj = [] /\ ~ ok pj /\ Known_C03_outer pj.
Proof. exists w_outer. destruct w_outer_refutes as [(a & b & c & d) e]. auto. Qed.
Print Assumptions C03_nested_reassign_refuted.

Theorem C03_deps_refuted : exists pj, WfDecls pj /\ Determined pj /\ check real pj = [] /\ ~ ok pj /\ Known_C03_deps pj.
Proof. exists w_deps. destruct w_deps_refutes as [(a & b & c & d) e]. auto. Qed.
Print Assumptions C03_deps_refuted.

Theorem C03_args_refuted : exists pj, WfDecls pj /\ Determined pj /\ check real pj = [] /\ ~ ok pj /\ Known_C03_args pj.
Proof. exists w_args. destruct w_args_refutes as [(a & b & c & d) e]. auto. Qed.
Print Assumptions C03_args_refuted.

Theorem C03_try_in_nonresult_fn_refuted : exists pj, WfDecls pj /\ Determined pj /\ check real pj = [] /\ ~ ok pj /\ Known_C03_tryfn pj.
Proof. exists w_tryfn. destruct w_tryfn_refutes as [(a & b & c & d) e]. auto. Qed.
Print Assumptions C03_try_in_nonresult_fn_refuted.

Theorem C03_operand_refuted : exists pj, WfDecls pj /\ Determined pj /\ check real pj = [] /\ ~ ok pj /\ Known_C03_arith pj.
Proof. exists w_arith. destruct w_arith_refutes as [(a & b & c & d) e]. auto. Qed.
Print Assumptions C03_operand_refuted.

Theorem C03_pattern_refuted : exists pj, WfDecls pj /\ Determined pj /\ check real pj = [] /\ ~ ok pj /\ Known_C03_pat pj.
Proof. exists w_pat. destruct w_pat_refutes as [(a & b & c & d) e]. auto. Qed.
Print Assumptions C03_pattern_refuted.
