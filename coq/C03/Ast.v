(* C03/Ast.v — MiniIncan fragment for C03 (self-contained; may later be merged with Core/).
   Every node carries an abstract span id ([id]); "the span of e lies inside construct c" is
   "the id is one of the ids of c" ([ids_stmt] etc.).  The correspondence run checks on every
   generated program that the real parser's byte spans nest exactly like these ids.
   Name spaces are separate by construction (variables, functions, models, enums, variants,
   fields are rendered with different prefixes), so a variable can never denote a type. *)
From Coq Require Import ZArith List Bool.
Import ListNotations.

Definition name := N.
Definition id := N.

Inductive ty :=
| TInt | TBool | TStr | TUnit
| TNamed (n : name)            (* enum or model *)
| TOpt (t : ty)
| TRes (t e : ty)
| TUnk.                        (* the checker's ResolvedType::Unknown (and TypeVar) *)

Inductive lit := LInt (z : Z) | LBool (b : bool) | LStr (s : N) | LNone.
Inductive unop := Neg | Not.
Inductive arith := Add | Sub | Mul | FloorDiv | Mod.
Inductive binop := BArith (a : arith) | BCmp | BLogic.

Inductive expr :=
| ELit (i : id) (l : lit)
| EVar (i : id) (x : name)
| EUn (i : id) (o : unop) (a : expr)
| EBin (i : id) (o : binop) (a b : expr)
| ECall (i ci : id) (f : name) (xs : args)        (* user function; ci = span of the callee name *)
| EPrint (i : id) (xs : args)                     (* println(...) *)
| ECtor (i ci : id) (m : name) (xs : args)        (* Model(field=e, ...) *)
| EVariant (i bi : id) (en v : name)              (* Enum.Variant; bi = span of the enum name *)
| EField (i : id) (a : expr) (fld : name)
| ETry (i : id) (a : expr)
| ESome (i : id) (a : expr)
| EOk (i : id) (a : expr)
| EErr (i : id) (a : expr)
with args :=
| ANil
| ACons (nm : option name) (a : expr) (r : args).

Definition eid (e : expr) : id :=
  match e with
  | ELit i _ | EVar i _ | EUn i _ _ | EBin i _ _ _ | ECall i _ _ _ | EPrint i _ | ECtor i _ _ _
  | EVariant i _ _ _ | EField i _ _ | ETry i _ | ESome i _ | EOk i _ | EErr i _ => i
  end.

Inductive bkind := BPlain | BLet | BMut.

Inductive pat :=
| PWild
| PVariant (en v : name)        (* case Enum.Variant *)
| PSome (b : option name)       (* case Some(v) / Some(_) *)
| PNone
| POk (b : option name)
| PErr (b : option name).

Inductive stmt :=
| SAssign (i : id) (k : bkind) (x : name) (ann : option ty) (e : expr)
| SCompound (i : id) (x : name) (o : arith) (e : expr)
| SIf (i : id) (c : expr) (th : block) (el : elifs) (els : oblock)
| SWhile (i : id) (c : expr) (b : block)
| SFor (i : id) (x : name) (e : expr) (b : block)        (* for x in range(e) *)
| SReturn (i : id) (oe : option expr)
| SExpr (i : id) (e : expr)
| SMatch (i mi : id) (e : expr) (ar : arms)              (* mi = span of the match expression *)
with block :=
| BNil
| BCons (s : stmt) (b : block)
with elifs :=
| LNil
| LCons (c : expr) (b : block) (r : elifs)
with oblock :=
| ONone
| OSome (b : block)
with arms :=
| MNil
| MCons (pi : id) (p : pat) (g : option expr) (b : block) (r : arms).

Scheme expr_mind := Induction for expr Sort Prop
with args_mind := Induction for args Sort Prop.
Combined Scheme expr_args_ind from expr_mind, args_mind.

Scheme stmt_mind := Induction for stmt Sort Prop
with block_mind := Induction for block Sort Prop
with elifs_mind := Induction for elifs Sort Prop
with oblock_mind := Induction for oblock Sort Prop
with arms_mind := Induction for arms Sort Prop.
Combined Scheme stmt_all_ind from stmt_mind, block_mind, elifs_mind, oblock_mind, arms_mind.

Record fdecl := { f_name : name; f_params : list (name * ty); f_ret : ty; f_body : block }.

Record program := {
  p_enums : list (name * list name);
  p_models : list (name * list (name * ty));
  p_funs : list fdecl
}.

(* a project: dependency modules (all declarations public) and the main module *)
Record project := { pj_deps : list program; pj_main : program }.

(* ---- ids of a construct (for "the span lies inside") ---- *)
Fixpoint ids_expr (e : expr) : list id :=
  match e with
  | ELit i _ | EVar i _ => [i]
  | EUn i _ a | EField i a _ | ETry i a | ESome i a | EOk i a | EErr i a => i :: ids_expr a
  | EBin i _ a b => i :: ids_expr a ++ ids_expr b
  | ECall i ci _ xs | ECtor i ci _ xs => i :: ci :: ids_args xs
  | EPrint i xs => i :: ids_args xs
  | EVariant i bi _ _ => [i; bi]
  end
with ids_args (xs : args) : list id :=
  match xs with
  | ANil => []
  | ACons _ a r => ids_expr a ++ ids_args r
  end.

Definition ids_oexpr (o : option expr) : list id := match o with Some e => ids_expr e | None => [] end.

Fixpoint ids_stmt (s : stmt) : list id :=
  match s with
  | SAssign i _ _ _ e | SCompound i _ _ e | SExpr i e => i :: ids_expr e
  | SIf i c th el els => i :: ids_expr c ++ ids_block th ++ ids_elifs el ++ ids_oblock els
  | SWhile i c b | SFor i _ c b => i :: ids_expr c ++ ids_block b
  | SReturn i oe => i :: ids_oexpr oe
  | SMatch i mi e ar => i :: mi :: ids_expr e ++ ids_arms ar
  end
with ids_block (b : block) : list id :=
  match b with BNil => [] | BCons s r => ids_stmt s ++ ids_block r end
with ids_elifs (l : elifs) : list id :=
  match l with LNil => [] | LCons c b r => ids_expr c ++ ids_block b ++ ids_elifs r end
with ids_oblock (o : oblock) : list id :=
  match o with ONone => [] | OSome b => ids_block b end
with ids_arms (a : arms) : list id :=
  match a with MNil => [] | MCons pi _ g b r => pi :: ids_oexpr g ++ ids_block b ++ ids_arms r end.
