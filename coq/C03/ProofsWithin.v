(* C03/ProofsWithin.v — every event the walker raises while checking a construct carries the span
   id of a node of that construct ("the span lies inside the offending construct") *)
From Coq Require Import ZArith List Bool Lia.
From Verif Require Import C03.Model C03.ProofsBase C03.ProofsStmt.
Import ListNotations.

Definition W (ids : list id) (ev : list event) : Prop := forall e : event, In e ev -> In (snd e) ids.

Ltac brk :=
  repeat match goal with
         | H : In _ (_ ++ _) |- _ => apply in_app_or in H; destruct H
         | H : In _ (ev_if ?b _) |- _ => destruct b; simpl in H
         | H : In _ (_ :: _) |- _ => destruct H; [subst|]
         | H : In _ [] |- _ => destruct H
         | H : _ = _ \/ _ |- _ => destruct H; [subst|]
         | H : False |- _ => destruct H
         end.

Ltac fin :=
  simpl in *; rewrite ?in_app_iff in *; simpl in *;
  repeat match goal with H : _ = snd _ \/ False |- _ => destruct H as [H|[]] end;
  repeat match goal with H : _ = snd ?e |- _ => rewrite <- H in *; clear H end;
  first [tauto | eauto 8].

Lemma eid_in : forall e, In (eid e) (ids_expr e).
Proof. destruct e; simpl; auto. Qed.

Lemma chka_cons_w : forall fx G0 R0 S nm a r,
  check_args fx G0 R0 S (ACons nm a r) =
  (let (t, ev) := check_expr fx G0 R0 S a in (nm, eid a, t, ev) :: check_args fx G0 R0 S r).
Proof. reflexivity. Qed.

Lemma chk_call : forall fx G R S i ci f xs, check_expr fx G R S (ECall i ci f xs) =
  (let rs := check_args fx G R S xs in
   match assoc f (g_funs G) with
   | None => (TUnk, (KUnknown, ci) :: args_evs rs)
   | Some (ps, r) => (r, args_evs rs ++ (if fx_args fx then args_events i ps rs else []))
   end).
Proof. reflexivity. Qed.
Lemma chk_print : forall fx G R S i xs, check_expr fx G R S (EPrint i xs) = (TUnit, args_evs (check_args fx G R S xs)).
Proof. reflexivity. Qed.
Lemma chk_ctor : forall fx G R S i ci m xs, check_expr fx G R S (ECtor i ci m xs) =
  (let rs := check_args fx G R S xs in
   match assoc m (g_models G) with
   | None => (TUnk, (KUnknown, ci) :: args_evs rs)
   | Some flds => (TNamed m, args_evs rs ++ ctor_events i flds rs)
   end).
Proof. reflexivity. Qed.

Section Within.
Variable fx : fixes.
Variable G : genv.
Variable R : ty.

Lemma bin_ty_ids : forall i o ta tb, W [i] (snd (bin_ty fx i o ta tb)).
Proof.
  intros i o ta tb e He. destruct o as [op| |]; [|simpl in He; brk; fin|simpl in He; brk].
  unfold bin_ty in He. destruct (fx_arith fx); destruct op; destruct ta; destruct tb; simpl in He; brk; fin.
Qed.

Lemma field_ty_ids : forall i t fld, W [i] (snd (field_ty G i t fld)).
Proof.
  intros i t fld e He. unfold field_ty in He. destruct t; simpl in He; brk; try fin.
  destruct (assoc n (g_models G)) as [flds|].
  - destruct (assoc fld flds); simpl in He; brk; fin.
  - destruct (assoc n (g_enums G)) as [vs|]; [destruct (mem fld vs)|]; simpl in He; brk; fin.
Qed.

Definition arg_ok (ids : list id) (r : argres) : Prop :=
  In (snd (fst (fst r))) ids /\ W ids (snd r).

Lemma args_evs_ids : forall ids rs, Forall (arg_ok ids) rs -> W ids (args_evs rs).
Proof.
  intros ids rs H e He. unfold args_evs in He. apply in_flat_map in He as (r & Hr & He).
  rewrite Forall_forall in H. apply (H r Hr); auto.
Qed.

Lemma args_events_ids : forall ids i rs, Forall (arg_ok ids) rs -> forall ps, W (i :: ids) (args_events i ps rs).
Proof.
  induction 1 as [|r rs Hr Hrs IH]; intros ps e He.
  - destruct ps; simpl in He; brk; fin.
  - destruct ps as [|p ps]; destruct r as [[[nm ai] t] ev]; simpl in He.
    + destruct nm; brk; fin.
    + destruct nm; brk; try fin.
      * destruct Hr as [Hr _]. simpl in Hr. fin.
      * apply (IH ps e H).
Qed.

Lemma ctor_loop_ids : forall ids flds rs, Forall (arg_ok ids) rs ->
  forall prov, W ids (fst (ctor_loop flds rs prov)).
Proof.
  induction 1 as [|r rs Hr Hrs IH]; intros prov e He; simpl in He; [destruct He|].
  destruct r as [[[nm ai] t] ev]. destruct Hr as [Hai Hev]. simpl in Hai, Hev.
  destruct nm as [n|]; [|eapply IH; eauto].
  destruct (mem n prov).
  - specialize (IH prov). destruct (ctor_loop flds rs prov). simpl in *. brk; auto.
  - destruct (assoc n flds).
    + specialize (IH (n :: prov)). destruct (ctor_loop flds rs (n :: prov)). simpl in *. brk; auto.
    + specialize (IH (n :: prov)). destruct (ctor_loop flds rs (n :: prov)). simpl in *. brk; auto.
Qed.

Lemma ctor_events_ids : forall ids i flds rs, Forall (arg_ok ids) rs -> W (i :: ids) (ctor_events i flds rs).
Proof.
  intros ids i flds rs H e He. unfold ctor_events in He.
  destruct (existsb is_positional rs); [brk; fin|].
  assert (L := ctor_loop_ids ids flds rs H []). destruct (ctor_loop flds rs []) as [ee prov]. simpl in L.
  brk.
  - right. auto.
  - apply in_flat_map in H0 as (f & _ & Hf). brk. fin.
Qed.

Lemma arg_ok_mono : forall ids ids' rs, incl ids ids' -> Forall (arg_ok ids) rs -> Forall (arg_ok ids') rs.
Proof.
  intros ids ids' rs Hi H. eapply Forall_impl; [|exact H]. intros r [H1 H2]. split; auto.
  intros e He. apply Hi. auto.
Qed.

Theorem expr_within_all :
  (forall e S, W (ids_expr e) (snd (check_expr fx G R S e))) /\
  (forall xs S, Forall (arg_ok (ids_args xs)) (check_args fx G R S xs)).
Proof.
  apply expr_args_ind.
  - intros i l S e He. destruct l; simpl in He; destruct He.
  - intros i x S e He. cbn in He. destruct (lookup S x) as [[? ?]|]; simpl in He; brk; fin.
  - intros i o a IH S e He. cbn in He. specialize (IH S).
    destruct (check_expr fx G R S a) as [t ev]. simpl in IH. destruct o.
    + destruct (compat t TInt); simpl in He; brk; fin.
    + simpl in He; brk; fin.
  - intros i o a IHa b IHb S e He. cbn in He. specialize (IHa S). specialize (IHb S).
    destruct (check_expr fx G R S a) as [ta ea]. destruct (check_expr fx G R S b) as [tb eb].
    assert (L := bin_ty_ids i o ta tb). destruct (bin_ty fx i o ta tb) as [t3 e3]. simpl in *.
    brk; try fin. apply L in H. simpl in H. destruct H as [H|[]]. fin.
  - intros i ci f xs IH S e He. rewrite chk_call in He. cbv zeta in He. specialize (IH S).
    destruct (assoc f (g_funs G)) as [[ps r]|]; simpl in He.
    + brk.
      * apply (args_evs_ids _ _ IH) in H. fin.
      * destruct (fx_args fx); [|destruct H]. apply (args_events_ids _ i _ IH ps) in H. simpl in H. fin.
    + brk; [fin|]. apply (args_evs_ids _ _ IH) in H. fin.
  - intros i xs IH S e He. rewrite chk_print in He. simpl in He. specialize (IH S). apply (args_evs_ids _ _ IH) in He. fin.
  - intros i ci m xs IH S e He. rewrite chk_ctor in He. cbv zeta in He. specialize (IH S).
    destruct (assoc m (g_models G)) as [flds|]; simpl in He.
    + brk.
      * apply (args_evs_ids _ _ IH) in H. fin.
      * apply (ctor_events_ids _ i _ _ IH) in H. simpl in H. fin.
    + brk; [fin|]. apply (args_evs_ids _ _ IH) in H. fin.
  - intros i bi en v S e He. cbn in He.
    destruct (assoc en (g_enums G)) as [vs|]; [destruct (mem v vs)|]; simpl in He; brk; fin.
  - intros i a IH fld S e He. cbn in He. specialize (IH S).
    destruct (check_expr fx G R S a) as [t ev].
    assert (L := field_ty_ids i t fld). destruct (field_ty G i t fld) as [t' e2]. simpl in *.
    brk; try fin. apply L in H. simpl in H. destruct H as [H|[]]. fin.
  - intros i a IH S e He. cbn -[cur_err] in He. specialize (IH S).
    destruct (check_expr fx G R S a) as [t ev]. simpl in IH.
    destruct t; simpl in He; brk; try fin.
    destruct (cur_err R); brk; fin.
  - intros i a IH S e He. cbn in He. specialize (IH S).
    destruct (check_expr fx G R S a) as [t ev]. simpl in *. fin.
  - intros i a IH S e He. cbn -[cur_err] in He. specialize (IH S).
    destruct (check_expr fx G R S a) as [t ev]. simpl in *. fin.
  - intros i a IH S e He. cbn in He. specialize (IH S).
    destruct (check_expr fx G R S a) as [t ev]. simpl in *. fin.
  - intros S. constructor.
  - intros nm a IHa r IHr S. rewrite chka_cons_w. specialize (IHa S).
    destruct (check_expr fx G R S a) as [t ev]. simpl in IHa. constructor.
    + split; simpl.
      * rewrite in_app_iff. left. apply eid_in.
      * intros e He. rewrite in_app_iff. left. auto.
    + eapply arg_ok_mono; [|apply IHr]. intros x Hx. simpl. rewrite in_app_iff. auto.
Qed.
End Within.

Ltac usew :=
  repeat match goal with
         | Hw : W _ ?ev, H : In _ ?ev |- _ => apply Hw in H
         | Hw : forall S, W _ (?f S), H : In _ (?f ?S0) |- _ => apply Hw in H
         | Hw : forall S t, W _ (?f S t), H : In _ (?f ?S0 ?t0) |- _ => apply Hw in H
         end.
Ltac go := brk; usew; fin.

Section WithinS.
Variable fx : fixes.
Variable G : genv.
Variable R : ty.

Lemma expr_w : forall e S t ev, check_expr fx G R S e = (t, ev) -> W (ids_expr e) ev.
Proof.
  intros e S t ev H. assert (L := proj1 (expr_within_all fx G R) e S). rewrite H in L. exact L.
Qed.

Lemma cond_w : forall S c, W (ids_expr c) (cond_events fx G R S c).
Proof.
  intros S c e He. unfold cond_events in He. destruct (check_expr fx G R S c) as [t ev] eqn:E.
  assert (Hw := expr_w _ _ _ _ E). assert (Hi := eid_in c). go.
Qed.

Lemma compound_w : forall o tx te ei, W [ei] (compound_events fx o tx te ei).
Proof.
  intros o tx te ei e He. unfold compound_events in He.
  destruct (fx_arith fx); destruct o; destruct tx; destruct te; simpl in He; go.
Qed.

Theorem stmt_within_all :
  (forall s S, W (ids_stmt s) (snd (check_stmt fx G R S s))) /\
  (forall b S, W (ids_block b) (check_block fx G R S b)) /\
  (forall l S, W (ids_elifs l) (check_elifs fx G R S l)) /\
  (forall o S, W (ids_oblock o) (check_oblock fx G R S o)) /\
  (forall ar S t, W (ids_arms ar) (check_arms fx G R S t ar)).
Proof.
  apply stmt_all_ind.
  - intros i k x ann e S e0 He. rewrite cs_assign in He.
    destruct (check_expr fx G R S e) as [t ev] eqn:E. assert (Hw := expr_w _ _ _ _ E). assert (Hi := eid_in e).
    cbv zeta in He. destruct (if is_plain k && fx_outer fx then lookup S x else lookup_local S x) as [[tx m]|];
      [|destruct ann]; simpl in He; go.
  - intros i x o e S e0 He. rewrite cs_compound in He. destruct (lookup S x) as [[tx m]|]; [|simpl in He; go].
    destruct (check_expr fx G R S e) as [te ev] eqn:E. assert (Hw := expr_w _ _ _ _ E). assert (Hi := eid_in e).
    simpl in He. brk; usew; try fin. apply compound_w in H. fin.
  - intros i c th IHth el IHel els IHels S e0 He. rewrite cs_if in He. simpl in He.
    assert (Hc := cond_w S c). specialize (IHth ([] :: S)). specialize (IHel S). specialize (IHels S). destruct (fx_elif fx); go.
  - intros i c b IHb S e0 He. rewrite cs_while in He. simpl in He. assert (Hc := cond_w S c). specialize (IHb ([] :: S)). go.
  - intros i x e b IHb S e0 He. rewrite cs_for in He.
    destruct (check_expr fx G R S e) as [t ev] eqn:E. assert (Hw := expr_w _ _ _ _ E). simpl in He. specialize (IHb ([(x, (TInt, false))] :: S)). go.
  - intros i oe S e0 He. rewrite cs_return in He. destruct oe as [e|].
    + destruct (check_expr fx G R S e) as [t ev] eqn:E. assert (Hw := expr_w _ _ _ _ E). simpl in He. go.
    + simpl in He. go.
  - intros i e S e0 He. rewrite cs_expr in He.
    destruct (check_expr fx G R S e) as [t ev] eqn:E. assert (Hw := expr_w _ _ _ _ E). simpl in He. go.
  - intros i mi e ar IHar S e0 He. rewrite cs_match in He.
    destruct (check_expr fx G R S e) as [t ev] eqn:E. assert (Hw := expr_w _ _ _ _ E). simpl in He. specialize (IHar S t). go.
  - intros S e0 He. rewrite cb_nil in He. destruct He.
  - intros s IHs b IHb S e0 He. rewrite cb_cons in He. specialize (IHs S).
    destruct (check_stmt fx G R S s) as [S' ev]. simpl in IHs. specialize (IHb S'). go.
  - intros S e0 He. rewrite ce_nil in He. destruct He.
  - intros c b IHb r IHr S e0 He. rewrite ce_cons in He. assert (Hc := cond_w S c). specialize (IHb ([] :: S)). specialize (IHr S). go.
  - intros S e0 He. rewrite co_none in He. destruct He.
  - intros b IHb S e0 He. rewrite co_some in He. specialize (IHb ([] :: S)). go.
  - intros S t e0 He. rewrite ca_nil in He. destruct He.
  - intros pi p g b IHb r IHr S t e0 He. rewrite ca_cons in He. specialize (IHb (pat_binds t p :: S)). specialize (IHr S t).
    destruct g as [ge|]; [assert (Hc := cond_w (pat_binds t p :: S) ge); destruct (fx_guard fx)|]; go.
Qed.

(* every event raised for a statement carries the id of a node of that statement *)
Theorem events_within : forall s S e, In e (snd (check_stmt fx G R S s)) -> In (snd e) (ids_stmt s).
Proof. intros s S e H. exact (proj1 stmt_within_all s S e H). Qed.

End WithinS.
