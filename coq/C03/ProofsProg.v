(* C03/ProofsProg.v — program-level soundness, the complement theorem, contexts *)
From Coq Require Import ZArith List Bool Lia.
From Verif Require Import C03.Model C03.ProofsBase C03.ProofsExpr C03.ProofsStmt.
Import ListNotations.

Lemma param_scope_gr : forall f, fn_ground f -> scope_gr (param_scope f).
Proof.
  intros f [Hp _] x t m Hin. unfold param_scope in Hin. apply in_rev in Hin.
  apply in_map_iff in Hin as ([n t0] & E & Hin). inversion E; subst.
  rewrite forallb_forall in Hp. apply Hp. apply in_map_iff. exists (x, t). auto.
Qed.

Lemma fn_sound : forall G f, genv_ground G -> fn_ground f -> check_fn fixed G f = [] -> fn_ok G f.
Proof.
  intros G f HG Hf H. unfold fn_ok, check_fn in *.
  apply block_sound; auto. - apply Hf. - constructor; [apply param_scope_gr; auto|constructor].
Qed.

Lemma flat_map_nil : forall A B (f : A -> list B) l, flat_map f l = [] -> Forall (fun x => f x = []) l.
Proof.
  induction l; simpl; intros H; constructor; apply app_eq_nil in H as [? ?]; auto.
Qed.

Lemma prog_sound : forall G p, prog_ground G p -> events_prog fixed G p = [] -> prog_ok G p.
Proof.
  intros G p [HG Hf] H. unfold prog_ok, events_prog in *. apply flat_map_nil in H.
  rewrite Forall_forall in *. intros f Hin. apply fn_sound; auto.
Qed.

Lemma deps_sound : forall ds before, deps_ground before ds -> deps_events fixed before ds = [] -> deps_ok before ds.
Proof.
  induction ds as [|d r IH]; simpl; intros before Hg H; auto.
  destruct Hg as [Hd Hr]. apply app_eq_nil in H as [H1 H2]. split; auto using prog_sound.
Qed.

Theorem sound_fixed : forall pj, WfDecls pj -> events fixed pj = [] -> ok pj.
Proof.
  intros pj [Hd Hm] H. unfold events in H. simpl in H. apply app_eq_nil in H as [H1 H2].
  split; auto using deps_sound, prog_sound.
Qed.

Lemma events_split : forall (l : list event), filter is_err l = [] -> filter is_ghost l = [] -> l = [].
Proof.
  induction l as [|e l IH]; simpl; auto. unfold is_err. destruct (is_ghost e); simpl; intros; discriminate.
Qed.

Theorem check_sound_fixed : forall pj, WfDecls pj -> Determined pj -> check fixed pj = [] -> ok pj.
Proof. intros pj Hw Hd Hc. apply sound_fixed; auto. apply events_split; auto. Qed.

Theorem check_sound_complement : forall pj,
  WfDecls pj -> Determined pj -> ~ Known_C03 pj -> check real pj = [] -> ok pj.
Proof.
  intros pj Hw Hd Hk Hr. apply check_sound_fixed; auto.
  destruct (check fixed pj) eqn:E; auto. exfalso. apply Hk. split; auto. rewrite E. discriminate.
Qed.

(* ---- contexts: how the walker (with switches fx) reaches a statement inside a block ---- *)
Section Reach.
Variable fx : fixes.
Variable G : genv.
Variable R : ty.

Inductive reach : scopes -> block -> scopes -> stmt -> Prop :=
| R_here : forall S s b, reach S (BCons s b) S s
| R_skip : forall S s b S1 ev S' s',
    check_stmt fx G R S s = (S1, ev) -> reach S1 b S' s' -> reach S (BCons s b) S' s'
| R_in : forall S s b S' s', reach_in S s S' s' -> reach S (BCons s b) S' s'
with reach_in : scopes -> stmt -> scopes -> stmt -> Prop :=
| RI_then : forall S i c th el els S' s',
    reach ([] :: S) th S' s' -> reach_in S (SIf i c th el els) S' s'
| RI_elif : forall S i c th el els S' s',
    fx_elif fx = true -> reach_elifs S el S' s' -> reach_in S (SIf i c th el els) S' s'
| RI_else : forall S i c th el b S' s',
    reach ([] :: S) b S' s' -> reach_in S (SIf i c th el (OSome b)) S' s'
| RI_while : forall S i c b S' s',
    reach ([] :: S) b S' s' -> reach_in S (SWhile i c b) S' s'
| RI_for : forall S i x e b S' s',
    reach ([(x, (TInt, false))] :: S) b S' s' -> reach_in S (SFor i x e b) S' s'
| RI_arm : forall S i mi e ar t ev S' s',
    check_expr fx G R S e = (t, ev) -> reach_arms S t ar S' s' -> reach_in S (SMatch i mi e ar) S' s'
with reach_elifs : scopes -> elifs -> scopes -> stmt -> Prop :=
| RE_here : forall S c b r S' s', reach ([] :: S) b S' s' -> reach_elifs S (LCons c b r) S' s'
| RE_next : forall S c b r S' s', reach_elifs S r S' s' -> reach_elifs S (LCons c b r) S' s'
with reach_arms : scopes -> ty -> arms -> scopes -> stmt -> Prop :=
| RA_here : forall S t pi p g b r S' s',
    reach (pat_binds t p :: S) b S' s' -> reach_arms S t (MCons pi p g b r) S' s'
| RA_next : forall S t pi p g b r S' s',
    reach_arms S t r S' s' -> reach_arms S t (MCons pi p g b r) S' s'.

Scheme reach_m := Minimality for reach Sort Prop
with reach_in_m := Minimality for reach_in Sort Prop
with reach_elifs_m := Minimality for reach_elifs Sort Prop
with reach_arms_m := Minimality for reach_arms Sort Prop.
Combined Scheme reach_all_ind from reach_m, reach_in_m, reach_elifs_m, reach_arms_m.

Definition evs (S : scopes) (s : stmt) : list event := snd (check_stmt fx G R S s).

(* induction over contexts: whatever the walker reports on a reached statement is reported for the block *)
Theorem reach_incl_all :
  (forall S b S' s', reach S b S' s' -> incl (evs S' s') (check_block fx G R S b)) /\
  (forall S s S' s', reach_in S s S' s' -> incl (evs S' s') (evs S s)) /\
  (forall S l S' s', reach_elifs S l S' s' -> incl (evs S' s') (check_elifs fx G R S l)) /\
  (forall S t ar S' s', reach_arms S t ar S' s' -> incl (evs S' s') (check_arms fx G R S t ar)).
Proof.
  apply reach_all_ind; intros.
  - rewrite cb_cons. unfold evs. destruct (check_stmt fx G R S s). simpl. apply incl_appl, incl_refl.
  - rewrite cb_cons. rewrite H. apply incl_appr. auto.
  - rewrite cb_cons. unfold evs in H0 at 2. destruct (check_stmt fx G R S s). simpl in *.
    apply incl_appl. auto.
  - unfold evs at 2. rewrite cs_if. simpl. apply incl_appr, incl_appl. auto.
  - unfold evs at 2. rewrite cs_if. simpl. rewrite H. apply incl_appr, incl_appr, incl_appl. auto.
  - unfold evs at 2. rewrite cs_if. simpl. rewrite co_some. apply incl_appr, incl_appr, incl_appr. auto.
  - unfold evs at 2. rewrite cs_while. simpl. apply incl_appr. auto.
  - unfold evs at 2. rewrite cs_for. destruct (check_expr fx G R S e). simpl. apply incl_appr. auto.
  - unfold evs at 2. rewrite cs_match. rewrite H. simpl. apply incl_appr, incl_appr, incl_appr. auto.
  - rewrite ce_cons. apply incl_appr, incl_appl. auto.
  - rewrite ce_cons. apply incl_appr, incl_appr. auto.
  - rewrite ca_cons. apply incl_appr, incl_appr, incl_appr, incl_appl. auto.
  - rewrite ca_cons. apply incl_appr, incl_appr, incl_appr, incl_appr. auto.
Qed.

End Reach.

(* a statement that violates the documented rules in its (ground) environment is reported by the
   fixed walker, or uses a not fully determined type there *)
Theorem violation_detected : forall G R S s,
  genv_ground G -> ground R = true -> ground_env S ->
  (~ exists S', stmt_ok G R S s S') ->
  snd (check_stmt fixed G R S s) <> [].
Proof.
  intros G R S s HG HR Hg Hv E. apply Hv.
  destruct (check_stmt fixed G R S s) as [S' ev] eqn:Es. simpl in E. subst.
  exists S'. eapply (proj1 (stmt_sound_all G R HG HR)); eauto.
Qed.
