(* C03/ProofsBase.v — lemmas on types, compatibility, tables and scopes *)
From Coq Require Import ZArith List Bool Lia.
From Verif Require Import C03.Ast C03.Checker C03.Static.
Import ListNotations.

Lemma ty_eqb_refl : forall a, ty_eqb a a = true.
Proof. induction a; simpl; auto. - apply N.eqb_refl. - now rewrite IHa1, IHa2. Qed.

Lemma ty_eqb_eq : forall a b, ty_eqb a b = true -> a = b.
Proof.
  induction a; destruct b; simpl; intros H; try discriminate; auto.
  - apply N.eqb_eq in H. now subst.
  - f_equal; auto.
  - apply andb_true_iff in H as [H1 H2]. f_equal; auto.
Qed.

Lemma compat_ground_eq : forall a b, ground a = true -> ground b = true -> compat a b = true -> a = b.
Proof.
  induction a; destruct b; simpl; intros Ha Hb H; try discriminate; auto.
  - apply N.eqb_eq in H. now subst.
  - f_equal; auto.
  - apply andb_true_iff in Ha as [? ?]. apply andb_true_iff in Hb as [? ?].
    apply andb_true_iff in H as [? ?]. f_equal; auto.
Qed.

Lemma compat_refl : forall a, compat a a = true.
Proof. induction a; simpl; auto. - apply N.eqb_refl. - now rewrite IHa1, IHa2. Qed.

Lemma inst_exists : forall c, exists t, ground t = true /\ compat c t = true.
Proof.
  induction c.
  - exists TInt; auto. - exists TBool; auto. - exists TStr; auto. - exists TUnit; auto.
  - exists (TNamed n); simpl; split; auto. apply N.eqb_refl.
  - destruct IHc as (t & ? & ?). exists (TOpt t); auto.
  - destruct IHc1 as (t1 & ? & ?). destruct IHc2 as (t2 & ? & ?). exists (TRes t1 t2); simpl.
    split; apply andb_true_iff; auto.
  - exists TInt; auto.
Qed.

Lemma compat_common : forall a b, compat a b = true ->
  exists t, ground t = true /\ compat a t = true /\ compat b t = true.
Proof.
  assert (L : forall c, exists t, ground t = true /\ compat c t = true /\ compat TUnk t = true).
  { intros c. destruct (inst_exists c) as (t0 & ? & ?). exists t0; auto. }
  assert (L' : forall c, exists t, ground t = true /\ compat TUnk t = true /\ compat c t = true).
  { intros c. destruct (inst_exists c) as (t0 & ? & ?). exists t0; auto. }
  induction a; destruct b; intros H; simpl in H; try discriminate; try apply L; try apply L'.
  - exists TInt; auto. - exists TBool; auto. - exists TStr; auto. - exists TUnit; auto.
  - apply N.eqb_eq in H; subst. exists (TNamed n0); simpl. rewrite N.eqb_refl; auto.
  - destruct (IHa _ H) as (t & ? & ? & ?). exists (TOpt t); auto.
  - apply andb_true_iff in H as [H1 H2].
    destruct (IHa1 _ H1) as (t1 & ? & ? & ?). destruct (IHa2 _ H2) as (t2 & ? & ? & ?).
    exists (TRes t1 t2); simpl. repeat split; apply andb_true_iff; auto.
Qed.

Lemma assoc_In : forall A n (l : list (name * A)) v, assoc n l = Some v -> In (n, v) l.
Proof.
  induction l as [|[k w] l IH]; simpl; intros v H; [discriminate|].
  destruct (N.eqb n k) eqn:E.
  - apply N.eqb_eq in E. inversion H; subst. now left.
  - right; auto.
Qed.

Lemma mem_In : forall n l, mem n l = true -> In n l.
Proof.
  unfold mem. intros n l H. apply existsb_exists in H as (x & Hx & E). apply N.eqb_eq in E. now subst.
Qed.

Lemma In_mem : forall n l, In n l -> mem n l = true.
Proof. unfold mem. intros n l H. apply existsb_exists. exists n. split; auto. apply N.eqb_refl. Qed.

(* ---- ground scopes ---- *)
Definition scope_gr (sc : scope) : Prop := forall x t m, In (x, (t, m)) sc -> ground t = true.
Definition ground_env (S : scopes) : Prop := Forall scope_gr S.

Lemma lookup_ground : forall S x t m, ground_env S -> lookup S x = Some (t, m) -> ground t = true.
Proof.
  induction S as [|sc S IH]; simpl; intros x t m Hg H; [discriminate|].
  inversion Hg; subst. destruct (assoc x sc) as [[t0 m0]|] eqn:E.
  - inversion H; subst. apply assoc_In in E. eapply H2; eauto.
  - eauto.
Qed.

Lemma ground_env_push : forall S sc, ground_env S -> scope_gr sc -> ground_env (sc :: S).
Proof. intros. constructor; auto. Qed.

Lemma scope_gr_nil : scope_gr [].
Proof. intros x t m []. Qed.

Lemma ground_env_define : forall S x t m, ground_env S -> ground t = true -> ground_env (define S x (t, m)).
Proof.
  intros S x t m Hg Ht. destruct S as [|sc S]; simpl.
  - constructor; [|constructor]. intros y t' m' [H|[]]. inversion H; subst; auto.
  - inversion Hg; subst. constructor; auto. intros y t' m' [H|H].
    + inversion H; subst; auto. + eapply H1; eauto.
Qed.

Lemma app_nil_l2 : forall A (a b : list A), a ++ b = [] -> a = [] /\ b = [].
Proof. intros. now apply app_eq_nil. Qed.

Lemma ev_if_nil : forall b e, ev_if b e = [] -> b = false.
Proof. intros [] e H; simpl in H; [discriminate|auto]. Qed.

Ltac nils :=
  repeat match goal with
         | H : _ ++ _ = [] |- _ => apply app_eq_nil in H; destruct H
         | H : ev_if _ _ = [] |- _ => apply ev_if_nil in H
         | H : negb _ = false |- _ => apply negb_false_iff in H
         | H : _ || _ = false |- _ => apply orb_false_iff in H; destruct H
         | H : _ :: _ = [] |- _ => discriminate H
         end.

(* [simpl in H] is undone by a later [destruct ... eqn:] in this development (the hypothesis keeps
   its original type up to a cast); re-assert the simplified statement instead *)
Ltac simp H :=
  let T := type of H in
  let T' := eval simpl in T in
  let H' := fresh in
  assert (H' : T') by exact H; clear H; rename H' into H.
