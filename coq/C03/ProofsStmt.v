(* C03/ProofsStmt.v — soundness of the (fixed) statement walker w.r.t. Static.stmt_ok *)
From Coq Require Import ZArith List Bool Lia.
From Verif Require Import C03.Ast C03.Checker C03.Static C03.ProofsBase C03.ProofsExpr.
Import ListNotations.

(* unfolding equations (mutual fixpoints do not refold under simpl/cbn) *)
Section Eqs.
Variable fx : fixes. Variable G : genv. Variable R : ty.
Lemma cb_nil : forall S, check_block fx G R S BNil = []. Proof. reflexivity. Qed.
Lemma cb_cons : forall S s r, check_block fx G R S (BCons s r) =
  (let (S', ev) := check_stmt fx G R S s in ev ++ check_block fx G R S' r). Proof. reflexivity. Qed.
Lemma ce_nil : forall S, check_elifs fx G R S LNil = []. Proof. reflexivity. Qed.
Lemma ce_cons : forall S c b r, check_elifs fx G R S (LCons c b r) =
  cond_events fx G R S c ++ check_block fx G R ([] :: S) b ++ check_elifs fx G R S r. Proof. reflexivity. Qed.
Lemma co_none : forall S, check_oblock fx G R S ONone = []. Proof. reflexivity. Qed.
Lemma co_some : forall S b, check_oblock fx G R S (OSome b) = check_block fx G R ([] :: S) b. Proof. reflexivity. Qed.
Lemma ca_nil : forall S t, check_arms fx G R S t MNil = []. Proof. reflexivity. Qed.
Lemma ca_cons : forall S t pi p g b r, check_arms fx G R S t (MCons pi p g b r) =
  ev_if (negb (scope_ground (pat_binds t p))) (KGhost, pi)
  ++ ev_if (fx_pat fx && negb (pat_fits G t p)) (KPattern, pi)
  ++ (match g with
      | Some ge => if fx_guard fx then cond_events fx G R (pat_binds t p :: S) ge else []
      | None => []
      end)
  ++ check_block fx G R (pat_binds t p :: S) b
  ++ check_arms fx G R S t r. Proof. reflexivity. Qed.
Lemma cs_assign : forall S i k x ann e, check_stmt fx G R S (SAssign i k x ann e) =
  (let (t, ev) := check_expr fx G R S e in
   let found := if is_plain k && fx_outer fx then lookup S x else lookup_local S x in
   match found with
   | Some (tx, m) =>
       (S, ev ++ ev_if (negb m) (KImmutable, i) ++ ev_if (negb (compat t tx)) (KMismatch, eid e)
              ++ ev_if (negb (is_plain k) || is_some ann) (KGhost, i))
   | None =>
       match ann with
       | Some a => (define S x (a, is_mut k), ev ++ ev_if (negb (compat t a)) (KMismatch, eid e)
                                                  ++ ev_if (negb (ground a)) (KGhost, i))
       | None => (define S x (t, is_mut k), ev ++ ev_if (negb (ground t)) (KGhost, i))
       end
   end). Proof. reflexivity. Qed.
Lemma cs_compound : forall S i x o e, check_stmt fx G R S (SCompound i x o e) =
  match lookup S x with
  | Some (tx, m) =>
      let (te, ev) := check_expr fx G R S e in
      (S, ev_if (negb m) (KImmutable, i) ++ ev ++ compound_events fx o tx te (eid e))
  | None => (S, [(KUnknown, i)])
  end. Proof. reflexivity. Qed.
Lemma cs_if : forall S i c th el els, check_stmt fx G R S (SIf i c th el els) =
  (S, cond_events fx G R S c ++ check_block fx G R ([] :: S) th
      ++ (if fx_elif fx then check_elifs fx G R S el else [])
      ++ check_oblock fx G R S els). Proof. reflexivity. Qed.
Lemma cs_while : forall S i c b, check_stmt fx G R S (SWhile i c b) =
  (S, cond_events fx G R S c ++ check_block fx G R ([] :: S) b). Proof. reflexivity. Qed.
Lemma cs_for : forall S i x e b, check_stmt fx G R S (SFor i x e b) =
  (let (_, ev) := check_expr fx G R S e in
   (S, ev ++ check_block fx G R ([(x, (TInt, false))] :: S) b)). Proof. reflexivity. Qed.
Lemma cs_return : forall S i oe, check_stmt fx G R S (SReturn i oe) =
  (let (t, ev) := match oe with Some e => check_expr fx G R S e | None => (TUnit, []) end in
   (S, ev ++ ev_if (negb (compat t R)) (KMismatch, i))). Proof. reflexivity. Qed.
Lemma cs_expr : forall S i e, check_stmt fx G R S (SExpr i e) = (S, snd (check_expr fx G R S e)).
Proof. reflexivity. Qed.
Lemma cs_match : forall S i mi e ar, check_stmt fx G R S (SMatch i mi e ar) =
  (let (t, ev) := check_expr fx G R S e in
   (S, ev ++ ev_if (negb (ground t)) (KGhost, mi)
          ++ ev_if (negb (exhaustive G t (arms_pats ar))) (KNonExhaustive, mi)
          ++ check_arms fx G R S t ar)). Proof. reflexivity. Qed.
End Eqs.

Section Sound.
Variable G : genv.
Variable R : ty.
Hypothesis HG : genv_ground G.
Hypothesis HR : ground R = true.

Lemma cond_sound : forall S c, ground_env S -> cond_events fixed G R S c = [] -> has_type G R S c TBool.
Proof.
  intros S c Hg H. unfold cond_events in H. destruct (check_expr fixed G R S c) as [t ev] eqn:E.
  nils. subst. eapply expr_sound; eauto.
Qed.

Lemma pat_fits_ok : forall t p, ground t = true -> pat_fits G t p = true -> pat_ok G t p.
Proof.
  intros t p Ht H. destruct p; destruct t; simpl in *; try discriminate; auto.
  apply andb_true_iff in H as [H1 H2]. apply N.eqb_eq in H1. subst. split; auto.
  destruct (assoc n (g_enums G)) as [vs|]; [|discriminate]. exists vs. split; auto. apply mem_In; auto.
Qed.

Lemma is_wild_eq : forall p, is_wild p = true -> p = PWild.
Proof. destruct p; simpl; intros; try discriminate; auto. Qed.

Lemma cov_found : forall t ps c, existsb (cov_eqb c) (flat_map (pat_cov t) ps) = true ->
  exists p, In p ps /\ In c (pat_cov t p).
Proof.
  intros t ps c H. apply existsb_exists in H as (c' & Hin & He).
  assert (c = c').
  { destruct c; destruct c'; simpl in He; try discriminate; auto. apply N.eqb_eq in He. now subst. }
  subst c'. apply in_flat_map in Hin as (p & ? & ?). eauto.
Qed.

Lemma exhaustive_covers : forall t ps, ground t = true ->
  exhaustive G t ps = true -> Forall (fun p => pat_fits G t p = true) ps -> covers G t ps.
Proof.
  intros t ps Ht H Hf. unfold exhaustive in H. unfold covers.
  destruct (required G t) as [req|] eqn:Er.
  2:{ right. destruct t; simpl in Er; try discriminate; auto.
      destruct (assoc n (g_enums G)); [discriminate|auto]. }
  apply orb_true_iff in H as [H|H].
  { left. apply existsb_exists in H as (p & Hin & Hw). apply is_wild_eq in Hw. now subst. }
  right. rewrite forallb_forall in H. rewrite Forall_forall in Hf.
  destruct t; simpl in Er; try discriminate.
  - destruct (assoc n (g_enums G)) as [vs|] eqn:Ee; [|discriminate]. inversion Er; subst.
    intros v Hv. assert (Hc := H (CVar v) (in_map CVar _ _ Hv)).
    apply cov_found in Hc as (p & Hin & Hp).
    assert (Hfit := Hf _ Hin).
    destruct p; simpl in Hp; try (destruct Hp as [Hp|[]]; discriminate); try contradiction.
    destruct Hp as [Hp|[]]. inversion Hp; subst.
    simpl in Hfit. apply andb_true_iff in Hfit as [Hn _]. apply N.eqb_eq in Hn. now subst.
  - inversion Er; subst. split.
    + assert (Hc := H CSome (or_introl eq_refl)). apply cov_found in Hc as (p & Hin & Hp).
      destruct p; simpl in Hp; try (destruct Hp as [Hp|[]]; discriminate); try contradiction. eauto.
    + assert (Hc := H CNone (or_intror (or_introl eq_refl))). apply cov_found in Hc as (p & Hin & Hp).
      destruct p; simpl in Hp; try (destruct Hp as [Hp|[]]; discriminate); try contradiction. auto.
  - inversion Er; subst. split.
    + assert (Hc := H COk (or_introl eq_refl)). apply cov_found in Hc as (p & Hin & Hp).
      destruct p; simpl in Hp; try (destruct Hp as [Hp|[]]; discriminate); try contradiction. eauto.
    + assert (Hc := H CErr (or_intror (or_introl eq_refl))). apply cov_found in Hc as (p & Hin & Hp).
      destruct p; simpl in Hp; try (destruct Hp as [Hp|[]]; discriminate); try contradiction. eauto.
Qed.

Lemma scope_ground_gr : forall sc, scope_ground sc = true -> scope_gr sc.
Proof.
  unfold scope_ground, scope_gr. intros sc H x t m Hin. rewrite forallb_forall in H.
  apply (H _ Hin).
Qed.

Lemma for_scope_gr : forall x, scope_gr [(x, (TInt, false))].
Proof. intros x y t m [H|[]]. inversion H; subst; auto. Qed.

Lemma compound_sound : forall S i x o e tx te,
  ground_env S -> lookup S x = Some (tx, true) ->
  check_expr fixed G R S e = (te, []) ->
  compound_events fixed o tx te (eid e) = [] ->
  stmt_ok G R S (SCompound i x o e) S.
Proof.
  intros S i x o e tx te Hg Hl He Hc.
  assert (Hint : compat te TInt = true -> has_type G R S e TInt) by (intros; eapply expr_sound; eauto).
  assert (Hstr : compat te TStr = true -> has_type G R S e TStr) by (intros; eapply expr_sound; eauto).
  destruct tx; destruct te; destruct o; simpl in Hc; try discriminate;
    first [ apply S_CompoundInt; [assumption| apply Hint; reflexivity]
          | apply S_CompoundStr; [assumption| apply Hstr; reflexivity] ].
Qed.

Theorem stmt_sound_all :
  (forall s S S' ev, ground_env S -> check_stmt fixed G R S s = (S', ev) -> ev = [] ->
     stmt_ok G R S s S' /\ ground_env S') /\
  (forall b S, ground_env S -> check_block fixed G R S b = [] -> block_ok G R S b) /\
  (forall l S, ground_env S -> check_elifs fixed G R S l = [] -> elifs_ok G R S l) /\
  (forall o S, ground_env S -> check_oblock fixed G R S o = [] -> oblock_ok G R S o) /\
  (forall ar S t, ground_env S -> ground t = true -> check_arms fixed G R S t ar = [] ->
     arms_ok G R S t ar /\ Forall (fun p => pat_fits G t p = true) (arms_pats ar)).
Proof.
  apply stmt_all_ind.
  - (* SAssign *) intros i k x ann e S S' ev Hg H Hev. rewrite cs_assign in H.
    destruct (check_expr fixed G R S e) as [t ee] eqn:Ee.
    replace (is_plain k && fx_outer fixed) with (is_plain k) in H by (simpl; now rewrite andb_true_r).
    destruct (if is_plain k then lookup S x else lookup_local S x) as [[tx m]|] eqn:Ef.
    + inversion H; subst. nils. subst.
      destruct k; simpl in *; try discriminate. destruct ann; simpl in *; try discriminate.
      assert (ground tx = true) by (eapply lookup_ground; eauto).
      split; auto. eapply S_Reassign; eauto. eapply expr_sound; eauto.
    + destruct ann as [a|]; inversion H; subst; nils; subst.
      * split; [|apply ground_env_define; auto].
        eapply S_New; eauto.
        -- intros ->. simpl in Ef. auto.
        -- eapply expr_sound; eauto.
        -- intros a0 E0. now inversion E0.
      * split; [|apply ground_env_define; auto].
        eapply S_New; eauto.
        -- intros ->. simpl in Ef. auto.
        -- eapply expr_sound; eauto. apply compat_refl.
        -- intros a0 E0. discriminate.
  - (* SCompound *) intros i x o e S S' ev Hg H Hev. rewrite cs_compound in H.
    destruct (lookup S x) as [[tx m]|] eqn:El; [|inversion H; subst; discriminate].
    destruct (check_expr fixed G R S e) as [te ee] eqn:Ee. inversion H; subst. nils. subst.
    split; auto. eapply compound_sound; eauto.
  - (* SIf *) intros i c th IHth el IHel els IHels S S' ev Hg H Hev. rewrite cs_if in H.
    assert (Hg' : ground_env ([] :: S)) by (apply ground_env_push; auto using scope_gr_nil).
    apply pair_eq in H as [HS H]. subst S'. rewrite Hev in H. simpl in H. nils. split; auto.
    constructor; auto using cond_sound.
  - (* SWhile *) intros i c b IHb S S' ev Hg H Hev. rewrite cs_while in H.
    assert (Hg' : ground_env ([] :: S)) by (apply ground_env_push; auto using scope_gr_nil).
    apply pair_eq in H as [HS H]. subst S'. rewrite Hev in H. nils. split; auto.
    constructor; auto using cond_sound.
  - (* SFor *) intros i x e b IHb S S' ev Hg H Hev. rewrite cs_for in H.
    destruct (check_expr fixed G R S e) as [t ee] eqn:Ee.
    apply pair_eq in H as [HS H]. subst S'. rewrite Hev in H. nils. subst.
    split; auto. destruct (expr_sound_any G R HG HR e S t Hg Ee) as (t' & Ht').
    econstructor; eauto. apply IHb; auto. apply ground_env_push; auto using for_scope_gr.
  - (* SReturn *) intros i oe S S' ev Hg H Hev. rewrite cs_return in H. destruct oe as [e|].
    + destruct (check_expr fixed G R S e) as [t ee] eqn:Ee.
      apply pair_eq in H as [HS H]. subst S'. rewrite Hev in H. nils. subst.
      split; auto. constructor. eapply expr_sound; eauto.
    + apply pair_eq in H as [HS H]. subst S'. rewrite Hev in H. simpl in H. nils. split; auto. constructor.
      apply compat_unit; auto.
  - (* SExpr *) intros i e S S' ev Hg H Hev. rewrite cs_expr in H.
    destruct (check_expr fixed G R S e) as [t ee] eqn:Ee.
    apply pair_eq in H as [HS H]. subst S'. rewrite Hev in H. simpl in H. subst.
    split; auto. destruct (expr_sound_any G R HG HR e S t Hg Ee) as (t' & Ht'). econstructor; eauto.
  - (* SMatch *) intros i mi e ar IHar S S' ev Hg H Hev. rewrite cs_match in H.
    destruct (check_expr fixed G R S e) as [t ee] eqn:Ee.
    apply pair_eq in H as [HS H]. subst S'. rewrite Hev in H. nils. subst.
    split; auto.
    match goal with Ha : check_arms _ _ _ _ _ _ = [] |- _ => destruct (IHar S t Hg ltac:(assumption) Ha) as [Har Hf] end.
    econstructor; eauto.
    + eapply expr_sound; eauto. apply compat_refl.
    + apply exhaustive_covers; auto.
  - (* BNil *) intros; constructor.
  - (* BCons *) intros s IHs b IHb S Hg H. rewrite cb_cons in H.
    destruct (check_stmt fixed G R S s) as [S' ev] eqn:Es. nils. subst.
    destruct (IHs S S' [] Hg Es eq_refl) as [Hs Hg']. econstructor; eauto.
  - (* LNil *) intros; constructor.
  - (* LCons *) intros c b IHb r IHr S Hg H. rewrite ce_cons in H. nils.
    constructor; auto using cond_sound. apply IHb; auto. apply ground_env_push; auto using scope_gr_nil.
  - (* ONone *) intros; constructor.
  - (* OSome *) intros b IHb S Hg H. rewrite co_some in H. constructor. apply IHb; auto.
    apply ground_env_push; auto using scope_gr_nil.
  - (* MNil *) intros S t Hg Ht H. split; constructor.
  - (* MCons *) intros pi p g b IHb r IHr S t Hg Ht H. rewrite ca_cons in H. simpl in H. nils.
    assert (Hsc : scope_gr (pat_binds t p)) by (apply scope_ground_gr; auto).
    assert (Hg' : ground_env (pat_binds t p :: S)) by (apply ground_env_push; auto).
    match goal with Ha : check_arms _ _ _ _ _ _ = [] |- _ => destruct (IHr S t Hg Ht Ha) as [Hr Hf] end. split.
    + constructor; auto.
      * apply pat_fits_ok; auto.
      * intros ge ->. apply cond_sound; auto.
    + simpl. constructor; auto.
Qed.

Lemma block_sound : forall b S, ground_env S -> check_block fixed G R S b = [] -> block_ok G R S b.
Proof. apply stmt_sound_all. Qed.

End Sound.
