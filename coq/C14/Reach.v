(* C14/Reach.v — what the work-list collectors compute: exactly the files reachable from the
   entry through the resolver; consequence: CLI and LSP load the same dependencies whenever they
   resolve every single import alike. *)
From Coq Require Import ZArith List Bool Lia.
Import ListNotations.
From Verif Require Import C14.Model C14.Proofs C14.Loops.
Open Scope Z_scope.

Section Reachability.
  Context (edge : path -> path -> Prop).
  (* reflexive-transitive closure, steps appended at the end *)
  Inductive reach (e : path) : path -> Prop :=
  | reach_refl : reach e e
  | reach_step : forall p q, reach e p -> edge p q -> reach e q.
  (* at least one step *)
  Definition reach1 (e q : path) : Prop := exists p0, edge e p0 /\ reach p0 q.

  Lemma reach_trans : forall a b c, reach a b -> reach b c -> reach a c.
  Proof. intros a b c Hab Hbc. induction Hbc; [exact Hab | eapply reach_step; eassumption]. Qed.

  Lemma reach_cases : forall e q, reach e q -> q = e \/ reach1 e q.
  Proof.
    intros e q H. induction H as [|p q Hp IH Hpq]; [left; reflexivity|]. right.
    destruct IH as [->|[p0 [H0 Hr]]].
    - exists q. split; [exact Hpq | apply reach_refl].
    - exists p0. split; [exact H0 | eapply reach_step; eassumption].
  Qed.

  Lemma reach1_reach : forall e q, reach1 e q -> reach e q.
  Proof.
    intros e q [p0 [H0 Hr]]. eapply reach_trans; [|exact Hr]. eapply reach_step; [apply reach_refl | exact H0].
  Qed.

  (* a set that contains the start and is closed under edges contains everything reachable *)
  Lemma reach_closed : forall (S : path -> Prop) e,
    S e -> (forall p q, S p -> edge p q -> S q) -> forall q, reach e q -> S q.
  Proof. intros S e He Hc q H. induction H; [exact He | eapply Hc; eassumption]. Qed.
End Reachability.

(* ------------------------------------------------------------------ CLI / ModuleResolver loop *)
Definition wedge (resolve : import -> option item) (imps : path -> list import) (p q : path) : Prop :=
  exists i it, In i (imps p) /\ resolve i = Some it /\ fst it = q.

Lemma drop_done_nil : forall processed stack, drop_done processed stack = [] ->
  forall it, In it stack -> In (fst it) processed.
Proof.
  intros processed. induction stack as [|x stack IH]; intros H it Hin; [destruct Hin|].
  cbn [drop_done] in H. destruct (mem (fst x) processed) eqn:M; [|discriminate].
  destruct Hin as [->|Hin]; [apply mem_In; exact M | apply IH; assumption].
Qed.

Lemma drop_done_split : forall processed stack it, In it stack ->
  In (fst it) processed \/ In it (drop_done processed stack).
Proof.
  intros processed. induction stack as [|x stack IH]; intros it Hin; [destruct Hin|].
  cbn [drop_done]. destruct (mem (fst x) processed) eqn:M.
  - destruct Hin as [->|Hin]; [left; apply mem_In; exact M | apply IH; exact Hin].
  - right. exact Hin.
Qed.

Lemma pushes_complete : forall resolve processed is i x,
  In i is -> resolve i = Some x -> In (fst x) processed \/ In x (pushes resolve processed is).
Proof.
  intros resolve processed. induction is as [|j tl IH]; intros i x Hin Hr; [destruct Hin|].
  cbn [pushes]. destruct Hin as [->|Hin].
  - rewrite Hr. destruct (mem (fst x) processed) eqn:M; [left; apply mem_In; exact M | right; left; reflexivity].
  - destruct (IH i x Hin Hr) as [H|H]; [left; exact H|]. right.
    destruct (resolve j) as [y|]; [|exact H]. destruct (mem (fst y) processed); [exact H | right; exact H].
Qed.

Record wl_inv (resolve : import -> option item) (imps : path -> list import) (entry : path)
       (processed : list path) (acc stack : list item) : Prop := {
  wi_acc : map fst acc = processed;
  wi_reach_p : forall p, In p processed -> reach (wedge resolve imps) entry p;
  wi_reach_s : forall it, In it stack -> reach (wedge resolve imps) entry (fst it);
  wi_closed : forall p q, In p processed -> wedge resolve imps p q -> In q processed \/ In q (map fst stack);
  wi_entry : In entry processed \/ In entry (map fst stack) }.

Lemma wl_loop_reach : forall resolve imps entry fuel processed acc stack res,
  wl_inv resolve imps entry processed acc stack ->
  wl_loop fuel resolve imps processed acc stack = Done res ->
  forall q, In q (map fst res) <-> reach (wedge resolve imps) entry q.
Proof.
  intros resolve imps entry. induction fuel as [|f IH]; intros processed acc stack res I H q.
  - cbn [wl_loop] in H. destruct (drop_done processed stack) as [|it rest] eqn:DD; [|discriminate].
    inversion H; subst res. clear H. destruct I as [Ha Hp Hs Hc He]. rewrite Ha.
    assert (forall x, In x (map fst stack) -> In x processed) as SP.
    { intros x Hx. apply in_map_iff in Hx. destruct Hx as [it [<- Hit]]. exact (drop_done_nil _ _ DD it Hit). }
    split; [apply Hp|]. intro R.
    apply (reach_closed (wedge resolve imps) (fun x => In x processed) entry); [| |exact R].
    + destruct He as [He|He]; [exact He | apply SP; exact He].
    + intros p x Hpp Hpx. destruct (Hc p x Hpp Hpx) as [Hx|Hx]; [exact Hx | apply SP; exact Hx].
  - cbn [wl_loop] in H. destruct (drop_done processed stack) as [|it rest] eqn:DD.
    + inversion H; subst res. clear H. destruct I as [Ha Hp Hs Hc He]. rewrite Ha.
      assert (forall x, In x (map fst stack) -> In x processed) as SP.
      { intros x Hx. apply in_map_iff in Hx. destruct Hx as [it [<- Hit]]. exact (drop_done_nil _ _ DD it Hit). }
      split; [apply Hp|]. intro R.
      apply (reach_closed (wedge resolve imps) (fun x => In x processed) entry); [| |exact R].
      * destruct He as [He|He]; [exact He | apply SP; exact He].
      * intros p x Hpp Hpx. destruct (Hc p x Hpp Hpx) as [Hx|Hx]; [exact Hx | apply SP; exact Hx].
    + apply (IH _ _ _ _ ) with (q := q) in H; [exact H|]. clear H IH.
      destruct (drop_done_spec _ _ _ _ DD) as [Hm [Hin Hrest]].
      destruct I as [Ha Hp Hs Hc He].
      assert (forall x, In x stack -> In (fst x) processed \/ x = it \/ In x rest) as SPLIT.
      { intros x Hx. destruct (drop_done_split processed stack x Hx) as [H1|H1]; [left; exact H1|].
        rewrite DD in H1. right. destruct H1 as [H1|H1]; [left; symmetry; exact H1 | right; exact H1]. }
      constructor.
      * cbn [map]. rewrite Ha. reflexivity.
      * intros p [<-|Hpp]; [apply Hs; exact Hin | apply Hp; exact Hpp].
      * intros x Hx. apply in_app_or in Hx. destruct Hx as [Hx|Hx].
        -- apply in_rev in Hx. destruct (pushes_in _ _ _ _ Hx) as [i [Hi Hr]].
           eapply reach_step; [apply Hs; exact Hin|]. exists i, x. repeat split; assumption.
        -- apply Hs. apply Hrest. exact Hx.
      * intros p x Hpp Hpx. rewrite map_app, in_app_iff. destruct Hpp as [<-|Hpp].
        -- destruct Hpx as [i [y [Hi [Hr Hy]]]]. subst x.
           destruct (pushes_complete resolve (fst it :: processed) _ i y Hi Hr) as [H1|H1]; [left; exact H1|].
           right. left. apply in_map. apply in_rev. rewrite rev_involutive. exact H1.
        -- destruct (Hc p x Hpp Hpx) as [H1|H1]; [left; right; exact H1|].
           apply in_map_iff in H1. destruct H1 as [y [<- Hy]].
           destruct (SPLIT y Hy) as [H2|[->|H2]]; [left; right; exact H2 | left; left; reflexivity | right; right; apply in_map; exact H2].
      * destruct He as [He|He]; [left; right; exact He|].
        apply in_map_iff in He. destruct He as [y [<- Hy]].
        destruct (SPLIT y Hy) as [H2|[->|H2]]; [left; right; exact H2 | left; left; reflexivity |].
        right. rewrite map_app, in_app_iff. right. apply in_map. exact H2.
Qed.

Lemma cli_collect_reach : forall fs imps cwd ab b stem e fuel res,
  cli_collect fuel fs imps cwd ab b stem e = Done res ->
  forall q, In q (map fst res) <-> reach (wedge (cli_resolve fs cwd ab b) imps) (P (rl cwd ab b) stem e) q.
Proof.
  intros fs imps cwd ab b stem e fuel res H. unfold cli_collect in H.
  destruct (negb (file_exists fs (P (rl cwd ab b) stem e))); [discriminate|].
  eapply wl_loop_reach; [|exact H]. constructor.
  - reflexivity.
  - intros p [].
  - intros it [<-|[]]. apply reach_refl.
  - intros p q [].
  - right. left. reflexivity.
Qed.

(* ------------------------------------------------------------------ LSP loop *)
Definition ledge (fs : fsys) (imps : path -> list import) (p q : path) : Prop :=
  exists i, In i (imps p) /\ rip fs (pdir p) i = Some q.

Lemma ldrop_done_nil : forall seen stack, ldrop_done seen stack = [] ->
  forall it, In it stack -> In (fst it) seen.
Proof.
  intros seen. induction stack as [|x stack IH]; intros H it Hin; [destruct Hin|].
  cbn [ldrop_done] in H. destruct (mem (fst x) seen) eqn:M; [|discriminate].
  destruct Hin as [->|Hin]; [apply mem_In; exact M | apply IH; assumption].
Qed.

Lemma ldrop_done_split : forall seen stack it, In it stack ->
  In (fst it) seen \/ In it (ldrop_done seen stack).
Proof.
  intros seen. induction stack as [|x stack IH]; intros it Hin; [destruct Hin|].
  cbn [ldrop_done]. destruct (mem (fst x) seen) eqn:M.
  - destruct Hin as [->|Hin]; [left; apply mem_In; exact M | apply IH; exact Hin].
  - right. exact Hin.
Qed.

Lemma lpushes_complete : forall fs b is i q,
  In i is -> rip fs b i = Some q -> In (q, pdir q) (lpushes fs b is).
Proof.
  intros fs b. induction is as [|j tl IH]; intros i q Hin Hr; [destruct Hin|].
  cbn [lpushes]. destruct Hin as [->|Hin].
  - rewrite Hr. left. reflexivity.
  - destruct (rip fs b j); [right|]; apply (IH i q Hin Hr).
Qed.

Lemma lpushes_base : forall fs b is it, In it (lpushes fs b is) -> snd it = pdir (fst it).
Proof.
  intros fs b. induction is as [|j tl IH]; intros it H; cbn [lpushes] in H; [destruct H|].
  destruct (rip fs b j); [destruct H as [<-|H]; [reflexivity|]|]; apply IH; exact H.
Qed.

Record lsp_inv (fs : fsys) (imps : path -> list import) (entry : path)
       (seen acc : list path) (stack : list litem) : Prop := {
  li_acc : forall p, In p seen <-> p = entry \/ In p acc;   (* `seen` = the entry + what was loaded *)
  li_noentry : ~ In entry acc;
  li_base : forall it, In it stack -> snd it = pdir (fst it);
  li_reach_p : forall p, In p acc -> reach1 (ledge fs imps) entry p;
  li_reach_s : forall it, In it stack -> reach1 (ledge fs imps) entry (fst it);
  li_closed : forall p q, In p seen -> ledge fs imps p q -> In q seen \/ In q (map fst stack) }.

Lemma lsp_done_reach : forall fs imps entry seen acc stack,
  lsp_inv fs imps entry seen acc stack ->
  ldrop_done seen stack = [] ->
  forall q, In q (rev acc) <-> reach1 (ledge fs imps) entry q /\ q <> entry.
Proof.
  intros fs imps entry seen acc stack [Ha Hn Hb Hp Hs Hc] DD q. rewrite <- in_rev.
  assert (forall x, In x (map fst stack) -> In x seen) as SP.
  { intros x Hx. apply in_map_iff in Hx. destruct Hx as [it [<- Hit]]. exact (ldrop_done_nil _ _ DD it Hit). }
  split.
  - intro Hq. split; [apply Hp; exact Hq|]. intro E. subst q. exact (Hn Hq).
  - intros [[p0 [H0 R]] Hne].
    assert (In q seen) as Hq.
    { apply (reach_closed (ledge fs imps) (fun x => In x seen) p0); [| |exact R].
      + assert (In entry seen) as He by (apply Ha; left; reflexivity).
        destruct (Hc entry p0 He H0) as [Hx|Hx]; [exact Hx | apply SP; exact Hx].
      + intros p x Hpp Hpx. destruct (Hc p x Hpp Hpx) as [Hx|Hx]; [exact Hx | apply SP; exact Hx]. }
    apply Ha in Hq. destruct Hq as [Hq|Hq]; [contradiction | exact Hq].
Qed.

Lemma lsp_loop_reach : forall fs imps entry fuel seen acc stack res,
  lsp_inv fs imps entry seen acc stack ->
  lsp_loop fuel fs imps seen acc stack = Done res ->
  forall q, In q res <-> reach1 (ledge fs imps) entry q /\ q <> entry.
Proof.
  intros fs imps entry. induction fuel as [|f IH]; intros seen acc stack res I H q.
  - cbn [lsp_loop] in H. destruct (ldrop_done seen stack) as [|it rest] eqn:DD; [|discriminate].
    inversion H; subst res. exact (lsp_done_reach _ _ _ _ _ _ I DD q).
  - cbn [lsp_loop] in H. destruct (ldrop_done seen stack) as [|it rest] eqn:DD.
    + inversion H; subst res. exact (lsp_done_reach _ _ _ _ _ _ I DD q).
    + apply (IH _ _ _ _) with (q := q) in H; [exact H|]. clear H IH.
      destruct (ldrop_done_spec _ _ _ _ DD) as [Hm [Hin Hrest]].
      destruct I as [Ha Hn Hb Hp Hs Hc].
      assert (forall x, In x stack -> In (fst x) seen \/ x = it \/ In x rest) as SPLIT.
      { intros x Hx. destruct (ldrop_done_split seen stack x Hx) as [H1|H1]; [left; exact H1|].
        rewrite DD in H1. right. destruct H1 as [H1|H1]; [left; symmetry; exact H1 | right; exact H1]. }
      assert (forall x, In x (map fst stack) -> In x (fst it :: seen) \/ In x (map fst (rev (lpushes fs (snd it) (imps (fst it))) ++ rest))) as MOVE.
      { intros x Hx. apply in_map_iff in Hx. destruct Hx as [y [<- Hy]].
        destruct (SPLIT y Hy) as [H2|[->|H2]]; [left; right; exact H2 | left; left; reflexivity |].
        right. rewrite map_app, in_app_iff. right. apply in_map. exact H2. }
      assert (fst it <> entry) as NE.
      { intro E. apply (mem_false_not_In _ _ Hm). rewrite E. apply Ha. left. reflexivity. }
      constructor.
      * intro p. cbn [In]. rewrite Ha. split.
        -- intros [H1|[H1|H1]]; [right; left; exact H1 | left; exact H1 | right; right; exact H1].
        -- intros [H1|[H1|H1]]; [right; left; exact H1 | left; exact H1 | right; right; exact H1].
      * intros [H1|H1]; [exact (NE H1) | exact (Hn H1)].
      * intros x Hx. apply in_app_or in Hx. destruct Hx as [Hx|Hx].
        -- apply in_rev in Hx. exact (lpushes_base _ _ _ _ Hx).
        -- apply Hb. apply Hrest. exact Hx.
      * intros p [<-|Hpp]; [apply Hs; exact Hin | apply Hp; exact Hpp].
      * intros x Hx. apply in_app_or in Hx. destruct Hx as [Hx|Hx].
        -- apply in_rev in Hx. destruct (lpushes_in _ _ _ _ Hx) as [i [Hi Hri]].
           destruct (Hs it Hin) as [p0 [H0 R]]. exists p0. split; [exact H0|].
           eapply reach_step; [exact R|]. exists i. split; [exact Hi|]. rewrite <- (Hb it Hin). exact Hri.
        -- apply Hs. apply Hrest. exact Hx.
      * intros p x Hpp Hpx. destruct Hpp as [<-|Hpp].
        -- destruct Hpx as [i [Hi Hri]]. right. rewrite map_app, in_app_iff. left.
           rewrite <- (Hb it Hin) in Hri.
           pose proof (lpushes_complete fs (snd it) _ i x Hi Hri) as H1.
           apply in_map_iff. exists (x, pdir x). split; [reflexivity|]. apply in_rev. rewrite rev_involutive. exact H1.
        -- destruct (Hc p x Hpp Hpx) as [H1|H1]; [left; right; exact H1 | apply MOVE; exact H1].
Qed.

Lemma lsp_collect_reach : forall fs imps entry fuel res,
  lsp_collect fuel fs imps entry = Done res ->
  forall q, In q res <-> reach1 (ledge fs imps) entry q /\ q <> entry.
Proof.
  intros fs imps entry fuel res H. unfold lsp_collect in H.
  eapply lsp_loop_reach; [|exact H]. constructor.
  - intro p. cbn [In]. split; [intros [H1|[]]; left; symmetry; exact H1 | intros [H1|[]]; left; symmetry; exact H1].
  - intros [].
  - intros it Hin. apply in_rev in Hin. exact (lpushes_base _ _ _ _ Hin).
  - intros p [].
  - intros it Hin. apply in_rev in Hin. destruct (lpushes_in _ _ _ _ Hin) as [i [Hi Hr]].
    exists (fst it). split; [exists i; split; assumption | apply reach_refl].
  - intros p q [<-|[]] [i [Hi Hr]]. right. apply in_map_iff. exists (q, pdir q). split; [reflexivity|].
    apply in_rev. rewrite rev_involutive. exact (lpushes_complete _ _ _ i q Hi Hr).
Qed.

(* ------------------------------------------------------------------ whole-project agreement *)
Lemma reach_edge_ext : forall (e1 e2 : path -> path -> Prop),
  (forall p q, e1 p q -> e2 p q) -> forall a b, reach e1 a b -> reach e2 a b.
Proof. intros e1 e2 H a b R. induction R; [apply reach_refl | eapply reach_step; [eassumption | apply H; assumption]]. Qed.

Lemma collect_agree : forall fs imps cwd ab b stem e fuel rc rl_,
  (forall p i, In i (imps p) -> option_map fst (cli_resolve fs cwd ab b i) = rip fs (pdir p) i) ->
  cli_collect fuel fs imps cwd ab b stem e = Done rc ->
  lsp_collect fuel fs imps (P (rl cwd ab b) stem e) = Done rl_ ->
  forall q, In q rl_ <-> In q (map fst rc) /\ q <> P (rl cwd ab b) stem e.
Proof.
  intros fs imps cwd ab b stem e fuel rc rl_ AG HC HL q.
  rewrite (cli_collect_reach _ _ _ _ _ _ _ _ _ HC q), (lsp_collect_reach _ _ _ _ _ HL q).
  assert (forall p x, wedge (cli_resolve fs cwd ab b) imps p x <-> ledge fs imps p x) as EQ.
  { intros p x. split.
    - intros [i [it [Hi [Hr Hx]]]]. exists i. split; [exact Hi|]. rewrite <- (AG p i Hi), Hr. cbn. rewrite Hx. reflexivity.
    - intros [i [Hi Hr]]. rewrite <- (AG p i Hi) in Hr. destruct (cli_resolve fs cwd ab b i) as [it|] eqn:C; [|discriminate].
      exists i, it. split; [exact Hi|]. split; [exact C|]. cbn in Hr. congruence. }
  split.
  - intros [R1 Hne]. split; [|exact Hne]. apply reach1_reach in R1. revert R1. apply reach_edge_ext. intros p x. apply EQ.
  - intros [R Hne]. split; [|exact Hne]. apply (reach_edge_ext _ (ledge fs imps)) in R; [|intros p x; apply EQ].
    destruct (reach_cases _ _ _ R) as [->|R1]; [contradiction | exact R1].
Qed.
