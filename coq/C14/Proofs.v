(* C14/Proofs.v — lemmas about the resolvers (agreement, determinism, soundness). *)
From Coq Require Import ZArith List Bool Lia.
Import ListNotations.
From Verif Require Import C14.Model.
Open Scope Z_scope.

(* ------------------------------------------------------------------ equality tests *)
Lemma dir_eqb_eq : forall a b, dir_eqb a b = true <-> a = b.
Proof.
  induction a as [|x a IH]; destruct b as [|y b]; cbn [dir_eqb]; split; intro H; try congruence; try discriminate.
  - apply andb_true_iff in H. destruct H as [H1 H2]. apply Z.eqb_eq in H1. apply IH in H2. congruence.
  - inversion H; subst. apply andb_true_iff. split; [apply Z.eqb_refl | apply IH; reflexivity].
Qed.

Lemma dir_eqb_refl : forall a, dir_eqb a a = true.
Proof. intro a. apply dir_eqb_eq. reflexivity. Qed.

Lemma ext_eqb_eq : forall a b, ext_eqb a b = true <-> a = b.
Proof. destruct a, b; cbn; split; intro; congruence. Qed.

Lemma path_eqb_eq : forall a b, path_eqb a b = true <-> a = b.
Proof.
  intros [d s e] [d' s' e']. unfold path_eqb. cbn [pdir pstem pext]. split; intro H.
  - apply andb_true_iff in H. destruct H as [H H3]. apply andb_true_iff in H. destruct H as [H1 H2].
    apply dir_eqb_eq in H1. apply Z.eqb_eq in H2. apply ext_eqb_eq in H3. congruence.
  - inversion H; subst. rewrite dir_eqb_refl, Z.eqb_refl. cbn. apply ext_eqb_eq. reflexivity.
Qed.

Lemma path_eqb_refl : forall a, path_eqb a a = true.
Proof. intro a. apply path_eqb_eq. reflexivity. Qed.

Lemma mem_In : forall p l, mem p l = true <-> In p l.
Proof.
  intros p l. unfold mem. rewrite existsb_exists. split.
  - intros [x [Hx He]]. apply path_eqb_eq in He. subst. exact Hx.
  - intro H. exists p. split; [exact H | apply path_eqb_refl].
Qed.

Lemma mem_false_not_In : forall p l, mem p l = false -> ~ In p l.
Proof. intros p l H Hin. apply mem_In in Hin. congruence. Qed.

Lemma In_files : forall fs p, In p (files fs) <-> In (File p) fs.
Proof.
  induction fs as [|e fs IH]; intro p; cbn [files].
  - split; intros [].
  - destruct e as [q|d|d]; cbn [In]; rewrite ?IH; split; intro H.
    + destruct H as [H|H]; [left; congruence | right; exact H].
    + destruct H as [H|H]; [left; congruence | right; exact H].
    + right; exact H.
    + destruct H as [H|H]; [discriminate | exact H].
    + right; exact H.
    + destruct H as [H|H]; [discriminate | exact H].
Qed.

Lemma file_exists_In : forall fs p, file_exists fs p = true <-> In p (files fs).
Proof.
  intros fs p. unfold file_exists. rewrite existsb_exists, In_files. split.
  - intros [e [He Hq]]. destruct e as [q|d|d]; try discriminate. apply path_eqb_eq in Hq. subst. exact He.
  - intro H. exists (File p). split; [exact H | apply path_eqb_refl].
Qed.

Lemma files_length : forall fs, (length (files fs) <= length fs)%nat.
Proof. induction fs as [|e fs IH]; [cbn; lia|]. destruct e; cbn [files length]; lia. Qed.

(* ------------------------------------------------------------------ spelled vs real directories *)
(* ------------------------------------------------------------------ agreement *)
Lemma msegs_no_multi : forall i, k_multi i = false -> msegs i = isegs i.
Proof. intros i H. unfold k_multi in H. unfold msegs. destruct (ikd i); [rewrite H|]; reflexivity. Qed.

Lemma cli_lsp_agree : forall fs cwd ab b i,
  k_multi i = false ->
  k_modonly fs (rl cwd ab b) i = false ->
  option_map fst (cli_resolve fs cwd ab b i) = rip fs (rl cwd ab b) i.
Proof.
  intros fs cwd ab b i Hm Hd. unfold cli_resolve, rip, k_modonly in *.
  destruct (skip i); [reflexivity|]. cbn [negb andb] in Hd.
  rewrite (msegs_no_multi i Hm).
  destruct (split_last (isegs i)) as [[ini s]|]; [|reflexivity].
  unfold cli_cands, rip_cands. cbn [find].
  destruct (file_exists fs (P (target_dir fs (fun d => d) i (rl cwd ab b) ++ ini) s Incn)); [reflexivity|].
  destruct (file_exists fs (P (target_dir fs (fun d => d) i (rl cwd ab b) ++ ini) s Incan)); [reflexivity|].
  cbn [negb andb] in Hd. apply orb_false_iff in Hd. destruct Hd as [H1 H2]. rewrite H1, H2. reflexivity.
Qed.

Lemma mr_cli_agree : forall fs cwd ab b i,
  k_mr_only fs cwd ab b i = false ->
  mr_resolve fs cwd ab b i = cli_resolve fs cwd ab b i.
Proof.
  intros fs cwd ab b i H. unfold mr_resolve, cli_resolve, k_mr_only in *.
  destruct (skip i); [reflexivity|]. cbn [negb andb] in H.
  destruct (split_last (msegs i)) as [[ini s]|]; [|reflexivity].
  unfold mr_cands, cli_cands. cbn [find].
  destruct (file_exists fs (P (target_dir fs (fun d => d) i (rl cwd ab b) ++ ini) s Incn)); [reflexivity|].
  cbn [negb andb] in H. apply orb_false_iff in H. destruct H as [H H3]. apply orb_false_iff in H. destruct H as [H1 H2].
  rewrite H1, H2, H3. reflexivity.
Qed.

(* the way the entry is spelled no longer matters *)
Lemma cli_resolve_spelling : forall fs cwd ab b i,
  cli_resolve fs cwd ab b i = cli_resolve fs [] true (rl cwd ab b) i.
Proof. intros. reflexivity. Qed.

Lemma lsp_meets_spec : forall fs d i, k_multi i = false -> rip fs d i = spec_resolve fs d i.
Proof. intros fs d i H. unfold rip, spec_resolve. rewrite (msegs_no_multi i H). reflexivity. Qed.

(* ------------------------------------------------------------------ soundness: results are files of fs *)
Lemma cli_resolve_sound : forall fs cwd ab b i it,
  cli_resolve fs cwd ab b i = Some it -> In (fst it) (files fs).
Proof.
  intros fs cwd ab b i it H. unfold cli_resolve in H. destruct (skip i); [discriminate|].
  destruct (split_last (msegs i)) as [[ini s]|]; [|discriminate].
  destruct (find _ _) as [p|] eqn:F; [|discriminate]. inversion H; subst. cbn [fst].
  apply find_some in F. apply file_exists_In. exact (proj2 F).
Qed.

Lemma mr_resolve_sound : forall fs cwd ab b i it,
  mr_resolve fs cwd ab b i = Some it -> In (fst it) (files fs).
Proof.
  intros fs cwd ab b i it H. unfold mr_resolve in H. destruct (skip i); [discriminate|].
  destruct (split_last (msegs i)) as [[ini s]|]; [|discriminate].
  destruct (find _ _) as [p|] eqn:F; [|discriminate]. inversion H; subst. cbn [fst].
  apply find_some in F. apply file_exists_In. exact (proj2 F).
Qed.

Lemma rip_sound : forall fs b i p, rip fs b i = Some p -> In p (files fs).
Proof.
  intros fs b i p H. unfold rip in H. destruct (skip i); [discriminate|].
  destruct (split_last (isegs i)) as [[ini s]|]; [|discriminate].
  apply find_some in H. apply file_exists_In. exact (proj2 H).
Qed.

Lemma spec_resolve_sound : forall fs b i p, spec_resolve fs b i = Some p -> In p (files fs).
Proof.
  intros fs b i p H. unfold spec_resolve in H. destruct (skip i); [discriminate|].
  destruct (split_last (msegs i)) as [[ini s]|]; [|discriminate].
  apply find_some in H. apply file_exists_In. exact (proj2 H).
Qed.

(* ------------------------------------------------------------------ determinism: only the SET of entries matters *)
Definition fs_equiv (fs fs' : fsys) : Prop := forall e, In e fs <-> In e fs'.

Lemma existsb_equiv : forall (f : entry -> bool) fs fs', fs_equiv fs fs' -> existsb f fs = existsb f fs'.
Proof.
  intros f fs fs' H. destruct (existsb f fs) eqn:E; symmetry.
  - apply existsb_exists in E. destruct E as [x [Hx Hf]]. apply existsb_exists. exists x. split; [apply H; exact Hx | exact Hf].
  - destruct (existsb f fs') eqn:E'; [|reflexivity].
    apply existsb_exists in E'. destruct E' as [x [Hx Hf]].
    assert (existsb f fs = true) as C by (apply existsb_exists; exists x; split; [apply H; exact Hx | exact Hf]). congruence.
Qed.

Lemma file_exists_equiv : forall fs fs' p, fs_equiv fs fs' -> file_exists fs p = file_exists fs' p.
Proof. intros. apply existsb_equiv. assumption. Qed.
Lemma has_cargo_equiv : forall fs fs' d, fs_equiv fs fs' -> has_cargo fs d = has_cargo fs' d.
Proof. intros. apply existsb_equiv. assumption. Qed.
Lemma dir_exists_equiv : forall fs fs' d, fs_equiv fs fs' -> dir_exists fs d = dir_exists fs' d.
Proof. intros. apply existsb_equiv. assumption. Qed.
Lemma marker_equiv : forall fs fs' d, fs_equiv fs fs' -> marker fs d = marker fs' d.
Proof. intros. unfold marker. rewrite (has_cargo_equiv fs fs') , (dir_exists_equiv fs fs') by assumption. reflexivity. Qed.

Lemma find_root_rev_equiv : forall fs fs' rlz r, fs_equiv fs fs' -> find_root_rev fs rlz r = find_root_rev fs' rlz r.
Proof.
  intros fs fs' rlz r H. induction r as [|x r IH]; cbn [find_root_rev]; rewrite (marker_equiv fs fs' _ H); [reflexivity|].
  rewrite IH. reflexivity.
Qed.

Lemma target_dir_equiv : forall fs fs' rlz i b, fs_equiv fs fs' -> target_dir fs rlz i b = target_dir fs' rlz i b.
Proof.
  intros fs fs' rlz i b H. unfold target_dir, crate_target, find_root.
  rewrite (find_root_rev_equiv fs fs' rlz _ H). rewrite (dir_exists_equiv fs fs' _ H). reflexivity.
Qed.

Lemma find_pred_ext : forall (f g : path -> bool) l, (forall x, f x = g x) -> find f l = find g l.
Proof. intros f g l H. induction l as [|x l IH]; cbn [find]; [reflexivity|]. rewrite H, IH. reflexivity. Qed.

Lemma resolvers_equiv : forall fs fs', fs_equiv fs fs' ->
  (forall cwd ab b i, cli_resolve fs cwd ab b i = cli_resolve fs' cwd ab b i) /\
  (forall b i, rip fs b i = rip fs' b i) /\
  (forall cwd ab b i, mr_resolve fs cwd ab b i = mr_resolve fs' cwd ab b i) /\
  (forall d i, spec_resolve fs d i = spec_resolve fs' d i).
Proof.
  intros fs fs' H. repeat split; intros.
  - unfold cli_resolve. rewrite (target_dir_equiv fs fs' _ _ _ H).
    destruct (skip i); [reflexivity|]. destruct (split_last (msegs i)) as [[ini s]|]; [|reflexivity].
    rewrite (find_pred_ext (file_exists fs) (file_exists fs')); [reflexivity|]. intro x. apply file_exists_equiv. exact H.
  - unfold rip. rewrite (target_dir_equiv fs fs' _ _ _ H).
    destruct (skip i); [reflexivity|]. destruct (split_last (isegs i)) as [[ini s]|]; [|reflexivity].
    apply find_pred_ext. intro x. apply file_exists_equiv. exact H.
  - unfold mr_resolve. rewrite (target_dir_equiv fs fs' _ _ _ H).
    destruct (skip i); [reflexivity|]. destruct (split_last (msegs i)) as [[ini s]|]; [|reflexivity].
    rewrite (find_pred_ext (file_exists fs) (file_exists fs')); [reflexivity|]. intro x. apply file_exists_equiv. exact H.
  - unfold spec_resolve. rewrite (target_dir_equiv fs fs' _ _ _ H).
    destruct (skip i); [reflexivity|]. destruct (split_last (msegs i)) as [[ini s]|]; [|reflexivity].
    apply find_pred_ext. intro x. apply file_exists_equiv. exact H.
Qed.

(* the chosen file is the FIRST existing candidate: no earlier candidate exists *)
Lemma find_first : forall (f : path -> bool) l p, find f l = Some p ->
  exists l1 l2, l = l1 ++ p :: l2 /\ f p = true /\ forall q, In q l1 -> f q = false.
Proof.
  intros f. induction l as [|x l IH]; intros p H; cbn [find] in H; [discriminate|].
  destruct (f x) eqn:E.
  - inversion H; subst. exists [], l. split; [reflexivity|]. split; [exact E|]. intros q [].
  - destruct (IH p H) as [l1 [l2 [Hl [Hp Hq]]]]. exists (x :: l1), l2. split; [rewrite Hl; reflexivity|].
    split; [exact Hp|]. intros q [Hq'|Hq']; [subst; exact E | apply Hq; exact Hq'].
Qed.
