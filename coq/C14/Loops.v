(* C14/Loops.v — termination of the four collectors: the stated fuel suffices for every import
   graph (cycles included). *)
From Coq Require Import ZArith List Bool Lia.
Import ListNotations.
From Verif Require Import C14.Model C14.Proofs.
Open Scope Z_scope.

Lemma drop_done_spec : forall processed stack it rest,
  drop_done processed stack = it :: rest ->
  mem (fst it) processed = false /\ In it stack /\ (forall x, In x rest -> In x stack).
Proof.
  intros processed. induction stack as [|x stack IH]; intros it rest H; cbn [drop_done] in H; [discriminate|].
  destruct (mem (fst x) processed) eqn:M.
  - destruct (IH it rest H) as [H1 [H2 H3]]. split; [exact H1|]. split; [right; exact H2|]. intros y Hy. right. apply H3. exact Hy.
  - inversion H; subst. split; [exact M|]. split; [left; reflexivity|]. intros y Hy. right. exact Hy.
Qed.

Lemma pushes_in : forall resolve processed is it,
  In it (pushes resolve processed is) -> exists i, In i is /\ resolve i = Some it.
Proof.
  intros resolve processed. induction is as [|i tl IH]; intros it H; cbn [pushes] in H; [destruct H|].
  destruct (resolve i) as [x|] eqn:R.
  - destruct (mem (fst x) processed).
    + destruct (IH it H) as [j [Hj Hr]]. exists j. split; [right; exact Hj | exact Hr].
    + destruct H as [H|H].
      * subst. exists i. split; [left; reflexivity | exact R].
      * destruct (IH it H) as [j [Hj Hr]]. exists j. split; [right; exact Hj | exact Hr].
  - destruct (IH it H) as [j [Hj Hr]]. exists j. split; [right; exact Hj | exact Hr].
Qed.

Lemma step_measure : forall (files processed : list path) p f,
  NoDup processed -> incl processed files -> ~ In p processed -> In p files ->
  (length files - length processed < S f)%nat ->
  NoDup (p :: processed) /\ incl (p :: processed) files /\ (length files - length (p :: processed) < f)%nat.
Proof.
  intros files processed p f ND INC NI IN M.
  assert (NoDup (p :: processed)) as ND' by (constructor; assumption).
  assert (incl (p :: processed) files) as INC'.
  { intros x [Hx|Hx]; [subst; exact IN | apply INC; exact Hx]. }
  split; [exact ND'|]. split; [exact INC'|].
  pose proof (NoDup_incl_length ND' INC') as L. cbn [length] in *. lia.
Qed.

Lemma wl_loop_terminates : forall fs resolve imps,
  (forall i it, resolve i = Some it -> In (fst it) (files fs)) ->
  forall fuel processed acc stack,
  NoDup processed -> incl processed (files fs) ->
  (forall it, In it stack -> In (fst it) (files fs)) ->
  (length (files fs) - length processed < fuel)%nat ->
  wl_loop fuel resolve imps processed acc stack <> OutOfFuel.
Proof.
  intros fs resolve imps SOUND. induction fuel as [|f IH]; intros processed acc stack ND INC ST M; [lia|].
  cbn [wl_loop]. destruct (drop_done processed stack) as [|it rest] eqn:DD; [discriminate|].
  destruct (drop_done_spec _ _ _ _ DD) as [Hm [Hin Hrest]].
  destruct (step_measure (files fs) processed (fst it) f ND INC (mem_false_not_In _ _ Hm) (ST it Hin) M) as [ND' [INC' M']].
  apply IH; try assumption.
  intros x Hx. apply in_app_or in Hx. destruct Hx as [Hx|Hx].
  - apply in_rev in Hx. destruct (pushes_in _ _ _ _ Hx) as [i [_ Hr]]. exact (SOUND i x Hr).
  - apply ST. apply Hrest. exact Hx.
Qed.

Lemma cli_collect_terminates : forall fs imps cwd ab b stem e fuel,
  (fuel_of fs <= fuel)%nat -> cli_collect fuel fs imps cwd ab b stem e <> OutOfFuel.
Proof.
  intros fs imps cwd ab b stem e fuel HF. unfold cli_collect.
  destruct (file_exists fs (P (rl cwd ab b) stem e)) eqn:E; cbn [negb]; [|discriminate].
  apply (wl_loop_terminates fs).
  - intros i it H. exact (cli_resolve_sound _ _ _ _ _ _ H).
  - constructor.
  - intros x [].
  - intros it [H|[]]. subst. cbn [fst]. apply file_exists_In. exact E.
  - pose proof (files_length fs). unfold fuel_of in HF. cbn [length]. lia.
Qed.

Lemma mr_collect_terminates : forall fs imps cwd ab b stem e fuel,
  (fuel_of fs <= fuel)%nat -> mr_collect fuel fs imps cwd ab b stem e <> OutOfFuel.
Proof.
  intros fs imps cwd ab b stem e fuel HF. unfold mr_collect.
  destruct (file_exists fs (P (rl cwd ab b) stem e)) eqn:E; cbn [negb]; [|discriminate].
  destruct (wl_loop fuel _ _ _ _ _) eqn:W; try discriminate.
  exfalso. revert W. apply (wl_loop_terminates fs).
  - intros i it H. exact (mr_resolve_sound _ _ _ _ _ _ H).
  - constructor.
  - intros x [].
  - intros it [H|[]]. subst. cbn [fst]. apply file_exists_In. exact E.
  - pose proof (files_length fs). unfold fuel_of in HF. cbn [length]. lia.
Qed.

Lemma ldrop_done_spec : forall seen stack it rest,
  ldrop_done seen stack = it :: rest ->
  mem (fst it) seen = false /\ In it stack /\ (forall x, In x rest -> In x stack).
Proof.
  intros seen. induction stack as [|x stack IH]; intros it rest H; cbn [ldrop_done] in H; [discriminate|].
  destruct (mem (fst x) seen) eqn:M.
  - destruct (IH it rest H) as [H1 [H2 H3]]. split; [exact H1|]. split; [right; exact H2|]. intros y Hy. right. apply H3. exact Hy.
  - inversion H; subst. split; [exact M|]. split; [left; reflexivity|]. intros y Hy. right. exact Hy.
Qed.

Lemma lpushes_in : forall fs b is it, In it (lpushes fs b is) -> exists i, In i is /\ rip fs b i = Some (fst it).
Proof.
  intros fs b. induction is as [|i tl IH]; intros it H; cbn [lpushes] in H; [destruct H|].
  destruct (rip fs b i) as [q|] eqn:R.
  - destruct H as [H|H].
    + subst. exists i. split; [left; reflexivity | exact R].
    + destruct (IH it H) as [j [Hj Hr]]. exists j. split; [right; exact Hj | exact Hr].
  - destruct (IH it H) as [j [Hj Hr]]. exists j. split; [right; exact Hj | exact Hr].
Qed.

(* [U]: any list that contains the files of fs (here: the entry, which the editor may hold without
   it being on disk, followed by the files) *)
Lemma lsp_loop_terminates : forall fs imps (U : list path),
  (forall q, In q (files fs) -> In q U) ->
  forall fuel seen acc stack,
  NoDup seen -> incl seen U ->
  (forall it, In it stack -> In (fst it) U) ->
  (length U - length seen < fuel)%nat ->
  lsp_loop fuel fs imps seen acc stack <> OutOfFuel.
Proof.
  intros fs imps U HU. induction fuel as [|f IH]; intros seen acc stack ND INC ST M; [lia|].
  cbn [lsp_loop]. destruct (ldrop_done seen stack) as [|it rest] eqn:DD; [discriminate|].
  destruct (ldrop_done_spec _ _ _ _ DD) as [Hm [Hin Hrest]].
  destruct (step_measure U seen (fst it) f ND INC (mem_false_not_In _ _ Hm) (ST it Hin) M) as [ND' [INC' M']].
  apply IH; try assumption.
  intros x Hx. apply in_app_or in Hx. destruct Hx as [Hx|Hx].
  - apply in_rev in Hx. destruct (lpushes_in _ _ _ _ Hx) as [i [_ Hr]]. apply HU. exact (rip_sound _ _ _ _ Hr).
  - apply ST. apply Hrest. exact Hx.
Qed.

Lemma lsp_collect_terminates : forall fs imps entry fuel,
  (fuel_of fs <= fuel)%nat -> lsp_collect fuel fs imps entry <> OutOfFuel.
Proof.
  intros fs imps entry fuel HF. unfold lsp_collect. apply (lsp_loop_terminates fs imps (entry :: files fs)).
  - intros q Hq. right. exact Hq.
  - constructor; [intros [] | constructor].
  - intros x [<-|[]]. left. reflexivity.
  - intros it H. apply in_rev in H. destruct (lpushes_in _ _ _ _ H) as [i [_ Hr]]. right. exact (rip_sound _ _ _ _ Hr).
  - pose proof (files_length fs). unfold fuel_of in HF. cbn [length]. lia.
Qed.

Lemma mc_load_terminates : forall fs imps base fuel loading p loaded,
  NoDup loading -> incl loading (files fs) -> In p (files fs) ->
  (length (files fs) - length loading < fuel)%nat ->
  mc_load fuel fs imps base loading p loaded <> OutOfFuel.
Proof.
  intros fs imps base. induction fuel as [|f IH]; intros loading p loaded ND INC IN M; [lia|].
  cbn [mc_load]. destruct (mem p loaded); [discriminate|]. destruct (mem p loading) eqn:ML; [discriminate|].
  destruct (step_measure (files fs) loading p f ND INC (mem_false_not_In _ _ ML) IN M) as [ND' [INC' M']].
  generalize (imps p) as is. generalize loaded as ld.
  assert (forall is ld,
    (fix go (is : list import) (ld : list path) {struct is} : outcome (list path) :=
       match is with
       | [] => Done ld
       | i :: tl =>
           match rip fs base i with
           | Some q =>
               match mc_load f fs imps base (p :: loading) q ld with
               | Done ld' => go tl ld'
               | OutOfFuel => OutOfFuel
               | Failed c x => Failed c x
               end
           | None => go tl ld
           end
       end) is ld <> OutOfFuel) as GO.
  { induction is as [|i tl IHis]; intro ld; [discriminate|].
    destruct (rip fs base i) as [q|] eqn:R; [|apply IHis].
    pose proof (IH (p :: loading) q ld ND' INC' (rip_sound _ _ _ _ R) M') as T.
    destruct (mc_load f fs imps base (p :: loading) q ld) as [ld'| |c x]; [apply IHis | congruence | discriminate]. }
  intros ld is. specialize (GO is ld).
  destruct ((fix go (is0 : list import) (ld0 : list path) {struct is0} : outcome (list path) := _) is ld); try discriminate. congruence.
Qed.

Lemma mc_collect_terminates : forall fs imps entry fuel,
  (fuel_of fs <= fuel)%nat -> mc_collect fuel fs imps entry <> OutOfFuel.
Proof.
  intros fs imps entry fuel HF. unfold mc_collect.
  destruct (file_exists fs entry) eqn:E; cbn [negb]; [|discriminate].
  apply mc_load_terminates.
  - constructor.
  - intros x [].
  - apply file_exists_In. exact E.
  - pose proof (files_length fs). unfold fuel_of in HF. cbn [length]. lia.
Qed.
