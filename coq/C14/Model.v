(* C14/Model.v — executable model of Incan's import resolution over an abstract finite file system.
   Definitions only.  Hand-written from (and behaviour-checked on every run against)
     src/cli/commands.rs            collect_modules            (cli_resolve, cli_collect)
     src/frontend/module.rs         resolve_import_path        (rip)   ModuleCollector (mc_collect)
                                    exported_symbols           (exported_names)
     src/lsp/backend.rs             collect_dependency_modules (lsp_collect)
     src/frontend/resolver.rs       ModuleResolver             (mr_resolve, mr_collect)
     src/frontend/typechecker/mod.rs     import_module, is_public_decl, check_with_imports
     src/frontend/typechecker/collect.rs validate_import_visibility, collect_import
   Assumptions of the file-system abstraction (enforced by the generator, stated in evidence):
   no symlinks, no directory whose name ends in .incn/.incan, no plain file called `src`,
   nothing above the case root carries Cargo.toml / src, entry paths contain no `.`/`..` components. *)
From Coq Require Import ZArith List Bool Lia.
Import ListNotations.
Open Scope Z_scope.

(* ------------------------------------------------------------------ file system *)
Definition seg := Z.                       (* an identifier / directory name, as a code *)
Definition dir := list seg.                (* absolute directory: names from the root down *)
Inductive ext := Incn | Incan.
Record path := P { pdir : dir; pstem : seg; pext : ext }.   (* pdir/pstem.incn | .incan *)
Inductive entry :=
| File (p : path)                          (* a regular source file *)
| Cargo (d : dir)                          (* d/Cargo.toml *)
| Dir (d : dir).                           (* a directory (possibly empty) *)
Definition fsys := list entry.

(* distinguished names *)
Definition SRC : seg := 1.                 (* "src" *)
Definition MODN : seg := 2.                (* "mod" *)
Definition INIT : seg := 3.                (* "__init__" *)
Definition STD : seg := 4.                 (* "std" *)
Definition MAIN : seg := 5.                (* "main" *)

Fixpoint dir_eqb (a b : dir) : bool :=
  match a, b with
  | [], [] => true
  | x :: a', y :: b' => (x =? y) && dir_eqb a' b'
  | _, _ => false
  end.
Definition ext_eqb (a b : ext) : bool :=
  match a, b with Incn, Incn => true | Incan, Incan => true | _, _ => false end.
Definition path_eqb (a b : path) : bool :=
  dir_eqb (pdir a) (pdir b) && (pstem a =? pstem b) && ext_eqb (pext a) (pext b).

Fixpoint is_prefix (d x : dir) : bool :=
  match d, x with
  | [], _ => true
  | a :: d', b :: x' => (a =? b) && is_prefix d' x'
  | _ :: _, [] => false
  end.

Definition entry_dir (e : entry) : dir :=
  match e with File p => pdir p | Cargo d => d | Dir d => d end.

Definition file_exists (fs : fsys) (p : path) : bool :=
  existsb (fun e => match e with File q => path_eqb p q | _ => false end) fs.
Definition has_cargo (fs : fsys) (d : dir) : bool :=
  existsb (fun e => match e with Cargo q => dir_eqb d q | _ => false end) fs.
Definition dir_exists (fs : fsys) (d : dir) : bool :=
  existsb (fun e => is_prefix d (entry_dir e)) fs.

Definition mem (p : path) (l : list path) : bool := existsb (path_eqb p) l.

(* ------------------------------------------------------------------ imports *)
Inductive ikind := KModule | KFrom.        (* `import a::b`  |  `from a.b import x` *)
Record import := I {
  ikd : ikind;
  iabs : bool;                             (* `crate::` / `crate.` prefix *)
  ilevels : nat;                           (* number of `..` / `super` *)
  isegs : list seg }.

(* imports that no resolver follows: empty path or std::... *)
Definition skip (i : import) : bool :=
  match isegs i with [] => true | s :: _ => s =? STD end.

(* CLI / ModuleResolver: `import a::b::c` names the item c of module a::b *)
Definition msegs (i : import) : list seg :=
  match ikd i with
  | KFrom => isegs i
  | KModule => if (1 <? length (isegs i))%nat then removelast (isegs i) else isegs i
  end.

(* Path::parent() with .unwrap_or(self): lexical, stuck at the empty / root path *)
Definition parent (d : list seg) : list seg := removelast d.

(* A directory as SPELLED on the command line: absolute, or relative to the working directory.
   [rl cwd ab d] is the real absolute directory of the spelled [d]. *)
Definition rl (cwd : dir) (ab : bool) (d : list seg) : dir := if ab then d else cwd ++ d.

Definition marker (fs : fsys) (d : dir) : bool := has_cargo fs d || dir_exists fs (d ++ [SRC]).

(* while !marker(root) { match root.parent() { Some(p) => root = p, None => break } }
   on the reversed spelled directory *)
Fixpoint find_root_rev (fs : fsys) (rlz : list seg -> dir) (r : list seg) : list seg :=
  if marker fs (rlz (rev r)) then r
  else match r with [] => [] | _ :: r' => find_root_rev fs rlz r' end.
Definition find_root fs rlz (d : list seg) : list seg := rev (find_root_rev fs rlz (rev d)).
Definition crate_target fs rlz (d : list seg) : list seg :=
  let root := find_root fs rlz d in
  if dir_exists fs (rlz (root ++ [SRC])) then root ++ [SRC] else root.

Fixpoint up (n : nat) (d : list seg) : list seg :=
  match n with O => d | S n' => parent (up n' d) end.

Definition target_dir fs rlz (i : import) (b : list seg) : list seg :=
  if iabs i then crate_target fs rlz b else up (ilevels i) b.

Definition split_last (l : list seg) : option (list seg * seg) :=
  match rev l with [] => None | s :: ri => Some (rev ri, s) end.

(* ------------------------------------------------------------------ the three resolvers *)
(* src/cli/commands.rs, inline in collect_modules: base = ABSOLUTE directory of the ENTRY file
   (whatever way the entry was spelled: [rl cwd ab b]) *)
Definition cli_cands (d : dir) (s : seg) : list path := [P d s Incn; P d s Incan].
Definition cli_resolve (fs : fsys) (cwd : dir) (ab : bool) (b : list seg) (i : import)
  : option (path * list seg) :=
  if skip i then None else
  (* the spelled base is made absolute first (frontend::module::absolute_path) *)
  let t := target_dir fs (fun d => d) i (rl cwd ab b) in
  let ms := msegs i in
  match split_last ms with
  | None => None
  | Some (ini, s) =>
      match find (file_exists fs) (cli_cands (t ++ ini) s) with
      | Some p => Some (p, ms)
      | None => None
      end
  end.

(* src/frontend/module.rs resolve_import_path: base is an absolute directory *)
Definition rip_cands (t : dir) (segs ini : list seg) (s : seg) : list path :=
  [P (t ++ ini) s Incn; P (t ++ ini) s Incan; P (t ++ segs) MODN Incn; P (t ++ segs) MODN Incan].
Definition rip (fs : fsys) (b : dir) (i : import) : option path :=
  if skip i then None else
  let t := target_dir fs (fun d => d) i b in
  match split_last (isegs i) with
  | None => None
  | Some (ini, s) => find (file_exists fs) (rip_cands t (isegs i) ini s)
  end.

(* src/frontend/resolver.rs ModuleResolver::resolve_import + find_module_file *)
Definition mr_cands (d : dir) (s : seg) (dm : dir) : list path :=
  [P d s Incn; P dm MODN Incn; P dm INIT Incn].
Definition mr_resolve (fs : fsys) (cwd : dir) (ab : bool) (b : list seg) (i : import)
  : option (path * list seg) :=
  if skip i then None else
  let t := target_dir fs (fun d => d) i (rl cwd ab b) in
  let ms := msegs i in
  match split_last ms with
  | None => None
  | Some (ini, s) =>
      match find (file_exists fs) (mr_cands (t ++ ini) s (t ++ ms)) with
      | Some p => Some (p, ms)
      | None => None
      end
  end.

(* The documented meaning (docs-site language/reference/imports_and_modules.md): paths are
   relative to the directory [d] of the importing file; `import a::b::Item` names module a::b;
   a directory module is `mod.incn`.  Written from the reference, not from the code. *)
Definition spec_resolve (fs : fsys) (d : dir) (i : import) : option path :=
  if skip i then None else
  let t := target_dir fs (fun d => d) i d in
  match split_last (msegs i) with
  | None => None
  | Some (ini, s) => find (file_exists fs) (rip_cands t (msegs i) ini s)
  end.

(* ------------------------------------------------------------------ disagreement classes *)
(* `import a::b` with two or more segments: CLI drops the last one, the shared resolver keeps it *)
Definition k_multi (i : import) : bool :=
  match ikd i with KModule => (1 <? length (isegs i))%nat | KFrom => false end.

(* only a directory module (mod.incn / mod.incan) exists for the import *)
Definition k_modonly (fs : fsys) (b : dir) (i : import) : bool :=
  negb (skip i) &&
  let t := target_dir fs (fun d => d) i b in
  match split_last (isegs i) with
  | None => false
  | Some (ini, s) =>
      negb (file_exists fs (P (t ++ ini) s Incn)) && negb (file_exists fs (P (t ++ ini) s Incan)) &&
      (file_exists fs (P (t ++ isegs i) MODN Incn) || file_exists fs (P (t ++ isegs i) MODN Incan))
  end.

(* the import stands in a file that is not in the entry's directory *)
Definition k_nested (entry_dir importer_dir : dir) : bool := negb (dir_eqb entry_dir importer_dir).

(* ModuleResolver only: the module exists as .incan only / as __init__.incn *)
Definition k_mr_only (fs : fsys) (cwd : dir) (ab : bool) (b : list seg) (i : import) : bool :=
  negb (skip i) &&
  let t := target_dir fs (fun d => d) i (rl cwd ab b) in
  match split_last (msegs i) with
  | None => false
  | Some (ini, s) =>
      negb (file_exists fs (P (t ++ ini) s Incn)) &&
      (file_exists fs (P (t ++ ini) s Incan) ||
       file_exists fs (P (t ++ msegs i) MODN Incn) ||
       file_exists fs (P (t ++ msegs i) INIT Incn))
  end.

(* ------------------------------------------------------------------ work lists *)
Inductive outcome (A : Type) :=
| Done (a : A)
| OutOfFuel
| Failed (code : Z) (p : path).      (* 1 = cannot read entry, 2 = circular import *)
Arguments Done {A} a.
Arguments OutOfFuel {A}.
Arguments Failed {A} code p.

Definition item := (path * list seg)%type.     (* file, module path segments (name = join "_") *)

(* the `continue` iterations of `while let Some(x) = stack.pop()`: pop while already processed *)
Fixpoint drop_done (processed : list path) (stack : list item) : list item :=
  match stack with
  | [] => []
  | it :: rest => if mem (fst it) processed then drop_done processed rest else stack
  end.

(* the `for decl in &ast.declarations` loop: resolved imports not yet processed, in push order *)
Fixpoint pushes (resolve : import -> option item) (processed : list path) (is : list import) : list item :=
  match is with
  | [] => []
  | i :: tl =>
      match resolve i with
      | Some it => if mem (fst it) processed then pushes resolve processed tl
                   else it :: pushes resolve processed tl
      | None => pushes resolve processed tl
      end
  end.

(* One unit of fuel = one file read and parsed.  [acc] is in reverse processing order.
   The stack is a list whose head is the top (the Vec's last element). *)
Fixpoint wl_loop (fuel : nat) (resolve : import -> option item) (imps : path -> list import)
         (processed : list path) (acc : list item) (stack : list item) : outcome (list item) :=
  match drop_done processed stack with
  | [] => Done acc
  | it :: rest =>
      match fuel with
      | O => OutOfFuel
      | S f =>
          let processed' := fst it :: processed in
          let new := pushes resolve processed' (imps (fst it)) in
          wl_loop f resolve imps processed' (it :: acc) (rev new ++ rest)
      end
  end.

(* cli::commands::collect_modules: result = modules.reverse(), entry last *)
Definition cli_collect (fuel : nat) (fs : fsys) (imps : path -> list import)
           (cwd : dir) (ab : bool) (b : list seg) (stem : seg) (e : ext) : outcome (list item) :=
  let entry := P (rl cwd ab b) stem e in
  if negb (file_exists fs entry) then Failed 1 entry else
  wl_loop fuel (cli_resolve fs cwd ab b) imps [] [] [(entry, [MAIN])].

(* resolver::ModuleResolver::resolve: same loop, result in processing order *)
Definition mr_collect (fuel : nat) (fs : fsys) (imps : path -> list import)
           (cwd : dir) (ab : bool) (b : list seg) (stem : seg) (e : ext) : outcome (list item) :=
  let entry := P (rl cwd ab b) stem e in
  if negb (file_exists fs entry) then Failed 1 entry else
  match wl_loop fuel (mr_resolve fs cwd ab b) imps [] [] [(entry, [MAIN])] with
  | Done acc => Done (rev acc)
  | OutOfFuel => OutOfFuel
  | Failed c p => Failed c p
  end.

(* lsp::backend::collect_dependency_modules: stack of (file, base dir for its imports);
   the `seen` test happens at pop time only; `seen` starts with the entry itself. *)
Definition litem := (path * dir)%type.
Fixpoint ldrop_done (seen : list path) (stack : list litem) : list litem :=
  match stack with
  | [] => []
  | it :: rest => if mem (fst it) seen then ldrop_done seen rest else stack
  end.
Fixpoint lpushes (fs : fsys) (b : dir) (is : list import) : list litem :=
  match is with
  | [] => []
  | i :: tl => match rip fs b i with
               | Some q => (q, pdir q) :: lpushes fs b tl
               | None => lpushes fs b tl
               end
  end.
Fixpoint lsp_loop (fuel : nat) (fs : fsys) (imps : path -> list import)
         (seen : list path) (acc : list path) (stack : list litem) : outcome (list path) :=
  match ldrop_done seen stack with
  | [] => Done (rev acc)
  | it :: rest =>
      match fuel with
      | O => OutOfFuel
      | S f => lsp_loop f fs imps (fst it :: seen) (fst it :: acc)
                        (rev (lpushes fs (snd it) (imps (fst it))) ++ rest)
      end
  end.
(* result: the dependency files in processing order (module name = file stem) *)
Definition lsp_collect (fuel : nat) (fs : fsys) (imps : path -> list import) (entry : path)
  : outcome (list path) :=
  lsp_loop fuel fs imps [entry] [] (rev (lpushes fs (pdir entry) (imps entry))).

(* frontend::module::ModuleCollector: recursive load with `loaded` and `loading` sets; all imports
   are resolved against the entry's directory.  Fuel = recursion depth. *)
Fixpoint mc_load (fuel : nat) (fs : fsys) (imps : path -> list import) (base : dir)
         (loading : list path) (p : path) (loaded : list path) : outcome (list path) :=
  match fuel with
  | O => OutOfFuel
  | S f =>
      if mem p loaded then Done loaded
      else if mem p loading then Failed 2 p
      else
        let deps :=
          (fix go (is : list import) (ld : list path) : outcome (list path) :=
             match is with
             | [] => Done ld
             | i :: tl =>
                 match rip fs base i with
                 | Some q =>
                     match mc_load f fs imps base (p :: loading) q ld with
                     | Done ld' => go tl ld'
                     | OutOfFuel => OutOfFuel
                     | Failed c x => Failed c x
                     end
                 | None => go tl ld
                 end
             end) (imps p) loaded in
        match deps with
        | Done ld => Done (p :: ld)
        | OutOfFuel => OutOfFuel
        | Failed c x => Failed c x
        end
  end.
Definition mc_collect (fuel : nat) (fs : fsys) (imps : path -> list import) (entry : path)
  : outcome (list path) :=
  if negb (file_exists fs entry) then Failed 1 entry else
  mc_load fuel fs imps (pdir entry) [] entry [].

(* all source files of a file system; the fuel every loop is run with *)
Fixpoint files (fs : fsys) : list path :=
  match fs with
  | [] => []
  | File p :: tl => p :: files tl
  | _ :: tl => files tl
  end.
Definition fuel_of (fs : fsys) : nat := S (length fs).

(* ------------------------------------------------------------------ visibility *)
(* a module-level declaration as far as visibility is concerned *)
Inductive dkind := DFn | DConst | DType | DTrait | DEnum (variants : list seg).
Record decl := D { dname : seg; dpub : bool; dk : dkind }.

(* typechecker/mod.rs is_public_decl (imports and docstrings are never public) *)
Definition is_public_decl (d : decl) : bool := dpub d.

(* module.rs exported_symbols, reduced to the names validate_import_visibility looks at *)
Fixpoint exported_names (ds : list decl) : list seg :=
  match ds with
  | [] => []
  | d :: tl =>
      if dpub d then
        match dk d with
        | DEnum vs => dname d :: vs ++ exported_names tl
        | _ => dname d :: exported_names tl
        end
      else exported_names tl
  end.

(* an import statement of the entry file, with what it binds *)
Record vimport := VI {
  vimp : import;
  vitems : list (seg * option seg);        (* `from m import x as y, ...` (KFrom only) *)
  valias : option seg }.                   (* `import a::b as n` (KModule only) *)

(* a reference in the entry file's body *)
(* `x` / `x(..)`   |   `m.x(..)` (method-call syntax)   |   `m.x` (field syntax) *)
Inductive use := UName (x : seg) | UQual (m x : seg) | UField (m x : seg).

Fixpoint lookup_dep (name : list seg) (deps : list (list seg * list decl)) : option (list decl) :=
  match deps with
  | [] => None
  | (n, ds) :: tl => if dir_eqb name n then Some ds else lookup_dep name tl
  end.
(* check_with_imports inserts into a HashMap: the LAST dependency with a given name wins *)
Definition dep_exports (name : list seg) (deps : list (list seg * list decl)) : option (list seg) :=
  option_map exported_names (lookup_dep name (rev deps)).

Definition zmem (x : seg) (l : list seg) : bool := existsb (Z.eqb x) l.

(* diagnostics, canonical: (1, x) = "Cannot import `x` ...: it is private or not exported",
   (2, x) = "Unknown symbol 'x'", (3, x) = "Type 'm' has no field 'x'" (field syntax on a module
   placeholder is rejected whatever x is) *)
Definition diag := (Z * seg)%type.

(* collect.rs validate_import_visibility: `from` imports only; silently nothing when the module
   name (segments joined by "_", modelled injectively as the segment list) is not a loaded dependency *)
Definition validate_import_visibility (deps : list (list seg * list decl)) (v : vimport) : list diag :=
  match ikd (vimp v) with
  | KModule => []
  | KFrom =>
      match dep_exports (isegs (vimp v)) deps with
      | None => []
      | Some ex => map (fun it => (1, fst it))
                       (filter (fun it => negb (zmem (fst it) ex)) (vitems v))
      end
  end.

(* names a `collect_import` binds (a Module placeholder, or nothing new if a real definition of
   that name was imported already — either way the name resolves afterwards) *)
Definition import_binds (v : vimport) : list seg :=
  match ikd (vimp v) with
  | KModule =>
      match valias v with
      | Some n => [n]
      | None => match rev (isegs (vimp v)) with [] => [] | s :: _ => [s] end
      end
  | KFrom => map (fun it => match snd it with Some a => a | None => fst it end) (vitems v)
  end.

(* import_module for every dependency: every PUBLIC declaration (and the variants of public
   enums) of every loaded module becomes an unqualified symbol of the entry file *)
Definition public_names (ds : list decl) : list seg := exported_names ds.
Definition dep_symbols (deps : list (list seg * list decl)) : list seg :=
  flat_map (fun d => public_names (snd d)) deps.

Definition own_names (ds : list decl) : list seg :=
  flat_map (fun d => match dk d with DEnum vs => dname d :: vs | _ => [dname d] end) ds.

(* the entry file is checked: import validation first (collection pass), then every reference *)
Definition check_entry (deps : list (list seg * list decl)) (own : list decl)
           (imports : list vimport) (uses : list use) : list diag :=
  let table := dep_symbols deps ++ own_names own ++ flat_map import_binds imports in
  flat_map (validate_import_visibility deps) imports ++
  flat_map (fun u => match u with
                     | UName x => if zmem x table then [] else [(2, x)]
                     | UQual m _ => if zmem m table then [] else [(2, m)]
                     | UField m x => if zmem m table then [(3, x)] else [(2, m)]
                     end) uses.

(* ------------------------------------------------------------------ rendering for the tie *)
Definition ext_code (e : ext) : Z := match e with Incn => 0 | Incan => 1 end.
Definition render_path (p : path) : list Z := ext_code (pext p) :: pstem p :: pdir p.
Definition render_opt (o : option path) : list Z := match o with None => [] | Some p => 1 :: render_path p end.
Definition render_item (it : item) : list Z * list Z := (render_path (fst it), snd it).
Definition render_items (o : outcome (list item)) : Z * list (list Z * list Z) :=
  match o with
  | Done l => (0, map render_item l)
  | OutOfFuel => (9, [])
  | Failed c p => (c, [(render_path p, [])])
  end.
Definition render_paths (o : outcome (list path)) : Z * list (list Z) :=
  match o with
  | Done l => (0, map render_path l)
  | OutOfFuel => (9, [])
  | Failed c p => (c, [render_path p])
  end.
Definition b2z (b : bool) : Z := if b then 1 else 0.

(* one single-import case: the four resolvers and the class flags *)
Definition run_resolve (fs : fsys) (cwd : dir) (ab : bool) (b : list seg) (imp_dir : dir) (i : import)
  : (list Z * list Z * list Z * list Z) * list Z :=
  ((render_opt (option_map fst (cli_resolve fs cwd ab b i)),
    render_opt (rip fs imp_dir i),
    render_opt (option_map fst (mr_resolve fs cwd ab b i)),
    render_opt (spec_resolve fs imp_dir i)),
   [b2z (k_multi i); b2z (k_modonly fs imp_dir i);
    b2z (k_nested (rl cwd ab b) imp_dir); b2z (k_mr_only fs cwd ab b i)]).

(* file contents as an association list *)
Fixpoint imps_of (tbl : list (path * list import)) (p : path) : list import :=
  match tbl with
  | [] => []
  | (q, is) :: tl => if path_eqb p q then is else imps_of tl p
  end.

(* does some import of a loaded file fall in a class in which CLI and LSP are known to differ? *)
Definition import_known (fs : fsys) (cwd : dir) (ab : bool) (b : list seg) (p : path) (i : import) : bool :=
  k_multi i || k_modonly fs (pdir p) i || k_nested (rl cwd ab b) (pdir p).
Definition any_known (fs : fsys) (imps : path -> list import) (cwd : dir) (ab : bool) (b : list seg)
           (loaded : list path) : bool :=
  existsb (fun p => existsb (import_known fs cwd ab b p) (imps p)) loaded.
Definition loaded_of_items (o : outcome (list item)) : list path :=
  match o with Done l => map fst l | _ => [] end.
Definition loaded_of_paths (o : outcome (list path)) : list path :=
  match o with Done l => l | _ => [] end.

Definition run_collect (fs : fsys) (tbl : list (path * list import))
           (cwd : dir) (ab : bool) (b : list seg) (stem : seg) (e : ext) :=
  let entry := P (rl cwd ab b) stem e in
  let c := cli_collect (fuel_of fs) fs (imps_of tbl) cwd ab b stem e in
  let l := lsp_collect (fuel_of fs) fs (imps_of tbl) entry in
  (render_items c,
   render_items (mr_collect (fuel_of fs) fs (imps_of tbl) cwd ab b stem e),
   render_paths l,
   render_paths (mc_collect (fuel_of fs) fs (imps_of tbl) entry),
   any_known fs (imps_of tbl) cwd ab b (entry :: loaded_of_items c ++ loaded_of_paths l)).

Definition run_check (deps : list (list seg * list decl)) (own : list decl)
           (imports : list vimport) (uses : list use) : list (Z * Z) :=
  check_entry deps own imports uses.

(* ------------------------------------------------------------------ witness data used by Props.v *)
(* a small file system used by the witnesses: <root>/p with a.incn, a/b.incn, c/mod.incn, d.incan,
   e/__init__.incn, sub/x.incn, sub/a.incn *)
Definition wfs : fsys :=
  [File (P [100] 10 Incn); File (P [100; 10] 11 Incn); File (P [100; 12] MODN Incn);
   File (P [100] 13 Incan); File (P [100; 14] INIT Incn); File (P [100; 20] 21 Incn);
   File (P [100; 20] 10 Incn)].

(* a two-file import cycle *)
Definition cyc_fs : fsys := [File (P [100] 10 Incn); File (P [100] 11 Incn)].
Definition cyc_imps : path -> list import :=
  imps_of [(P [100] 10 Incn, [I KFrom false 0 [11]]); (P [100] 11 Incn, [I KFrom false 0 [10]])].

(* one loaded module m (name [10]) with a private function 30 and a public function 31 *)
Definition vdeps : list (list seg * list decl) := [([10], [D 30 false DFn; D 31 true DFn])].

(* a flat three-file project with a cycle b <-> c and a missing module 99 *)
Definition flat_fs : fsys := [File (P [100] 10 Incn); File (P [100] 11 Incn); File (P [100] 12 Incn)].
Definition flat_imps : path -> list import :=
  imps_of [(P [100] 10 Incn, [I KFrom false 0 [11]]); (P [100] 11 Incn, [I KFrom false 0 [12]; I KFrom false 0 [99]]);
           (P [100] 12 Incn, [I KFrom false 0 [11]])].
