(* C14/Spec.v — the CLI resolver against the documented meaning. *)
From Coq Require Import ZArith List Bool Lia.
Import ListNotations.
From Verif Require Import C14.Model C14.Proofs.
Open Scope Z_scope.

(* the same import written as `from <module path> import ...` *)
Definition as_from (i : import) : import := I KFrom (iabs i) (ilevels i) (msegs i).

Lemma skip_as_from : forall i, skip (as_from i) = skip i.
Proof.
  intro i. unfold skip, as_from, msegs. cbn [isegs]. destruct (ikd i); [|reflexivity].
  destruct (isegs i) as [|x [|y l]]; try reflexivity.
Qed.

Lemma msegs_as_from : forall i, msegs (as_from i) = msegs i.
Proof. intro i. reflexivity. Qed.

Lemma target_dir_as_from : forall fs rlz i b, target_dir fs rlz (as_from i) b = target_dir fs rlz i b.
Proof. intros. reflexivity. Qed.

Lemma cli_resolve_as_from : forall fs cwd ab b i, cli_resolve fs cwd ab b (as_from i) = cli_resolve fs cwd ab b i.
Proof. intros. unfold cli_resolve. rewrite skip_as_from, msegs_as_from, target_dir_as_from. reflexivity. Qed.

Lemma spec_as_from : forall fs d i, spec_resolve fs d i = rip fs d (as_from i).
Proof.
  intros. unfold spec_resolve, rip. rewrite skip_as_from, target_dir_as_from. reflexivity.
Qed.

Lemma cli_meets_spec : forall fs cwd ab b d i,
  k_nested (rl cwd ab b) d = false ->
  k_modonly fs d (as_from i) = false ->
  option_map fst (cli_resolve fs cwd ab b i) = spec_resolve fs d i.
Proof.
  intros fs cwd ab b d i Hn Hm. unfold k_nested in Hn. apply negb_false_iff in Hn. apply dir_eqb_eq in Hn. subst d.
  rewrite spec_as_from, <- cli_resolve_as_from. apply cli_lsp_agree; [reflexivity | exact Hm].
Qed.
