(* C14/Vis.v — visibility: what check_with_imports rejects and what it lets through. *)
From Coq Require Import ZArith List Bool Lia.
Import ListNotations.
From Verif Require Import C14.Model C14.Proofs.
Open Scope Z_scope.

Lemma zmem_In : forall x l, zmem x l = true <-> In x l.
Proof.
  intros x l. unfold zmem. rewrite existsb_exists. split.
  - intros [y [Hy He]]. apply Z.eqb_eq in He. subst. exact Hy.
  - intro H. exists x. split; [exact H | apply Z.eqb_refl].
Qed.

(* exported_names = names of the public declarations and the variants of public enums *)
Definition exports (d : decl) (x : seg) : Prop :=
  dpub d = true /\ (dname d = x \/ exists vs, dk d = DEnum vs /\ In x vs).

Lemma exported_names_spec : forall ds x, In x (exported_names ds) <-> exists d, In d ds /\ exports d x.
Proof.
  induction ds as [|d ds IH]; intro x; cbn [exported_names].
  - split; [intros [] | intros [d [[] _]]].
  - destruct (dpub d) eqn:Pb.
    + destruct (dk d) as [| | | |vs] eqn:K.
      1-4: cbn [In]; rewrite IH; split;
        [ intros [H|[d' [Hd He]]]; [exists d; split; [left; reflexivity | split; [exact Pb | left; exact H]] | exists d'; split; [right; exact Hd | exact He]]
        | intros [d' [[Hd|Hd] [Hp [Hn|[vs [Hk Hv]]]]]]; subst; try (left; reflexivity); try congruence;
          right; exists d'; split; try exact Hd; split; try exact Hp; [left; reflexivity | right; exists vs; split; assumption] ].
      cbn [In]. rewrite in_app_iff, IH. split.
      * intros [H|[H|[d' [Hd He]]]].
        -- exists d. split; [left; reflexivity | split; [exact Pb | left; exact H]].
        -- exists d. split; [left; reflexivity | split; [exact Pb | right; exists vs; split; [exact K | exact H]]].
        -- exists d'. split; [right; exact Hd | exact He].
      * intros [d' [[Hd|Hd] [Hp [Hn|[vs' [Hk Hv]]]]]].
        -- subst. left; reflexivity.
        -- subst. right; left. rewrite K in Hk. inversion Hk; subst. exact Hv.
        -- right; right. exists d'. split; [exact Hd | split; [exact Hp | left; exact Hn]].
        -- right; right. exists d'. split; [exact Hd | split; [exact Hp | right; exists vs'; split; assumption]].
    + rewrite IH. split.
      * intros [d' [Hd He]]. exists d'. split; [right; exact Hd | exact He].
      * intros [d' [[Hd|Hd] He]]; [subst; destruct He as [Hp _]; congruence | exists d'; split; assumption].
Qed.

(* `from m import x` of a loaded module m: x not exported => diagnostic (1, x) *)
Lemma private_from_rejected : forall deps own imports uses v ds x,
  In v imports -> ikd (vimp v) = KFrom ->
  lookup_dep (isegs (vimp v)) (rev deps) = Some ds ->
  In x (map fst (vitems v)) ->
  (forall d, In d ds -> ~ exports d x) ->
  In (1, x) (check_entry deps own imports uses).
Proof.
  intros deps own imports uses v ds x Hv Hk Hl Hx Hp. unfold check_entry. apply in_or_app. left.
  apply in_flat_map. exists v. split; [exact Hv|]. unfold validate_import_visibility. rewrite Hk.
  unfold dep_exports. rewrite Hl. cbn [option_map].
  apply in_map_iff in Hx. destruct Hx as [it [Hf Hin]].
  apply in_map_iff. exists it. split; [rewrite Hf; reflexivity|]. apply filter_In. split; [exact Hin|].
  apply negb_true_iff. destruct (zmem (fst it) (exported_names ds)) eqn:Z; [|reflexivity].
  apply zmem_In in Z. apply exported_names_spec in Z. destruct Z as [d [Hd He]]. rewrite Hf in He. exfalso. exact (Hp d Hd He).
Qed.

(* an unqualified reference to a name that is neither a public item of a loaded module, nor
   declared in the entry file, nor bound by an import, gives diagnostic (2, x) *)
Lemma unbound_name_rejected : forall deps own imports uses x,
  In (UName x) uses ->
  (forall n ds d, In (n, ds) deps -> In d ds -> ~ exports d x) ->
  ~ In x (own_names own) ->
  (forall v, In v imports -> ~ In x (import_binds v)) ->
  In (2, x) (check_entry deps own imports uses).
Proof.
  intros deps own imports uses x Hu Hd Ho Hi. unfold check_entry. apply in_or_app. right.
  apply in_flat_map. exists (UName x). split; [exact Hu|].
  match goal with |- In _ (if zmem x ?t then _ else _) => destruct (zmem x t) eqn:Z end; [|left; reflexivity].
  exfalso. apply zmem_In in Z. apply in_app_or in Z. destruct Z as [Z|Z].
  - unfold dep_symbols in Z. apply in_flat_map in Z. destruct Z as [[n ds] [Hn Hx]]. cbn [snd] in Hx.
    unfold public_names in Hx. apply exported_names_spec in Hx. destruct Hx as [d [Hdd He]]. exact (Hd n ds d Hn Hdd He).
  - apply in_app_or in Z. destruct Z as [Z|Z]; [exact (Ho Z)|].
    apply in_flat_map in Z. destruct Z as [v [Hv Hx]]. exact (Hi v Hv Hx).
Qed.

(* no diagnostic at all is produced by `import` statements *)
Lemma module_import_never_validated : forall deps v,
  ikd (vimp v) = KModule -> validate_import_visibility deps v = [].
Proof. intros deps v H. unfold validate_import_visibility. rewrite H. reflexivity. Qed.

(* nor by a `from` import whose module was not loaded (missing file, or loaded under another name) *)
Lemma unloaded_module_never_validated : forall deps v,
  lookup_dep (isegs (vimp v)) (rev deps) = None -> validate_import_visibility deps v = [].
Proof.
  intros deps v H. unfold validate_import_visibility. destruct (ikd (vimp v)); [reflexivity|].
  unfold dep_exports. rewrite H. reflexivity.
Qed.
