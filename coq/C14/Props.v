(* C14/Props.v — the property theorems for C14, and nothing else.
   Model: coq/C14/Model.v (hand-written, tied to /repo by the correspondence run of checks/c14.py). *)
From Coq Require Import ZArith List Bool Lia.
Import ListNotations.
From Verif Require Import C14.Model C14.Proofs C14.Loops C14.Vis C14.Reach C14.Spec.
Open Scope Z_scope.


(* hypotheses are satisfiable by non-trivial values: `from a import x` in <root>/p resolves to
   a.incn in all three resolvers and none of the classes applies *)
Example C14_nonvacuous :
  let i := I KFrom false 0 [10] in
  k_multi i = false /\ k_modonly wfs [100] i = false /\
  k_mr_only wfs [] true [100] i = false /\
  rip wfs [100] i = Some (P [100] 10 Incn) /\
  option_map fst (cli_resolve wfs [] true [100] i) = Some (P [100] 10 Incn).
Proof. vm_compute. repeat split; reflexivity. Qed.

(* P1  the CLI and the LSP (shared resolver) pick the same file for every import that stands in the
       entry's directory, outside the two listed classes — however the entry path was spelled
       ([cwd], [ab], [b]: working directory, absolute?, spelled directory) *)
Theorem C14_resolvers_agree : forall fs cwd ab b i,
  k_multi i = false ->
  k_modonly fs (rl cwd ab b) i = false ->
  option_map fst (cli_resolve fs cwd ab b i) = rip fs (rl cwd ab b) i.
Proof. exact cli_lsp_agree. Qed.
Print Assumptions C14_resolvers_agree.

(* each class is inhabited by a real disagreement *)
Theorem C14_resolvers_agree_multi_refuted : exists fs b i,
  k_multi i = true /\ option_map fst (cli_resolve fs [] true b i) <> rip fs b i.
Proof. exists wfs, [100], (I KModule false 0 [10; 11]). vm_compute. split; [reflexivity | discriminate]. Qed.
Print Assumptions C14_resolvers_agree_multi_refuted.

Theorem C14_resolvers_agree_modfile_refuted : exists fs b i,
  k_multi i = false /\ k_modonly fs b i = true /\ option_map fst (cli_resolve fs [] true b i) <> rip fs b i.
Proof. exists wfs, [100], (I KFrom false 0 [12]). vm_compute. repeat split; discriminate. Qed.
Print Assumptions C14_resolvers_agree_modfile_refuted.

(* regression witness for the repaired relative-entry defect: `cd sub; incan --check main.incn` with
   `from ..a import x` now finds <root>/a.incn exactly as the absolute invocation and the LSP do;
   in general the spelling of the entry path is irrelevant *)
Theorem C14_relative_entry_regression :
  option_map fst (cli_resolve wfs [100; 20] false [] (I KFrom false 1 [10])) = Some (P [100] 10 Incn) /\
  rip wfs [100; 20] (I KFrom false 1 [10]) = Some (P [100] 10 Incn) /\
  (forall fs cwd ab b i, cli_resolve fs cwd ab b i = cli_resolve fs [] true (rl cwd ab b) i) /\
  (forall fs cwd ab b i, mr_resolve fs cwd ab b i = mr_resolve fs [] true (rl cwd ab b) i).
Proof. split; [vm_compute; reflexivity|]. split; [vm_compute; reflexivity|]. split; intros; reflexivity. Qed.
Print Assumptions C14_relative_entry_regression.

(* the CLI resolves an import of a nested file against the ENTRY's directory, the LSP against the
   importing file's directory *)
Theorem C14_resolvers_agree_nested_refuted : exists fs e d i,
  k_nested e d = true /\ k_multi i = false /\ k_modonly fs d i = false /\
  option_map fst (cli_resolve fs [] true e i) <> rip fs d i.
Proof. exists wfs, [100], [100; 20], (I KFrom false 0 [21]). vm_compute. repeat split; discriminate. Qed.
Print Assumptions C14_resolvers_agree_nested_refuted.

(* P2  the library-level ModuleResolver agrees with the CLI outside its class ... *)
Theorem C14_module_resolver_agrees : forall fs cwd ab b i,
  k_mr_only fs cwd ab b i = false ->
  mr_resolve fs cwd ab b i = cli_resolve fs cwd ab b i.
Proof. exact mr_cli_agree. Qed.
Print Assumptions C14_module_resolver_agrees.

(* ... and not inside it: .incan is unknown to it, __init__.incn is known only to it *)
Theorem C14_module_resolver_agrees_refuted : exists fs b i j,
  mr_resolve fs [] true b i <> cli_resolve fs [] true b i /\
  mr_resolve fs [] true b j <> cli_resolve fs [] true b j.
Proof. exists wfs, [100], (I KFrom false 0 [13]), (I KFrom false 0 [14]). vm_compute. split; discriminate. Qed.
Print Assumptions C14_module_resolver_agrees_refuted.

(* P3  the shared resolver implements the documented meaning except for `import a::b` *)
Theorem C14_lsp_meets_spec : forall fs d i, k_multi i = false -> rip fs d i = spec_resolve fs d i.
Proof. exact lsp_meets_spec. Qed.
Print Assumptions C14_lsp_meets_spec.

(*     ... and the CLI implements it for imports that stand in the entry's directory, outside the
       mod-file class ([as_from i] = the import rewritten as `from <module> import ..`) *)
Theorem C14_cli_meets_spec : forall fs cwd ab b d i,
  k_nested (rl cwd ab b) d = false ->
  k_modonly fs d (I KFrom (iabs i) (ilevels i) (msegs i)) = false ->
  option_map fst (cli_resolve fs cwd ab b i) = spec_resolve fs d i.
Proof. exact cli_meets_spec. Qed.
Print Assumptions C14_cli_meets_spec.

(* P4  one well-defined file: the result of every resolver depends only on the SET of directory
       entries (not on listing order or duplicates), is a file of that set, and is the first
       existing candidate in the resolver's fixed priority order *)
Theorem C14_resolution_unique : forall fs fs', (forall e, In e fs <-> In e fs') ->
  (forall cwd ab b i, cli_resolve fs cwd ab b i = cli_resolve fs' cwd ab b i) /\
  (forall b i, rip fs b i = rip fs' b i) /\
  (forall cwd ab b i, mr_resolve fs cwd ab b i = mr_resolve fs' cwd ab b i) /\
  (forall d i, spec_resolve fs d i = spec_resolve fs' d i).
Proof. exact resolvers_equiv. Qed.
Print Assumptions C14_resolution_unique.

Theorem C14_resolution_sound : forall fs,
  (forall cwd ab b i it, cli_resolve fs cwd ab b i = Some it -> In (File (fst it)) fs) /\
  (forall b i p, rip fs b i = Some p -> In (File p) fs) /\
  (forall cwd ab b i it, mr_resolve fs cwd ab b i = Some it -> In (File (fst it)) fs) /\
  (forall d i p, spec_resolve fs d i = Some p -> In (File p) fs).
Proof.
  intro fs. repeat split; intros.
  - apply In_files. exact (cli_resolve_sound _ _ _ _ _ _ H).
  - apply In_files. exact (rip_sound _ _ _ _ H).
  - apply In_files. exact (mr_resolve_sound _ _ _ _ _ _ H).
  - apply In_files. exact (spec_resolve_sound _ _ _ _ H).
Qed.
Print Assumptions C14_resolution_sound.

(* P5  termination: with fuel |fs|+1 (one unit per file read; recursion depth for ModuleCollector)
       none of the four collectors runs out of fuel, for EVERY assignment of imports to files
       ([imps] is arbitrary: cycles, self-imports, missing modules included) *)
Theorem C14_collect_terminates : forall fs imps cwd ab b stem e fuel,
  (S (length fs) <= fuel)%nat ->
  cli_collect fuel fs imps cwd ab b stem e <> OutOfFuel /\
  mr_collect fuel fs imps cwd ab b stem e <> OutOfFuel /\
  lsp_collect fuel fs imps (P (rl cwd ab b) stem e) <> OutOfFuel /\
  mc_collect fuel fs imps (P (rl cwd ab b) stem e) <> OutOfFuel.
Proof.
  intros fs imps cwd ab b stem e fuel H. split; [exact (cli_collect_terminates fs imps cwd ab b stem e fuel H)|].
  split; [exact (mr_collect_terminates fs imps cwd ab b stem e fuel H)|].
  split; [exact (lsp_collect_terminates fs imps _ fuel H) | exact (mc_collect_terminates fs imps _ fuel H)].
Qed.
Print Assumptions C14_collect_terminates.

(* a two-file cycle (a imports b, b imports a, entry = a): the CLI, ModuleResolver and LSP loops end
   silently; only the unused ModuleCollector reports "Circular import detected" *)
Theorem C14_cycle_diagnosed_refuted :
  cli_collect (fuel_of cyc_fs) cyc_fs cyc_imps [] true [100] 10 Incn
    = Done [(P [100] 11 Incn, [11]); (P [100] 10 Incn, [MAIN])] /\
  lsp_collect (fuel_of cyc_fs) cyc_fs cyc_imps (P [100] 10 Incn) = Done [P [100] 11 Incn] /\
  mc_collect (fuel_of cyc_fs) cyc_fs cyc_imps (P [100] 10 Incn) = Failed 2 (P [100] 10 Incn).
Proof. vm_compute. repeat split; reflexivity. Qed.
Print Assumptions C14_cycle_diagnosed_refuted.

(* regression for the repaired LSP defect: the entry is never one of its own dependencies, cycle
   through the entry or not (on [cyc_fs] the result above is [b], it used to be [b; a]) *)
Theorem C14_lsp_entry_not_dependency : forall fs imps entry fuel r,
  lsp_collect fuel fs imps entry = Done r -> ~ In entry r.
Proof.
  intros fs imps entry fuel r H Hin. apply (lsp_collect_reach fs imps entry fuel r H entry) in Hin.
  destruct Hin as [_ Hne]. exact (Hne eq_refl).
Qed.
Print Assumptions C14_lsp_entry_not_dependency.

(* P6  visibility.  `from m import x` of a module that was loaded under the name the checker looks
       up: x not exported by m (not a pub declaration, not a variant of a pub enum) => rejected *)
Theorem C14_private_rejected : forall deps own imports uses v ds x,
  In v imports -> ikd (vimp v) = KFrom ->
  lookup_dep (isegs (vimp v)) (rev deps) = Some ds ->
  In x (map fst (vitems v)) ->
  (forall d, In d ds -> ~ (dpub d = true /\ (dname d = x \/ exists vs, dk d = DEnum vs /\ In x vs))) ->
  In (1, x) (check_entry deps own imports uses).
Proof. exact private_from_rejected. Qed.
Print Assumptions C14_private_rejected.

(*     an unqualified reference to a private item that nothing else binds is rejected too
       (`import m` followed by a bare `privf()`) *)
Theorem C14_unqualified_private_rejected : forall deps own imports uses x,
  In (UName x) uses ->
  (forall n ds d, In (n, ds) deps -> In d ds -> ~ (dpub d = true /\ (dname d = x \/ exists vs, dk d = DEnum vs /\ In x vs))) ->
  ~ In x (own_names own) ->
  (forall v, In v imports -> ~ In x (import_binds v)) ->
  In (2, x) (check_entry deps own imports uses).
Proof. exact unbound_name_rejected. Qed.
Print Assumptions C14_unqualified_private_rejected.

(*     but, with [vdeps]: module m = [fn 30 (private); fn 31 (pub)] (Model.v) *)
(*     `import m::privf` then `privf()` : accepted *)
Theorem C14_private_rejected_item_import_refuted :
  check_entry vdeps [] [VI (I KModule false 0 [10; 30]) [] None] [UName 30] = [].
Proof. vm_compute. reflexivity. Qed.
Print Assumptions C14_private_rejected_item_import_refuted.
(*     `import m` then `m.privf()` : accepted *)
Theorem C14_private_rejected_qualified_refuted :
  check_entry vdeps [] [VI (I KModule false 0 [10]) [] None] [UQual 10 30] = [].
Proof. vm_compute. reflexivity. Qed.
Print Assumptions C14_private_rejected_qualified_refuted.
(*     `from nomod import z` with no such module, then `z()` : no diagnostic *)
Theorem C14_missing_module_diagnosed_refuted :
  check_entry [] [] [VI (I KFrom false 0 [40]) [(41, None)] None] [UName 41] = [].
Proof. vm_compute. reflexivity. Qed.
Print Assumptions C14_missing_module_diagnosed_refuted.
(*     the LSP registers a nested module a/b.incn under its file stem `b`, the checker looks for
       `a_b`: `from a.b import privf` is not validated there *)
Theorem C14_private_rejected_lsp_name_refuted :
  check_entry [([11], [D 30 false DFn])] [] [VI (I KFrom false 0 [10; 11]) [(30, None)] None] [UName 30] = [] /\
  check_entry [([10; 11], [D 30 false DFn])] [] [VI (I KFrom false 0 [10; 11]) [(30, None)] None] [UName 30] = [(1, 30)].
Proof. vm_compute. split; reflexivity. Qed.
Print Assumptions C14_private_rejected_lsp_name_refuted.
(*     every pub item of every loaded module is visible unqualified without being imported by name *)
Theorem C14_only_imported_names_visible_refuted :
  check_entry vdeps [] [VI (I KModule false 0 [10]) [] None] [UName 31] = [].
Proof. vm_compute. reflexivity. Qed.
Print Assumptions C14_only_imported_names_visible_refuted.

(* P7  what the work lists compute: exactly the files reachable from the entry through the
       respective resolver (CLI: resolver based at the entry directory, reflexive closure;
       LSP: shared resolver based at each importing file's directory, at least one step, entry excluded) *)
Theorem C14_collectors_compute_reachable : forall fs imps cwd ab b stem e fuel,
  (forall rc, cli_collect fuel fs imps cwd ab b stem e = Done rc ->
     forall q, In q (map fst rc) <->
               reach (fun p q => exists i it, In i (imps p) /\ cli_resolve fs cwd ab b i = Some it /\ fst it = q)
                     (P (rl cwd ab b) stem e) q) /\
  (forall rl_, lsp_collect fuel fs imps (P (rl cwd ab b) stem e) = Done rl_ ->
     forall q, In q rl_ <->
               reach1 (fun p q => exists i, In i (imps p) /\ rip fs (pdir p) i = Some q)
                      (P (rl cwd ab b) stem e) q /\ q <> P (rl cwd ab b) stem e).
Proof.
  intros. split; intros r H.
  - exact (cli_collect_reach fs imps cwd ab b stem e fuel r H).
  - exact (lsp_collect_reach fs imps _ fuel r H).
Qed.
Print Assumptions C14_collectors_compute_reachable.

(* P8  whole projects: if every file that contains imports lies in the entry's directory and no
       import is in one of the two classes, the LSP's dependencies are exactly the CLI's modules
       other than the entry (with fuel |fs|+1 both finish, by P5) *)
Theorem C14_collect_agree : forall fs imps cwd ab b stem e fuel rc rl_,
  (forall p i, In i (imps p) ->
     pdir p = rl cwd ab b /\ k_multi i = false /\ k_modonly fs (rl cwd ab b) i = false) ->
  cli_collect fuel fs imps cwd ab b stem e = Done rc ->
  lsp_collect fuel fs imps (P (rl cwd ab b) stem e) = Done rl_ ->
  forall q, In q rl_ <-> In q (map fst rc) /\ q <> P (rl cwd ab b) stem e.
Proof.
  intros fs imps cwd ab b stem e fuel rc rl_ H. apply collect_agree.
  intros p i Hi. destruct (H p i Hi) as [Hd [H1 H2]]. rewrite Hd. apply cli_lsp_agree; assumption.
Qed.
Print Assumptions C14_collect_agree.

(* its hypotheses hold for a three-file flat project with a cycle, and both sides load b and c *)
Example C14_collect_agree_nonvacuous :
  cli_collect (fuel_of flat_fs) flat_fs flat_imps [] true [100] 10 Incn
    = Done [(P [100] 12 Incn, [12]); (P [100] 11 Incn, [11]); (P [100] 10 Incn, [MAIN])] /\
  lsp_collect (fuel_of flat_fs) flat_fs flat_imps (P [100] 10 Incn) = Done [P [100] 11 Incn; P [100] 12 Incn] /\
  forallb (fun p => forallb (fun i => negb (k_multi i) && negb (k_modonly flat_fs [100] i)) (flat_imps p)) (files flat_fs) = true.
Proof. vm_compute. repeat split; reflexivity. Qed.
