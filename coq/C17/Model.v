(* C17/Model.v — hand-written model (definitions only) of

   (a) AstLowering::select_newtype_checked_ctor        src/backend/ir/lower/mod.rs:98
   (b) the construction-site rewrite in lower_expr      src/backend/ir/lower/expr.rs:177-310
       with the current_impl_type bookkeeping of        src/backend/ir/lower/decl.rs lower_model_methods
       and the three passes of lower_program            src/backend/ir/lower/mod.rs:201-420
       and the per-module AstLowering instances of      src/backend/ir/codegen.rs try_generate_via_ir /
                                                        try_generate_multi_file_nested
   (c) a value-level evaluator for the lowered construction code
   (d) TypeChecker::types_compatible                    src/frontend/typechecker/mod.rs:351

   Abstractions (each one is stated, none is hidden):
   * every AST expression other than identifier / literal / call / parenthesis / yield is an
     [ENode k subs]: the real lower_expr lowers every child of those forms with lower_expr (or
     lower_expr_spanned / lower_statements, which call lower_expr) and never touches
     newtype_checked_ctor / struct_names / current_impl_type there; [k] is only a label.
     Statement lists that occur inside expressions or statements are [EBlock] children.
   * builtin-function dispatch (BuiltinFn::from_name) is collapsed into the generic call: both
     lower all arguments with lower_expr.
   * [SFail] is a statement whose lowering returns Err (TupleAssign; re-assignment of an immutable
     binding); the error payload is not modelled.
   * is_uppercase is ASCII 'A'..'Z' (Rust: Unicode uppercase); generated names are ASCII.
   * spans are opaque integers; only equality matters (derive(PartialEq) on Spanned). *)
From Coq Require Import ZArith List Bool String Ascii.
From Verif Require Import Base.I64.
Import ListNotations.
Open Scope Z_scope.
Open Scope string_scope.
Open Scope list_scope.

(* ------------------------------------------------------------------ ast::Type with spans *)

Inductive tkind := KGeneric | KFunction | KTuple.

(* ast::Type. Generic(name, Vec<Spanned<Type>>), Function(Vec<Spanned<Type>>, Box<Spanned<Type>>)
   (encoded as args ++ [ret]) and Tuple(Vec<Spanned<Type>>) are [TNode]; each nested type carries the
   span of its occurrence, and the derived PartialEq compares it. *)
Inductive ty :=
| TSimple (n : string)
| TUnit
| TSelf
| TNode (k : tkind) (n : string) (args : list (ty * Z)).

Definition tkind_eqb (a b : tkind) : bool :=
  match a, b with KGeneric, KGeneric | KFunction, KFunction | KTuple, KTuple => true | _, _ => false end.

(* derived PartialEq of ast::Type: structural, spans of nested types included *)
Fixpoint ty_eqb (a b : ty) : bool :=
  match a, b with
  | TSimple x, TSimple y => String.eqb x y
  | TUnit, TUnit => true
  | TSelf, TSelf => true
  | TNode k x xs, TNode k' y ys =>
      tkind_eqb k k' && String.eqb x y &&
      (fix go (l1 l2 : list (ty * Z)) : bool :=
         match l1, l2 with
         | [], [] => true
         | (t1, s1) :: r1, (t2, s2) :: r2 => ty_eqb t1 t2 && Z.eqb s1 s2 && go r1 r2
         | _, _ => false
         end) xs ys
  | _, _ => false
  end.

(* the SPEC's notion "the parameter has the underlying type": the two annotations denote the same
   type — spans ignored, builtin alias spellings identified (numerics.rs: int = i64 = i32,
   float = f64 = f32). Written from the language reference, not from the lowering. *)
Definition canon_name (s : string) : string :=
  if String.eqb s "i64" || String.eqb s "i32" then "int"
  else if String.eqb s "f64" || String.eqb s "f32" then "float"
  else s.

Fixpoint ty_same (a b : ty) : bool :=
  match a, b with
  | TSimple x, TSimple y => String.eqb (canon_name x) (canon_name y)
  | TUnit, TUnit => true
  | TSelf, TSelf => true
  | TNode k x xs, TNode k' y ys =>
      tkind_eqb k k' && String.eqb x y &&
      (fix go (l1 l2 : list (ty * Z)) : bool :=
         match l1, l2 with
         | [], [] => true
         | (t1, _) :: r1, (t2, _) :: r2 => ty_same t1 t2 && go r1 r2
         | _, _ => false
         end) xs ys
  | _, _ => false
  end.

(* an annotation without nested (spanned) types and without an alias spelling *)
Definition plain_ty (t : ty) : bool :=
  match t with
  | TSimple n => String.eqb (canon_name n) n
  | TUnit | TSelf => true
  | TNode _ _ _ => false
  end.

(* ------------------------------------------------------------------ expressions, statements *)

(* labels only *)
Inductive ekind :=
| KBinary | KUnary | KMethodCall | KIndex | KField | KAwait | KTry | KMatch | KIfExpr | KClosure
| KTupleE | KList | KDict | KSet | KRange | KFString | KSlice | KListComp | KDictComp.
Inductive skind :=
| SKExpr | SKAssign | SKReturn | SKIf | SKWhile | SKFor | SKFieldAssign | SKIndexAssign | SKCompound
| SKTupleUnpack | SKChained.

Inductive expr :=
| EIdent (n : string)
| ELit (z : Z)
| ECall (f : expr) (names : list (option string)) (args : list expr)
| EParen (e : expr)
| ENode (k : ekind) (subs : list expr)
| EYield (e : expr)
| EBlock (ss : list stmt)
with stmt :=
| SNode (k : skind) (subs : list expr)
| SFail.

Inductive ir :=
| IVar (n : string)
| ILit (z : Z)
| IStr (s : string)
| IStruct (name : string) (fnames : list string) (fields : list ir)
| ICall (f : ir) (names : list (option string)) (args : list ir)
| IMethod (recv : ir) (m : string) (args : list ir)
| INode (k : ekind) (subs : list ir)
| IUnit
| IBlock (ss : list irs)
with irs :=
| ISNode (k : skind) (subs : list ir).

(* ------------------------------------------------------------------ declarations *)

Record method := {
  m_name : string;
  m_recv : bool;            (* has a `self` receiver *)
  m_params : list ty;       (* annotation of each non-receiver parameter *)
  m_ret : ty;
  m_body : list stmt }.

Record newtype := {
  nt_name : string;
  nt_under : ty;
  nt_methods : list method }.

Inductive decl :=
| DNewtype (nt : newtype)
(* model or class: field defaults, own methods, methods lowered into `impl Trait for Name` blocks *)
| DModel (name : string) (defaults : list expr) (methods : list method) (trait_methods : list method)
| DFunction (name : string) (body : list stmt)
| DConst (name : string) (value : expr)
| DOther.

(* ------------------------------------------------------------------ (a) hook selection *)

(* collections::from_str(name) == Some(CollectionTypeId::Result): canonical "Result", alias "result" *)
Definition is_result_name (s : string) : bool := String.eqb s "Result" || String.eqb s "result".

Definition is_result_of_newtype (t : ty) (T : string) : bool :=
  match t with
  | TNode KGeneric name ((TSimple t0, _) :: _) => is_result_name name && String.eqb t0 T
  | _ => false
  end.

Definition matches_underlying_param (m : method) (u : ty) : bool :=
  match m_params m with [p] => ty_eqb p u | _ => false end.

Definition from_underlying_name : string := "from_underlying".

Definition is_candidate (nt : newtype) (m : method) : bool :=
  negb (m_recv m) && String.prefix "from_" (m_name m) &&
  matches_underlying_param m (nt_under nt) && is_result_of_newtype (m_ret m) (nt_name nt).

Definition select_newtype_checked_ctor (nt : newtype) : option string :=
  let cands := filter (is_candidate nt) (nt_methods nt) in
  match find (fun m => String.eqb (m_name m) from_underlying_name) cands with
  | Some m => Some (m_name m)
  | None => match cands with [m] => Some (m_name m) | _ => None end
  end.

(* the SPEC (property sentence): a method is a validation hook shape when it is static, named
   from_*, takes exactly one parameter OF THE UNDERLYING TYPE and returns Result[T, _]. *)
Definition well_shaped (nt : newtype) (m : method) : bool :=
  negb (m_recv m) && String.prefix "from_" (m_name m) &&
  match m_params m with [p] => ty_same p (nt_under nt) | _ => false end &&
  is_result_of_newtype (m_ret m) (nt_name nt).

(* "defines the validation hook h": from_underlying if a well-shaped one exists, otherwise the
   single well-shaped from_* *)
Definition Hook (nt : newtype) (h : string) : Prop :=
  (h = from_underlying_name /\
   exists m, In m (nt_methods nt) /\ well_shaped nt m = true /\ m_name m = h)
  \/
  ((forall m, In m (nt_methods nt) -> well_shaped nt m = true -> m_name m <> from_underlying_name) /\
   exists m, filter (well_shaped nt) (nt_methods nt) = [m] /\ m_name m = h).

(* classes in which the selection heuristic misses a hook the SPEC sees *)
Definition Known_C17_generic_underlying (nt : newtype) : Prop :=
  match nt_under nt with TNode _ _ (_ :: _) => True | _ => False end.
Definition Known_C17_alias_spelling (nt : newtype) : Prop :=
  plain_ty (nt_under nt) = false \/
  exists m p, In m (nt_methods nt) /\ In p (m_params m) /\ plain_ty p = false.
(* the decidable complement used by the theorems: underlying and every parameter annotation plain *)
Definition plain_newtype (nt : newtype) : bool :=
  plain_ty (nt_under nt) && forallb (fun m => forallb plain_ty (m_params m)) (nt_methods nt).

(* ------------------------------------------------------------------ (b) lowering *)

Record lstate := {
  hooks : list (string * string);   (* newtype_checked_ctor *)
  structs : list string;            (* keys of struct_names *)
  cur : option string }.            (* current_impl_type *)

Definition set_cur (st : lstate) (c : option string) : lstate :=
  {| hooks := hooks st; structs := structs st; cur := c |}.
Definition add_struct (st : lstate) (n : string) : lstate :=
  {| hooks := hooks st; structs := n :: structs st; cur := cur st |}.

Fixpoint lookup (k : string) (l : list (string * string)) : option string :=
  match l with
  | [] => None
  | (k', v) :: r => if String.eqb k k' then Some v else lookup k r
  end.

Definition mem (k : string) (l : list string) : bool := existsb (String.eqb k) l.

Definition is_upper_ascii (c : ascii) : bool :=
  let n := nat_of_ascii c in (Nat.leb 65 n && Nat.leb n 90)%bool.
Definition is_uppercase (s : string) : bool :=
  match s with String c _ => is_upper_ascii c | EmptyString => false end.

Definition opt_eqb (a : option string) (b : string) : bool :=
  match a with Some x => String.eqb x b | None => false end.

Definition expect_name : string := "expect".
Definition checked_msg (T h : string) : string :=
  ("validated newtype construction failed: " ++ T ++ "::" ++ h)%string.

(* T::h(a).expect("validated newtype construction failed: T::h") *)
Definition checked_ctor (T h : string) (a : ir) : ir :=
  IMethod (IMethod (IVar T) h [a]) expect_name [IStr (checked_msg T h)].

Definition field_name (o : option string) : string :=
  match o with Some n => n | None => "" end.

(* the guard of expr.rs:202-205 *)
Definition rewrite_applies (st : lstate) (name : string) (names : list (option string)) (args : list expr) : bool :=
  match lookup name (hooks st), names, args with
  | Some _, [None], [_] => negb (opt_eqb (cur st) name)
  | _, _, _ => false
  end.

Definition ctor_detected (st : lstate) (name : string) : bool :=
  mem name (structs st) || is_uppercase name.

Fixpoint lower_expr (st : lstate) (e : expr) : option ir :=
  let lower_list := fix go (l : list expr) : option (list ir) :=
    match l with
    | [] => Some []
    | x :: r => match lower_expr st x with
                | Some x' => match go r with Some r' => Some (x' :: r') | None => None end
                | None => None
                end
    end in
  match e with
  | EIdent n => Some (IVar n)
  | ELit z => Some (ILit z)
  | EParen e1 => lower_expr st e1
  | EYield _ => Some IUnit
  | ENode k subs => option_map (INode k) (lower_list subs)
  | EBlock ss =>
      option_map IBlock
        ((fix gos (l : list stmt) : option (list irs) :=
            match l with
            | [] => Some []
            | s :: r => match lower_stmt st s with
                        | Some s' => match gos r with Some r' => Some (s' :: r') | None => None end
                        | None => None
                        end
            end) ss)
  | ECall f names args =>
      let generic :=
        match lower_expr st f with
        | Some f' => option_map (ICall f' names) (lower_list args)
        | None => None
        end in
      match f with
      | EIdent name =>
          if ctor_detected st name then
            if rewrite_applies st name names args then
              match args, lookup name (hooks st) with
              | [a], Some h => option_map (checked_ctor name h) (lower_expr st a)
              | _, _ => None (* unreachable: rewrite_applies checked both *)
              end
            else option_map (IStruct name (map field_name names)) (lower_list args)
          else generic
      | _ => generic
      end
  end
with lower_stmt (st : lstate) (s : stmt) : option irs :=
  match s with
  | SNode k subs =>
      option_map (ISNode k)
        ((fix go (l : list expr) : option (list ir) :=
            match l with
            | [] => Some []
            | x :: r => match lower_expr st x with
                        | Some x' => match go r with Some r' => Some (x' :: r') | None => None end
                        | None => None
                        end
            end) subs)
  | SFail => None
  end.

Fixpoint lower_list (st : lstate) (l : list expr) : option (list ir) :=
  match l with
  | [] => Some []
  | x :: r => match lower_expr st x with
              | Some x' => match lower_list st r with Some r' => Some (x' :: r') | None => None end
              | None => None
              end
  end.

Fixpoint lower_stmts (st : lstate) (l : list stmt) : option (list irs) :=
  match l with
  | [] => Some []
  | s :: r => match lower_stmt st s with
              | Some s' => match lower_stmts st r with Some r' => Some (s' :: r') | None => None end
              | None => None
              end
  end.

(* lower_method / lower_impl_method_for_trait: the body through lower_statements *)
Definition lower_method (st : lstate) (m : method) : option (string * list irs) :=
  option_map (fun b => (m_name m, b)) (lower_stmts st (m_body m)).

(* methods.iter().map(lower_method).collect::<Result<Vec<_>,_>>() : stops at the first error *)
Fixpoint lower_methods (st : lstate) (ms : list method) : option (list (string * list irs)) :=
  match ms with
  | [] => Some []
  | m :: r => match lower_method st m with
              | Some m' => match lower_methods st r with Some r' => Some (m' :: r') | None => None end
              | None => None
              end
  end.

(* decl.rs lower_model_methods / lower_class_methods, statement by statement:
     let prev = self.current_impl_type.replace(type_name);
     let lowered = ...collect::<Result<..>>();
     self.current_impl_type = prev;
     let lowered_methods = lowered?;                                   *)
Definition lower_model_methods (st : lstate) (T : string) (ms : list method)
  : lstate * option (list (string * list irs)) :=
  let prev := cur st in
  let st1 := set_cur st (Some T) in
  let lowered := lower_methods st1 ms in
  let st2 := set_cur st1 prev in
  (st2, lowered).

(* lowered declarations: what the emitter will print (bodies only) *)
Inductive irdecl :=
| IDStruct (name : string) (defaults : list ir)
| IDImpl (target : string) (methods : list (string * list irs))
| IDTraitImpl (target : string) (methods : list (string * list irs))
| IDFunction (name : string) (body : list irs)
| IDConst (name : string) (value : ir).

(* first pass of lower_program: HashMap::insert — a later declaration of the same name wins *)
Fixpoint collect_hooks (ds : list decl) (acc : list (string * string)) : list (string * string) :=
  match ds with
  | [] => acc
  | DNewtype nt :: r =>
      match select_newtype_checked_ctor nt with
      | Some h => collect_hooks r ((nt_name nt, h) :: acc)
      | None => collect_hooks r acc
      end
  | _ :: r => collect_hooks r acc
  end.

(* third pass, one declaration: new state, lowered declarations, number of errors pushed *)
Definition lower_decl (st : lstate) (d : decl) : lstate * list irdecl * nat :=
  match d with
  | DModel name defaults methods tmethods =>
      match lower_list st defaults with
      | None => (st, [], 1%nat)                                  (* Err(e) => errors.push(e) *)
      | Some ds =>
          let st1 := add_struct st name in
          let '(st2, own) := lower_model_methods st1 name methods in
          let timpl := lower_methods st2 tmethods in
          (st2,
           IDStruct name ds ::
             (match own with Some ms => [IDImpl name ms] | None => [] end) ++
             (match tmethods, timpl with
              | [], _ => []
              | _, Some ms => [IDTraitImpl name ms]
              | _, None => []
              end),
           ((match own with Some _ => 0 | None => 1 end) +
            (match tmethods, timpl with _ :: _, None => 1 | _, _ => 0 end))%nat)
      end
  | DNewtype nt =>
      let st1 := add_struct st (nt_name nt) in
      match nt_methods nt with
      | [] => (st1, [IDStruct (nt_name nt) []], 0%nat)
      | ms =>
          let '(st2, own) := lower_model_methods st1 (nt_name nt) ms in
          (st2,
           IDStruct (nt_name nt) [] :: (match own with Some l => [IDImpl (nt_name nt) l] | None => [] end),
           (match own with Some _ => 0 | None => 1 end)%nat)
      end
  | DFunction name body =>
      match lower_stmts st body with
      | Some b => (st, [IDFunction name b], 0%nat)
      | None => (st, [], 1%nat)
      end
  | DConst name value =>
      match lower_expr st value with
      | Some v => (st, [IDConst name v], 0%nat)
      | None => (st, [], 1%nat)
      end
  | DOther => (st, [], 0%nat)
  end.

Fixpoint lower_decls (st : lstate) (ds : list decl) : lstate * list irdecl * nat :=
  match ds with
  | [] => (st, [], 0%nat)
  | d :: r =>
      let '(st1, out1, e1) := lower_decl st d in
      let '(st2, out2, e2) := lower_decls st1 r in
      (st2, out1 ++ out2, (e1 + e2)%nat)
  end.

(* AstLowering::new() *)
Definition fresh_state : lstate := {| hooks := []; structs := []; cur := None |}.

(* lower_program on a fresh AstLowering: Ok(ir) only when no error was collected *)
Definition lower_program (ds : list decl) : option (list irdecl) :=
  let st := {| hooks := collect_hooks ds []; structs := []; cur := None |} in
  let '(_, out, errs) := lower_decls st ds in
  match errs with O => Some out | _ => None end.

(* NOT the real pass structure — the alternative in which a newtype's hook is registered only when
   the third pass reaches its declaration (next to the struct_names registration). Kept in the
   model to state precisely what C17_every_site_rewritten relies on: in [lower_program] the table
   [hooks] is COMPLETE (collect_hooks over the whole module) before the first body is lowered; here
   it grows with the declarations, so a site above `type T = newtype ...` sees no hook. *)
Definition register_hook (st : lstate) (d : decl) : lstate :=
  match d with
  | DNewtype nt =>
      match select_newtype_checked_ctor nt with
      | Some h => {| hooks := (nt_name nt, h) :: hooks st; structs := structs st; cur := cur st |}
      | None => st
      end
  | _ => st
  end.

Fixpoint lower_decls_late (st : lstate) (ds : list decl) : lstate * list irdecl * nat :=
  match ds with
  | [] => (st, [], 0%nat)
  | d :: r =>
      let '(st1, out1, e1) := lower_decl (register_hook st d) d in
      let '(st2, out2, e2) := lower_decls_late st1 r in
      (st2, out1 ++ out2, (e1 + e2)%nat)
  end.

Definition lower_program_late (ds : list decl) : option (list irdecl) :=
  let '(_, out, errs) := lower_decls_late fresh_state ds in
  match errs with O => Some out | _ => None end.

(* codegen.rs: the main module and every dependency module are lowered by their OWN
   AstLowering::new*(), so each module sees only the hooks of the newtypes it declares. *)
Definition lower_project (modules : list (list decl)) : option (list (list irdecl)) :=
  (fix go (ms : list (list decl)) : option (list (list irdecl)) :=
     match ms with
     | [] => Some []
     | m :: r => match lower_program m with
                 | Some m' => match go r with Some r' => Some (m' :: r') | None => None end
                 | None => None
                 end
     end) modules.

(* what the property wants instead: one hook table for the whole project *)
Fixpoint project_hooks (modules : list (list decl)) : list (string * string) :=
  match modules with
  | [] => []
  | m :: r => collect_hooks m [] ++ project_hooks r
  end.

(* ------------------------------------------------------------------ sites *)

(* [child e' e]: e' is an immediate sub-expression of e that lower_expr visits *)
Inductive child : expr -> expr -> Prop :=
| ch_callee f names args : child f (ECall f names args)
| ch_arg a f names args : In a args -> child a (ECall f names args)
| ch_paren e : child e (EParen e)
| ch_node a k subs : In a subs -> child a (ENode k subs)
| ch_block a k subs ss : In (SNode k subs) ss -> In a subs -> child a (EBlock ss).
(* EYield has no visited child: the operand is dropped by the lowering *)

Inductive within : expr -> expr -> Prop :=
| within_refl e : within e e
| within_step e1 e2 e3 : within e1 e2 -> child e2 e3 -> within e1 e3.

Definition site (T : string) (a : expr) : expr := ECall (EIdent T) [None] [a].

Inductive ichild : ir -> ir -> Prop :=
| ich_callee f names args : ichild f (ICall f names args)
| ich_arg a f names args : In a args -> ichild a (ICall f names args)
| ich_field a n fn fs : In a fs -> ichild a (IStruct n fn fs)
| ich_recv r m args : ichild r (IMethod r m args)
| ich_marg a r m args : In a args -> ichild a (IMethod r m args)
| ich_node a k subs : In a subs -> ichild a (INode k subs)
| ich_block a k subs ss : In (ISNode k subs) ss -> In a subs -> ichild a (IBlock ss).

Inductive iwithin : ir -> ir -> Prop :=
| iwithin_refl e : iwithin e e
| iwithin_step e1 e2 e3 : iwithin e1 e2 -> ichild e2 e3 -> iwithin e1 e3.

(* the type name T occurs in e ONLY as the callee identifier of a one-positional-argument call
   (complement of Known_C17_indirect_callee: `(T)(x)`, `mk = T`, `map(T, xs)`, and of the
   malformed argument lists `T()`, `T(a, b)`, `T(v=a)` that the checker accepts and rustc rejects) *)
Fixpoint confined (T : string) (e : expr) : bool :=
  match e with
  | EIdent n => negb (String.eqb n T)
  | ELit _ => true
  | EParen e1 => confined T e1
  | EYield _ => true
  | ENode _ subs => forallb (confined T) subs
  | EBlock ss => forallb (confined_stmt T) ss
  | ECall f names args =>
      match f with
      | EIdent n =>
          if String.eqb n T then
            match names, args with [None], [a] => confined T a | _, _ => false end
          else forallb (confined T) args
      | _ => confined T f && forallb (confined T) args
      end
  end
with confined_stmt (T : string) (s : stmt) : bool :=
  match s with
  | SNode _ subs => forallb (confined T) subs
  | SFail => true
  end.

Definition Known_C17_indirect_callee (T : string) (e : expr) : Prop := confined T e = false.

(* the output mentions the type name T only as the receiver of a checked construction *)
Fixpoint ir_confined (T : string) (e : ir) : bool :=
  match e with
  | IVar n => negb (String.eqb n T)
  | ILit _ | IStr _ | IUnit => true
  | IStruct n _ fs => negb (String.eqb n T) && forallb (ir_confined T) fs
  | ICall f _ args => ir_confined T f && forallb (ir_confined T) args
  | IMethod r m args =>
      match r with
      | IMethod (IVar n) h [a] =>
          if String.eqb n T then
            String.eqb m expect_name &&
            match args with [IStr s] => String.eqb s (checked_msg T h) | _ => false end &&
            ir_confined T a
          else ir_confined T r && forallb (ir_confined T) args
      | _ => ir_confined T r && forallb (ir_confined T) args
      end
  | INode _ subs => forallb (ir_confined T) subs
  | IBlock ss => forallb (irs_confined T) ss
  end
with irs_confined (T : string) (s : irs) : bool :=
  match s with ISNode _ subs => forallb (ir_confined T) subs end.

(* [top_of d ctx top]: [top] is an expression lowered at the top of a statement (or as a const value
   / field default) of declaration d; [ctx] is the `impl` block it is lowered in (None = outside
   every inherent impl: functions, consts, field defaults, `impl Trait for X` methods). *)
Inductive top_of : decl -> option string -> expr -> Prop :=
| to_fun name body k subs a : In (SNode k subs) body -> In a subs -> top_of (DFunction name body) None a
| to_const name v : top_of (DConst name v) None v
| to_default name ds ms tms a : In a ds -> top_of (DModel name ds ms tms) None a
| to_method name ds ms tms m k subs a :
    In m ms -> In (SNode k subs) (m_body m) -> In a subs -> top_of (DModel name ds ms tms) (Some name) a
| to_tmethod name ds ms tms m k subs a :
    In m tms -> In (SNode k subs) (m_body m) -> In a subs -> top_of (DModel name ds ms tms) None a
| to_ntmethod nt m k subs a :
    In m (nt_methods nt) -> In (SNode k subs) (m_body m) -> In a subs ->
    top_of (DNewtype nt) (Some (nt_name nt)) a.

(* the only run-time difference between the classes: a lower-case newtype name is recognised as a
   constructor only once its declaration has been lowered (struct_names), an upper-case one always *)
Definition declared_before (T : string) (pre : list decl) : bool :=
  existsb (fun d => match d with DNewtype nt => String.eqb (nt_name nt) T | _ => false end) pre.
Definition Known_C17_lowercase_early (T : string) (pre : list decl) : Prop :=
  is_uppercase T = false /\ declared_before T pre = false.

(* all top-level lowered expressions of a lowered declaration list *)
Definition irdecl_exprs (d : irdecl) : list ir :=
  let of_body := fun b : list irs => flat_map (fun s => match s with ISNode _ subs => subs end) b in
  match d with
  | IDStruct _ ds => ds
  | IDImpl _ ms | IDTraitImpl _ ms => flat_map (fun m => of_body (snd m)) ms
  | IDFunction _ b => of_body b
  | IDConst _ v => [v]
  end.

(* ------------------------------------------------------------------ (c) values *)

Inductive val :=
| VInt (z : Z)
| VStr (s : string)
| VNew (T : string) (v : val)          (* a value of newtype T wrapping v *)
| VOk (v : val)
| VErr (v : val)
| VUnit.

Inductive outcome :=
| Done (v : val)
| Raise (msg : string) (payload : val)   (* Result::expect on Err: panic "msg: payload" *)
| Stuck.                                 (* outside the evaluated fragment *)

Section Eval.
  (* the user's hook method T::h as a function on values: it returns Ok(T(..)) or Err(e).
     Its body is user code; the theorems quantify over every such function. *)
  Variable hookfn : string -> string -> val -> val.
  Variable env : string -> option val.

  Fixpoint eval (e : ir) : outcome :=
    match e with
    | ILit z => Done (VInt z)
    | IStr s => Done (VStr s)
    | IUnit => Done VUnit
    | IVar n => match env n with Some v => Done v | None => Stuck end
    | IStruct T [fn] [a] =>
        if String.eqb fn "" then
          match eval a with Done v => Done (VNew T v) | o => o end
        else Stuck
    | IMethod r m args =>
        match r with
        | IVar T =>
            (* static call T::m(a) *)
            match args with
            | [a] =>
                match env T with
                | Some _ => Stuck
                | None => match eval a with Done v => Done (hookfn T m v) | o => o end
                end
            | _ => Stuck
            end
        | _ =>
            match args with
            | [IStr msg] =>
                if String.eqb m expect_name then
                  match eval r with
                  | Done (VOk v) => Done v
                  | Done (VErr p) => Raise msg p
                  | Done _ => Stuck
                  | o => o
                  end
                else Stuck
            | _ => Stuck
            end
        end
    | _ => Stuck
    end.
End Eval.

(* ------------------------------------------------------------------ (d) types_compatible *)

Inductive rty :=
| RInt | RFloat | RBool | RStr | RBytes | RFrozenStr | RFrozenBytes | RUnit | RUnknown | RSelf
| RNamed (n : string)
| RTypeVar (n : string)
| RRef (t : rty)
| RFrozenList (t : rty)
| RFrozenSet (t : rty)
| RFrozenDict (k v : rty)
| RGeneric (n : string) (args : list rty)
| RFunction (ps : list rty) (r : rty)
| RTuple (es : list rty).

Fixpoint rty_eqb (a b : rty) : bool :=
  let list_eqb := fix go (l1 l2 : list rty) : bool :=
    match l1, l2 with
    | [], [] => true
    | x :: r1, y :: r2 => rty_eqb x y && go r1 r2
    | _, _ => false
    end in
  match a, b with
  | RInt, RInt | RFloat, RFloat | RBool, RBool | RStr, RStr | RBytes, RBytes
  | RFrozenStr, RFrozenStr | RFrozenBytes, RFrozenBytes | RUnit, RUnit | RUnknown, RUnknown
  | RSelf, RSelf => true
  | RNamed x, RNamed y => String.eqb x y
  | RTypeVar x, RTypeVar y => String.eqb x y
  | RRef x, RRef y => rty_eqb x y
  | RFrozenList x, RFrozenList y => rty_eqb x y
  | RFrozenSet x, RFrozenSet y => rty_eqb x y
  | RFrozenDict k1 v1, RFrozenDict k2 v2 => rty_eqb k1 k2 && rty_eqb v1 v2
  | RGeneric x xs, RGeneric y ys => String.eqb x y && list_eqb xs ys
  | RFunction p1 r1, RFunction p2 r2 => list_eqb p1 p2 && rty_eqb r1 r2
  | RTuple x, RTuple y => list_eqb x y
  | _, _ => false
  end.

(* stringlike::from_str / collections::from_str on the spellings the rule tests *)
(* stringlike::from_str compares with eq_ignore_ascii_case (collections::from_str is case-sensitive) *)
Definition lower_ascii (c : ascii) : ascii :=
  let n := nat_of_ascii c in if (Nat.leb 65 n && Nat.leb n 90)%bool then ascii_of_nat (n + 32) else c.
Fixpoint lower_string (s : string) : string :=
  match s with EmptyString => EmptyString | String c r => String (lower_ascii c) (lower_string r) end.
Definition is_frozenstr_name (s : string) : bool := String.eqb (lower_string s) "frozenstr".
Definition is_frozenbytes_name (s : string) : bool := String.eqb (lower_string s) "frozenbytes".
Definition is_frozenlist_name (s : string) : bool := String.eqb s "FrozenList" || String.eqb s "frozenlist".
Definition is_frozenset_name (s : string) : bool := String.eqb s "FrozenSet" || String.eqb s "frozenset".
Definition is_frozendict_name (s : string) : bool := String.eqb s "FrozenDict" || String.eqb s "frozendict".
Definition is_tuple_name (s : string) : bool := String.eqb s "Tuple" || String.eqb s "tuple".

(* TypeChecker::types_compatible(actual, expected), arm by arm in source order *)
Fixpoint compatible (a e : rty) {struct a} : bool :=
  if rty_eqb a e then true else
  let all2 := fix go (l1 l2 : list rty) : bool :=
    match l1, l2 with
    | [], [] => true
    | x :: r1, y :: r2 => compatible x y && go r1 r2
    | _, _ => false
    end in
  match a, e with
  | RUnknown, _ | _, RUnknown => true
  | RTypeVar _, _ | _, RTypeVar _ => true
  | RRef x, RRef y => compatible x y
  | RFrozenStr, RStr => true
  | RNamed n, RStr => is_frozenstr_name n
  | RFrozenBytes, RBytes => true
  | RNamed n, RBytes => is_frozenbytes_name n
  | RFrozenList x, RFrozenList y => compatible x y
  | RFrozenList x, RGeneric n [y] => if is_frozenlist_name n then compatible x y else false
  | RGeneric n [x], RFrozenList y =>
      if is_frozenlist_name n then compatible x y else false
  | RFrozenSet x, RFrozenSet y => compatible x y
  | RFrozenSet x, RGeneric n [y] => if is_frozenset_name n then compatible x y else false
  | RGeneric n [x], RFrozenSet y =>
      if is_frozenset_name n then compatible x y else false
  | RFrozenDict k1 v1, RFrozenDict k2 v2 => compatible k1 k2 && compatible v1 v2
  | RFrozenDict k1 v1, RGeneric n (k2 :: v2 :: _) =>
      if is_frozendict_name n then compatible k1 k2 && compatible v1 v2 else false
  | RGeneric n (k1 :: v1 :: _), RFrozenDict k2 v2 =>
      if is_frozendict_name n then compatible k1 k2 && compatible v1 v2 else false
  | RTuple _, RNamed n => is_tuple_name n
  | RTuple es, RGeneric n args => if is_tuple_name n then all2 es args else false
  | RGeneric n args, RTuple es =>
      if is_tuple_name n then all2 args es else false
  | RGeneric n1 a1, RGeneric n2 a2 => String.eqb n1 n2 && all2 a1 a2
  | RFunction p1 r1, RFunction p2 r2 => all2 p1 p2 && compatible r1 r2
  | RTuple e1, RTuple e2 => all2 e1 e2
  | _, _ => false
  end.

(* a user newtype name: any identifier that is not one of the builtin spellings the rule
   special-cases (declaring a newtype called FrozenStr would make it pass where str is expected) *)
Definition user_type_name (n : string) : bool :=
  negb (is_frozenstr_name n || is_frozenbytes_name n || is_tuple_name n).

(* underlying types of the generated newtypes, resolved *)
Definition is_primitive (t : rty) : bool :=
  match t with RInt | RFloat | RBool | RStr | RBytes => true | _ => false end.

(* where the checker applies the rule when a value of one type meets an expectation of another.
   check_call (check_expr/calls.rs:604-640) type-checks the ARGUMENT EXPRESSIONS of a call of a
   user FUNCTION but never compares them with the parameter types (method calls do compare). *)
Inductive mixsite := MReturn | MTypedLet | MReassign | MField | MCompare | MListElem | MCallArg | MMethodArg.
Definition rule_applied (s : mixsite) : bool :=
  match s with MCallArg => false | _ => true end.
(* verdict of the checker for "actual flows into expected at site s": true = accepted *)
Definition check_mix (s : mixsite) (actual expected : rty) : bool :=
  if rule_applied s then compatible actual expected else true.
Definition Known_C17_call_arg_unchecked (s : mixsite) : Prop := rule_applied s = false.

(* ------------------------------------------------------------------ render (correspondence run) *)

Definition codes (s : string) : list Z :=
  map (fun c => Z.of_nat (nat_of_ascii c)) (list_ascii_of_string s).

(* the marker that identifies a construction site in generated programs: the first literal of
   its (first) argument *)
Fixpoint head_marker (e : ir) : option Z :=
  match e with
  | ILit z => Some z
  | INode _ (x :: _) => head_marker x
  | _ => None
  end.

(* one entry per call-like node whose first argument starts with a marker:
   (marker, 1 = checked construction / 0 = plain call or raw constructor, callee, hook) *)
Definition entry := (Z * Z * list Z * list Z)%type.

Fixpoint sites_of (e : ir) : list entry :=
  let many := fix go (l : list ir) : list entry :=
    match l with [] => [] | x :: r => sites_of x ++ go r end in
  match e with
  | IVar _ | ILit _ | IStr _ | IUnit => []
  | IStruct n _ fs =>
      (match fs with
       | a :: _ => match head_marker a with Some z => [(z, 0, codes n, [])] | None => [] end
       | [] => []
       end) ++ many fs
  | ICall f _ args =>
      (match f, args with
       | IVar n, a :: _ => match head_marker a with Some z => [(z, 0, codes n, [])] | None => [] end
       | _, _ => []
       end) ++ sites_of f ++ many args
  | IMethod r m args =>
      match r, args with
      | IMethod (IVar T) h [a], [IStr s] =>
          if String.eqb m expect_name && String.eqb s (checked_msg T h) then
            (match head_marker a with Some z => [(z, 1, codes T, codes h)] | None => [] end) ++ sites_of a
          else sites_of r ++ many args
      | _, _ => sites_of r ++ many args
      end
  | INode _ subs => many subs
  | IBlock ss =>
      (fix gos (l : list irs) : list entry :=
         match l with
         | [] => []
         | ISNode _ subs :: r => many subs ++ gos r
         end) ss
  end.

Definition render_decls (ds : list irdecl) : list entry :=
  flat_map (fun d => flat_map sites_of (irdecl_exprs d)) ds.

(* result of the correspondence run for one project: None = lowering error *)
Definition render_project (modules : list (list decl)) : option (list (list entry)) :=
  option_map (map render_decls) (lower_project modules).

(* hook selection observed alone *)
Definition render_select (nt : newtype) : list Z :=
  match select_newtype_checked_ctor nt with Some h => 1 :: codes h | None => [0] end.

Definition b2z (b : bool) : Z := if b then 1 else 0.

(* ------------------------------------------------------------------ coverage instrument
   Which arms of the model a generated project exercises (used only for coverage["model_arm_hits"];
   it follows the decision structure of lower_expr / lower_decl / select_newtype_checked_ctor with the
   same predicates and is not mentioned by any theorem).
   1 EIdent  2 ELit  3 EParen  4 EYield  5 ENode  6 EBlock  7 call, callee not an identifier
   8 call of an identifier not detected as constructor  9 rewrite to the checked construction
   10 raw constructor: inside the newtype's own impl  11 raw constructor: no hook for the name
   12 raw constructor: hooked, but not exactly one positional argument  13 SNode  14 SFail
   20 newtype without methods  21 newtype with methods  22 model/class  23 model/class whose defaults fail
   24 function  25 function that fails to lower  26 const  27 other declaration  28 method list that fails
   30 from_underlying among the candidates  31 single candidate  32 no candidate  33 several candidates, none chosen
   34 method rejected: receiver  35 rejected: name prefix  36 rejected: parameter list / type  37 rejected: return type
   38 method accepted as candidate *)
Fixpoint arms_expr (st : lstate) (e : expr) : list Z :=
  let many := fix go (l : list expr) : list Z :=
    match l with [] => [] | x :: r => arms_expr st x ++ go r end in
  match e with
  | EIdent _ => [1]
  | ELit _ => [2]
  | EParen e1 => 3 :: arms_expr st e1
  | EYield _ => [4]
  | ENode _ subs => 5 :: many subs
  | EBlock ss =>
      6 :: (fix gos (l : list stmt) : list Z :=
              match l with
              | [] => []
              | SNode _ subs :: r => 13 :: many subs ++ gos r
              | SFail :: r => 14 :: gos r
              end) ss
  | ECall f names args =>
      match f with
      | EIdent name =>
          if ctor_detected st name then
            if rewrite_applies st name names args then 9 :: many args
            else match lookup name (hooks st) with
                 | None => 11 :: many args
                 | Some _ =>
                     match names, args with
                     | [None], [_] => 10 :: many args
                     | _, _ => 12 :: many args
                     end
                 end
          else 8 :: many args
      | _ => 7 :: arms_expr st f ++ many args
      end
  end.

Definition arms_stmts (st : lstate) (ss : list stmt) : list Z :=
  flat_map (fun s => match s with SNode _ subs => 13 :: flat_map (arms_expr st) subs | SFail => [14] end) ss.

Definition arms_methods (st : lstate) (ms : list method) : list Z :=
  (match lower_methods st ms with Some _ => [] | None => [28] end) ++ flat_map (fun m => arms_stmts st (m_body m)) ms.

Definition arms_select (nt : newtype) : list Z :=
  let cands := filter (is_candidate nt) (nt_methods nt) in
  (match find (fun m => String.eqb (m_name m) from_underlying_name) cands with
   | Some _ => 30
   | None => match cands with [_] => 31 | [] => 32 | _ => 33 end
   end) ::
  map (fun m =>
         if m_recv m then 34
         else if negb (String.prefix "from_" (m_name m)) then 35
         else if negb (matches_underlying_param m (nt_under nt)) then 36
         else if negb (is_result_of_newtype (m_ret m) (nt_name nt)) then 37 else 38) (nt_methods nt).

Definition arms_decl (st : lstate) (d : decl) : list Z :=
  match d with
  | DNewtype nt =>
      arms_select nt ++
      match nt_methods nt with
      | [] => [20]
      | ms => 21 :: arms_methods (set_cur (add_struct st (nt_name nt)) (Some (nt_name nt))) ms
      end
  | DModel name defaults methods tmethods =>
      match lower_list st defaults with
      | None => [23]
      | Some _ =>
          22 :: flat_map (arms_expr st) defaults ++
          arms_methods (set_cur (add_struct st name) (Some name)) methods ++
          arms_methods (add_struct st name) tmethods
      end
  | DFunction _ body =>
      (match lower_stmts st body with Some _ => 24 | None => 25 end) :: arms_stmts st body
  | DConst _ v => 26 :: arms_expr st v
  | DOther => [27]
  end.

Fixpoint arms_decls (st : lstate) (ds : list decl) : list Z :=
  match ds with
  | [] => []
  | d :: r => arms_decl st d ++ arms_decls (fst (fst (lower_decl st d))) r
  end.

Definition arms_program (ds : list decl) : list Z :=
  arms_decls {| hooks := collect_hooks ds []; structs := []; cur := None |} ds.

(* histogram over the arm ids 1..38, so that the result stays small *)
Definition arm_ids : list Z :=
  [1;2;3;4;5;6;7;8;9;10;11;12;13;14;20;21;22;23;24;25;26;27;28;30;31;32;33;34;35;36;37;38].
Definition arms_project (modules : list (list decl)) : list (Z * Z) :=
  let all := flat_map arms_program modules in
  map (fun a => (a, Z.of_nat (length (filter (Z.eqb a) all)))) arm_ids.
