(* C17/Props.v — the property theorems for C17, and nothing else.
   Model (C17/Model.v) = hand-written model of select_newtype_checked_ctor, the construction-site
   rewrite of lower_expr with the current_impl_type bookkeeping, lower_program's passes, the
   per-module AstLowering instances, and TypeChecker::types_compatible; tied to /repo by the
   correspondence run of checks/c17.py on every vcheck run. *)
From Coq Require Import ZArith List Bool String Ascii.
From Verif Require Import Base.I64 C17.Model C17.Proofs C17.ProofsSelect C17.ProofsProgram.
Import ListNotations.
Open Scope string_scope.
Open Scope list_scope.

(* hypotheses are satisfiable by non-trivial values: a hooked newtype declared before a function
   that constructs it inside a list inside a call argument; the site is rewritten *)
Example C17_nonvacuous :
  let nt := {| nt_name := "Attempts"; nt_under := TSimple "int";
               nt_methods := [ {| m_name := "from_underlying"; m_recv := false; m_params := [TSimple "int"];
                                  m_ret := TNode KGeneric "Result" [(TSimple "Attempts", 1); (TSimple "str", 2)];
                                  m_body := [SNode SKReturn [site "Attempts" (EIdent "n")]] |} ] |} in
  let top := ECall (EIdent "take") [None] [ENode KList [site "Attempts" (ELit 5)]] in
  let d := DFunction "main" [SNode SKExpr [top]] in
  plain_newtype nt = true /\ Hook nt "from_underlying" /\
  select_newtype_checked_ctor nt = Some "from_underlying" /\
  top_of d None top /\ within (site "Attempts" (ELit 5)) top /\
  ~ Known_C17_lowercase_early "Attempts" [DNewtype nt] /\
  confined "Attempts" top = true /\
  lower_program ([DNewtype nt] ++ d :: []) =
    Some [IDStruct "Attempts" [];
          IDImpl "Attempts" [("from_underlying", [ISNode SKReturn [IStruct "Attempts" [""] [IVar "n"]]])];
          IDFunction "main" [ISNode SKExpr [ICall (IVar "take") [None]
             [INode KList [checked_ctor "Attempts" "from_underlying" (ILit 5)]]]]].
Proof.
  intros nt top d. subst d top nt. split; [reflexivity|]. split.
  { left. split; [reflexivity|]. eexists. split; [left; reflexivity|]. split; reflexivity. }
  split; [vm_compute; reflexivity|]. split.
  { eapply to_fun; [left; reflexivity | left; reflexivity]. }
  split.
  { apply within_step with (e2 := ENode KList [site "Attempts" (ELit 5)]).
    - apply within_step with (e2 := site "Attempts" (ELit 5)); [apply within_refl|].
      apply ch_node. left; reflexivity.
    - apply ch_arg. left; reflexivity. }
  split; [intros [H _]; discriminate|]. split; vm_compute; reflexivity.
Qed.

(* ---------------------------------------------------------------- (a) hook selection *)

(* H1  which declarations have a hook, and which one: for every method list whose annotations are
       plain (no nested type arguments, no alias spelling), the heuristic selects h exactly when the
       declaration defines the validation hook h in the sense of the property sentence
       (from_underlying preferred; otherwise the single well-shaped from_NAME). *)
Theorem C17_hook_selected_iff : forall nt, plain_newtype nt = true ->
  forall h, select_newtype_checked_ctor nt = Some h <-> Hook nt h.
Proof. exact hook_selected_iff. Qed.
Print Assumptions C17_hook_selected_iff.

(* H2  for EVERY declaration (no side condition) a selected name is a static from_* method of the
       declaration that is well shaped in the SPEC's sense: the heuristic never invents a hook. *)
Theorem C17_selected_is_a_hook_shape : forall nt h, select_newtype_checked_ctor nt = Some h ->
  exists m, In m (nt_methods nt) /\ m_name m = h /\ well_shaped nt m = true.
Proof.
  intros nt h H. destruct (selected_is_method nt h H) as (m & H1 & H2 & H3).
  exists m. split; [exact H1|]. split; [exact H2 | exact (candidate_well_shaped nt m H3)].
Qed.
Print Assumptions C17_selected_is_a_hook_shape.

(* H3  refuted outside the plain class, (i): an underlying type with a nested type argument.
       `type Ids = newtype List[int]` with a well-shaped from_underlying(v: List[int]) has a hook
       but none is selected — the derived PartialEq on ast::Type compares the spans of nested types. *)
Theorem C17_hook_selected_generic_refuted :
  exists nt h, Known_C17_generic_underlying nt /\ Hook nt h /\ select_newtype_checked_ctor nt = None.
Proof. exists w_generic, "from_underlying". exact selection_refuted_generic. Qed.
Print Assumptions C17_hook_selected_generic_refuted.

(* H4  the class of H3 is the whole generic space: whenever the underlying annotation has a nested
       type and every parameter annotation's first nested type is a different occurrence (span),
       nothing is ever selected. *)
Theorem C17_generic_underlying_never_selected : forall nt k n t s rest,
  nt_under nt = TNode k n ((t, s) :: rest) ->
  (forall m p k' n' t' s' rest', In m (nt_methods nt) -> In p (m_params m) ->
     p = TNode k' n' ((t', s') :: rest') -> s' <> s) ->
  select_newtype_checked_ctor nt = None.
Proof. exact generic_underlying_never_selected. Qed.
Print Assumptions C17_generic_underlying_never_selected.

(* H5  refuted outside the plain class, (ii): an alias spelling.
       `type Al = newtype int` with from_underlying(n: i64): same type, different spelling. *)
Theorem C17_hook_selected_alias_refuted :
  exists nt h, Known_C17_alias_spelling nt /\ Hook nt h /\ select_newtype_checked_ctor nt = None.
Proof. exists w_alias, "from_underlying". exact selection_refuted_alias. Qed.
Print Assumptions C17_hook_selected_alias_refuted.

(* ---------------------------------------------------------------- (b) construction sites *)

(* S1  every construction site is rewritten — whole-program form. For every module (declaration
       list) that lowers, every newtype T of that module with a selected hook h, every declaration
       d and every expression `top` of d lowered outside `impl T` (function bodies, consts, field
       defaults, other types' methods, trait-impl methods), every site T(a) anywhere inside `top`
       through ANY nesting of contexts (argument, callee, parenthesis, collection element,
       closure / comprehension / match / if / f-string / method call / ... child, statement of a
       nested block), unless T is lower-case and declared after d (Known_C17_lowercase_early):
       the lowered module contains the checked construction T::h(a').expect(..). *)
Theorem C17_every_site_rewritten : forall pre d post out T h ctx top a,
  lower_program (pre ++ d :: post) = Some out ->
  lookup T (collect_hooks (pre ++ d :: post) []) = Some h ->
  top_of d ctx top -> ctx <> Some T -> within (site T a) top ->
  ~ Known_C17_lowercase_early T pre ->
  exists top' a', In top' (flat_map irdecl_exprs out) /\ iwithin (checked_ctor T h a') top'.
Proof. exact site_rewritten_program. Qed.
Print Assumptions C17_every_site_rewritten.

(* S1a what S1 rests on, stated on its own: lower_program builds the hook table from the WHOLE
       declaration list (first pass) and every declaration, wherever it stands, is lowered with
       exactly that table and the flag clear. (S1 is proved from this invariant — lemma
       decls_split — so moving the registration into the third pass breaks S1's proof.) *)
Theorem C17_hook_table_complete_before_bodies : forall pre d post st' out n,
  lower_decls {| hooks := collect_hooks (pre ++ d :: post) []; structs := []; cur := None |} (pre ++ d :: post)
    = (st', out, n) ->
  exists st_d st_d' outd nd,
    hooks st_d = collect_hooks (pre ++ d :: post) [] /\ cur st_d = None /\
    lower_decl st_d d = (st_d', outd, nd) /\ incl outd out.
Proof. exact hook_table_complete. Qed.
Print Assumptions C17_hook_table_complete_before_bodies.

(* S1b use before declaration: a site in a declaration d written ABOVE `type T = newtype ...`
       (T capitalised, declared once below) is rewritten like any other. *)
Theorem C17_forward_reference_rewritten : forall pre d mid nt post out h ctx top a,
  lower_program (pre ++ d :: mid ++ DNewtype nt :: post) = Some out ->
  select_newtype_checked_ctor nt = Some h ->
  (forall nt', In (DNewtype nt') post -> nt_name nt' <> nt_name nt) ->
  is_uppercase (nt_name nt) = true ->
  top_of d ctx top -> ctx <> Some (nt_name nt) -> within (site (nt_name nt) a) top ->
  exists top' a', In top' (flat_map irdecl_exprs out) /\ iwithin (checked_ctor (nt_name nt) h a') top'.
Proof. exact forward_reference_rewritten. Qed.
Print Assumptions C17_forward_reference_rewritten.

(* S1c the dependence made visible: under the alternative pass structure lower_program_late (hook
       registered when the third pass reaches the newtype — not the real code) the forward
       reference is emitted as the raw constructor, the backward reference is unchanged. *)
Theorem C17_late_registration_refuted :
  lower_program [w_sched; w_attempts] =
    Some [IDFunction "schedule_retries" [ISNode SKAssign [checked_ctor "Attempts" "from_underlying" (IVar "n")]];
          IDStruct "Attempts" []; IDImpl "Attempts" [("from_underlying", [])]] /\
  lower_program_late [w_sched; w_attempts] =
    Some [IDFunction "schedule_retries" [ISNode SKAssign [IStruct "Attempts" [""] [IVar "n"]]];
          IDStruct "Attempts" []; IDImpl "Attempts" [("from_underlying", [])]] /\
  lower_program_late [w_attempts; w_sched] = lower_program [w_attempts; w_sched] /\
  lower_program [w_attempts; w_sched] =
    Some [IDStruct "Attempts" []; IDImpl "Attempts" [("from_underlying", [])];
          IDFunction "schedule_retries" [ISNode SKAssign [checked_ctor "Attempts" "from_underlying" (IVar "n")]]].
Proof. exact late_registration_refuted. Qed.
Print Assumptions C17_late_registration_refuted.

(* S2  the same at expression level for an arbitrary lowering state, with the link between the
       site's argument and the argument of the emitted hook call. *)
Theorem C17_every_site_rewritten_expr : forall st e i T a h,
  lower_expr st e = Some i -> within (site T a) e ->
  ctor_detected st T = true -> lookup T (hooks st) = Some h -> cur st <> Some T ->
  exists a', lower_expr st a = Some a' /\ iwithin (checked_ctor T h a') i.
Proof. exact site_rewritten_expr. Qed.
Print Assumptions C17_every_site_rewritten_expr.

(* S3  and nothing else mentions T: if the type name occurs in e only as the callee of
       one-positional-argument calls (complement of Known_C17_indirect_callee), the lowered
       expression mentions T only as the receiver of checked constructions — no raw constructor,
       no call through the bare name, no escaped constructor value. *)
Theorem C17_only_checked_constructions : forall st T h e i,
  ctor_detected st T = true -> lookup T (hooks st) = Some h -> cur st <> Some T ->
  ~ Known_C17_indirect_callee T e ->
  lower_expr st e = Some i -> ir_confined T i = true.
Proof.
  intros st T h e i Hd Hl Hc Hk H. unfold Known_C17_indirect_callee in Hk.
  destruct (confined T e) eqn:E; [|exfalso; apply Hk; reflexivity].
  exact (proj1 (confined_lowered st T h Hd Hl Hc) e E i H).
Qed.
Print Assumptions C17_only_checked_constructions.

(* S4  the exemption is exactly `impl T`: inside T's own methods the site stays the raw wrap
       (otherwise T::from_underlying would call itself). *)
Theorem C17_own_methods_exempt : forall st T a, ctor_detected st T = true -> cur st = Some T ->
  lower_expr st (site T a) = option_map (fun a' => IStruct T [""] [a']) (lower_expr st a).
Proof. exact lower_site_inside. Qed.
Print Assumptions C17_own_methods_exempt.

(* S5  refuted: `(T)(x)` and `mk = T; mk(x)` — the type name used as a value — lower to a plain
       call of the tuple constructor while the direct T(x) in the same state is rewritten. *)
Theorem C17_indirect_callee_refuted :
  Known_C17_indirect_callee "T" w_paren /\
  lower_expr w_st w_paren = Some (ICall (IVar "T") [None] [ILit 7]) /\
  Known_C17_indirect_callee "T" w_alias_value /\
  lower_expr w_st w_alias_value =
    Some (IBlock [ISNode SKAssign [IVar "T"]; ISNode SKExpr [ICall (IVar "mk") [None] [ILit 7]]]) /\
  lower_expr w_st (site "T" (ELit 7)) = Some (checked_ctor "T" "from_underlying" (ILit 7)).
Proof. exact indirect_callee_refuted. Qed.
Print Assumptions C17_indirect_callee_refuted.

(* S6  refuted: a lower-case newtype constructed in a declaration that precedes its own. *)
Theorem C17_lowercase_early_refuted :
  Known_C17_lowercase_early "attempts" [] /\
  lower_program [w_early; w_lower_nt] =
    Some [IDFunction "early" [ISNode SKAssign [ICall (IVar "attempts") [None] [ILit 7]]];
          IDStruct "attempts" []; IDImpl "attempts" [("from_underlying", [])]] /\
  lower_program [w_lower_nt; w_early] =
    Some [IDStruct "attempts" []; IDImpl "attempts" [("from_underlying", [])];
          IDFunction "early" [ISNode SKAssign [checked_ctor "attempts" "from_underlying" (ILit 7)]]].
Proof. exact lowercase_early_refuted. Qed.
Print Assumptions C17_lowercase_early_refuted.

(* S7  refuted (the expected one): every module is lowered by a fresh AstLowering, so T(x) written
       in another module than T's is not rewritten although the project defines the hook; the same
       declarations in one module are. *)
Theorem C17_cross_module_refuted :
  lookup "UserId" (project_hooks [w_ids; w_main]) = Some "from_underlying" /\
  lower_project [w_ids; w_main] =
    Some [ [IDStruct "UserId" []; IDImpl "UserId" [("from_underlying", [])]];
           [IDFunction "main" [ISNode SKAssign [IStruct "UserId" [""] [ILit 7]]]] ] /\
  lower_program (w_ids ++ w_main) =
    Some [IDStruct "UserId" []; IDImpl "UserId" [("from_underlying", [])];
          IDFunction "main" [ISNode SKAssign [checked_ctor "UserId" "from_underlying" (ILit 7)]]].
Proof. split; [exact (proj1 cross_module_refuted)|]. split; [exact (proj2 cross_module_refuted) | exact same_module_rewritten]. Qed.
Print Assumptions C17_cross_module_refuted.

(* ---------------------------------------------------------------- flag bookkeeping *)

(* F1  lowering any method list under any type name leaves current_impl_type (and the tables) as
       found — whether the methods lowered or the first error was returned — and, started with the
       flag clear, lower_program reaches every declaration and ends with the flag clear, whatever
       errors were collected on the way. *)
Theorem C17_flag_restored :
  (forall st T ms, cur (fst (lower_model_methods st T ms)) = cur st /\
                   hooks (fst (lower_model_methods st T ms)) = hooks st /\
                   structs (fst (lower_model_methods st T ms)) = structs st /\
                   snd (lower_model_methods st T ms) = lower_methods (set_cur st (Some T)) ms) /\
  (forall ds st, cur st = None -> cur (fst (fst (lower_decls st ds))) = None) /\
  (forall st d st' out n, cur st = None -> lower_decl st d = (st', out, n) -> cur st' = None).
Proof.
  split; [|split].
  - intros st T ms. split; [apply flag_restored|]. split; [apply methods_state|].
    split; [apply methods_state | apply methods_lowered_under].
  - exact decls_flag.
  - intros st d st' out n Hc H. exact (proj1 (lower_decl_inv st d st' out n Hc H)).
Qed.
Print Assumptions C17_flag_restored.

(* ---------------------------------------------------------------- value level *)

(* V1  invalid arguments are rejected: for every hook function (user code), if the hook returns
       Err e on the value of the argument, evaluating the lowered T(a) raises the validation
       failure carrying e — it does not produce a T. *)
Theorem C17_invalid_rejected : forall hookfn env st T a h a' x e i,
  ctor_detected st T = true -> lookup T (hooks st) = Some h -> cur st <> Some T -> env T = None ->
  lower_expr st a = Some a' -> eval hookfn env a' = Done x -> hookfn T h x = VErr e ->
  lower_expr st (site T a) = Some i ->
  eval hookfn env i = Raise (checked_msg T h) e.
Proof. exact invalid_rejected. Qed.
Print Assumptions C17_invalid_rejected.

(* V2  conversely every value a rewritten site produces is one the hook returned in Ok. *)
Theorem C17_only_validated_values : forall hookfn env st T a h i v,
  ctor_detected st T = true -> lookup T (hooks st) = Some h -> cur st <> Some T -> env T = None ->
  lower_expr st (site T a) = Some i -> eval hookfn env i = Done v ->
  exists a' x, lower_expr st a = Some a' /\ eval hookfn env a' = Done x /\ hookfn T h x = VOk v.
Proof. exact only_validated_values. Qed.
Print Assumptions C17_only_validated_values.

(* ---------------------------------------------------------------- nominal typing *)

(* N1  distinct newtypes are not compatible, in either direction, also under a generic. *)
Theorem C17_nominal : forall T1 T2, T1 <> T2 ->
  compatible (RNamed T1) (RNamed T2) = false /\ compatible (RNamed T2) (RNamed T1) = false /\
  forall n, compatible (RGeneric n [RNamed T1]) (RGeneric n [RNamed T2]) = false.
Proof.
  intros T1 T2 H. destruct (nominal_sym T1 T2 H) as [A B]. split; [exact A|]. split; [exact B|].
  intros n. exact (nominal_lifted n T1 T2 H).
Qed.
Print Assumptions C17_nominal.

(* N2  complete characterisation: a user newtype T is accepted only where T itself, an unknown
       (error recovery) or a type variable is expected, and only those are accepted where T is
       expected; in particular never its underlying primitive type, in either direction. *)
Theorem C17_nominal_characterised : forall T, user_type_name T = true ->
  (forall e, compatible (RNamed T) e = true -> e = RNamed T \/ e = RUnknown \/ exists v, e = RTypeVar v) /\
  (forall a, compatible a (RNamed T) = true -> a = RNamed T \/ a = RUnknown \/ exists v, a = RTypeVar v) /\
  (forall u, is_primitive u = true -> compatible (RNamed T) u = false /\ compatible u (RNamed T) = false).
Proof.
  intros T Hu. split; [exact (fun e => named_actual_inv T e Hu)|].
  split; [exact (fun a => named_expected_inv T a Hu) | exact (fun u => nominal_underlying T u Hu)].
Qed.
Print Assumptions C17_nominal_characterised.

(* N3  the checker's verdict when two newtypes meet: rejected at every site kind where the rule is
       applied (return, typed binding, re-assignment, field, comparison, collection element, method
       argument) ... *)
Theorem C17_mix_rejected : forall s T1 T2, ~ Known_C17_call_arg_unchecked s -> T1 <> T2 ->
  check_mix s (RNamed T1) (RNamed T2) = false.
Proof. exact mix_rejected. Qed.
Print Assumptions C17_mix_rejected.

(* N4  ... refuted for arguments of user function calls: check_call never compares argument
       types with parameter types (method-call arguments are compared). *)
Theorem C17_mix_call_arg_refuted : exists s T1 T2, Known_C17_call_arg_unchecked s /\ T1 <> T2 /\
  check_mix s (RNamed T1) (RNamed T2) = true.
Proof. exact mix_refuted. Qed.
Print Assumptions C17_mix_call_arg_refuted.
