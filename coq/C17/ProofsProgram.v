(* C17/ProofsProgram.v — the three passes of lower_program: state invariants (hook table fixed,
   current_impl_type = None at every declaration, struct_names monotone) and the program-level
   site theorem. *)
From Coq Require Import ZArith List Bool String Ascii Lia.
From Verif Require Import Base.I64 C17.Model C17.Proofs.
Import ListNotations.
Open Scope string_scope.
Open Scope list_scope.

Definition of_body (b : list irs) : list ir :=
  flat_map (fun s => match s with ISNode _ subs => subs end) b.

Lemma stmts_top : forall st body b k subs a,
  lower_stmts st body = Some b -> In (SNode k subs) body -> In a subs ->
  exists a', lower_expr st a = Some a' /\ In a' (of_body b).
Proof.
  intros st body b k subs a Hb Hs Ha.
  destruct (lower_stmts_in st body b Hb _ Hs) as (s' & H1 & H2).
  rewrite lower_snode in H1. destruct (lower_list st subs) as [l'|] eqn:El; [|discriminate].
  inversion H1; subst s'. destruct (lower_list_in st subs l' El a Ha) as (a' & H3 & H4).
  exists a'. split; [assumption|]. unfold of_body. apply in_flat_map. exists (ISNode k l'). auto.
Qed.

Lemma methods_top : forall st ms l m k subs a,
  lower_methods st ms = Some l -> In m ms -> In (SNode k subs) (m_body m) -> In a subs ->
  exists a', lower_expr st a = Some a' /\ In a' (flat_map (fun m => of_body (snd m)) l).
Proof.
  induction ms as [|m0 r IH]; intros l m k subs a Hl Hm Hs Ha; [destruct Hm|].
  cbn [lower_methods] in Hl. unfold lower_method in Hl.
  destruct (lower_stmts st (m_body m0)) as [b|] eqn:Eb; [|discriminate]. cbn [option_map] in Hl.
  destruct (lower_methods st r) as [r'|] eqn:Er; [|discriminate]. inversion Hl; subst l.
  cbn [flat_map snd]. destruct Hm as [->|Hm].
  - destruct (stmts_top st _ b k subs a Eb Hs Ha) as (a' & H1 & H2).
    exists a'. split; [assumption|]. apply in_or_app. left. exact H2.
  - destruct (IH r' m k subs a eq_refl Hm Hs Ha) as (a' & H1 & H2).
    exists a'. split; [assumption|]. apply in_or_app. right. exact H2.
Qed.

Lemma plus_zero : forall a b : nat, (a + b = 0)%nat -> a = 0%nat /\ b = 0%nat.
Proof. intros; lia. Qed.

(* ------------------------------------------------------------------ one declaration *)

Lemma lower_decl_inv : forall st d st' out n, cur st = None -> lower_decl st d = (st', out, n) ->
  cur st' = None /\ hooks st' = hooks st /\ incl (structs st) (structs st') /\
  (forall nt, d = DNewtype nt -> In (nt_name nt) (structs st')).
Proof.
  intros st d st' out n Hc H. destruct d as [nt|name ds ms tms|name body|name v|]; cbn [lower_decl] in H.
  - destruct (nt_methods nt) as [|m r]; cbn in H; inversion H; subst; cbn;
      (repeat split; [assumption | apply incl_tl, incl_refl | intros nt' E; inversion E; subst; left; reflexivity]).
  - destruct (lower_list st ds) as [ds'|].
    + cbn in H. inversion H; subst; cbn. repeat split; [assumption | apply incl_tl, incl_refl | intros; discriminate].
    + inversion H; subst. repeat split; [assumption | apply incl_refl | intros; discriminate].
  - destruct (lower_stmts st body); inversion H; subst; (repeat split; [assumption | apply incl_refl | intros; discriminate]).
  - destruct (lower_expr st v); inversion H; subst; (repeat split; [assumption | apply incl_refl | intros; discriminate]).
  - inversion H; subst; (repeat split; [assumption | apply incl_refl | intros; discriminate]).
Qed.

Lemma decl_top : forall st d st' out top ctx, cur st = None -> lower_decl st d = (st', out, 0%nat) ->
  top_of d ctx top ->
  exists st_u top', hooks st_u = hooks st /\ cur st_u = ctx /\ incl (structs st) (structs st_u) /\
                    lower_expr st_u top = Some top' /\ In top' (flat_map irdecl_exprs out).
Proof.
  intros st d st' out top ctx Hc H Ht.
  destruct Ht as [name body k subs a Hs Ha | name v | name ds ms tms a Ha
                 | name ds ms tms m k subs a Hm Hs Ha | name ds ms tms m k subs a Hm Hs Ha
                 | nt m k subs a Hm Hs Ha]; cbn [lower_decl] in H.
  - destruct (lower_stmts st body) as [b|] eqn:Eb; [|discriminate]. pose proof (f_equal (fun p => snd (fst p)) H) as Eo; cbn [fst snd] in Eo; subst out.
    destruct (stmts_top st body b k subs a Eb Hs Ha) as (a' & H1 & H2).
    exists st, a'. repeat split; try assumption; [apply incl_refl|].
    cbn [flat_map irdecl_exprs]. rewrite app_nil_r. exact H2.
  - destruct (lower_expr st v) as [v'|] eqn:Ev; [|discriminate]. pose proof (f_equal (fun p => snd (fst p)) H) as Eo; cbn [fst snd] in Eo; subst out.
    exists st, v'. repeat split; try assumption; [apply incl_refl|]. left; reflexivity.
  - destruct (lower_list st ds) as [ds'|] eqn:Ed; [|discriminate].
    destruct (lower_list_in st ds ds' Ed a Ha) as (a' & H1 & H2).
    cbn in H. pose proof (f_equal (fun p => snd (fst p)) H) as Eo; cbn [fst snd] in Eo; subst out.
    exists st, a'. repeat split; try assumption; [apply incl_refl|].
    cbn [flat_map irdecl_exprs]. apply in_or_app. left. exact H2.
  - destruct (lower_list st ds) as [ds'|] eqn:Ed; [|discriminate].
    cbn in H.
    set (st_u := set_cur (add_struct st name) (Some name)) in *.
    destruct (lower_methods st_u ms) as [ms'|] eqn:Em.
    2:{ exfalso. apply (f_equal snd) in H. cbn in H. discriminate H. }
    destruct (methods_top st_u ms ms' m k subs a Em Hm Hs Ha) as (a' & H1 & H2).
    pose proof (f_equal (fun p => snd (fst p)) H) as Eo; cbn [fst snd] in Eo; subst out.
    exists st_u, a'. repeat split; try assumption; [apply incl_tl, incl_refl|].
    cbn [flat_map irdecl_exprs app]. apply in_or_app. right. apply in_or_app. left. exact H2.
  - destruct (lower_list st ds) as [ds'|] eqn:Ed; [|discriminate].
    cbn in H.
    set (st_m := set_cur (add_struct st name) (Some name)) in *.
    set (st_u := set_cur st_m (cur st)) in *.
    destruct tms as [|t0 tr]; [destruct Hm|].
    destruct (lower_methods st_u (t0 :: tr)) as [tms'|] eqn:Et.
    2:{ exfalso. apply (f_equal snd) in H. cbn [snd] in H. destruct (lower_methods st_m ms); cbn in H; discriminate H. }
    destruct (methods_top st_u (t0 :: tr) tms' m k subs a Et Hm Hs Ha) as (a' & H1 & H2).
    pose proof (f_equal (fun p => snd (fst p)) H) as Eo; cbn [fst snd] in Eo; subst out.
    exists st_u, a'. repeat split; try assumption; [apply incl_tl, incl_refl|].
    cbn [flat_map irdecl_exprs app]. apply in_or_app. right.
    destruct (lower_methods st_m ms); cbn [app flat_map irdecl_exprs]; rewrite ?app_nil_r;
      [apply in_or_app; right; exact H2 | exact H2].
  - destruct (nt_methods nt) as [|m0 r] eqn:En; [destruct Hm|].
    cbv beta iota zeta delta [lower_model_methods] in H.
    set (st_u := set_cur (add_struct st (nt_name nt)) (Some (nt_name nt))) in *.
    destruct (lower_methods st_u (m0 :: r)) as [ms'|] eqn:Em.
    2:{ exfalso. apply (f_equal snd) in H. cbn in H. discriminate H. }
    destruct (methods_top st_u (m0 :: r) ms' m k subs a Em Hm Hs Ha) as (a' & H1 & H2).
    pose proof (f_equal (fun p => snd (fst p)) H) as Eo; cbn [fst snd] in Eo; subst out.
    exists st_u, a'. repeat split; try assumption; [apply incl_tl, incl_refl|].
    cbn [flat_map irdecl_exprs app]. rewrite app_nil_r. exact H2.
Qed.

(* ------------------------------------------------------------------ the declaration list *)

Lemma decls_flag : forall ds st, cur st = None -> cur (fst (fst (lower_decls st ds))) = None.
Proof.
  induction ds as [|d r IH]; intros st Hc; [exact Hc|].
  cbn [lower_decls]. destruct (lower_decl st d) as [[st1 out1] e1] eqn:E1.
  destruct (lower_decl_inv st d st1 out1 e1 Hc E1) as (Hc1 & _).
  specialize (IH st1 Hc1). destruct (lower_decls st1 r) as [[st2 out2] e2]. exact IH.
Qed.

Lemma decls_split : forall pre st d post st' out n, cur st = None ->
  lower_decls st (pre ++ d :: post) = (st', out, n) ->
  exists st_d st_d' outd nd,
    cur st_d = None /\ hooks st_d = hooks st /\ incl (structs st) (structs st_d) /\
    (forall nt, In (DNewtype nt) pre -> In (nt_name nt) (structs st_d)) /\
    lower_decl st_d d = (st_d', outd, nd) /\ incl outd out /\ (n = 0%nat -> nd = 0%nat).
Proof.
  induction pre as [|p r IH]; intros st d post st' out n Hc H.
  - cbn [app lower_decls] in H. destruct (lower_decl st d) as [[st1 out1] e1] eqn:E1.
    destruct (lower_decls st1 post) as [[st2 out2] e2]. inversion H; subst.
    exists st, st1, out1, e1. repeat split; try assumption; try reflexivity.
    + apply incl_refl.
    + intros nt [].
    + apply incl_appl, incl_refl.
    + intros Hz. lia.
  - cbn [app lower_decls] in H. destruct (lower_decl st p) as [[st1 out1] e1] eqn:E1.
    destruct (lower_decl_inv st p st1 out1 e1 Hc E1) as (Hc1 & Hh1 & Hi1 & Hn1).
    destruct (lower_decls st1 (r ++ d :: post)) as [[st2 out2] e2] eqn:E2. inversion H; subst.
    destruct (IH st1 d post st' out2 e2 Hc1 E2) as (st_d & st_d' & outd & nd & A & B & C & D & E & F & G).
    exists st_d, st_d', outd, nd. repeat split; try assumption.
    + congruence.
    + eapply incl_tran; eassumption.
    + intros nt [Hp|Hr]; [|apply D; exact Hr]. apply C. apply (Hn1 nt). exact Hp.
    + apply incl_appr. exact F.
    + intros Hz. apply G. lia.
Qed.

Lemma mem_in : forall k l, In k l -> mem k l = true.
Proof.
  intros k l H. unfold mem. apply existsb_exists. exists k. split; [exact H | apply String.eqb_refl].
Qed.

Lemma declared_before_in : forall T pre, declared_before T pre = true ->
  exists nt, In (DNewtype nt) pre /\ nt_name nt = T.
Proof.
  intros T pre H. unfold declared_before in H. apply existsb_exists in H. destruct H as (d & Hin & Hd).
  destruct d as [nt| | | |]; try discriminate. apply String.eqb_eq in Hd. exists nt. auto.
Qed.

Lemma not_lowercase_early : forall T pre, ~ Known_C17_lowercase_early T pre ->
  is_uppercase T = true \/ declared_before T pre = true.
Proof.
  intros T pre H. unfold Known_C17_lowercase_early in H.
  destruct (is_uppercase T); [left; reflexivity|]. destruct (declared_before T pre); [right; reflexivity|].
  exfalso. apply H. split; reflexivity.
Qed.

Lemma site_rewritten_program : forall pre d post out T h ctx top a,
  lower_program (pre ++ d :: post) = Some out ->
  lookup T (collect_hooks (pre ++ d :: post) []) = Some h ->
  top_of d ctx top -> ctx <> Some T -> within (site T a) top ->
  ~ Known_C17_lowercase_early T pre ->
  exists top' a', In top' (flat_map irdecl_exprs out) /\ iwithin (checked_ctor T h a') top'.
Proof.
  intros pre d post out T h ctx top a Hp Hl Ht Hctx Hw Hk.
  unfold lower_program in Hp.
  set (st0 := {| hooks := collect_hooks (pre ++ d :: post) []; structs := []; cur := None |}) in *.
  destruct (lower_decls st0 (pre ++ d :: post)) as [[st' out'] n] eqn:E.
  destruct n; [|discriminate]. inversion Hp; subst out'.
  destruct (decls_split pre st0 d post st' out 0%nat eq_refl E)
    as (st_d & st_d' & outd & nd & A & B & C & D & E1 & F & G).
  rewrite (G eq_refl) in E1.
  destruct (decl_top st_d d st_d' outd top ctx A E1 Ht) as (st_u & top' & U1 & U2 & U3 & U4 & U5).
  assert (Hdet : ctor_detected st_u T = true).
  { unfold ctor_detected. destruct (not_lowercase_early T pre Hk) as [Hu|Hb].
    - rewrite Hu. apply orb_true_r.
    - destruct (declared_before_in T pre Hb) as (nt & Hin & <-).
      rewrite (mem_in (nt_name nt) (structs st_u)); [reflexivity|]. apply U3. apply D. exact Hin. }
  assert (Hh : lookup T (hooks st_u) = Some h) by (rewrite U1, B; exact Hl).
  assert (Hcu : cur st_u <> Some T) by (rewrite U2; exact Hctx).
  destruct (site_rewritten_expr st_u top top' T a h U4 Hw Hdet Hh Hcu) as (a' & _ & W).
  exists top', a'. split; [|exact W].
  apply in_flat_map in U5. destruct U5 as (x & Hx1 & Hx2). apply in_flat_map. exists x. split; [apply F; exact Hx1 | exact Hx2].
Qed.

(* the fact the site theorem rests on: in lower_program every declaration — wherever it stands —
   is lowered in a state whose hook table is the table of the WHOLE module *)
Lemma hook_table_complete : forall pre d post st' out n,
  lower_decls {| hooks := collect_hooks (pre ++ d :: post) []; structs := []; cur := None |} (pre ++ d :: post)
    = (st', out, n) ->
  exists st_d st_d' outd nd,
    hooks st_d = collect_hooks (pre ++ d :: post) [] /\ cur st_d = None /\
    lower_decl st_d d = (st_d', outd, nd) /\ incl outd out.
Proof.
  intros pre d post st' out n H.
  set (st0 := {| hooks := collect_hooks (pre ++ d :: post) []; structs := []; cur := None |}) in *.
  destruct (decls_split pre st0 d post st' out n eq_refl H) as (st_d & st_d' & outd & nd & A & B & _ & _ & E & F & _).
  exists st_d, st_d', outd, nd. repeat split; assumption.
Qed.

Lemma collect_hooks_acc : forall ds acc T h, lookup T acc = Some h ->
  (forall nt, In (DNewtype nt) ds -> nt_name nt <> T) -> lookup T (collect_hooks ds acc) = Some h.
Proof.
  induction ds as [|d r IH]; intros acc T h Hl Hn; [exact Hl|].
  destruct d as [nt| | | |]; cbn [collect_hooks]; try (apply IH; [exact Hl | intros; apply Hn; right; assumption]).
  destruct (select_newtype_checked_ctor nt) as [h'|]; apply IH; try (intros; apply Hn; right; assumption); try exact Hl.
  cbn [lookup]. assert (Hne : nt_name nt <> T) by (apply Hn; left; reflexivity).
  destruct (String.eqb T (nt_name nt)) eqn:E; [apply String.eqb_eq in E; congruence | exact Hl].
Qed.

(* a hooked newtype that is declared once is in the table, wherever its declaration stands *)
Lemma declared_hook_in_table : forall pre nt post h,
  select_newtype_checked_ctor nt = Some h ->
  (forall nt', In (DNewtype nt') post -> nt_name nt' <> nt_name nt) ->
  forall acc, lookup (nt_name nt) (collect_hooks (pre ++ DNewtype nt :: post) acc) = Some h.
Proof.
  induction pre as [|d r IH]; intros nt post h Hs Hu acc.
  - cbn [app collect_hooks]. rewrite Hs. apply collect_hooks_acc; [|exact Hu].
    cbn [lookup]. rewrite String.eqb_refl. reflexivity.
  - cbn [app collect_hooks]. destruct d as [nt0| | | |]; try apply IH; try assumption.
    destruct (select_newtype_checked_ctor nt0); apply IH; assumption.
Qed.

(* use before declaration: the site's declaration d stands ABOVE `type T = newtype ...` *)
Lemma forward_reference_rewritten : forall pre d mid nt post out h ctx top a,
  lower_program (pre ++ d :: mid ++ DNewtype nt :: post) = Some out ->
  select_newtype_checked_ctor nt = Some h ->
  (forall nt', In (DNewtype nt') post -> nt_name nt' <> nt_name nt) ->
  is_uppercase (nt_name nt) = true ->
  top_of d ctx top -> ctx <> Some (nt_name nt) -> within (site (nt_name nt) a) top ->
  exists top' a', In top' (flat_map irdecl_exprs out) /\ iwithin (checked_ctor (nt_name nt) h a') top'.
Proof.
  intros pre d mid nt post out h ctx top a Hp Hs Hu Hup Ht Hc Hw.
  eapply site_rewritten_program; try eassumption.
  - replace (pre ++ d :: mid ++ DNewtype nt :: post) with ((pre ++ d :: mid) ++ DNewtype nt :: post)
      by (rewrite <- app_assoc; reflexivity).
    apply declared_hook_in_table; assumption.
  - intros [Hlow _]. rewrite Hup in Hlow. discriminate.
Qed.

(* ------------------------------------------------------------------ refutations at program level *)

(* ids.incn:  type UserId = newtype int: def from_underlying(n: int) -> Result[UserId, str]
   main.incn: def main(): u = UserId(7)        — UserId is declared in the OTHER module *)
Definition w_ids : list decl :=
  [DNewtype {| nt_name := "UserId"; nt_under := TSimple "int";
               nt_methods := [ {| m_name := "from_underlying"; m_recv := false; m_params := [TSimple "int"];
                                  m_ret := TNode KGeneric "Result" [(TSimple "UserId", 1); (TSimple "str", 2)];
                                  m_body := [] |} ] |}].
Definition w_main : list decl :=
  [DFunction "main" [SNode SKAssign [site "UserId" (ELit 7)]]].

Lemma cross_module_refuted :
  lookup "UserId" (project_hooks [w_ids; w_main]) = Some "from_underlying" /\
  lower_project [w_ids; w_main] =
    Some [ [IDStruct "UserId" []; IDImpl "UserId" [("from_underlying", [])]];
           [IDFunction "main" [ISNode SKAssign [IStruct "UserId" [""] [ILit 7]]]] ].
Proof. split; vm_compute; reflexivity. Qed.

(* the same two declarations in ONE module are rewritten *)
Lemma same_module_rewritten :
  lower_program (w_ids ++ w_main) =
    Some [IDStruct "UserId" []; IDImpl "UserId" [("from_underlying", [])];
          IDFunction "main" [ISNode SKAssign [checked_ctor "UserId" "from_underlying" (ILit 7)]]].
Proof. vm_compute; reflexivity. Qed.

(* def early(): a = attempts(7)   declared BEFORE   type attempts = newtype int: from_underlying *)
Definition w_lower_nt : decl :=
  DNewtype {| nt_name := "attempts"; nt_under := TSimple "int";
              nt_methods := [ {| m_name := "from_underlying"; m_recv := false; m_params := [TSimple "int"];
                                 m_ret := TNode KGeneric "Result" [(TSimple "attempts", 1); (TSimple "str", 2)];
                                 m_body := [] |} ] |}.
Definition w_early : decl := DFunction "early" [SNode SKAssign [site "attempts" (ELit 7)]].

Lemma lowercase_early_refuted :
  Known_C17_lowercase_early "attempts" [] /\
  lower_program [w_early; w_lower_nt] =
    Some [IDFunction "early" [ISNode SKAssign [ICall (IVar "attempts") [None] [ILit 7]]];
          IDStruct "attempts" []; IDImpl "attempts" [("from_underlying", [])]] /\
  lower_program [w_lower_nt; w_early] =
    Some [IDStruct "attempts" []; IDImpl "attempts" [("from_underlying", [])];
          IDFunction "early" [ISNode SKAssign [checked_ctor "attempts" "from_underlying" (ILit 7)]]].
Proof. repeat split; vm_compute; reflexivity. Qed.

(* `(T)(x)` and `mk = T; mk(x)`: the type name used as a value *)
Definition w_st : lstate := {| hooks := [("T", "from_underlying")]; structs := ["T"]; cur := None |}.
Definition w_paren : expr := ECall (EParen (EIdent "T")) [None] [ELit 7].
Definition w_alias_value : expr :=
  EBlock [SNode SKAssign [EIdent "T"]; SNode SKExpr [ECall (EIdent "mk") [None] [ELit 7]]].

Lemma indirect_callee_refuted :
  Known_C17_indirect_callee "T" w_paren /\
  lower_expr w_st w_paren = Some (ICall (IVar "T") [None] [ILit 7]) /\
  Known_C17_indirect_callee "T" w_alias_value /\
  lower_expr w_st w_alias_value =
    Some (IBlock [ISNode SKAssign [IVar "T"]; ISNode SKExpr [ICall (IVar "mk") [None] [ILit 7]]]) /\
  lower_expr w_st (site "T" (ELit 7)) = Some (checked_ctor "T" "from_underlying" (ILit 7)).
Proof. repeat split; vm_compute; reflexivity. Qed.

(* what the theorem depends on, made visible: with the hook registered only when the third pass
   reaches the declaration (lower_program_late — NOT the real code), the forward reference is
   emitted raw, the backward reference is still rewritten *)
Definition w_attempts : decl :=
  DNewtype {| nt_name := "Attempts"; nt_under := TSimple "int";
              nt_methods := [ {| m_name := "from_underlying"; m_recv := false; m_params := [TSimple "int"];
                                 m_ret := TNode KGeneric "Result" [(TSimple "Attempts", 1); (TSimple "str", 2)];
                                 m_body := [] |} ] |}.
Definition w_sched : decl := DFunction "schedule_retries" [SNode SKAssign [site "Attempts" (EIdent "n")]].

Lemma late_registration_refuted :
  lower_program [w_sched; w_attempts] =
    Some [IDFunction "schedule_retries" [ISNode SKAssign [checked_ctor "Attempts" "from_underlying" (IVar "n")]];
          IDStruct "Attempts" []; IDImpl "Attempts" [("from_underlying", [])]] /\
  lower_program_late [w_sched; w_attempts] =
    Some [IDFunction "schedule_retries" [ISNode SKAssign [IStruct "Attempts" [""] [IVar "n"]]];
          IDStruct "Attempts" []; IDImpl "Attempts" [("from_underlying", [])]] /\
  lower_program_late [w_attempts; w_sched] = lower_program [w_attempts; w_sched] /\
  lower_program [w_attempts; w_sched] =
    Some [IDStruct "Attempts" []; IDImpl "Attempts" [("from_underlying", [])];
          IDFunction "schedule_retries" [ISNode SKAssign [checked_ctor "Attempts" "from_underlying" (IVar "n")]]].
Proof. repeat split; vm_compute; reflexivity. Qed.
