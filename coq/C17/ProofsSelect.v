(* C17/ProofsSelect.v — hook selection against its specification, the value-level statements,
   and the nominal-typing facts about types_compatible. *)
From Coq Require Import ZArith List Bool String Ascii Lia.
From Verif Require Import Base.I64 C17.Model C17.Proofs.
Import ListNotations.
Open Scope string_scope.
Open Scope list_scope.

(* ------------------------------------------------------------------ plain annotations *)

Lemma plain_eqb_same : forall p u, plain_ty p = true -> plain_ty u = true -> ty_eqb p u = ty_same p u.
Proof.
  intros p u Hp Hu. destruct p as [x| | |k x xs], u as [y| | |k' y ys]; try reflexivity; try discriminate.
  cbn [plain_ty] in Hp, Hu. apply String.eqb_eq in Hp, Hu. cbn [ty_eqb ty_same]. rewrite Hp, Hu. reflexivity.
Qed.

Lemma plain_newtype_spec : forall nt, plain_newtype nt = true ->
  plain_ty (nt_under nt) = true /\
  forall m, In m (nt_methods nt) -> forall p, In p (m_params m) -> plain_ty p = true.
Proof.
  intros nt H. unfold plain_newtype in H. apply andb_true_iff in H. destruct H as [Hu Hm].
  split; [exact Hu|]. intros m Hin p Hp. rewrite forallb_forall in Hm. specialize (Hm m Hin).
  rewrite forallb_forall in Hm. apply Hm. exact Hp.
Qed.

Lemma candidate_is_well_shaped : forall nt, plain_newtype nt = true ->
  forall m, In m (nt_methods nt) -> is_candidate nt m = well_shaped nt m.
Proof.
  intros nt H m Hin. destruct (plain_newtype_spec nt H) as [Hu Hm].
  unfold is_candidate, well_shaped, matches_underlying_param.
  destruct (m_params m) as [|p [|q r]] eqn:Ep; try reflexivity.
  rewrite (plain_eqb_same p (nt_under nt)); [reflexivity| |exact Hu].
  apply (Hm m Hin). rewrite Ep. left; reflexivity.
Qed.

Lemma candidates_eq : forall nt, plain_newtype nt = true ->
  filter (is_candidate nt) (nt_methods nt) = filter (well_shaped nt) (nt_methods nt).
Proof. intros nt H. apply filter_ext_in. intros m Hin. apply candidate_is_well_shaped; assumption. Qed.

Lemma hook_selected_iff : forall nt, plain_newtype nt = true ->
  forall h, select_newtype_checked_ctor nt = Some h <-> Hook nt h.
Proof.
  intros nt Hp h. unfold select_newtype_checked_ctor. rewrite (candidates_eq nt Hp).
  assert (Hc : forall m, In m (filter (well_shaped nt) (nt_methods nt)) <->
                         In m (nt_methods nt) /\ well_shaped nt m = true) by (intros; apply filter_In).
  remember (filter (well_shaped nt) (nt_methods nt)) as c eqn:Ec.
  destruct (find (fun m => String.eqb (m_name m) from_underlying_name) c) as [m0|] eqn:Ef.
  - apply find_some in Ef. destruct Ef as [Hin Hn]. apply String.eqb_eq in Hn. apply Hc in Hin. destruct Hin as [Hin Hw].
    split.
    + intros E. inversion E; subst h. left. split; [exact Hn|]. exists m0. auto.
    + intros [[-> _] | [Hno _]].
      * rewrite Hn. reflexivity.
      * exfalso. exact (Hno m0 Hin Hw Hn).
  - pose proof (find_none _ _ Ef) as Hnone. split.
    + intros E. right. split.
      * intros m Hin Hw Hn. assert (Hmc : In m c) by (apply Hc; auto).
        specialize (Hnone m Hmc). cbn beta in Hnone. rewrite Hn, String.eqb_refl in Hnone. discriminate.
      * destruct c as [|m [|? ?]]; try discriminate. inversion E as [H0]. exists m. split; [symmetry; exact Ec | reflexivity].
    + intros [[-> (m & Hin & Hw & Hn)] | [_ (m & Hf & Hn)]].
      * exfalso. assert (Hmc : In m c) by (apply Hc; auto).
        specialize (Hnone m Hmc). cbn beta in Hnone. rewrite Hn, String.eqb_refl in Hnone. discriminate.
      * rewrite Ec, Hf. rewrite Hn. reflexivity.
Qed.

(* no hook in the SPEC's sense => none selected, for plain declarations *)
Lemma no_hook_none_selected : forall nt, plain_newtype nt = true ->
  (forall h, ~ Hook nt h) -> select_newtype_checked_ctor nt = None.
Proof.
  intros nt Hp Hno. destruct (select_newtype_checked_ctor nt) as [h|] eqn:E; [|reflexivity].
  exfalso. apply (Hno h). apply hook_selected_iff; assumption.
Qed.

(* the selected name always belongs to a static from_* method of the declaration (any declaration) *)
Lemma selected_is_method : forall nt h, select_newtype_checked_ctor nt = Some h ->
  exists m, In m (nt_methods nt) /\ m_name m = h /\ is_candidate nt m = true.
Proof.
  intros nt h. unfold select_newtype_checked_ctor.
  assert (Hc : forall m, In m (filter (is_candidate nt) (nt_methods nt)) ->
                         In m (nt_methods nt) /\ is_candidate nt m = true) by (intros m; apply filter_In).
  remember (filter (is_candidate nt) (nt_methods nt)) as c eqn:Ec0.
  destruct (find _ c) as [m0|] eqn:Ef.
  - intros E. inversion E. apply find_some in Ef. destruct Ef as [Hin _]. apply Hc in Hin. exists m0. tauto.
  - destruct c as [|m [|? ?]]; try discriminate. intros E. inversion E. exists m.
    destruct (Hc m (or_introl eq_refl)). auto.
Qed.

(* a candidate is well shaped in the SPEC's sense: the heuristic never selects a non-hook *)
Lemma ty_eqb_same : forall a b, ty_eqb a b = true -> ty_same a b = true.
Proof.
  fix IH 1. intros a b. destruct a as [x| | |k x xs], b as [y| | |k' y ys]; cbn [ty_eqb ty_same]; try discriminate; auto.
  - intros H. apply String.eqb_eq in H. subst. apply String.eqb_refl.
  - intros H. apply andb_true_iff in H. destruct H as [H1 H2]. rewrite H1. cbn [andb].
    revert ys H2. induction xs as [|[t1 s1] r1 IHr]; intros [|[t2 s2] r2] H2; try discriminate; [reflexivity|].
    apply andb_true_iff in H2. destruct H2 as [H2 H3]. apply andb_true_iff in H2. destruct H2 as [H2 _].
    rewrite (IH t1 t2 H2). cbn [andb]. apply IHr. exact H3.
Qed.

Lemma candidate_well_shaped : forall nt m, is_candidate nt m = true -> well_shaped nt m = true.
Proof.
  intros nt m H. unfold is_candidate in H. unfold well_shaped.
  apply andb_true_iff in H. destruct H as [H Hr].
  apply andb_true_iff in H. destruct H as [H Hm].
  rewrite H, Hr. cbn [andb]. rewrite andb_true_r.
  unfold matches_underlying_param in Hm. destruct (m_params m) as [|p [|? ?]]; try discriminate.
  apply ty_eqb_same. exact Hm.
Qed.

(* ------------------------------------------------------------------ refutations of the selection *)

(* type Ids = newtype List[int]:  def from_underlying(v: List[int]) -> Result[Ids, str]
   (the two `int` occurrences have different spans: 10 and 20) *)
Definition w_generic : newtype :=
  {| nt_name := "Ids";
     nt_under := TNode KGeneric "List" [(TSimple "int", 10)];
     nt_methods := [ {| m_name := "from_underlying"; m_recv := false;
                        m_params := [TNode KGeneric "List" [(TSimple "int", 20)]];
                        m_ret := TNode KGeneric "Result" [(TSimple "Ids", 30); (TSimple "str", 31)];
                        m_body := [] |} ] |}.

(* type Al = newtype int:  def from_underlying(n: i64) -> Result[Al, str] *)
Definition w_alias : newtype :=
  {| nt_name := "Al";
     nt_under := TSimple "int";
     nt_methods := [ {| m_name := "from_underlying"; m_recv := false;
                        m_params := [TSimple "i64"];
                        m_ret := TNode KGeneric "Result" [(TSimple "Al", 30); (TSimple "str", 31)];
                        m_body := [] |} ] |}.

Lemma hook_w : forall nt m, nt_methods nt = [m] -> well_shaped nt m = true -> m_name m = from_underlying_name ->
  Hook nt from_underlying_name.
Proof. intros nt m Hm Hw Hn. left. split; [reflexivity|]. exists m. rewrite Hm. split; [left; reflexivity | auto]. Qed.

Lemma selection_refuted_generic :
  Known_C17_generic_underlying w_generic /\ Hook w_generic "from_underlying" /\
  select_newtype_checked_ctor w_generic = None.
Proof.
  split; [exact I|]. split; [|vm_compute; reflexivity].
  eapply hook_w; [reflexivity | vm_compute; reflexivity | reflexivity].
Qed.

Lemma selection_refuted_alias :
  Known_C17_alias_spelling w_alias /\ Hook w_alias "from_underlying" /\
  select_newtype_checked_ctor w_alias = None.
Proof.
  split.
  - right. eexists. exists (TSimple "i64"). split; [left; reflexivity|]. split; [left; reflexivity | reflexivity].
  - split; [|vm_compute; reflexivity].
    eapply hook_w; [reflexivity | vm_compute; reflexivity | reflexivity].
Qed.

Lemma filter_none : forall (A : Type) (f : A -> bool) l, (forall x, In x l -> f x = false) -> filter f l = [].
Proof.
  induction l as [|x r IH]; intros H; [reflexivity|]. cbn [filter].
  rewrite (H x (or_introl eq_refl)). apply IH. intros y Hy. apply H. right; exact Hy.
Qed.

(* the generic class is exactly "never selected": the underlying annotation has a nested type whose
   span differs from the span of the nested type of every parameter annotation (always the case in a
   source file: they are different occurrences) *)
Lemma generic_underlying_never_selected : forall nt k n t s rest,
  nt_under nt = TNode k n ((t, s) :: rest) ->
  (forall m p k' n' t' s' rest', In m (nt_methods nt) -> In p (m_params m) ->
     p = TNode k' n' ((t', s') :: rest') -> s' <> s) ->
  select_newtype_checked_ctor nt = None.
Proof.
  intros nt k n t s rest Hu Hs.
  assert (Hnone : forall m, In m (nt_methods nt) -> is_candidate nt m = false).
  { intros m Hin.
    assert (Hm : matches_underlying_param m (nt_under nt) = false).
    { unfold matches_underlying_param. rewrite Hu.
      destruct (m_params m) as [|p [|? ?]] eqn:Ep; try reflexivity.
      destruct p as [x| | |k' n' [|[t' s'] rest']]; cbn [ty_eqb]; try reflexivity.
      - rewrite andb_false_r. reflexivity.
      - assert (Hne : s' <> s).
        { apply (Hs m (TNode k' n' ((t', s') :: rest')) k' n' t' s' rest' Hin); [rewrite Ep; left; reflexivity | reflexivity]. }
        apply Z.eqb_neq in Hne. rewrite Hne. rewrite andb_false_r. cbn [andb]. rewrite andb_false_r. reflexivity. }
    unfold is_candidate. rewrite Hm. rewrite andb_false_r. reflexivity. }
  unfold select_newtype_checked_ctor.
  assert (E : filter (is_candidate nt) (nt_methods nt) = []).
  { apply filter_none. exact Hnone. }
  rewrite E. reflexivity.
Qed.

(* ------------------------------------------------------------------ value level *)

Section Value.
  Variable hookfn : string -> string -> val -> val.
  Variable env : string -> option val.

  Lemma eval_checked : forall T h a,
    env T = None ->
    eval hookfn env (checked_ctor T h a) =
    match eval hookfn env a with
    | Done x => match hookfn T h x with
                | VOk v => Done v
                | VErr p => Raise (checked_msg T h) p
                | _ => Stuck
                end
    | o => o
    end.
  Proof.
    intros T h a HT. unfold checked_ctor. cbn [eval]. unfold expect_name. rewrite String.eqb_refl.
    rewrite HT. destruct (eval hookfn env a) as [x|m p|]; reflexivity.
  Qed.

  Lemma invalid_rejected : forall st T a h a' x e i,
    ctor_detected st T = true -> lookup T (hooks st) = Some h -> cur st <> Some T -> env T = None ->
    lower_expr st a = Some a' -> eval hookfn env a' = Done x -> hookfn T h x = VErr e ->
    lower_expr st (site T a) = Some i ->
    eval hookfn env i = Raise (checked_msg T h) e.
  Proof.
    intros st T a h a' x e i Hd Hl Hc HT Ha Hx He Hi.
    rewrite (lower_site st T a h Hd Hl Hc), Ha in Hi. inversion Hi; subst i.
    rewrite eval_checked by exact HT. rewrite Hx, He. reflexivity.
  Qed.

  (* every T produced by a rewritten site is one the hook returned *)
  Lemma only_validated_values : forall st T a h i v,
    ctor_detected st T = true -> lookup T (hooks st) = Some h -> cur st <> Some T -> env T = None ->
    lower_expr st (site T a) = Some i -> eval hookfn env i = Done v ->
    exists a' x, lower_expr st a = Some a' /\ eval hookfn env a' = Done x /\ hookfn T h x = VOk v.
  Proof.
    intros st T a h i v Hd Hl Hc HT Hi Hv.
    rewrite (lower_site st T a h Hd Hl Hc) in Hi. destruct (lower_expr st a) as [a'|]; [|discriminate].
    inversion Hi; subst i. rewrite eval_checked in Hv by exact HT.
    destruct (eval hookfn env a') as [x|m p|] eqn:Ex; try discriminate.
    destruct (hookfn T h x) eqn:Eh; try discriminate. inversion Hv; subst.
    exists a', x. auto.
  Qed.

  (* the unrewritten form wraps whatever it is given: this is what the Known classes emit *)
  Lemma raw_wraps_anything : forall T a x, eval hookfn env a = Done x ->
    eval hookfn env (IStruct T [""] [a]) = Done (VNew T x).
  Proof. intros T a x H. cbn [eval]. rewrite H. reflexivity. Qed.
End Value.

(* ------------------------------------------------------------------ nominal typing *)

Lemma rty_eqb_named : forall a b, rty_eqb (RNamed a) (RNamed b) = String.eqb a b.
Proof. reflexivity. Qed.

Lemma nominal : forall T1 T2, T1 <> T2 -> compatible (RNamed T1) (RNamed T2) = false.
Proof.
  intros T1 T2 H. apply String.eqb_neq in H. cbn [compatible]. rewrite rty_eqb_named, H. reflexivity.
Qed.

Lemma nominal_sym : forall T1 T2, T1 <> T2 ->
  compatible (RNamed T1) (RNamed T2) = false /\ compatible (RNamed T2) (RNamed T1) = false.
Proof. intros. split; apply nominal; congruence. Qed.

(* everything a value of a user newtype T is accepted for *)
Lemma named_actual_inv : forall T e, user_type_name T = true -> compatible (RNamed T) e = true ->
  e = RNamed T \/ e = RUnknown \/ exists v, e = RTypeVar v.
Proof.
  intros T e Hu H. unfold user_type_name in Hu. apply negb_true_iff in Hu.
  apply orb_false_iff in Hu. destruct Hu as [Hu Ht]. apply orb_false_iff in Hu. destruct Hu as [Hs Hb].
  destruct e; cbn [compatible rty_eqb] in H; try discriminate; auto.
  - rewrite Hs in H. discriminate.
  - rewrite Hb in H. discriminate.
  - destruct (String.eqb T n) eqn:E; [apply String.eqb_eq in E; subst; auto | discriminate].
  - right. right. eauto.
Qed.

(* everything accepted where a user newtype T is expected *)
Lemma named_expected_inv : forall T a, user_type_name T = true -> compatible a (RNamed T) = true ->
  a = RNamed T \/ a = RUnknown \/ exists v, a = RTypeVar v.
Proof.
  intros T a Hu H. unfold user_type_name in Hu. apply negb_true_iff in Hu.
  apply orb_false_iff in Hu. destruct Hu as [Hu Ht].
  destruct a; cbn [compatible rty_eqb] in H; try discriminate; auto.
  - destruct (String.eqb n T) eqn:E; [apply String.eqb_eq in E; subst; auto | discriminate].
  - right. right. eauto.
  - destruct args as [|? [|? ?]]; discriminate.
  - rewrite Ht in H. discriminate.
Qed.

Lemma nominal_underlying : forall T u, user_type_name T = true -> is_primitive u = true ->
  compatible (RNamed T) u = false /\ compatible u (RNamed T) = false.
Proof.
  intros T u Hu Hp. split.
  - destruct (compatible (RNamed T) u) eqn:E; [|reflexivity].
    destruct (named_actual_inv T u Hu E) as [->|[->|(v & ->)]]; discriminate.
  - destruct (compatible u (RNamed T)) eqn:E; [|reflexivity].
    destruct (named_expected_inv T u Hu E) as [->|[->|(v & ->)]]; discriminate.
Qed.

Lemma nominal_lifted : forall n T1 T2, T1 <> T2 ->
  compatible (RGeneric n [RNamed T1]) (RGeneric n [RNamed T2]) = false.
Proof.
  intros n T1 T2 H. apply String.eqb_neq in H.
  cbn [compatible rty_eqb]. rewrite H. cbn [andb]. rewrite !andb_false_r. reflexivity.
Qed.

Lemma mix_rejected : forall s T1 T2, ~ Known_C17_call_arg_unchecked s -> T1 <> T2 ->
  check_mix s (RNamed T1) (RNamed T2) = false.
Proof.
  intros s T1 T2 Hk H. unfold check_mix. unfold Known_C17_call_arg_unchecked in Hk.
  destruct (rule_applied s); [apply nominal; exact H | exfalso; apply Hk; reflexivity].
Qed.

Lemma mix_refuted : exists s T1 T2, Known_C17_call_arg_unchecked s /\ T1 <> T2 /\
  check_mix s (RNamed T1) (RNamed T2) = true.
Proof. exists MCallArg, "A", "B". repeat split. discriminate. Qed.
